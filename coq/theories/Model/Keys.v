(* C08 — executable model of the dotted-key machinery of pyxel (no proofs in this file).

   Mirrors, as coded:
     pyxel/pipelines/processor.py   _get_obj_att, Processor.has / get / set
     pyxel/pipelines/model_function.py  Arguments.__getattr__/__setattr__ (refuses unknown keys)
     pyxel/pipelines/model_group.py ModelGroup.__getattr__ (first model with that name, fallback only)
     pyxel/evaluator.py             eval_entry (literal subset)
     pyxel/observation/observation.py  Observation.validate_steps

   A key is the list of its dot-separated components (Python: key.split(".")). *)
From Coq Require Import ZArith List Bool String Ascii.
From Coq Require DecimalString DecimalZ Decimal.
Import ListNotations.
Open Scope string_scope.

(* ------------------------------------------------------------------------------------ values *)

Inductive pyval :=
| VNone
| VBool (b : bool)
| VInt (z : Z)
| VDec (m e : Z)            (* the float written m * 10^e; compared by denotation *)
| VStr (s : string)
| VList (l : list pyval)
| VTuple (l : list pyval)
| VArr (l : list pyval)     (* numpy array (flattened) *)
| VOpaque (s : string).     (* object / method / container: identity only *)

Definition dec_eqb (m1 e1 m2 e2 : Z) : bool :=
  let lo := Z.min e1 e2 in
  Z.eqb (m1 * 10 ^ (e1 - lo)) (m2 * 10 ^ (e2 - lo)).

Fixpoint pyval_eqb (a b : pyval) {struct a} : bool :=
  let leqb := fix leqb (x y : list pyval) {struct x} : bool :=
    match x, y with
    | [], [] => true
    | p :: x', q :: y' => pyval_eqb p q && leqb x' y'
    | _, _ => false
    end in
  match a, b with
  | VNone, VNone => true
  | VBool x, VBool y => Bool.eqb x y
  | VInt x, VInt y => Z.eqb x y
  | VDec m1 e1, VDec m2 e2 => dec_eqb m1 e1 m2 e2
  | VStr x, VStr y => String.eqb x y
  | VList x, VList y => leqb x y
  | VTuple x, VTuple y => leqb x y
  | VArr x, VArr y => leqb x y
  | VOpaque x, VOpaque y => String.eqb x y
  | _, _ => false
  end.

Inductive exn := KeyError | AttributeError | ValueError | TypeError | AssertionError | IndexError | SyntaxError | OtherError.

Definition exn_eqb (a b : exn) : bool :=
  match a, b with
  | KeyError, KeyError | AttributeError, AttributeError | ValueError, ValueError | TypeError, TypeError
  | AssertionError, AssertionError | IndexError, IndexError | SyntaxError, SyntaxError | OtherError, OtherError => true
  | _, _ => false
  end.

Inductive res (A : Type) := Ok (a : A) | Raise (e : exn).
Arguments Ok {A} a.
Arguments Raise {A} e.

Definition bind {A B} (r : res A) (f : A -> res B) : res B :=
  match r with Ok a => f a | Raise e => Raise e end.

(* ------------------------------------------------------------------------------------ settings tree *)

(* value guard of a property setter (pyxel's range checks; all bounds are integers) *)
Inductive guard :=
| GAny
| GRange (lo hi : Z) (lo_strict hi_strict : bool)   (* lo <(=) v <(=) hi, else ValueError *)
| GAbove (lo : Z) (strict : bool)                   (* lo <(=) v *)
| GLen (n : Z).                                     (* len(v) == n, else ValueError; no len() -> TypeError *)

Inductive mkind :=
| KProp (settable : bool) (g : guard)   (* class-level property (data descriptor) *)
| KInst                                 (* entry of the instance __dict__ *)
| KClass                                (* method / class constant (non-data class attribute) *)
| KItem.                                (* dict item / model argument / model of a group (by name) *)

Inductive nkind :=
| NObj (open : bool)   (* ordinary object; open = it has a __dict__ *)
| NDict                (* dict *)
| NArgs                (* pyxel Arguments: attribute access falls back to the argument map; refuses unknown keys *)
| NGroup.              (* ModelGroup: open object whose attribute access falls back to the model with that name *)

Inductive tree :=
| Leaf (v : pyval)
| Node (k : nkind) (ms : mlist)
with mlist :=
| MNil
| MCons (name : string) (mk : mkind) (t : tree) (rest : mlist).

Definition is_prop (m : mkind) := match m with KProp _ _ => true | _ => false end.
Definition is_inst (m : mkind) := match m with KInst => true | _ => false end.
Definition is_class (m : mkind) := match m with KClass => true | _ => false end.
Definition is_item (m : mkind) := match m with KItem => true | _ => false end.

(* first member called n whose kind is selected by s *)
Fixpoint find (s : mkind -> bool) (n : string) (ms : mlist) : option (mkind * tree) :=
  match ms with
  | MNil => None
  | MCons n' mk t r => if String.eqb n n' && s mk then Some (mk, t) else find s n r
  end.

(* apply f to the tree of that member *)
Fixpoint subst (s : mkind -> bool) (n : string) (f : tree -> tree) (ms : mlist) : mlist :=
  match ms with
  | MNil => MNil
  | MCons n' mk t r => if String.eqb n n' && s mk then MCons n' mk (f t) r else MCons n' mk t (subst s n f r)
  end.

Definition orelse {A} (a b : option A) : option A := match a with Some _ => a | None => b end.

(* Python attribute lookup: data descriptor, instance dict, class attribute, then __getattr__ fallback *)
Definition has_fallback (k : nkind) : bool := match k with NArgs | NGroup => true | _ => false end.

Definition getattr (k : nkind) (n : string) (ms : mlist) : option (mkind * tree) :=
  orelse (find is_prop n ms)
 (orelse (find is_inst n ms)
 (orelse (find is_class n ms)
         (if has_fallback k then find is_item n ms else None))).

(* which selector getattr used *)
Definition getattr_sel (k : nkind) (n : string) (ms : mlist) : mkind -> bool :=
  match find is_prop n ms with Some _ => is_prop | None =>
  match find is_inst n ms with Some _ => is_inst | None =>
  match find is_class n ms with Some _ => is_class | None => is_item end end end.

(* one body component of _get_obj_att: dict -> obj[part] (KeyError escapes); otherwise hasattr/getattr;
   a miss in a ModelGroup raises KeyError (escapes), any other miss is AttributeError -> obj = None, break *)
Inductive step_r := SFound (s : mkind -> bool) (t : tree) | SNone | SKeyError.

Definition step (t : tree) (p : string) : step_r :=
  match t with
  | Leaf _ => SNone
  | Node NDict ms => match find is_item p ms with Some (_, c) => SFound is_item c | None => SKeyError end
  | Node k ms => match getattr k p ms with
                 | Some (_, c) => SFound (getattr_sel k p ms) c
                 | None => match k with NGroup => SKeyError | _ => SNone end
                 end
  end.

(* hasattr(obj, att) / `att in obj` at the end of the walk *)
Definition has_tail (t : tree) (att : string) : bool :=
  match t with
  | Leaf _ => false
  | Node NDict ms => match find is_item att ms with Some _ => true | None =>
                     match getattr NDict att ms with Some _ => true | None => false end end
  | Node k ms => match getattr k att ms with Some _ => true | None => false end
  end.

Fixpoint has_at (t : tree) (body : list string) (att : string) : res bool :=
  match body with
  | [] => Ok (has_tail t att)
  | p :: body' => match step t p with
                  | SFound _ c => has_at c body' att
                  | SNone => Ok false           (* the walk ended on None: the path does not exist (repaired C08-has-none:
                                                   has() no longer asks hasattr(None, att), which is True for __class__ ...) *)
                  | SKeyError => Raise KeyError
                  end
  end.

Definition split_last (k : list string) : option (list string * string) :=
  match rev k with [] => None | a :: b => Some (rev b, a) end.

Definition has (t : tree) (k : list string) : res bool :=
  match split_last k with None => Ok false | Some (body, att) => has_at t body att end.

(* numeric comparison of a value with an integer bound *)
Definition num_of (v : pyval) : option (Z * Z) :=
  match v with VInt z => Some (z, 0%Z) | VDec m e => Some (m, e) | VBool b => Some ((if b then 1 else 0)%Z, 0%Z) | _ => None end.

Definition cmp_bound (m e : Z) (b : Z) : comparison :=   (* m*10^e ? b *)
  if (0 <=? e)%Z then Z.compare (m * 10 ^ e) b else Z.compare m (b * 10 ^ (- e)).

Definition lo_ok (m e lo : Z) (strict : bool) : bool :=
  match cmp_bound m e lo with Gt => true | Eq => negb strict | Lt => false end.
Definition hi_ok (m e hi : Z) (strict : bool) : bool :=
  match cmp_bound m e hi with Lt => true | Eq => negb strict | Gt => false end.

Definition guard_check (g : guard) (v : pyval) : option exn :=   (* None = accepted *)
  match g with
  | GAny => None
  | GRange lo hi ls hs =>
      match num_of v with
      | Some (m, e) => if lo_ok m e lo ls && hi_ok m e hi hs then None else Some ValueError
      | None => Some TypeError
      end
  | GAbove lo ls =>
      match num_of v with
      | Some (m, e) => if lo_ok m e lo ls then None else Some ValueError
      | None => Some TypeError
      end
  | GLen n =>
      match v with
      | VList l | VTuple l => if Z.eqb (Z.of_nat (List.length l)) n then None else Some ValueError
      | VStr s => if Z.eqb (Z.of_nat (String.length s)) n then None else Some ValueError
      | _ => Some TypeError
      end
  end.

(* the guard of a property setter, looked up in the table regenerated from the source (Gen_C08.src_setter_guards):
   class that defines the setter, property name; no row = no guard *)
Fixpoint guard_of (tbl : list (string * string * guard)) (cls fld : string) : guard :=
  match tbl with
  | [] => GAny
  | (c, f, g) :: r => if String.eqb c cls && String.eqb f fld then g else guard_of r cls fld
  end.

(* some value passes the guard *)
Definition guard_inhabited (g : guard) : bool :=
  match g with
  | GAny | GAbove _ _ => true
  | GLen n => (0 <=? n)%Z
  | GRange lo hi ls hs => if ls && hs then (lo <? hi)%Z else if ls || hs then (lo <? hi)%Z else (lo <=? hi)%Z
  end.

(* the final assignment of Processor.set:  obj[att] = v  if obj is a dict holding att; setattr(obj, att, v) if obj is a
   Mapping (Arguments refuses unknown names itself), if type(obj) has a property att (its setter decides) or if att is
   an entry of obj.__dict__ holding a plain value (None, str, number, array, list/tuple of those); else AttributeError *)
Definition assign (t : tree) (att : string) (v : pyval) : res tree :=
  match t with
  | Leaf _ => Raise AttributeError                      (* scalars / None have no settable attributes *)
  | Node NDict ms =>
      match find is_item att ms with
      | Some _ => Ok (Node NDict (subst is_item att (fun _ => Leaf v) ms))
      | None => Raise AttributeError                    (* setattr on a dict *)
      end
  | Node NArgs ms =>                                    (* Arguments.__setattr__ *)
      match find is_item att ms with
      | Some _ => Ok (Node NArgs (subst is_item att (fun _ => Leaf v) ms))
      | None => Raise AttributeError
      end
  | Node k ms =>                                        (* object.__setattr__ on NObj / NGroup *)
      match find is_prop att ms with
      | Some (KProp true g, _) =>
          match guard_check g v with
          | None => Ok (Node k (subst is_prop att (fun _ => Leaf v) ms))
          | Some e => Raise e
          end
      | Some _ => Raise AttributeError                  (* property without setter *)
      | None =>
          (* no property: only an existing entry of the instance __dict__ that holds a plain value is assigned;
             an unknown name, a method / class constant, an attribute holding an object -> AttributeError *)
          let open := match k with NObj o => o | _ => true end in
          if open then
            match find is_inst att ms with
            | Some (_, Leaf _) => Ok (Node k (subst is_inst att (fun _ => Leaf v) ms))
            | _ => Raise AttributeError
            end
          else Raise AttributeError
      end
  end.

Fixpoint set_at (t : tree) (body : list string) (att : string) (v : pyval) : res tree :=
  match body with
  | [] => assign t att v
  | p :: body' =>
      match step t p with
      | SFound s c =>
          match set_at c body' att v with
          | Ok c' => match t with
                     | Node k ms => Ok (Node k (subst s p (fun _ => c') ms))
                     | Leaf _ => Raise AttributeError
                     end
          | Raise e => Raise e
          end
      | SNone => Raise AttributeError                   (* setattr(None, att, v) *)
      | SKeyError => Raise KeyError
      end
  end.

(* Processor.set with convert_value=False (the value is already a Python object) *)
Definition set (t : tree) (k : list string) (v : pyval) : res tree :=
  match split_last k with None => Raise AttributeError | Some (body, att) => set_at t body att v end.

(* Processor.get: getattr at every component, except that an item of a dict is found first at every component and
   a declared argument of an Arguments object is found first at the LAST component (as has() and set() do) *)
Definition item_first (k : nkind) (last : bool) : bool :=
  match k with NDict => true | NArgs => last | _ => false end.

Definition lookup (first : bool) (k : nkind) (n : string) (ms : mlist) : option (mkind * tree) :=
  if first then orelse (find is_item n ms) (getattr k n ms) else getattr k n ms.

Definition is_nil {A} (l : list A) : bool := match l with [] => true | _ => false end.

Fixpoint get (t : tree) (k : list string) : res tree :=
  match k with
  | [] => Ok t
  | p :: k' =>
      match t with
      | Leaf _ => Raise AttributeError
      | Node nk ms => match lookup (item_first nk (is_nil k')) nk p ms with
                      | Some (_, c) => get c k'
                      | None => Raise AttributeError
                      end
      end
  end.

Definition nk_tag (k : nkind) : string :=
  match k with NObj true => "obj" | NObj false => "obj-closed" | NDict => "dict" | NArgs => "args" | NGroup => "group" end.

Definition obs_of (t : tree) : pyval := match t with Leaf v => v | Node k _ => VOpaque (nk_tag k) end.

(* what a caller sees: the value of a leaf, an opaque marker for an object *)
Definition getv (t : tree) (k : list string) : res pyval :=
  match k with [] => Raise AttributeError | _ => match get t k with Ok c => Ok (obs_of c) | Raise e => Raise e end end.

(* the shape of a tree: everything but the leaf values *)
Fixpoint shape (t : tree) : tree :=
  match t with
  | Leaf _ => Leaf VNone
  | Node k ms => Node k (shape_ms ms)
  end
with shape_ms (ms : mlist) : mlist :=
  match ms with
  | MNil => MNil
  | MCons n mk t r => MCons n mk (shape t) (shape_ms r)
  end.

(* -- predicates used by the _partial theorems (all executable) -- *)

(* the key ends on an existing SETTING: a leaf that the final assignment overwrites in place *)
Definition tail_is_setting (t : tree) (att : string) : bool :=
  match t with
  | Leaf _ => false
  | Node NDict ms | Node NArgs ms => match find is_item att ms with Some (_, Leaf _) => true | _ => false end
  | Node k ms =>
      match find is_prop att ms with
      | Some (KProp true _, Leaf _) => true
      | Some _ => false
      | None => match k with
                | NObj false => false
                | _ => match find is_inst att ms with Some (_, Leaf _) => true | _ => false end
                end
      end
  end.

(* the key ends on an existing setting that may be assigned: an item of a dict, a declared argument, a property
   with a setter, an instance attribute holding a value (not an object) *)
Definition tail_is_target (t : tree) (att : string) : bool :=
  match t with
  | Leaf _ => false
  | Node NDict ms | Node NArgs ms => match find is_item att ms with Some _ => true | None => false end
  | Node k ms =>
      match find is_prop att ms with
      | Some (KProp true _, _) => true
      | Some _ => false
      | None => match k with
                | NObj false => false
                | _ => match find is_inst att ms with Some (_, Leaf _) => true | _ => false end
                end
      end
  end.

Fixpoint targets_at (t : tree) (body : list string) (att : string) : bool :=
  match body with
  | [] => tail_is_target t att
  | p :: body' => match step t p with SFound _ c => targets_at c body' att | _ => false end
  end.

Definition targets (t : tree) (k : list string) : bool :=
  match split_last k with None => false | Some (b, a) => targets_at t b a end.

Fixpoint targets_setting_at (t : tree) (body : list string) (att : string) : bool :=
  match body with
  | [] => tail_is_setting t att
  | p :: body' => match step t p with SFound _ c => targets_setting_at c body' att | _ => false end
  end.

Definition targets_setting (t : tree) (k : list string) : bool :=
  match split_last k with None => false | Some (b, a) => targets_setting_at t b a end.

(* the walk of _get_obj_att and the walk of attrgetter agree on this key: no dict is crossed or addressed,
   and the final argument name is not hidden by an attribute of the Arguments class *)
Definition tail_attr_ok (t : tree) (att : string) : bool :=
  match t with
  | Leaf _ => true
  | Node NDict _ => false
  | Node NArgs ms => match find is_prop att ms, find is_inst att ms, find is_class att ms with
                     | None, None, None => true | _, _, _ => false end
  | Node _ _ => true
  end.

Fixpoint attr_path_at (t : tree) (body : list string) (att : string) : bool :=
  match body with
  | [] => tail_attr_ok t att
  | p :: body' =>
      match t with
      | Node NDict _ => false
      | _ => match step t p with SFound _ c => attr_path_at c body' att | _ => true end
      end
  end.

Definition attr_path (t : tree) (k : list string) : bool :=
  match split_last k with None => true | Some (b, a) => attr_path_at t b a end.

(* the walk ends on an object with an open __dict__ (ordinary object or ModelGroup) *)
Definition tail_open (t : tree) : bool :=
  match t with Node (NObj true) _ | Node NGroup _ => true | _ => false end.

Fixpoint lands_open_at (t : tree) (body : list string) : bool :=
  match body with
  | [] => tail_open t
  | p :: body' => match step t p with SFound _ c => lands_open_at c body' | _ => false end
  end.

Definition lands_open (t : tree) (k : list string) : bool :=
  match split_last k with None => false | Some (b, _) => lands_open_at t b end.

(* ------------------------------------------------------------------------------------ eval_entry *)

Definition lstr := list ascii.

Definition is_digit (c : ascii) : bool := let n := nat_of_ascii c in (48 <=? n)%nat && (n <=? 57)%nat.
Definition is_space (c : ascii) : bool := let n := nat_of_ascii c in (n =? 32)%nat || (n =? 9)%nat.
Definition ch (s : string) : ascii := match s with String c _ => c | EmptyString => zero end.
Definition aeq (a b : ascii) : bool := Ascii.eqb a b.

Fixpoint all_digits (s : lstr) : bool := match s with [] => true | c :: r => is_digit c && all_digits r end.

Fixpoint digits_val (acc : Z) (s : lstr) : Z :=
  match s with [] => acc | c :: r => digits_val (10 * acc + Z.of_nat (nat_of_ascii c - 48)) r end.

Fixpoint span_digits (s : lstr) : lstr * lstr :=
  match s with
  | c :: r => if is_digit c then let (a, b) := span_digits r in (c :: a, b) else ([], s)
  | [] => ([], [])
  end.

Fixpoint all_zero (s : lstr) : bool := match s with [] => true | c :: r => aeq c (ch "0") && all_zero r end.

(* Python decimal integer literal: no leading zeros unless the literal is all zeros *)
Definition int_digits_ok (d : lstr) : bool :=
  match d with
  | [] => false
  | c :: r => all_digits d && (negb (aeq c (ch "0")) || all_zero r)
  end.

Definition strip_sign (s : lstr) : bool * lstr :=    (* (negative?, rest); one optional sign, then optional blanks *)
  match s with
  | c :: r => if aeq c (ch "-") then (true, r) else if aeq c (ch "+") then (false, r) else (false, s)
  | [] => (false, [])
  end.

Fixpoint ltrim (s : lstr) : lstr := match s with c :: r => if is_space c then ltrim r else s | [] => [] end.
Definition rtrim (s : lstr) : lstr := rev (ltrim (rev s)).
Definition trim (s : lstr) : lstr := rtrim (ltrim s).

(* unsigned number:  digits | digits? . digits? (e[+-]?digits)? | digits e[+-]?digits *)
Definition parse_unsigned (s : lstr) : option pyval :=
  let (ip, r1) := span_digits s in
  match r1 with
  | [] => if int_digits_ok ip then Some (VInt (digits_val 0 ip)) else None
  | _ =>
    let '(fp, r2, has_dot) :=
      match r1 with
      | c :: r => if aeq c (ch ".") then let (f, r') := span_digits r in (f, r', true) else ([], r1, false)
      | [] => ([], [], false)
      end in
    match ip, fp with
    | [], [] => None
    | _, _ =>
      let mant := digits_val 0 (ip ++ fp)%list in
      let fl := Z.of_nat (List.length fp) in
      match r2 with
      | [] => if has_dot then Some (VDec mant (- fl)) else None
      | c :: r =>
          if aeq c (ch "e") || aeq c (ch "E") then
            let (neg, r') := strip_sign r in
            match r' with
            | [] => None
            | _ => if all_digits r' then
                     let ex := digits_val 0 r' in
                     Some (VDec mant ((if neg then - ex else ex) - fl))
                   else None
            end
          else None
      end
    end
  end.

Definition negate (v : pyval) : pyval :=
  match v with VInt z => VInt (- z) | VDec m e => VDec (- m) e | _ => v end.

Definition word_is (s : lstr) (w : string) : bool := String.eqb (string_of_list_ascii s) w.

Fixpoint no_char (c : ascii) (s : lstr) : bool := match s with [] => true | x :: r => negb (aeq x c) && no_char c r end.

(* 'text' or "text" without quote / backslash inside *)
Definition parse_quoted (s : lstr) : option pyval :=
  match s with
  | q :: r =>
      if aeq q (ch "'") || aeq q """"%char then
        match rev r with
        | q' :: body_rev =>
            let body := rev body_rev in
            if aeq q q' && no_char q body && no_char "\"%char body && no_char "010"%char body
            then Some (VStr (string_of_list_ascii body)) else None
        | [] => None
        end
      else None
  | [] => None
  end.

Definition parse_atom (s : lstr) : option pyval :=
  if word_is s "True" then Some (VBool true)
  else if word_is s "False" then Some (VBool false)
  else if word_is s "None" then Some VNone
  else match parse_quoted s with
       | Some v => Some v
       | None =>
           let (neg, r) := strip_sign s in
           let r := match s with c :: _ => if aeq c (ch "-") || aeq c (ch "+") then ltrim r else r | [] => r end in
           match parse_unsigned r with
           | Some v => Some (if neg then negate v else v)
           | None => None
           end
       end.

(* split at top-level commas (depth of [] and () tracked, quotes respected) *)
Fixpoint split_top (s : lstr) (depth : nat) (quote : option ascii) (cur : lstr) (acc : list lstr) : option (list lstr) :=
  match s with
  | [] => match quote, depth with None, O => Some (rev (rev cur :: acc)) | _, _ => None end
  | c :: r =>
      match quote with
      | Some q => split_top r depth (if aeq c q then None else quote) (c :: cur) acc
      | None =>
          if aeq c (ch "'") || aeq c """"%char then split_top r depth (Some c) (c :: cur) acc
          else if aeq c (ch "[") || aeq c (ch "(") then split_top r (S depth) None (c :: cur) acc
          else if aeq c (ch "]") || aeq c (ch ")") then
            match depth with O => None | S d => split_top r d None (c :: cur) acc end
          else if aeq c (ch ",") && Nat.eqb depth 0 then split_top r depth None [] (rev cur :: acc)
          else split_top r depth None (c :: cur) acc
      end
  end.

Fixpoint all_some {A} (l : list (option A)) : option (list A) :=
  match l with
  | [] => Some []
  | Some a :: r => match all_some r with Some r' => Some (a :: r') | None => None end
  | None :: _ => None
  end.

Definition is_blank (s : lstr) : bool := match ltrim s with [] => true | _ => false end.

(* ast.literal_eval on the literal subset (None = not a literal of the subset / SyntaxError / ValueError) *)
Fixpoint parse_lit (fuel : nat) (s0 : lstr) : option pyval :=
  match fuel with
  | O => None
  | S fuel' =>
    let s := trim s0 in
    match s with
    | [] => None
    | c :: r =>
        let close := if aeq c (ch "[") then Some (ch "]") else if aeq c (ch "(") then Some (ch ")") else None in
        match close with
        | None => parse_atom s
        | Some cl =>
            match rev r with
            | l :: inner_rev =>
                if aeq l cl then
                  let inner := rev inner_rev in
                  if is_blank inner then Some (if aeq c (ch "[") then VList [] else VTuple [])
                  else
                    match split_top inner 0 None [] [] with
                    | None => None
                    | Some parts =>
                        (* a trailing comma leaves one blank last part *)
                        let trailing := match rev parts with p :: _ => is_blank p | [] => false end in
                        let parts' := if trailing then removelast parts else parts in
                        match all_some (map (parse_lit fuel') parts') with
                        | None => None
                        | Some vs =>
                            if aeq c (ch "[") then Some (VList vs)
                            else match vs with
                                 | [v] => if trailing then Some (VTuple vs) else Some v   (* (x) is x *)
                                 | _ => Some (VTuple vs)
                                 end
                        end
                    end
                else None
            | [] => None
            end
        end
    end
  end.

Definition literal_eval (s : string) : option pyval :=
  let l := list_ascii_of_string s in parse_lit (S (List.length l)) l.

(* pyxel.evaluator.eval_entry on a str *)
Definition eval_entry (s : string) : res pyval :=
  match literal_eval s with
  | Some v => Ok v                              (* `assert isinstance(new_value, str | Number | Sequence | None)` *)
  | None =>
      match list_ascii_of_string s with
      | [] => Raise IndexError                  (* value[0] on "" *)
      | c :: r =>
          let last := match rev r with l :: _ => l | [] => c end in
          if aeq c last && (aeq c (ch "'") || aeq c """"%char) then
            Raise SyntaxError                   (* already quoted yet not a literal: literal_eval raises again *)
          else if no_char """"%char (c :: r) && no_char "\"%char (c :: r) && no_char "010"%char (c :: r) then
            Ok (VStr s)                         (* literal_eval('"' + value + '"') *)
          else Raise SyntaxError
      end
  end.

Definition truthy (v : pyval) : bool :=
  match v with
  | VNone => false | VBool b => b | VInt z => negb (Z.eqb z 0) | VDec m _ => negb (Z.eqb m 0)
  | VStr s => negb (String.eqb s "") | VList l | VTuple l => match l with [] => false | _ => true end
  | VArr _ => true | VOpaque _ => true
  end.

(* the conversion at the head of Processor.set(convert_value=True) *)
Definition convert_elem (v : pyval) : res pyval :=
  if truthy v then match v with VStr s => eval_entry s | _ => Ok v end else Ok v.

Fixpoint convert_list (l : list pyval) : res (list pyval) :=
  match l with
  | [] => Ok []
  | v :: r => bind (convert_elem v) (fun v' => bind (convert_list r) (fun r' => Ok (v' :: r')))
  end.

Definition convert_value (v : pyval) : res pyval :=
  match v with
  | VList l | VTuple l => bind (convert_list l) (fun l' => Ok (VList l'))
  | VStr s => eval_entry s
  | VInt _ | VDec _ _ | VBool _ | VArr _ => Ok v
  | VNone | VOpaque _ => Raise TypeError
  end.

Definition pset (t : tree) (k : list string) (raw : pyval) : res tree :=
  bind (convert_value raw) (fun v => set t k v).

(* rendering of literal values (the texts a user writes) *)
Definition render_int (z : Z) : string := DecimalString.NilZero.string_of_int (Z.to_int z).

Inductive atom := AInt (z : Z) | ADec (m e : Z) | ABool (b : bool) | AWord (s : string).

Definition atom_val (a : atom) : pyval :=
  match a with AInt z => VInt z | ADec m e => VDec m e | ABool b => VBool b | AWord s => VStr s end.

Definition render_atom (a : atom) : string :=
  match a with
  | AInt z => render_int z
  | ADec m e => render_int m ++ "e" ++ render_int e
  | ABool true => "True"
  | ABool false => "False"
  | AWord s => s
  end.

(* a bare word: what eval_entry must leave as the string itself *)
Definition is_alpha (c : ascii) : bool :=
  let n := nat_of_ascii c in ((65 <=? n)%nat && (n <=? 90)%nat) || ((97 <=? n)%nat && (n <=? 122)%nat) || (n =? 95)%nat.
Fixpoint all_alpha (s : lstr) : bool := match s with [] => true | c :: r => is_alpha c && all_alpha r end.
Definition bare_word (s : string) : bool :=
  let l := list_ascii_of_string s in
  match l with [] => false | _ => all_alpha l end
  && negb (String.eqb s "True") && negb (String.eqb s "False") && negb (String.eqb s "None").

Definition atom_ok (a : atom) : bool :=
  match a with AWord s => bare_word s | _ => true end.

(* ------------------------------------------------------------------------------------ validate_steps *)

Fixpoint split_dots_aux (s : string) (cur : lstr) : list string :=
  match s with
  | EmptyString => [string_of_list_ascii (rev cur)]
  | String c r => if aeq c (ch ".") then string_of_list_ascii (rev cur) :: split_dots_aux r [] else split_dots_aux r (c :: cur)
  end.
Definition split_dots (s : string) : list string := split_dots_aux s [].

Definition contains (sub s : string) : bool := match index 0 sub s with Some _ => true | None => false end.

(* ".".join(key.split(".")[:3]) + ".enabled"  for a key that starts with "pipeline." *)
Definition model_flag_key (k : list string) : list string := (firstn 3 k ++ ["enabled"])%list.

Definition is_pipeline_key (k : list string) : bool :=      (* key.startswith("pipeline.") *)
  match k with p :: _ :: _ => String.eqb p "pipeline" | _ => false end.

Definition check_step (t : tree) (key : string) : option exn :=    (* None = accepted *)
  let k := split_dots key in
  match has t k with
  | Raise e => Some e
  | Ok false => Some KeyError
  | Ok true =>
      if is_pipeline_key k then
        match getv t (model_flag_key k) with
        | Raise e => Some e
        | Ok v => if truthy v then None else Some ValueError
        end
      else None
  end.

Fixpoint validate_steps (t : tree) (keys : list string) : option exn :=
  match keys with
  | [] => None
  | k :: r => match check_step t k with Some e => Some e | None => validate_steps t r end
  end.

(* what the property demands of a sweep key (specification, independent of the code's string slicing):
   it must be declared, and if it is an argument (or the enabled flag) of a pipeline model, that model must be enabled *)
(* a declared model argument, whatever its current value (a dict-valued argument is a legitimate sweep target) *)
Fixpoint targets_argument_at (t : tree) (body : list string) (att : string) : bool :=
  match body with
  | [] => match t with
          | Node NArgs ms => match find is_item att ms with Some _ => true | None => false end
          | _ => false
          end
  | p :: body' => match step t p with SFound _ c => targets_argument_at c body' att | _ => false end
  end.
Definition targets_argument (t : tree) (k : list string) : bool :=
  match split_last k with None => false | Some (b, a) => targets_argument_at t b a end.

Definition spec_step_ok (t : tree) (key : string) : bool :=
  let k := split_dots key in
  if (if targets_setting t k then true else targets_argument t k) then
      if is_pipeline_key k       (* pipeline.<group>.<model>.<...>: the model must be enabled *)
      then match getv t (model_flag_key k) with Ok v => truthy v | _ => false end
      else true
  else false.

(* -- which models run: ModelGroup.__iter__ yields (and ModelGroup.run executes) a model iff a test on its `enabled`
      flag holds; validate_steps decides with a test on the same flag whether the swept model is enabled.  The flag is
      an ordinary setting: it can hold whatever a configuration, a constructor, Processor.set or an override text
      ('1' -> int 1) put there, so the two tests must agree on EVERY value, not only on True / False. -- *)
Inductive flagtest :=
| FTruthy        (* `if model.enabled:` / `if not processor.get(...)`: Python truthiness *)
| FIsTrue        (* `model.enabled is True`: the bool True only *)
| FEqTrue.       (* `model.enabled == True`: True, 1, 1.0 *)

Definition flag_holds (ft : flagtest) (v : pyval) : bool :=
  match ft with
  | FTruthy => truthy v
  | FIsTrue => match v with VBool true => true | _ => false end
  | FEqTrue => match num_of v with Some (m, e) => dec_eqb m e 1 0 | None => false end
  end.

Definition flagtest_eqb (a b : flagtest) : bool :=
  match a, b with FTruthy, FTruthy | FIsTrue, FIsTrue | FEqTrue, FEqTrue => true | _, _ => false end.

(* a private name (outside the public key space): it starts with an underscore *)
Definition private_name (s : string) : bool := match s with String c _ => aeq c (ch "_") | EmptyString => false end.

(* the model a pipeline key addresses (pipeline.<group>.<model>....) is executed when the pipeline runs *)
Definition executes (ft : flagtest) (t : tree) (k : list string) : bool :=
  match getv t (model_flag_key k) with Ok v => flag_holds ft v | Raise _ => false end.

(* ------------------------------------------------------------------------------------ correspondence *)

Definition fentry := (list string * nat * pyval)%type.

Definition mk_tag (m : mkind) : nat := match m with KProp true _ => 1 | KProp false _ => 2 | KInst => 3 | KClass => 4 | KItem => 5 end%nat.

Fixpoint flat (pre : list string) (tag : nat) (t : tree) : list fentry :=
  match t with
  | Leaf v => [(pre, tag, v)]
  | Node k ms => (pre, tag, VOpaque (nk_tag k)) :: flat_ms pre ms
  end
with flat_ms (pre : list string) (ms : mlist) : list fentry :=
  match ms with
  | MNil => []
  | MCons n mk t r => (flat (pre ++ [n])%list (mk_tag mk) t ++ flat_ms pre r)%list
  end.

Fixpoint key_eqb (a b : list string) : bool :=
  match a, b with
  | [], [] => true
  | x :: a', y :: b' => if String.eqb x y then key_eqb a' b' else false
  | _, _ => false
  end.

Definition fentry_eqb (a b : fentry) : bool :=
  let '(p1, t1, v1) := a in let '(p2, t2, v2) := b in
  if key_eqb p1 p2 then (if Nat.eqb t1 t2 then pyval_eqb v1 v2 else false) else false.

Definition subset (a b : list fentry) : bool := forallb (fun e => existsb (fentry_eqb e) b) a.
Fixpoint list_eqb (a b : list fentry) : bool :=
  match a, b with
  | [], [] => true
  | x :: a', y :: b' => if fentry_eqb x y then list_eqb a' b' else false
  | _, _ => false
  end.
(* equal as sets of entries (fast path: equal as lists) *)
Fixpoint mem_entry (e : fentry) (l : list fentry) : bool :=
  match l with [] => false | x :: r => if fentry_eqb e x then true else mem_entry e r end.
Fixpoint subset' (a b : list fentry) : bool :=
  match a with [] => true | e :: r => if mem_entry e b then subset' r b else false end.
(* vm_compute is call-by-value: the cheap test is sequenced with `if`, not `||` *)
Definition same_set (a b : list fentry) : bool :=
  if list_eqb a b then true
  else if Nat.eqb (List.length a) (List.length b) then (if subset' a b then subset' b a else false) else false.

Fixpoint is_prefix (p k : list string) : bool :=
  match p, k with
  | [], _ => true
  | x :: p', y :: k' => String.eqb x y && is_prefix p' k'
  | _, [] => false
  end.

Definition drop_ignored (ign : list (list string)) (l : list fentry) : list fentry :=
  filter (fun e => let '(p, _, _) := e in negb (existsb (fun i => is_prefix i p) ign)) l.

Definition snapshot (ign : list (list string)) (t : tree) : list fentry := drop_ignored ign (flat [] 0 t).

Definition res_eqb {A} (eq : A -> A -> bool) (a b : res A) : bool :=
  match a, b with Ok x, Ok y => eq x y | Raise e, Raise f => exn_eqb e f | _, _ => false end.

Record kcase := {
  c_tree : tree;                     (* settings snapshot before *)
  c_key : list string;
  c_raw : pyval;                     (* the value handed to Processor.set(key, value) *)
  c_ignore : list (list string);     (* documented coupled fields, not compared *)
  o_has : res bool;
  o_set : option exn;                (* None = returned normally *)
  o_after : tree;                    (* settings snapshot after *)
  o_get : res pyval                  (* Processor.get(key) after the call *)
}.

Definition model_set_exn (c : kcase) : option exn :=
  match pset (c_tree c) (c_key c) (c_raw c) with Ok _ => None | Raise e => Some e end.

Definition model_after (c : kcase) : tree :=
  match pset (c_tree c) (c_key c) (c_raw c) with Ok t' => t' | Raise _ => c_tree c end.

Definition opt_exn_eqb (a b : option exn) : bool :=
  match a, b with None, None => true | Some e, Some f => exn_eqb e f | _, _ => false end.

(* which part of the model differs from the implementation: 0 = nothing *)
Definition case_mismatch (c : kcase) : nat :=
  if negb (res_eqb Bool.eqb (has (c_tree c) (c_key c)) (o_has c)) then 1
  else if negb (opt_exn_eqb (model_set_exn c) (o_set c)) then 2
  else if negb (same_set (snapshot (c_ignore c) (model_after c)) (snapshot (c_ignore c) (o_after c))) then 3
  else if negb (res_eqb pyval_eqb (getv (model_after c) (c_key c)) (o_get c)) then 4
  else 0.

Fixpoint indices_where {A} (f : A -> bool) (l : list A) (i : Z) : list Z :=
  match l with
  | [] => []
  | a :: r => if f a then i :: indices_where f r (i + 1)%Z else indices_where f r (i + 1)%Z
  end.

Definition mismatches (cs : list kcase) : list Z := indices_where (fun c => negb (Nat.eqb (case_mismatch c) 0)) cs 0%Z.
Definition mismatch_kinds (cs : list kcase) : list nat := map case_mismatch cs.

(* -- specification: judges the IMPLEMENTATION's observations only -- *)

(* the key names an existing setting of the snapshot: a leaf entry (property with setter / instance attribute / item) *)
Definition setting_entry (key : list string) (e : fentry) : bool :=
  let '(p, tag, v) := e in
  key_eqb p key && (Nat.eqb tag 1 || Nat.eqb tag 3 || Nat.eqb tag 5)
  && match v with
     | VOpaque o => Nat.eqb tag 5 && String.eqb o "dict"    (* a declared argument whose value is a dict *)
     | _ => true
     end.

Definition is_setting (c : kcase) : bool := existsb (setting_entry (c_key c)) (flat [] 0 (c_tree c)).

Definition strictly_below (key : list string) (e : fentry) : bool :=
  let '(p, _, _) := e in is_prefix key p && negb (key_eqb key p).

Definition expected_after (c : kcase) (v : pyval) : list fentry :=
  map (fun e => if setting_entry (c_key c) e then let '(p, tag, _) := e in (p, tag, v) else e)
      (filter (fun e => negb (strictly_below (c_key c) e)) (snapshot (c_ignore c) (c_tree c))).

(* clause 1: a key that has() does not confirm must be refused *)
Definition viol_unresolved (c : kcase) : bool :=
  match o_has c, o_set c with
  | Ok true, _ => false
  | _, Some _ => false
  | _, None => true
  end.

(* clause 2: a refused assignment leaves every setting and the shape untouched *)
Definition viol_failed_changes (c : kcase) : bool :=
  match o_set c with
  | Some _ => negb (same_set (snapshot (c_ignore c) (c_tree c)) (snapshot (c_ignore c) (o_after c)))
  | None => false
  end.

(* clause 3: an accepted assignment changes exactly the addressed existing setting to the denoted value:
   the key must name a setting, and snapshot_after = snapshot_before[key := denoted value] (no new attribute) *)
Definition viol_frame (c : kcase) : bool :=
  match o_set c with
  | None =>
      match convert_value (c_raw c) with
      | Ok v => negb (is_setting c && same_set (expected_after c v) (snapshot (c_ignore c) (o_after c)))
      | Raise _ => true       (* a text without denotation was accepted *)
      end
  | Some _ => false
  end.

(* clause 4: reading back returns the assigned value *)
Definition viol_set_get (c : kcase) : bool :=
  match o_set c with
  | None =>
      match convert_value (c_raw c) with
      | Ok v => negb (res_eqb pyval_eqb (Ok v) (o_get c))
      | Raise _ => false
      end
  | Some _ => false
  end.

(* clause 5: has() confirms a key only if something with that path exists in the snapshot *)
Definition viol_has_sound (c : kcase) : bool :=
  match o_has c with
  | Ok true => negb (existsb (fun e => let '(p, _, _) := e in key_eqb p (c_key c)) (flat [] 0 (c_tree c)))
  | _ => false
  end.

(* clause 9: get() returns something only for a key whose path exists in the settings (before or after the call) *)
Definition viol_get_sound (c : kcase) : bool :=
  match o_get c with
  | Ok _ => negb (existsb (fun e => let '(p, _, _) := e in key_eqb p (c_key c)) (flat [] 0 (c_tree c) ++ flat [] 0 (o_after c))%list)
  | _ => false
  end.

Definition viol_clause (n : nat) (c : kcase) : bool :=
  match n with
  | 1 => viol_unresolved c | 2 => viol_failed_changes c | 3 => viol_frame c | 4 => viol_set_get c | 5 => viol_has_sound c
  | 9 => viol_get_sound c
  | _ => false
  end%nat.

Definition violations (n : nat) (cs : list kcase) : list Z := indices_where (viol_clause n) cs 0%Z.

(* one pass: per case  mismatch_kind + 10 * (bit mask of the violated clauses 1..5) *)
Definition case_report (c : kcase) : Z :=
  let b (n : nat) (w : Z) := if viol_clause n c then w else 0%Z in
  (Z.of_nat (case_mismatch c) + 10 * (b 1%nat 1 + b 2%nat 2 + b 3%nat 4 + b 4%nat 8 + b 5%nat 16 + b 9%nat 256))%Z.
Definition report (cs : list kcase) : list Z := map case_report cs.

(* eval_entry cases *)
Record ecase := { e_text : string; e_obs : res pyval }.
Definition e_mismatches (cs : list ecase) : list Z :=
  indices_where (fun c => negb (res_eqb pyval_eqb (eval_entry (e_text c)) (e_obs c))) cs 0%Z.
(* specification = the denotation function itself on the subset (texts are generated inside the subset);
   a text rendered from a value must come back as that value *)
Record rcase := { r_atoms : list atom; r_shape : nat; r_obs : res pyval }.

(* validate_steps cases *)
Record vcase := { v_tree : tree; v_keys : list string; v_obs : option exn;
                  v_ran : option (option exn * nat);    (* the sweep itself, if it was run: outcome, models executed *)
                  v_vals : list (list pyval);           (* per step: the swept values *)
                  v_seen : list (nat * list pyval) }.   (* per step, if the sweep was run: how often the model the key
                                                           addresses was executed, and the values that arrived in the
                                                           argument the key addresses *)
Definition v_mismatches (cs : list vcase) : list Z :=
  indices_where (fun c => negb (opt_exn_eqb (validate_steps (v_tree c) (v_keys c)) (v_obs c))) cs 0%Z.
(* spec: an error iff some key is undeclared / belongs to a disabled model *)
Definition v_viol_silent (c : vcase) : bool :=      (* a bad key was accepted *)
  match v_obs c with None => negb (forallb (spec_step_ok (v_tree c)) (v_keys c)) | Some _ => false end.
Definition v_viol_refused (c : vcase) : bool :=     (* all keys fine, yet refused *)
  match v_obs c with Some _ => forallb (spec_step_ok (v_tree c)) (v_keys c) | None => false end.
(* "rejected before any pipeline runs": with a key the specification does not admit among the steps, the sweep
   must end in an error and no model may have been executed *)
Definition v_viol_ran (c : vcase) : bool :=
  match v_ran c with
  | None => false
  | Some (r, calls) =>
      if forallb (spec_step_ok (v_tree c)) (v_keys c) then false
      else match r with None => true | Some _ => negb (Nat.eqb calls 0) end
  end.
(* "... rather than a silent no-op": a sweep that is accepted and completes has an effect — every swept value of a
   model argument arrives in (at least) one execution of that model, and a swept `enabled` flag switches the model on
   exactly in the runs whose value is truthy.  Judged on what a recording probe model saw.
   1 = argument key (pipeline.<g>.<m>.arguments.<a>[.<item>]), 2 = enabled flag (pipeline.<g>.<m>.enabled) *)
Definition sweep_key_class (k : list string) : nat :=
  match k with
  | p :: _ :: _ :: a :: _ :: _ => if String.eqb p "pipeline" && String.eqb a "arguments" then 1 else 0
  | [p; _; _; e] => if String.eqb p "pipeline" && String.eqb e "enabled" then 2 else 0
  | _ => 0
  end%nat.

Definition related (a b : list string) : bool := is_prefix a b || is_prefix b a.

Fixpoint count_truthy (l : list pyval) : nat :=
  match l with
  | [] => O
  | v :: r => match convert_value v with
              | Ok v' => if truthy v' then S (count_truthy r) else count_truthy r
              | Raise _ => count_truthy r
              end
  end.

Definition arrived (seen : list pyval) (v : pyval) : bool :=
  match convert_value v with Ok v' => existsb (pyval_eqb v') seen | Raise _ => true end.

(* the step at position i (key k, values vals, observation (calls, seen)) had no effect; others = the other keys *)
Definition noop_step (k : list string) (others : list (list string)) (vals : list pyval) (calls : nat) (seen : list pyval) : bool :=
  if existsb (related k) others then false       (* two steps on one setting: the later one wins, not judged *)
  else match sweep_key_class k with
       | 1%nat =>
           if existsb (fun k' => Nat.eqb (sweep_key_class k') 2 && key_eqb (firstn 3 k') (firstn 3 k)) others then false
           else negb (forallb (arrived seen) vals)
       | 2%nat =>
           match others with
           | [] => negb (Nat.eqb calls (count_truthy vals))         (* one run per value, one readout time per run *)
           | _ => Nat.ltb 0 (count_truthy vals) && Nat.eqb calls 0
           end
       | _ => false
       end.

Fixpoint noop_any (pre post : list (list string)) (vals : list (list pyval)) (seen : list (nat * list pyval)) : bool :=
  match post, vals, seen with
  | k :: post', vs :: vals', (calls, sn) :: seen' =>
      if noop_step k (rev pre ++ post')%list vs calls sn then true else noop_any (k :: pre) post' vals' seen'
  | _, _, _ => false
  end.

Definition v_viol_noop (c : vcase) : bool :=
  match v_ran c with
  | Some (None, _) =>
      if forallb (spec_step_ok (v_tree c)) (v_keys c) then noop_any [] (map split_dots (v_keys c)) (v_vals c) (v_seen c)
      else false
  | _ => false
  end.

Definition v_violations (n : nat) (cs : list vcase) : list Z :=
  indices_where (match n with 1%nat => v_viol_silent | 2%nat => v_viol_refused | 3%nat => v_viol_ran | _ => v_viol_noop end) cs 0%Z.

(* literal values whose rendering is the text a user writes for them (scalar subset) *)
Inductive lit := LInt (z : Z) | LDec (m e : Z) | LBool (b : bool) | LNone | LWord (s : string).

Definition lit_val (v : lit) : pyval :=
  match v with LInt z => VInt z | LDec m e => VDec m e | LBool b => VBool b | LNone => VNone | LWord s => VStr s end.

Definition render_lit (v : lit) : string :=
  match v with
  | LInt z => render_int z
  | LDec m e => render_int m ++ "e" ++ render_int e
  | LBool true => "True"
  | LBool false => "False"
  | LNone => "None"
  | LWord s => s
  end.

(* well-formed literal values: a word must be a bare word (letters and underscores, not True / False / None) *)
Definition lit_wf (v : lit) : bool :=
  match v with LWord s => bare_word s | _ => true end.

(* ------------------------------------------------------------------------------------ literal values with sequences *)

(* the values a user can write as a literal text: scalars, quoted strings, lists and tuples of those *)
Inductive lval :=
| LS (x : lit)
| LQ (s : lstr)                 (* 'text' *)
| LL (l : list lval)            (* [a, b, ...] *)
| LT (l : list lval).           (* (a, b, ...)   (a,)   () *)

Fixpoint joinl (l : list lstr) : lstr :=
  match l with
  | [] => []
  | [x] => x
  | x :: r => (x ++ ","%char :: " "%char :: joinl r)%list
  end.

Fixpoint rl (v : lval) : lstr :=
  match v with
  | LS x => list_ascii_of_string (render_lit x)
  | LQ s => ("'"%char :: s ++ ["'"%char])%list
  | LL l => ("["%char :: joinl (map rl l) ++ ["]"%char])%list
  | LT l => ("("%char :: joinl (map rl l) ++ (match l with [_] => [","%char] | _ => [] end) ++ [")"%char])%list
  end.

Definition render_lval (v : lval) : string := string_of_list_ascii (rl v).

Fixpoint lval_val (v : lval) : pyval :=
  match v with
  | LS x => lit_val x
  | LQ s => VStr (string_of_list_ascii s)
  | LL l => VList (map lval_val l)
  | LT l => VTuple (map lval_val l)
  end.

(* well-formed: inside a sequence a word must be quoted; a quoted text holds no quote, backslash or newline *)
Definition qtext_ok (s : lstr) : bool := no_char ("'"%char) s && no_char "\"%char s && no_char "010"%char s.

Fixpoint lval_wf (inside : bool) (v : lval) : bool :=
  match v with
  | LS (LWord s) => negb inside && bare_word s
  | LS _ => true
  | LQ s => qtext_ok s
  | LL l | LT l => forallb (lval_wf true) l
  end.
