(* C17 — the expression by which a time-integrating model turns the time step into a bucket increment.

   Executable model only (no proofs).  translator/c17.py reads, for every model function of pyxel/models
   that is classified as time-integrating, the data flow from `detector.time_step` to the statement that adds
   to a detector bucket (`detector.photon += X`, `detector.charge.add_charge_array(X)`), one row per
   combination of the function's option branches, and writes X as a [texpr] into Gen_C17.v.

   Atoms:
     TStep          detector.time_step
     TVar name      a value that does not change between the readouts of one exposure: a model argument, a
                    detector geometry / characteristics / environment attribute, a pure helper applied to such
     TBad kind name anything else that may differ from readout to readout:
                      clock  (detector.time, absolute_time, pipeline_count, is_first_readout, ...)
                      state  (content of a detector bucket)
                      random (calls into np.random)
                      nonlin (a non-arithmetic function applied to something that contains the time step)
   An expression is [lin] when it is homogeneous of degree one in the time step and contains no bad atom: then
   (Proofs/FluxExpr.v) its value is  (its value at unit step) * step  for all values of all variables. *)
From Coq Require Import QArith List Bool String ZArith.
From PyxelV Require Import Model.Flux.
Import ListNotations.
Open Scope Q_scope.

Inductive badkind : Type := BClock | BState | BRandom | BNonlin.

Inductive texpr : Type :=
| TStep
| TVar (name : string)
| TBad (k : badkind) (name : string)
| TConst (q : Q)
| TNeg (a : texpr)
| TAdd (a b : texpr)
| TSub (a b : texpr)
| TMul (a b : texpr)
| TDiv (a b : texpr)
| TPow (a b : texpr).

(* a ** b for an integer b (what the sources use: 2**bits); any other exponent is totalised to 0 — a power is
   never [lin] and is [free] only if both sides are, so the theorems do not depend on this choice *)
Definition qpow (a b : Q) : Q :=
  let b' := Qred b in
  if Pos.eqb (Qden b') 1 then Qpower a (Qnum b') else 0.

Fixpoint eval (env : string -> Q) (step : Q) (e : texpr) : Q :=
  match e with
  | TStep => step
  | TVar n => env n
  | TBad _ n => env n
  | TConst q => q
  | TNeg a => - eval env step a
  | TAdd a b => eval env step a + eval env step b
  | TSub a b => eval env step a - eval env step b
  | TMul a b => eval env step a * eval env step b
  | TDiv a b => eval env step a / eval env step b
  | TPow a b => qpow (eval env step a) (eval env step b)
  end.

(* does not mention the time step nor anything that varies between readouts *)
Fixpoint free (e : texpr) : bool :=
  match e with
  | TStep => false
  | TVar _ => true
  | TBad _ _ => false
  | TConst _ => true
  | TNeg a => free a
  | TAdd a b | TSub a b | TMul a b | TDiv a b | TPow a b => free a && free b
  end.

(* homogeneous of degree one in the time step, nothing else varies *)
Fixpoint lin (e : texpr) : bool :=
  match e with
  | TStep => true
  | TNeg a => lin a
  | TAdd a b | TSub a b => lin a && lin b
  | TMul a b => (lin a && free b) || (free a && lin b)
  | TDiv a b => lin a && free b
  | TVar _ | TBad _ _ | TConst _ | TPow _ _ => false
  end.

Definition is_random (k : badkind) : bool := match k with BRandom => true | _ => false end.

Fixpoint has_random (e : texpr) : bool :=
  match e with
  | TBad k _ => is_random k
  | TStep | TVar _ | TConst _ => false
  | TNeg a => has_random a
  | TAdd a b | TSub a b | TMul a b | TDiv a b | TPow a b => has_random a || has_random b
  end.

(* which detector bucket the model adds the expression to *)
Inductive sink : Type := SPhoton | SCharge.

Record rate_row : Type := {
  rr_model : string;      (* file:function *)
  rr_path : string;       (* the option branches taken, as written in the source *)
  rr_sink : sink;
  rr_expr : texpr
}.

(* a row is acceptable when the increment is linear in the time step, or the branch draws random numbers
   (noise options: outside the property, which speaks about deterministic models) *)
Definition row_ok (r : rate_row) : bool := lin (rr_expr r) || has_random (rr_expr r).

Definition table_ok (t : list rate_row) : bool := forallb row_ok t.

Fixpoint bad_rows_from (i : nat) (t : list rate_row) : list nat :=
  match t with
  | [] => []
  | r :: rest => if row_ok r then bad_rows_from (S i) rest else i :: bad_rows_from (S i) rest
  end.
Definition bad_rows (t : list rate_row) : list nat := bad_rows_from 0 t.

(* the deterministic rows (these are the ones the theorem speaks about; non-vacuity is checked on the table) *)
Definition det_rows (t : list rate_row) : list rate_row := filter (fun r => negb (has_random (rr_expr r))) t.

(* the rate of a row: the value of its expression at unit step *)
Definition rate_of (env : string -> Q) (r : rate_row) : Q := eval env 1 (rr_expr r).

(* ------------------------------------------------------------------ environments for the case files *)

Fixpoint lookup (l : list (string * Q)) (n : string) : Q :=
  match l with
  | [] => 0
  | (k, v) :: r => if String.eqb k n then v else lookup r n
  end.

Fixpoint defined (l : list (string * Q)) (n : string) : bool :=
  match l with
  | [] => false
  | (k, _) :: r => String.eqb k n || defined r n
  end.

(* every variable of the expression has a value in the association list (else the case is ill-posed) *)
Fixpoint closed_in (l : list (string * Q)) (e : texpr) : bool :=
  match e with
  | TStep | TConst _ => true
  | TVar n | TBad _ n => defined l n
  | TNeg a => closed_in l a
  | TAdd a b | TSub a b | TMul a b | TDiv a b | TPow a b => closed_in l a && closed_in l b
  end.

Definition mem_str (s : string) (l : list string) : bool := existsb (String.eqb s) l.

(* every time reader is classified, and every model classified as integrating is a time reader *)
Definition readers_classified (readers : list (string * list string)) (integrating : list string)
           (excluded : list (string * string)) : bool :=
  forallb (fun r => mem_str (fst r) integrating || mem_str (fst r) (map fst excluded)) readers
  && forallb (fun m => mem_str m (map fst readers)) integrating
  && forallb (fun m => negb (mem_str m (map fst excluded))) integrating.

(* every expression-shaped integrating model has at least one deterministic row (the linearity theorem is
   not vacuous for it) *)
Definition expr_models_covered (t : list rate_row) (models : list string) : bool :=
  forallb (fun m => existsb (fun r => String.eqb (rr_model r) m && negb (has_random (rr_expr r))) t) models.

(* ------------------------------------------------------------------ correspondence cases for the rows:
   one real model called on an emptied detector with several time steps; the harness gives the values of the
   row's variables (scalars, and per pixel) and the increments the implementation produced *)
Record rate_case : Type := {
  rc_tol : Q;
  rc_row : nat;                            (* index into the regenerated rate_table *)
  rc_env : list (string * Q);              (* scalar variables *)
  rc_pix : list (list (string * Q));       (* per pixel: variables that differ between pixels *)
  rc_steps : list Q;
  rc_obs : list (list Q)                   (* per step, per pixel *)
}.

Definition rate_expected (r : rate_row) (c : rate_case) : list (list Q) :=
  map (fun step => map (fun px => Qred (eval (lookup (px ++ rc_env c)) step (rr_expr r))) (rc_pix c)) (rc_steps c).

Definition rate_case_wellposed (t : list rate_row) (c : rate_case) : bool :=
  match nth_error t (rc_row c) with
  | None => false
  | Some r => negb (has_random (rr_expr r))
              && forallb (fun px => closed_in (px ++ rc_env c) (rr_expr r)) (rc_pix c)
              && negb (match rc_pix c with [] => true | _ => false end)
              && negb (match rc_steps c with [] => true | _ => false end)
  end.

Definition rate_case_ok (t : list rate_row) (c : rate_case) : bool :=
  match nth_error t (rc_row c) with
  | None => false
  | Some r => all2 (fun e o => all2 (close (rc_tol c)) e o) (rate_expected r c) (rc_obs c)
  end.

Definition rate_mismatches (t : list rate_row) (cases : list rate_case) : list nat :=
  indices_where (fun c => negb (rate_case_ok t c)) 0 cases.
Definition rate_illposed (t : list rate_row) (cases : list rate_case) : list nat :=
  indices_where (fun c => negb (rate_case_wellposed t c)) 0 cases.

(* ------------------------------------------------------------------ the Readout guards, as read from the source *)

(* the guards of Readout.__init__ as read from the source by translator/c17.py *)
Inductive sguard : Type := GFirstZero | GStartGeFirst | GNotIncreasing.

Definition refuses (g : sguard) (start : Q) (ts : list Q) : bool :=
  match ts with
  | [] => false
  | t0 :: r =>
      match g with
      | GFirstZero => Qeq_bool t0 0                    (* self._times[0] == 0 *)
      | GStartGeFirst => Qle_bool t0 start             (* start_time >= self._times[0] *)
      | GNotIncreasing => negb (increasing_from t0 r)  (* not np.all(np.diff(self._times) > 0) *)
      end
  end.

(* empty_refused: an empty / missing `times` never reaches the guards (`elif times: ... else: raise`) *)
Definition accepted (empty_refused : bool) (gs : list sguard) (start : Q) (ts : list Q) : bool :=
  match ts with
  | [] => negb empty_refused
  | _ => forallb (fun g => negb (refuses g start ts)) gs
  end.

Definition sguard_eqb (a b : sguard) : bool :=
  match a, b with
  | GFirstZero, GFirstZero | GStartGeFirst, GStartGeFirst | GNotIncreasing, GNotIncreasing => true
  | _, _ => false
  end.

Definition guards_complete (empty_refused : bool) (gs : list sguard) : bool :=
  empty_refused && existsb (sguard_eqb GFirstZero) gs && existsb (sguard_eqb GStartGeFirst) gs
  && existsb (sguard_eqb GNotIncreasing) gs.


(* ------------------------------------------------------------------ the conversion / collection models
   (simple_conversion, conversion_with_qe_map, simple_collection): translator/c17.py reads what they add to their
   sink bucket as a [texpr] in which TStep stands for the content of their SOURCE bucket (photon for a conversion,
   charge for the collection); `detector.time_step` is a clock atom there: these models must not depend on it. *)
Inductive bucket : Type := BkPhoton | BkCharge | BkPixel.

Record conv_row : Type := {
  cr_model : string;
  cr_path : string;
  cr_src : bucket;
  cr_sink : bucket;
  cr_identity : bool;      (* the collection: the sink receives exactly the content of the source *)
  cr_expr : texpr
}.

Definition is_step (e : texpr) : bool := match e with TStep => true | _ => false end.

Definition bucket_eqb (a b : bucket) : bool :=
  match a, b with
  | BkPhoton, BkPhoton | BkCharge, BkCharge | BkPixel, BkPixel => true
  | _, _ => false
  end.

(* a conversion photon -> charge adds (a step-independent factor) * photon; the collection charge -> pixel adds the
   charge itself; a branch that draws random numbers is a noise option (outside the property) *)
Definition conv_row_ok (r : conv_row) : bool :=
  has_random (cr_expr r)
  || (if cr_identity r
      then is_step (cr_expr r) && bucket_eqb (cr_src r) BkCharge && bucket_eqb (cr_sink r) BkPixel
      else lin (cr_expr r) && bucket_eqb (cr_src r) BkPhoton && bucket_eqb (cr_sink r) BkCharge).

Definition conv_table_ok (t : list conv_row) : bool := forallb conv_row_ok t.

Definition bad_conv_rows (t : list conv_row) : list nat :=
  indices_where (fun r => negb (conv_row_ok r)) 0 t.

(* the quantum efficiency a conversion row applies: its value for a unit photon content *)
Definition qe_of (env : string -> Q) (r : conv_row) : Q := eval env 1 (cr_expr r).

(* every listed model has at least one deterministic row *)
Definition conv_models_covered (t : list conv_row) (models : list string) : bool :=
  forallb (fun m => existsb (fun r => String.eqb (cr_model r) m && negb (has_random (cr_expr r))) t) models
  && negb (match models with [] => true | _ => false end).

(* correspondence: one real call on a detector whose source bucket holds cc_src (per pixel); observed: what was
   added to the sink bucket (per pixel) *)
Record conv_case : Type := {
  cc_tol : Q;
  cc_row : nat;
  cc_env : list (string * Q);
  cc_pix : list (list (string * Q));
  cc_src : list Q;
  cc_obs : list Q
}.

Definition conv_expected (r : conv_row) (c : conv_case) : list Q :=
  map (fun p => Qred (eval (lookup (fst p ++ cc_env c)) (snd p) (cr_expr r))) (combine (cc_pix c) (cc_src c)).

Definition conv_case_wellposed (t : list conv_row) (c : conv_case) : bool :=
  match nth_error t (cc_row c) with
  | None => false
  | Some r => negb (has_random (cr_expr r))
              && forallb (fun px => closed_in (px ++ cc_env c) (cr_expr r)) (cc_pix c)
              && (List.length (cc_pix c) =? List.length (cc_src c))%nat
              && negb (match cc_pix c with [] => true | _ => false end)
              && existsb (fun x => negb (Qeq_bool x 0)) (cc_src c)
  end.

Definition conv_case_ok (t : list conv_row) (c : conv_case) : bool :=
  match nth_error t (cc_row c) with
  | None => false
  | Some r => all2 (close (cc_tol c)) (conv_expected r c) (cc_obs c)
  end.

Definition conv_mismatches (t : list conv_row) (cases : list conv_case) : list nat :=
  indices_where (fun c => negb (conv_case_ok t c)) 0 cases.
Definition conv_illposed (t : list conv_row) (cases : list conv_case) : list nat :=
  indices_where (fun c => negb (conv_case_wellposed t c)) 0 cases.
