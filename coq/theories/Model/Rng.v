(* C04 — executable model of the process-wide random generator and of the seed brackets.
   pyxel/util/randomize.py            set_random_seed           -> [Seeded], semantics parametrised by
                                                                   [srs_cfg] (regenerated from the source)
   pyxel/exposure/exposure.py         run_pipeline              -> [exposure_prog]
   pyxel/observation/observation*.py  one run_pipeline per run  -> [observation_prog], [observation_dask_prog]
   pyxel/calibration/*_datatree.py    one run_pipeline per fitness evaluation -> [calibration_prog]
   pyxel/models/**                    functions with a `seed` parameter -> [model_row], [model_prog]
   pyxel/calibration/archipelago_datatree.py  _build (islands pushed in which order) -> [islands]
   every way a seed reaches a run (constructor, YAML builder, setter, override) -> [xfer], [seed_through]
   iteration over hash-ordered collections inside seeded code -> [Unord] (order chosen by the process)
   The generator is abstract: a type of states, a seeding function and a transition function per kind
   of draw.  Nothing else is assumed about it.  No proofs in this file. *)
From Coq Require Import ZArith List Bool String.
Import ListNotations.
Open Scope Z_scope.

(* What set_random_seed does for `seed is not None`, as read from the source by the translator:
   is the state saved before np.random.seed, is the generator reseeded, is the saved state put back
   when the body ends normally / when it raises.  For seed None the translator only accepts a bare
   `yield` (anything else fails closed), so that case has no parameter. *)
Record srs_cfg := {
  save_before_seed : bool;
  reseeds : bool;
  restore_on_normal : bool;
  restore_on_raise : bool }.

Definition cfg_ok (c : srs_cfg) : bool :=
  save_before_seed c && reseeds c && restore_on_normal c && restore_on_raise c.

Definition cfg_as_coded : srs_cfg :=
  {| save_before_seed := true; reseeds := true; restore_on_normal := true; restore_on_raise := true |}.

Inductive outcome := Done | Raised.

Definition outcome_eqb (a b : outcome) : bool :=
  match a, b with Done, Done | Raised, Raised => true | _, _ => false end.

(* Programs over the global generator.  [Draw k]: one call of kind k (distribution, shape, inputs)
   into np.random.*; [Observe]: np.random.get_state() at a probe point; [Seeded s p]:
   `with set_random_seed(s): p`; [Raise]: an exception leaves the block; [BareSeed s]:
   np.random.seed(s) with no bracket (pulse_processing; the mutation "seeds without restoring"). *)
Inductive prog :=
| Skip
| Draw (k : Z)
| Observe
| Seq (p q : prog)
| Seeded (s : option Z) (p : prog)
| Raise
| BareSeed (s : Z)
| Unord (site : Z) (a b : prog).
(* [Unord i a b]: the two parts run in an order the PROCESS chooses (iteration over a set / a
   dict-keys set operation: CPython's string hashing is randomised per interpreter, PYTHONHASHSEED);
   within one process the order is stable. *)

Fixpoint seq_all (ps : list prog) : prog :=
  match ps with [] => Skip | p :: r => Seq p (seq_all r) end.

Fixpoint repeat_prog (n : nat) (p : prog) : prog :=
  match n with O => Skip | S n' => Seq p (repeat_prog n' p) end.

Section Rng.
  Variable gen : Type.                       (* generator states *)
  Variable val : Type.                       (* drawn values *)
  Variable seed_gen : Z -> gen.              (* np.random.seed(s) *)
  Variable next : Z -> gen -> gen * val.     (* one draw of kind k *)
  Variable cfg : srs_cfg.                    (* set_random_seed as coded *)
  Variable swap : Z -> bool.                 (* this PROCESS: does hash-ordered site i come out swapped *)

  Inductive event := EvDraw (v : val) | EvState (g : gen).

  Fixpoint exec (p : prog) (g : gen) : gen * list event * outcome :=
    match p with
    | Skip => (g, [], Done)
    | Draw k => let '(g', v) := next k g in (g', [EvDraw v], Done)
    | Observe => (g, [EvState g], Done)
    | Seq p q =>
        let '(g1, t1, o1) := exec p g in
        match o1 with
        | Raised => (g1, t1, Raised)
        | Done => let '(g2, t2, o2) := exec q g1 in (g2, t1 ++ t2, o2)
        end
    | Seeded None p => exec p g
    | Seeded (Some s) p =>
        let g_in := if reseeds cfg then seed_gen s else g in
        let saved := if save_before_seed cfg then g else g_in in
        let '(g1, t, o) := exec p g_in in
        let restore := match o with Done => restore_on_normal cfg | Raised => restore_on_raise cfg end in
        (if restore then saved else g1, t, o)
    | Raise => (g, [], Raised)
    | BareSeed s => (seed_gen s, [], Done)
    | Unord i a b =>
        if swap i then
          let '(g1, t1, o1) := exec b g in
          match o1 with
          | Raised => (g1, t1, Raised)
          | Done => let '(g2, t2, o2) := exec a g1 in (g2, t1 ++ t2, o2)
          end
        else
          let '(g1, t1, o1) := exec a g in
          match o1 with
          | Raised => (g1, t1, Raised)
          | Done => let '(g2, t2, o2) := exec b g1 in (g2, t1 ++ t2, o2)
          end
    end.

  Definition gen_after (p : prog) (g : gen) : gen := fst (fst (exec p g)).
  Definition events (p : prog) (g : gen) : list event := snd (fst (exec p g)).
  Definition result (p : prog) (g : gen) : outcome := snd (exec p g).
  (* everything an observer of the run can see: drawn values, probed states, how it ended *)
  Definition visible (p : prog) (g : gen) : list event * outcome := (events p g, result p g).
End Rng.

Arguments EvDraw {gen val} v.
Arguments EvState {gen val} g.

(* ------------------------------------------------------------------ syntactic classes *)

(* every draw / probe / bare seeding sits under a bracket with an actual seed *)
Fixpoint self_seeded (p : prog) : bool :=
  match p with
  | Skip | Raise => true
  | Draw _ | Observe | BareSeed _ => false
  | Seq a b => self_seeded a && self_seeded b
  | Seeded (Some _) _ => true
  | Seeded None a => self_seeded a
  | Unord _ a b => self_seeded a && self_seeded b
  end.

(* no part of the program runs in a process-chosen order *)
Fixpoint hash_stable (p : prog) : bool :=
  match p with
  | Skip | Raise | Draw _ | Observe | BareSeed _ => true
  | Seq a b => hash_stable a && hash_stable b
  | Seeded _ a => hash_stable a
  | Unord _ _ _ => false
  end.

(* ------------------------------------------------------------------ mode plumbing *)

(* the seed a mode hands to run_pipeline: its pipeline_seed if every link of the call chain
   forwards it (table regenerated from the source), else nothing *)
Definition fwd (forwards : bool) (seed : option Z) : option Z := if forwards then seed else None.

Definition exposure_prog (fw : bool) (seed : option Z) (body : prog) : prog :=
  Seeded (fwd fw seed) body.

Definition observation_prog (fw : bool) (seed : option Z) (bodies : list prog) : prog :=
  seq_all (map (fun b => Seeded (fwd fw seed) b) bodies).

(* with dask the first parameter set is run once more up front to learn the output layout *)
Definition observation_dask_prog (fw : bool) (seed : option Z) (bodies : list prog) : prog :=
  match bodies with
  | [] => Skip
  | b :: _ => Seq (Seeded (fwd fw seed) b) (observation_prog fw seed bodies)
  end.

(* one run_pipeline per fitness evaluation, then one per champion in the post-processing *)
Definition calibration_prog (fw : bool) (seed : option Z) (evals posts : list prog) : prog :=
  Seq (observation_prog fw seed evals) (observation_prog fw seed posts).

Inductive mode := MExposure | MObservation | MObservationDask | MCalibration.

Definition mode_prog (m : mode) (fw : bool) (seed : option Z) (bodies : list prog) : prog :=
  match m with
  | MExposure => exposure_prog fw seed (seq_all bodies)
  | MObservation => observation_prog fw seed bodies
  | MObservationDask => observation_dask_prog fw seed bodies
  | MCalibration => calibration_prog fw seed bodies (firstn 1 bodies)
  end.

(* What one link of the chain does to the seed it is handed.  [XId]: passed on unchanged (every
   seed, 0 included).  [XTruthy]: passed on only if it is truthy (`x if x else None`, `x or None`,
   `if x:`) - the legal seed 0 becomes "no seed".  [XDrop]: not passed on. *)
Inductive xfer := XId | XTruthy | XDrop.

Definition apply_xfer (x : xfer) (s : option Z) : option Z :=
  match x with
  | XId => s
  | XDrop => None
  | XTruthy => match s with Some 0 => None | _ => s end
  end.

Definition xfer_is_id (x : xfer) : bool := match x with XId => true | _ => false end.

(* call-chain table: (mode, entry, link, what the link does to the seed).  The entry says through
   which door the seed came in ("ctor", "yaml", "setter", "override"); "" = the link is on the
   path of every entry of the mode. *)
Definition link := (string * string * string * xfer)%type.
Definition link_mode (r : link) : string := fst (fst (fst r)).
Definition link_entry (r : link) : string := snd (fst (fst r)).
Definition link_xfer (r : link) : xfer := snd r.

Definition on_path (m e : string) (r : link) : bool :=
  String.eqb (link_mode r) m && (String.eqb (link_entry r) "" || String.eqb (link_entry r) e).

(* the seed that arrives at set_random_seed when [s] is given to mode [m] through entry [e] *)
Definition seed_through (tbl : list link) (m e : string) (s : option Z) : option Z :=
  fold_left (fun acc r => apply_xfer (link_xfer r) acc) (filter (on_path m e) tbl) s.

(* every link of the mode, whatever the entry, passes every seed on unchanged *)
Definition forwards_of (tbl : list link) (m : string) : bool :=
  let rows := filter (fun r => String.eqb (link_mode r) m) tbl in
  negb (Nat.eqb (List.length rows) 0) && forallb (fun r => xfer_is_id (link_xfer r)) rows.

(* ------------------------------------------------------------------ model functions with a seed *)

Record model_row := {
  m_name : string;
  m_inside : Z;        (* draw sites (direct, or calls into helpers that draw) inside the bracket *)
  m_outside : Z;       (* ... lexically outside `with set_random_seed(seed)` *)
  m_bare_seed : Z;     (* np.random.seed / set_state calls in the function or its helpers *)
  m_bracket_seed : bool;  (* there is a bracket and it is given the function's own `seed` argument *)
  m_unordered : Z;     (* iterations over a set / dict-keys set operation in the function or its helpers *)
  m_seed_truthy : Z    (* truthiness tests on `seed` (`if seed`, `seed or ..`, `.. if seed else ..`) *) }.

Definition bracketed (r : model_row) : bool :=
  (m_outside r =? 0) && (m_bare_seed r =? 0) && m_bracket_seed r && (m_seed_truthy r =? 0).

Definition order_stable (r : model_row) : bool := m_unordered r =? 0.

(* the draws of the function's seeded block: one kind of draw, or - when the function iterates over a
   hash-ordered collection - two kinds in an order the process chooses *)
Definition inside_prog (r : model_row) (kind : Z) : prog :=
  if 0 <? m_inside r
  then (if 0 <? m_unordered r then Unord 0 (Draw (4 * kind)) (Draw (4 * kind + 2)) else Draw (4 * kind))
  else Skip.

(* the seed the function's bracket is given *)
Definition bracket_seed (r : model_row) (seed : option Z) : option Z :=
  if m_bracket_seed r
  then (if 0 <? m_seed_truthy r then apply_xfer XTruthy seed else seed)
  else None.

(* the generator-relevant behaviour of one call of the model function *)
Definition model_prog (r : model_row) (seed : option Z) (kind : Z) : prog :=
  Seq (if 0 <? m_bare_seed r then match seed with Some s => BareSeed s | None => Skip end else Skip)
  (Seq (if 0 <? m_outside r then Draw (4 * kind + 1) else Skip)
       (Seeded (bracket_seed r seed) (inside_prog r kind))).

(* np.random.seed / set_state call sites anywhere in pyxel/ outside util/randomize.py *)
Definition seed_site := (string * Z)%type.   (* qualified function, number of calls *)

Definition string_in (s : string) (l : list string) : bool := existsb (String.eqb s) l.

(* ------------------------------------------------------------------ calibration: islands and their seeds *)

(* ArchipelagoDataTree._build: island tasks 0..n-1 are submitted with seeds[0..n-1]; they FINISH in
   some order (a list of task indices, decided by thread timing).  The archipelago is filled by
   iterating either over the results in submission order (builtin map, executor.map, a list of
   futures read in order) or over the results as they complete (as_completed). *)
Inductive build_kind := BMap | BAsCompleted.

Definition finished (seeds : list Z) (order : list nat) : list (nat * Z) :=
  map (fun i => (i, nth i seeds (-1))) order.

Fixpoint lookup_task (i : nat) (l : list (nat * Z)) : option Z :=
  match l with
  | [] => None
  | (j, s) :: r => if Nat.eqb i j then Some s else lookup_task i r
  end.

(* seed of island 0, 1, ... of the archipelago *)
Definition islands (k : build_kind) (seeds : list Z) (order : list nat) : list Z :=
  match k with
  | BMap => map (fun i => match lookup_task i (finished seeds order) with Some s => s | None => -1 end)
                (seq 0 (List.length seeds))
  | BAsCompleted => map snd (finished seeds order)
  end.

Definition build_row := (string * build_kind)%type.   (* branch of _build ("parallel", "sequential"), how it iterates *)
Definition build_of (tbl : list build_row) (branch : string) : build_kind :=
  match filter (fun r => String.eqb (fst r) branch) tbl with
  | (_, k) :: _ => k
  | [] => BAsCompleted      (* unknown branch: nothing is promised *)
  end.
Definition build_is_map (k : build_kind) : bool := match k with BMap => true | _ => false end.

Fixpoint zseq (n : nat) (from : Z) : list Z :=
  match n with O => [] | S n' => from :: zseq n' (from + 1) end.

(* which submitted task (0..n-1) sits at island position 0, 1, ... *)
Definition island_assignment (tbl : list build_row) (branch : string) (n : nat) (order : list nat) : list Z :=
  islands (build_of tbl branch) (zseq n 0) order.

(* ------------------------------------------------------------------ brackets as seen from outside: one thread of control *)

(* What an observer of np.random.seed / np.random.set_state sees: thread t enters a bracket with seed s
   (get_state; seed), thread t leaves one (set_state of what THAT thread's bracket saved). *)
Inductive bstep := BEnter (t s : Z) | BExit (t : Z).

(* does the program end by raising (independent of the generator: Raise is the only source) *)
Fixpoint raises (p : prog) : bool :=
  match p with
  | Raise => true
  | Seq a b => raises a || raises b
  | Seeded _ a => raises a
  | Unord _ a b => raises a || raises b
  | _ => false
  end.

(* the bracket operations of a program run by ONE thread (thread 0), in program order *)
Fixpoint btrace (p : prog) : list bstep :=
  match p with
  | Seq a b => if raises a then btrace a else btrace a ++ btrace b
  | Seeded (Some s) a => BEnter 0 s :: btrace a ++ [BExit 0]
  | Seeded None a => btrace a
  | Unord _ a b => if raises a then btrace a else btrace a ++ btrace b
  | _ => []
  end.

(* LIFO discipline over ALL threads: every exit is by the thread that entered last.  This is what
   "one thread of control" means for the shared generator; any interleaving of two threads' brackets
   that is not properly nested breaks it. *)
Fixpoint lifo_run (tr : list bstep) (stack : list Z) : option (list Z) :=
  match tr with
  | [] => Some stack
  | BEnter t _ :: r => lifo_run r (t :: stack)
  | BExit t :: r => match stack with
                    | t' :: st => if t =? t' then lifo_run r st else None
                    | [] => None
                    end
  end.
Definition lifo (tr : list bstep) : bool :=
  match lifo_run tr [] with Some [] => true | _ => false end.

Section Brackets.
  Variable gen : Type.
  Variable seed_gen : Z -> gen.

  (* each thread's bracket keeps its own saved state (a local variable of its generator frame): on exit
     thread t restores what ITS most recent open bracket saved, wherever that sits among the others *)
  Fixpoint take_saved (t : Z) (saved : list (Z * gen)) : option (gen * list (Z * gen)) :=
    match saved with
    | [] => None
    | (t', g) :: r => if t =? t' then Some (g, r)
                      else match take_saved t r with
                           | Some (g', r') => Some (g', (t', g) :: r')
                           | None => None
                           end
    end.

  Fixpoint run_steps (tr : list bstep) (g : gen) (saved : list (Z * gen)) : gen * list (Z * gen) :=
    match tr with
    | [] => (g, saved)
    | BEnter t s :: r => run_steps r (seed_gen s) ((t, g) :: saved)
    | BExit t :: r => match take_saved t saved with
                      | Some (g', saved') => run_steps r g' saved'
                      | None => run_steps r g saved
                      end
    end.
End Brackets.

(* traces compared without thread names *)
Definition bkind (b : bstep) : Z * Z := match b with BEnter _ s => (1, s) | BExit _ => (0, 0) end.
Definition bkind_eqb (a b : Z * Z) : bool := (fst a =? fst b) && (snd a =? snd b).
Fixpoint bkinds_eqb (a b : list (Z * Z)) : bool :=
  match a, b with
  | [], [] => true
  | x :: a', y :: b' => bkind_eqb x y && bkinds_eqb a' b'
  | _, _ => false
  end.

(* top-level blocks of a trace (a block = one outermost bracket with everything inside it) *)
Fixpoint blocks_aux (tr : list (Z * Z)) (depth : Z) (cur : list (Z * Z)) : list (list (Z * Z)) :=
  match tr with
  | [] => match cur with [] => [] | _ => [rev cur] end
  | x :: r =>
      let d := if fst x =? 1 then depth + 1 else depth - 1 in
      if d =? 0 then rev (x :: cur) :: blocks_aux r 0 [] else blocks_aux r d (x :: cur)
  end.
(* A calibration evaluates the same pipeline an implementation-defined number of times, and dask decides
   itself in which order it runs the parameter sets of an observation: such traces are compared as the SET
   of their top-level blocks. *)
Definition same_blocks (a b : list (Z * Z)) : bool :=
  let ba := blocks_aux a 0 [] in
  let bb := blocks_aux b 0 [] in
  forallb (fun x => existsb (bkinds_eqb x) bb) ba && forallb (fun x => existsb (bkinds_eqb x) ba) bb.

(* ------------------------------------------------------------------ the free generator *)

(* The initial (free) instance: a state is where its stream started plus the kinds of draws consumed
   since; a drawn value is identified with the state it leaves behind.  Two states are equal here iff
   they are equal in every generator, so equality patterns computed here are the ones forced by the
   code alone. *)
Inductive origin := OInit (k : Z) | OSeed (s : Z).
Definition fgen := (origin * list Z)%type.
Definition fseed (s : Z) : fgen := (OSeed s, []).
Definition fnext (k : Z) (g : fgen) : fgen * fgen := let g' := (fst g, k :: snd g) in (g', g').
Definition g_init : fgen := (OInit 0, []).

Definition origin_eqb (a b : origin) : bool :=
  match a, b with
  | OInit x, OInit y => x =? y
  | OSeed x, OSeed y => x =? y
  | _, _ => false
  end.

Fixpoint zlist_eqb (a b : list Z) : bool :=
  match a, b with
  | [], [] => true
  | x :: a', y :: b' => (x =? y) && zlist_eqb a' b'
  | _, _ => false
  end.

Definition fgen_eqb (a b : fgen) : bool := origin_eqb (fst a) (fst b) && zlist_eqb (snd a) (snd b).

(* the free process: process number p swaps every hash-ordered site iff p is odd *)
Definition fswap (p : Z) (site : Z) : bool := Z.odd p.
Definition no_swap (site : Z) : bool := false.

Definition fexec (cfg : srs_cfg) (p : Z) := exec fgen fgen fseed fnext cfg (fswap p).

(* ------------------------------------------------------------------ sessions (correspondence) *)

(* One session: a list of items executed one after the other at top level.  The harness looks at the
   generator before and after every item and catches what the item raises.  Consecutive items may
   run in different interpreter processes ([it_proc]; each with its own PYTHONHASHSEED): the
   generator state is carried over by the harness, everything else about the process is fresh. *)
Record item := {
  it_run : bool;          (* true: a run / model call whose result is recorded; false: the harness
                             moving the generator (np.random.seed(j), k draws) *)
  it_prog : prog;
  it_seeded : bool;       (* the property demands reproducibility + restoration of this item *)
  it_closed : bool;       (* no draw from the process-wide stream is expected (every stochastic
                             part has its own seed): the generator must be untouched *)
  it_cfg : Z;             (* equal ids = same configuration *)
  it_proc : Z;            (* which interpreter process ran the item *)
  it_aux : list Z;        (* calibration: task index at island position 0, 1, ... as the model of
                             _build predicts it from the completion order the harness observed *)
  (* what the implementation did (ids = renumbering by first occurrence over the whole session) *)
  ob_pre : Z; ob_inner : list Z; ob_post : Z;
  ob_draws : list Z; ob_res : Z; ob_raised : bool;
  ob_aux : list Z;        (* calibration: task index whose seed island 0, 1, ... actually has *)
  it_collapse : bool;     (* compare the bracket trace as the set of its top-level blocks (calibration, dask) *)
  ob_trace : list bstep   (* np.random.seed / set_state calls seen during the item: thread, seed *) }.

Section Renumber.
  Context {A : Type} (eqb : A -> A -> bool).
  Fixpoint index_of (x : A) (l : list A) (i : Z) : option Z :=
    match l with [] => None | y :: r => if eqb x y then Some i else index_of x r (i + 1) end.
  Fixpoint renumber_aux (seen : list A) (l : list A) : list Z :=
    match l with
    | [] => []
    | x :: r => match index_of x seen 0 with
                | Some i => i :: renumber_aux seen r
                | None => Z.of_nat (List.length seen) :: renumber_aux (seen ++ [x]) r
                end
    end.
  Definition renumber (l : list A) : list Z := renumber_aux [] l.
End Renumber.

Definition ev_states (t : list (event fgen fgen)) : list fgen :=
  flat_map (fun e => match e with EvState g => [g] | _ => [] end) t.
Definition ev_draws (t : list (event fgen fgen)) : list fgen :=
  flat_map (fun e => match e with EvDraw v => [v] | _ => [] end) t.

(* draws of kind 0 are the probes' own draws, whose values the harness sees; draws of any other kind
   happen inside real model functions and are visible only through the run's result *)
Definition probe_draw (v : fgen) : bool := match snd v with 0 :: _ => true | _ => false end.

(* what identifies a run's result in the model: its configuration, the values it drew, whether it
   raised, which task's seed each island got, and - only if some part of the program runs in a
   process-chosen order - the process *)
Definition mres := (Z * list fgen * bool * list Z * Z)%type.

(* model observation of one item *)
Record mobs := { mo_states : list fgen; mo_draws : list fgen; mo_res : option mres }.

Fixpoint run_session (cfg : srs_cfg) (its : list item) (g : fgen) : list mobs :=
  match its with
  | [] => []
  | it :: r =>
      let '(g', t, o) := fexec cfg (it_proc it) (it_prog it) g in
      let raised := outcome_eqb o Raised in
      {| mo_states := g :: ev_states t ++ [g'];
         mo_draws := filter probe_draw (ev_draws t);
         mo_res := if it_run it
                   then Some (it_cfg it, (if raised then [] else ev_draws t), raised, it_aux it,
                              if hash_stable (it_prog it) then 0 else it_proc it + 1)
                   else None |}
      :: run_session cfg r g'
  end.

Fixpoint fgens_eqb (x y : list fgen) : bool :=
  match x, y with
  | [], [] => true
  | u :: x', v :: y' => fgen_eqb u v && fgens_eqb x' y'
  | _, _ => false
  end.

Definition res_eqb (a b : mres) : bool :=
  let '(c1, d1, r1, a1, p1) := a in let '(c2, d2, r2, a2, p2) := b in
  (c1 =? c2) && Bool.eqb r1 r2 && fgens_eqb d1 d2 && zlist_eqb a1 a2 && (p1 =? p2).

Definition mres_raised (r : mres) : bool := let '(_, _, x, _, _) := r in x.

(* canonical output of the model: state ids, draw ids, result ids (runs only), raised flags,
   island assignments *)
Definition outp := (list Z * list Z * list Z * list bool * list Z)%type.

Definition model_out (cfg : srs_cfg) (its : list item) : outp :=
  let ms := run_session cfg its g_init in
  (renumber fgen_eqb (flat_map mo_states ms),
   renumber fgen_eqb (flat_map mo_draws ms),
   renumber res_eqb (flat_map (fun m => match mo_res m with Some r => [r] | None => [] end) ms),
   flat_map (fun m => match mo_res m with Some r => [mres_raised r] | None => [] end) ms,
   flat_map (fun it => if it_run it then it_aux it else []) its).

Definition impl_out (its : list item) : outp :=
  (flat_map (fun it => ob_pre it :: ob_inner it ++ [ob_post it]) its,
   flat_map ob_draws its,
   flat_map (fun it => if it_run it then [ob_res it] else []) its,
   flat_map (fun it => if it_run it then [ob_raised it] else []) its,
   flat_map (fun it => if it_run it then ob_aux it else []) its).

Fixpoint blist_eqb (a b : list bool) : bool :=
  match a, b with
  | [], [] => true
  | x :: a', y :: b' => Bool.eqb x y && blist_eqb a' b'
  | _, _ => false
  end.

(* result ids: every equality the model forces must hold in the implementation.  The converse is not
   demanded: a result is a coarse observable (a calibration's champion, integer counts), so two runs the
   model keeps apart - unseeded runs from different states - may coincide by chance.  (Generator states
   and drawn values are compared both ways: there a coincidence is a hash collision.) *)
Fixpoint ids_refine (m i : list Z) : bool :=
  match m, i with
  | [], [] => true
  | x :: m', y :: i' =>
      (fix same (m2 i2 : list Z) : bool :=
         match m2, i2 with
         | [], [] => true
         | u :: m3, v :: i3 => (if x =? u then y =? v else true) && same m3 i3
         | _, _ => false
         end) m' i' && ids_refine m' i'
  | _, _ => false
  end.

Definition out_eqb (a b : outp) : bool :=
  let '(s1, d1, r1, x1, a1) := a in let '(s2, d2, r2, x2, a2) := b in
  zlist_eqb s1 s2 && zlist_eqb d1 d2 && ids_refine r1 r2 && blist_eqb x1 x2 && zlist_eqb a1 a2.

(* the brackets the implementation really opened - with which seeds, in which order - are the ones the
   model's program opens when one thread runs it *)
Definition trace_matches (it : item) : bool :=
  if it_run it then
    let m := map bkind (btrace (it_prog it)) in
    let o := map bkind (ob_trace it) in
    if it_collapse it then same_blocks m o else bkinds_eqb m o
  else true.

(* hypothesis of the single-thread theorems, checked on what was observed *)
Definition trace_lifo (it : item) : bool := lifo (ob_trace it).

Definition case_mismatch (cfg : srs_cfg) (its : list item) : bool :=
  negb (out_eqb (model_out cfg its) (impl_out its) && forallb trace_matches its).

(* ---- the specification, judged on the implementation's observations only ---- *)

(* restored: a seeded (or closed) item leaves the generator exactly as it found it *)
Definition spec_restored (it : item) : bool :=
  if it_run it && (it_seeded it || it_closed it) then ob_pre it =? ob_post it else true.

(* reproducible: two seeded (or closed) items of the same configuration agree on everything
   observable, whatever state each started from, whichever interpreter process (and hash seed) ran
   them, through whichever door the seed came in, and whatever order the island tasks finished in *)
Definition it_det (it : item) : bool := it_seeded it || it_closed it.
Definition spec_repro_pair (a b : item) : bool :=
  if it_run a && it_run b && it_det a && it_det b && (it_cfg a =? it_cfg b)
  then (ob_res a =? ob_res b) && Bool.eqb (ob_raised a) (ob_raised b) && zlist_eqb (ob_draws a) (ob_draws b)
       && zlist_eqb (ob_aux a) (ob_aux b)
  else true.

(* not made deterministic: two unseeded items of the same configuration started from different
   states must not end in the same state *)
Definition spec_noleak_pair (a b : item) : bool :=
  if it_run a && it_run b && negb (it_seeded a) && negb (it_seeded b) && (it_cfg a =? it_cfg b)
     && negb (ob_pre a =? ob_pre b)
  then negb (ob_post a =? ob_post b)
  else true.

Fixpoint all_pairs {A} (f : A -> A -> bool) (l : list A) : bool :=
  match l with [] => true | x :: r => forallb (f x) r && all_pairs f r end.

Definition spec_holds (its : list item) : bool :=
  forallb spec_restored its && all_pairs spec_repro_pair its && all_pairs spec_noleak_pair its.

Fixpoint indices_where {A} (f : A -> bool) (l : list A) (i : Z) : list Z :=
  match l with [] => [] | x :: r => (if f x then [i] else []) ++ indices_where f r (i + 1) end.

Definition mismatches (cfg : srs_cfg) (cases : list (list item)) : list Z :=
  indices_where (case_mismatch cfg) cases 0.
Definition violations (cases : list (list item)) : list Z :=
  indices_where (fun c => negb (spec_holds c)) cases 0.
(* sessions in which some item's brackets were NOT used by one thread of control *)
Definition interleaved (cases : list (list item)) : list Z :=
  indices_where (fun c => negb (forallb trace_lifo c)) cases 0.
