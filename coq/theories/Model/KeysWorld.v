(* C08 — derived processors (no proofs in this file).

   Sweeps, calibration and Processor.replace never assign on the processor they are given: they derive a copy
   (copy.deepcopy -> Processor.__deepcopy__ -> ModelGroup.__deepcopy__ -> default deep copies) and assign through
   keys on the copy.  "Assigning through a key changes that setting and nothing else" therefore also speaks about
   the processor the copy was derived from and about its other copies.

   Mirrors, as coded:
     pyxel/pipelines/processor.py     Processor.__deepcopy__, Processor.replace
     pyxel/pipelines/model_group.py   ModelGroup.__deepcopy__
     pyxel/observation/misc.py        create_new_processor
     pyxel/calibration/fitting_datatree.py  build_processors, ModelFittingDataTree.update_processor

   A copy has the same settings tree as its source.  What distinguishes copies is which OBJECTS they share with the
   source: a copy policy (regenerated from the source, Gen_C08.v) says for every field that a custom __deepcopy__
   handles whether the object is duplicated (Deep), handed over as it is (Alias) or not carried (Drop); everything
   else is CPython's default deep copy.  An object shared between two processors sits at the same path in both, and
   an assignment whose walk ends inside a shared object is an assignment in both. *)
From Coq Require Import ZArith List Bool String.
From PyxelV Require Import Model.Keys.
Import ListNotations.
Open Scope string_scope.

Inductive cmode := Deep | Alias | Drop.

Definition is_deep (m : cmode) : bool := match m with Deep => true | _ => false end.
Definition is_alias (m : cmode) : bool := match m with Alias => true | _ => false end.

Record cpolicy := mkCPolicy {
  pol_root : list (string * cmode);     (* Processor.__deepcopy__: attribute -> mode *)
  pol_group : list (string * cmode)     (* ModelGroup.__deepcopy__: attribute -> mode ("models") *)
}.

Fixpoint mode_of (l : list (string * cmode)) (n : string) : cmode :=
  match l with
  | [] => Deep                           (* not handled by a custom hook: default deep copy *)
  | (m, c) :: r => if String.eqb n m then c else mode_of r n
  end.

Definition is_node (t : tree) : bool := match t with Node _ _ => true | Leaf _ => false end.

Definition group_alias (pol : cpolicy) : bool := is_alias (mode_of (pol_group pol) "models").

(* top-most paths of the objects a copy shares with its source, below the first level *)
Fixpoint alias_tree (galias : bool) (pre : list string) (t : tree) {struct t} : list (list string) :=
  match t with
  | Leaf _ => []
  | Node k ms => alias_ms galias (match k with NGroup => galias | _ => false end) pre ms
  end
with alias_ms (galias here : bool) (pre : list string) (ms : mlist) {struct ms} : list (list string) :=
  match ms with
  | MNil => []
  | MCons n mk c r =>
      ((if here && is_item mk && is_node c then [pre ++ [n]] else alias_tree galias (pre ++ [n]) c)
       ++ alias_ms galias here pre r)%list
  end.

Fixpoint alias_root (pol : cpolicy) (ms : mlist) : list (list string) :=
  match ms with
  | MNil => []
  | MCons n mk c r =>
      ((if is_alias (mode_of (pol_root pol) n) && is_node c then [[n]] else alias_tree (group_alias pol) [n] c)
       ++ alias_root pol r)%list
  end.

(* site = does the entry point copy the processor it is given at all (Alias = it assigns on the caller's object) *)
Definition alias_paths (pol : cpolicy) (site : cmode) (t : tree) : list (list string) :=
  if is_deep site then match t with Leaf _ => [] | Node _ ms => alias_root pol ms end
  else [[]].

(* the walk of the key ends inside an object that the copy shares with the source *)
Definition shares_landing (al : list (list string)) (k : list string) : bool :=
  match split_last k with None => false | Some (b, _) => existsb (fun p => is_prefix p b) al end.

(* the settings of the SOURCE after `key := raw` was assigned on a copy derived under this policy *)
Definition orig_after (pol : cpolicy) (site : cmode) (t : tree) (k : list string) (raw : pyval) : tree :=
  if shares_landing (alias_paths pol site t) k
  then match pset t k raw with Ok t' => t' | Raise _ => t end
  else t.

Definition policy_deep (pol : cpolicy) : bool :=
  forallb (fun x => is_deep (snd x)) (pol_root pol) && forallb (fun x => is_deep (snd x)) (pol_group pol).

Fixpoint site_mode (sites : list (string * cmode)) (via : string) : cmode :=
  match sites with
  | [] => Deep                           (* "deepcopy": the caller copies by hand *)
  | (s, m) :: r => if String.eqb via s then m else site_mode r via
  end.

Definition sites_deep (sites : list (string * cmode)) : bool := forallb (fun x => is_deep (snd x)) sites.

(* ------------------------------------------------------------------------------------ correspondence *)

Record wcase := {
  w_k : kcase;                       (* source snapshot, key, value; has; outcome, snapshot and read-back of the COPY *)
  w_via : string;                    (* entry point that derived the copy *)
  w_orig_after : tree;               (* the source after the assignment on the copy *)
  w_sib_before : tree;               (* another copy, derived before the assignment ... *)
  w_sib_after : tree;                (* ... and looked at again after it *)
  w_later : tree;                    (* a copy derived after the assignment *)
  w_shared : list (list string)      (* top-most paths whose object is the same in two of these processors *)
}.

Definition snap (c : wcase) (t : tree) : list fentry := snapshot (c_ignore (w_k c)) t.

Fixpoint key_mem (k : list string) (l : list (list string)) : bool :=
  match l with [] => false | x :: r => if key_eqb k x then true else key_mem k r end.
Definition keys_same (a b : list (list string)) : bool :=
  forallb (fun k => key_mem k b) a && forallb (fun k => key_mem k a) b.

(* which part of the model differs from the implementation: 0 = nothing, 1..4 = the copy itself (case_mismatch) *)
Definition wcase_mismatch (pol : cpolicy) (sites : list (string * cmode)) (c : wcase) : nat :=
  let k := w_k c in
  let site := site_mode sites (w_via c) in
  match case_mismatch k with
  | O =>
      if negb (same_set (snap c (orig_after pol site (c_tree k) (c_key k) (c_raw k))) (snap c (w_orig_after c))) then 5
      else if negb (keys_same (alias_paths pol site (c_tree k)) (w_shared c)) then 6
      else if negb (same_set (snap c (c_tree k)) (snap c (w_sib_before c))) then 7
      else 0
  | n => n
  end%nat.

(* -- specification: judges the IMPLEMENTATION's observations only -- *)

(* clause 6: the processor a copy was derived from keeps every setting *)
Definition viol_source_changed (c : wcase) : bool :=
  negb (same_set (snap c (c_tree (w_k c))) (snap c (w_orig_after c))).

(* clause 7: so does every other copy *)
Definition viol_sibling_changed (c : wcase) : bool :=
  negb (same_set (snap c (w_sib_before c)) (snap c (w_sib_after c))).

(* clause 8: and a copy derived afterwards starts from the source's settings, not from the assigned ones *)
Definition viol_later_differs (c : wcase) : bool :=
  negb (same_set (snap c (c_tree (w_k c))) (snap c (w_later c))).

Definition wcase_report (pol : cpolicy) (sites : list (string * cmode)) (c : wcase) : Z :=
  let b (f : wcase -> bool) (w : Z) := if f c then w else 0%Z in
  let kr := case_report (w_k c) in
  (Z.of_nat (wcase_mismatch pol sites c) + 10 * ((kr / 10)
     + b viol_source_changed 32 + b viol_sibling_changed 64 + b viol_later_differs 128))%Z.

Definition wreport (pol : cpolicy) (sites : list (string * cmode)) (cs : list wcase) : list Z :=
  map (wcase_report pol sites) cs.
