(* Executable binary64 model of the three analog-to-digital converters (C16).
   pyxel/models/readout_electronics/simple_adc.py  apply_simple_adc
   pyxel/models/readout_electronics/sar_adc.py     apply_sar_adc
   pyxel/models/readout_electronics/sar_adc_with_noise.py  apply_sar_adc_with_noise (noise = 0)
   The dtype chain (pyxel/util/misc.py get_dtype) is a parameter: the check instantiates it with the
   table regenerated from the source. *)
From Coq Require Import ZArith List Bool.
From Flocq Require Import Core BinarySingleNaN.
From PyxelV Require Import Lib.B64.
Import ListNotations.
Open Scope Z_scope.

(* get_dtype as a chain of closed integer bands: (lo, hi, width in bits) tried in order *)
Definition dtype_chain := list (Z * Z * Z).

Fixpoint chain_width (ch : dtype_chain) (bits : Z) : option Z :=
  match ch with
  | [] => None                       (* the final else: raise ValueError *)
  | (lo, hi, w) :: rest => if (lo <=? bits) && (bits <=? hi) then Some w else chain_width rest bits
  end.

(* ---------------------------------------------------------------- simple ADC *)

(* voltage = asarray(signal, dtype=float): a float32/float16 frame is converted exactly to binary64, so
   the model takes the voltages as binary64 numbers whatever the precision of the frame.
   output = (clip(voltage, vmin, vmax) - vmin) * max_code / (vmax - vmin), all in binary64 *)
Definition simple_scaled (bits : Z) (vmin vmax x : b64) : b64 :=
  bdiv (bmul (bsub (bclip x vmin vmax) vmin) (bofZ (2 ^ bits - 1))) (bsub vmax vmin).

(* max_code = 2**bit_resolution - 1 (a Python integer, exact) *)
Definition max_code (bits : Z) : Z := 2 ^ bits - 1.

(* top = float(max_code); if top > max_code: top = nextafter(top, 0.0)
   -- the largest double that does not exceed full scale (Python compares a float with an int exactly;
   float(int) is correctly rounded, so top is an integer-valued double) *)
Definition top_float (bits : Z) : b64 :=
  let t := bofZ (max_code bits) in
  match btruncZ t with
  | Some z => if max_code bits <? z then bpred t else t
  | None => t
  end.

(* np.minimum(np.trunc(output), top) *)
Definition simple_clamped (bits : Z) (vmin vmax x : b64) : b64 :=
  bminimum (btrunc (simple_scaled bits vmin vmax x)) (top_float bits).

(* np.asarray(max_code, dtype=np.uint64).astype(dtype): an integer -> integer cast, which wraps modulo
   2^w (defined); the theorems show that for the width get_dtype chooses nothing wraps *)
Definition full_scale_as (w bits : Z) : Z := max_code bits mod 2 ^ w.

(* digitized = minimum(trunc(output), top).astype(dtype); digitized[voltage >= voltage_max] = full scale.
   None = the float -> unsigned C cast is undefined for this value (NaN, or a value that does not fit) *)
Definition simple_code (w bits : Z) (vmin vmax x : b64) : option Z :=
  if bge x vmax then Some (full_scale_as w bits)
  else cast_unsigned w (btruncZ (simple_clamped bits vmin vmax x)).

Definition simple_frame (ch : dtype_chain) (bits : Z) (vmin vmax : b64) (xs : list b64)
  : option (Z * list (option Z)) :=
  match chain_width ch bits with
  | None => None
  | Some w => Some (w, map (simple_code w bits vmin vmax) xs)
  end.

(* ---------------------------------------------------------------- SAR ADC *)

(* The code is accumulated in the unsigned integer output type with Python integer bit weights
   (exact), the remainder (a binary64 copy of the signal, whatever the precision of the frame) and the
   reference voltage are binary64. *)
Record sar_state := { acc : Z; rem : b64; ref : b64 }.

Definition digital_value (bits i : Z) : Z := 2 ^ (bits - (i + 1)).

(* one pass of the loop body for bit index i (0 = most significant) *)
Definition sar_step (bits : Z) (s : sar_state) (i : Z) : sar_state :=
  let hit := bge (rem s) (ref s) in
  {| acc := if hit then acc s + digital_value bits i else acc s;
     rem := if hit then bsub (rem s) (ref s) else rem s;
     ref := bdiv (ref s) (bofZ 2) |}.

Fixpoint sar_loop (bits : Z) (n : nat) (i : Z) (s : sar_state) : sar_state :=
  match n with
  | O => s
  | S n' => sar_loop bits n' (i + 1) (sar_step bits s i)
  end.

Definition sar_acc (bits : Z) (vmax x : b64) : Z :=
  acc (sar_loop bits (Z.to_nat bits) 0
         {| acc := 0; rem := x; ref := bdiv vmax (bofZ 2) |}).

(* additions in an unsigned type of w bits wrap modulo 2^w; the theorems show no wrap happens *)
Definition sar_code (w bits : Z) (vmax x : b64) : option Z :=
  cast_unsigned w (Some (sar_acc bits vmax x)).

Definition sar_frame (ch : dtype_chain) (bits : Z) (vmax : b64) (xs : list b64)
  : option (Z * list (option Z)) :=
  match chain_width ch bits with
  | None => None
  | Some w => Some (w, map (sar_code w bits vmax) xs)
  end.

(* The noisy variant with all strengths and noises 0:  ref += 0.0 ; mask ; acc += dv*mask (integers) ;
   rem -= ref*mask ; ref /= 2.  Written out as the code does it (multiplications by the 0/1 mask). *)
Definition sar0_step (bits : Z) (s : sar_state) (i : Z) : sar_state :=
  let r := badd (ref s) pzero in
  let hit := bge (rem s) r in
  let mask := if hit then bofZ 1 else pzero in
  {| acc := acc s + digital_value bits i * (if hit then 1 else 0);
     rem := bsub (rem s) (bmul r mask);
     ref := bdiv r (bofZ 2) |}.

Fixpoint sar0_loop (bits : Z) (n : nat) (i : Z) (s : sar_state) : sar_state :=
  match n with
  | O => s
  | S n' => sar0_loop bits n' (i + 1) (sar0_step bits s i)
  end.

Definition sar0_code (w bits : Z) (vmax x : b64) : option Z :=
  cast_unsigned w (Some (acc (sar0_loop bits (Z.to_nat bits) 0
         {| acc := 0; rem := x; ref := bdiv vmax (bofZ 2) |}))).

Definition sar0_frame (ch : dtype_chain) (bits : Z) (vmax : b64) (xs : list b64)
  : option (Z * list (option Z)) :=
  match chain_width ch bits with
  | None => None
  | Some w => Some (w, map (sar0_code w bits vmax) xs)
  end.

(* ---------------------------------------------------------------- the property's right-hand side
   (the specification the implementation's output is judged against; also the search oracle) *)

Fixpoint sortedZ (l : list Z) : bool :=
  match l with
  | a :: ((b :: _) as t) => (a <=? b) && sortedZ t
  | _ => true
  end.

(* the frames the specification speaks about: voltages given in non-decreasing order, no NaN *)
Fixpoint sortedB (l : list b64) : bool :=
  match l with
  | a :: ((b :: _) as t) => ble a b && sortedB t
  | _ => true
  end.

Definition no_nan (l : list b64) : bool := forallb (fun x => negb (bis_nan x)) l.
Definition all_finite (l : list b64) : bool := forallb (fun x => is_finite x) l.

Definition in_code_range (bits c : Z) : bool := (0 <=? c) && (c <=? 2 ^ bits - 1).

(* one voltage / code pair of the simple converter *)
Definition simple_point_ok (bits : Z) (vmin vmax x : b64) (c : Z) : bool :=
  in_code_range bits c
  && (if ble x vmin then c =? 0 else true)
  && (if bge x vmax then c =? 2 ^ bits - 1 else true).

(* a frame whose voltages are given in non-decreasing order (NaN-free): codes must be sorted *)
Definition simple_spec (bits : Z) (vmin vmax : b64) (xs : list b64) (w : Z) (cs : list Z) : bool :=
  (2 ^ bits - 1 <? 2 ^ w) && (Nat.eqb (length xs) (length cs))
  && forallb (fun xc => simple_point_ok bits vmin vmax (fst xc) (snd xc)) (combine xs cs)
  && sortedZ cs.

Definition sar_spec (bits : Z) (xs : list b64) (w : Z) (cs : list Z) : bool :=
  (2 ^ bits - 1 <? 2 ^ w) && (Nat.eqb (length xs) (length cs))
  && forallb (in_code_range bits) cs && sortedZ cs.

(* ---------------------------------------------------------------- comparison helpers for case files *)

Definition optZ_agree (m : option Z) (o : Z) : bool :=
  match m with Some v => v =? o | None => true end.   (* undefined cast: nothing to compare *)

Fixpoint list_agree (ms : list (option Z)) (os : list Z) : bool :=
  match ms, os with
  | [], [] => true
  | m :: ms', o :: os' => optZ_agree m o && list_agree ms' os'
  | _, _ => false
  end.

(* observed: None = the implementation raised; Some (width, codes) otherwise *)
Definition frame_agree (m : option (Z * list (option Z))) (o : option (Z * list Z)) : bool :=
  match m, o with
  | None, None => true
  | Some (w, ms), Some (w', os) => (w =? w') && list_agree ms os
  | _, _ => false
  end.

Fixpoint indices_where {A} (f : A -> bool) (l : list A) (i : Z) : list Z :=
  match l with
  | [] => []
  | a :: t => if f a then i :: indices_where f t (i + 1) else indices_where f t (i + 1)
  end.

Inductive adc_kind := Simple | Sar | Sar0.

Record adc_case := {
  kind : adc_kind; bits : Z; vmin : b64; vmax : b64; xs : list b64;   (* xs sorted ascending *)
  observed : option (Z * list Z);
  twin : option (list Z)   (* Sar0 only: what the noise-free converter returned on the same frame *)
}.
(* All three converters work on a binary64 copy of the signal frame (np.asarray / np.array with
   dtype=float), so a float32 / float16 frame is handed to the model as the binary64 numbers it converts
   to exactly: the model applies to every frame precision and is always compared. *)

Fixpoint listZ_eqb (a b : list Z) : bool :=
  match a, b with
  | [], [] => true
  | x :: a', y :: b' => (x =? y) && listZ_eqb a' b'
  | _, _ => false
  end.

Definition model_of (ch : dtype_chain) (c : adc_case) : option (Z * list (option Z)) :=
  match kind c with
  | Simple => simple_frame ch (bits c) (vmin c) (vmax c) (xs c)
  | Sar => sar_frame ch (bits c) (vmax c) (xs c)
  | Sar0 => sar0_frame ch (bits c) (vmax c) (xs c)
  end.

Definition case_mismatch (ch : dtype_chain) (c : adc_case) : bool :=
  negb (frame_agree (model_of ch c) (observed c)).

(* the allowed settings: 4 <= bits <= 64 and vmin < vmax; on them the implementation must not raise *)
Definition case_violates (c : adc_case) : bool :=
  match observed c with
  | None => true
  | Some (w, cs) =>
      negb (match kind c with
            | Simple => simple_spec (bits c) (vmin c) (vmax c) (xs c) w cs
            | Sar => sar_spec (bits c) (xs c) w cs
            | Sar0 => sar_spec (bits c) (xs c) w cs
                      && match twin c with Some ts => listZ_eqb ts cs | None => false end
            end)
  end.

Definition mismatches ch (cs : list adc_case) : list Z := indices_where (case_mismatch ch) cs 0.
Definition violations (cs : list adc_case) : list Z := indices_where case_violates cs 0.
