(* Executable binary64 model of the three analog-to-digital converters (C16).
   pyxel/models/readout_electronics/simple_adc.py  apply_simple_adc
   pyxel/models/readout_electronics/sar_adc.py     apply_sar_adc
   pyxel/models/readout_electronics/sar_adc_with_noise.py  apply_sar_adc_with_noise (noise = 0)
   The dtype chain (pyxel/util/misc.py get_dtype) is a parameter: the check instantiates it with the
   table regenerated from the source. *)
From Coq Require Import ZArith List Bool.
From Flocq Require Import Core BinarySingleNaN.
From PyxelV Require Import Lib.B64.
Import ListNotations.
Open Scope Z_scope.

(* get_dtype as a chain of closed integer bands: (lo, hi, width in bits) tried in order *)
Definition dtype_chain := list (Z * Z * Z).

Fixpoint chain_width (ch : dtype_chain) (bits : Z) : option Z :=
  match ch with
  | [] => None                       (* the final else: raise ValueError *)
  | (lo, hi, w) :: rest => if (lo <=? bits) && (bits <=? hi) then Some w else chain_width rest bits
  end.

(* ---------------------------------------------------------------- simple ADC *)

(* voltage = asarray(signal, dtype=float): a float32/float16 frame is converted exactly to binary64, so
   the model takes the voltages as binary64 numbers whatever the precision of the frame.
   output = (clip(voltage, vmin, vmax) - vmin) * max_code / (vmax - vmin), all in binary64 *)
Definition simple_scaled (bits : Z) (vmin vmax x : b64) : b64 :=
  bdiv (bmul (bsub (bclip x vmin vmax) vmin) (bofZ (2 ^ bits - 1))) (bsub vmax vmin).

(* max_code = 2**bit_resolution - 1 (a Python integer, exact) *)
Definition max_code (bits : Z) : Z := 2 ^ bits - 1.

(* top = float(max_code); if top > max_code: top = nextafter(top, 0.0)
   -- the largest double that does not exceed full scale (Python compares a float with an int exactly;
   float(int) is correctly rounded, so top is an integer-valued double) *)
Definition top_float (bits : Z) : b64 :=
  let t := bofZ (max_code bits) in
  match btruncZ t with
  | Some z => if max_code bits <? z then bpred t else t
  | None => t
  end.

(* np.minimum(np.trunc(output), top) *)
Definition simple_clamped (bits : Z) (vmin vmax x : b64) : b64 :=
  bminimum (btrunc (simple_scaled bits vmin vmax x)) (top_float bits).

(* np.asarray(max_code, dtype=np.uint64).astype(dtype): an integer -> integer cast, which wraps modulo
   2^w (defined); the theorems show that for the width get_dtype chooses nothing wraps *)
Definition full_scale_as (w bits : Z) : Z := max_code bits mod 2 ^ w.

(* digitized = minimum(trunc(output), top).astype(dtype); digitized[voltage >= voltage_max] = full scale.
   None = the float -> unsigned C cast is undefined for this value (NaN, or a value that does not fit) *)
Definition simple_code (w bits : Z) (vmin vmax x : b64) : option Z :=
  if bge x vmax then Some (full_scale_as w bits)
  else cast_unsigned w (btruncZ (simple_clamped bits vmin vmax x)).

Definition simple_frame (ch : dtype_chain) (bits : Z) (vmin vmax : b64) (xs : list b64)
  : option (Z * list (option Z)) :=
  match chain_width ch bits with
  | None => None
  | Some w => Some (w, map (simple_code w bits vmin vmax) xs)
  end.

(* ---------------------------------------------------------------- SAR ADC *)

(* The code is accumulated in the unsigned integer output type with Python integer bit weights
   (exact), the remainder (a binary64 copy of the signal, whatever the precision of the frame) and the
   reference voltage are binary64. *)
Record sar_state := { acc : Z; rem : b64; ref : b64 }.

Definition digital_value (bits i : Z) : Z := 2 ^ (bits - (i + 1)).

(* one pass of the loop body for bit index i (0 = most significant) *)
Definition sar_step (bits : Z) (s : sar_state) (i : Z) : sar_state :=
  let hit := bge (rem s) (ref s) in
  {| acc := if hit then acc s + digital_value bits i else acc s;
     rem := if hit then bsub (rem s) (ref s) else rem s;
     ref := bdiv (ref s) (bofZ 2) |}.

Fixpoint sar_loop (bits : Z) (n : nat) (i : Z) (s : sar_state) : sar_state :=
  match n with
  | O => s
  | S n' => sar_loop bits n' (i + 1) (sar_step bits s i)
  end.

Definition sar_acc (bits : Z) (vmax x : b64) : Z :=
  acc (sar_loop bits (Z.to_nat bits) 0
         {| acc := 0; rem := x; ref := bdiv vmax (bofZ 2) |}).

(* additions in an unsigned type of w bits wrap modulo 2^w; the theorems show no wrap happens *)
Definition sar_code (w bits : Z) (vmax x : b64) : option Z :=
  cast_unsigned w (Some (sar_acc bits vmax x)).

Definition sar_frame (ch : dtype_chain) (bits : Z) (vmax : b64) (xs : list b64)
  : option (Z * list (option Z)) :=
  match chain_width ch bits with
  | None => None
  | Some w => Some (w, map (sar_code w bits vmax) xs)
  end.

(* The noisy variant with all strengths and noises 0:  ref += 0.0 ; mask ; acc += dv*mask (integers) ;
   rem -= ref*mask ; ref /= 2.  Written out as the code does it (multiplications by the 0/1 mask). *)
Definition sar0_step (bits : Z) (s : sar_state) (i : Z) : sar_state :=
  let r := badd (ref s) pzero in
  let hit := bge (rem s) r in
  let mask := if hit then bofZ 1 else pzero in
  {| acc := acc s + digital_value bits i * (if hit then 1 else 0);
     rem := bsub (rem s) (bmul r mask);
     ref := bdiv r (bofZ 2) |}.

Fixpoint sar0_loop (bits : Z) (n : nat) (i : Z) (s : sar_state) : sar_state :=
  match n with
  | O => s
  | S n' => sar0_loop bits n' (i + 1) (sar0_step bits s i)
  end.

Definition sar0_code (w bits : Z) (vmax x : b64) : option Z :=
  cast_unsigned w (Some (acc (sar0_loop bits (Z.to_nat bits) 0
         {| acc := 0; rem := x; ref := bdiv vmax (bofZ 2) |}))).

Definition sar0_frame (ch : dtype_chain) (bits : Z) (vmax : b64) (xs : list b64)
  : option (Z * list (option Z)) :=
  match chain_width ch bits with
  | None => None
  | Some w => Some (w, map (sar0_code w bits vmax) xs)
  end.

(* The noisy variant in general: the perturbation np.random.normal(strengths[i], noises[i]) drawn for bit i
   is a parameter p_i (one value per bit; the check makes the draw the same for every pixel):
   ref += p_i ; mask ; acc += dv*mask ; rem -= ref*mask ; ref /= 2.   sar0 is the case p_i = +0.0. *)
Definition sarp_step (bits : Z) (s : sar_state) (i : Z) (p : b64) : sar_state :=
  let r := badd (ref s) p in
  let hit := bge (rem s) r in
  let mask := if hit then bofZ 1 else pzero in
  {| acc := acc s + digital_value bits i * (if hit then 1 else 0);
     rem := bsub (rem s) (bmul r mask);
     ref := bdiv r (bofZ 2) |}.

Fixpoint sarp_loop (bits : Z) (ps : list b64) (i : Z) (s : sar_state) : sar_state :=
  match ps with
  | [] => s
  | p :: t => sarp_loop bits t (i + 1) (sarp_step bits s i p)
  end.

(* the loop runs over range(adc_bits) and indexes strengths[i], noises[i]: fewer than adc_bits values is an
   IndexError (None); surplus values are never read *)
Definition sarp_acc (bits : Z) (vmax : b64) (ps : list b64) (x : b64) : Z :=
  acc (sarp_loop bits (firstn (Z.to_nat bits) ps) 0 {| acc := 0; rem := x; ref := bdiv vmax (bofZ 2) |}).

Definition sarp_code (w bits : Z) (vmax : b64) (ps : list b64) (x : b64) : option Z :=
  cast_unsigned w (Some (sarp_acc bits vmax ps x)).

Definition sarp_frame (ch : dtype_chain) (bits : Z) (vmax : b64) (ps : list b64) (xs : list b64)
  : option (Z * list (option Z)) :=
  match chain_width ch bits with
  | None => None
  | Some w => if (Z.of_nat (length ps) <? bits) then None else Some (w, map (sarp_code w bits vmax ps) xs)
  end.

(* ---------------------------------------------------------------- the detector-level models
   simple_adc / sar_adc / sar_adc_with_noise: which detector attribute feeds which argument of the
   converter, how the output type is chosen, and that detector.image.array receives the converter's
   result.  The wiring records are REGENERATED from the source (Gen_C16); the functions below give them
   their meaning. *)

Inductive src :=
  | FromBits        (* detector.characteristics.adc_bit_resolution *)
  | FromRangeLo     (* first component of detector.characteristics.adc_voltage_range *)
  | FromRangeHi     (* second component *)
  | FromSignal      (* detector.signal.array *)
  | FromRows        (* detector.geometry.row *)
  | FromCols        (* detector.geometry.col *)
  | FromStrengths   (* the model argument `strengths` as a float array *)
  | FromNoises      (* the model argument `noises` as a float array *)
  | FromOther.      (* anything else *)

Inductive dtype_rule :=
  | DtGetDtypeOf (s : src)               (* get_dtype(s) *)
  | DtOverrideElseGetDtypeOf (s : src)   (* np.dtype(data_type) if data_type else get_dtype(s) *)
  | DtOther.

Record simple_wiring := {
  sw_signal : src; sw_bits : src; sw_vmin : src; sw_vmax : src; sw_dtype : dtype_rule;
  sw_store_image : bool    (* detector.image.array = the converter's result, unchanged, last statement *)
}.
Record sar_wiring := {
  rw_signal : src; rw_rows : src; rw_cols : src; rw_vmin : src; rw_vmax : src; rw_bits : src;
  rw_store_image : bool
}.
Record sar0_wiring := {
  nw_signal : src; nw_rows : src; nw_cols : src; nw_strengths : src; nw_noises : src;
  nw_vmax : src; nw_bits : src;
  nw_guard_strengths : bool;  (* len(strengths) != adc_bit_resolution -> ValueError, before the call *)
  nw_guard_noises : bool;
  nw_store_image : bool
}.

(* a detector as far as the converters are concerned: one row of voltages *)
Record adc_detector := {
  d_bits : Z; d_lo : b64; d_hi : b64; d_signal : list b64; d_rows : Z; d_cols : Z
}.

Definition src_eqb (a b : src) : bool :=
  match a, b with
  | FromBits, FromBits | FromRangeLo, FromRangeLo | FromRangeHi, FromRangeHi | FromSignal, FromSignal
  | FromRows, FromRows | FromCols, FromCols | FromStrengths, FromStrengths | FromNoises, FromNoises => true
  | _, _ => false
  end.

Definition pickZ (s : src) (d : adc_detector) : option Z :=
  match s with FromBits => Some (d_bits d) | FromRows => Some (d_rows d) | FromCols => Some (d_cols d) | _ => None end.
Definition pickF (s : src) (d : adc_detector) : option b64 :=
  match s with FromRangeLo => Some (d_lo d) | FromRangeHi => Some (d_hi d) | _ => None end.
Definition pickL (s : src) (d : adc_detector) : option (list b64) :=
  match s with FromSignal => Some (d_signal d) | _ => None end.

(* the output width: data_type (given as its width in bits) overrides get_dtype *)
Definition pick_width (ch : dtype_chain) (r : dtype_rule) (d : adc_detector) (data_type : option Z) : option Z :=
  match r with
  | DtGetDtypeOf s => match pickZ s d with Some b => chain_width ch b | None => None end
  | DtOverrideElseGetDtypeOf s =>
      match data_type with
      | Some w => Some w
      | None => match pickZ s d with Some b => chain_width ch b | None => None end
      end
  | DtOther => None
  end.

(* what detector.image.array holds after the model ran: None = no image / an exception *)
Definition run_simple (ch : dtype_chain) (w : simple_wiring) (d : adc_detector) (data_type : option Z)
  : option (Z * list (option Z)) :=
  match pickZ (sw_bits w) d, pickF (sw_vmin w) d, pickF (sw_vmax w) d, pickL (sw_signal w) d with
  | Some b, Some lo, Some hi, Some xs =>
      match pick_width ch (sw_dtype w) d data_type with
      | Some wd => if sw_store_image w then Some (wd, map (simple_code wd b lo hi) xs) else None
      | None => None
      end
  | _, _, _, _ => None
  end.

(* the shape arguments must be the detector's own (np.zeros((num_rows, num_cols)) is indexed with a mask
   of the signal's shape) *)
Definition run_sar (ch : dtype_chain) (w : sar_wiring) (d : adc_detector) : option (Z * list (option Z)) :=
  match pickZ (rw_bits w) d, pickF (rw_vmax w) d, pickL (rw_signal w) d, pickZ (rw_rows w) d, pickZ (rw_cols w) d with
  | Some b, Some hi, Some xs, Some r, Some c =>
      if (r =? d_rows d) && (c =? d_cols d) && rw_store_image w then sar_frame ch b hi xs else None
  | _, _, _, _, _ => None
  end.

(* strengths / noises all zero, of length n *)
Definition run_sar0 (ch : dtype_chain) (w : sar0_wiring) (d : adc_detector) (n_strengths n_noises : Z)
  : option (Z * list (option Z)) :=
  if (nw_guard_strengths w && negb (n_strengths =? d_bits d)) || (nw_guard_noises w && negb (n_noises =? d_bits d))
  then None    (* ValueError *)
  else
  match pickZ (nw_bits w) d, pickF (nw_vmax w) d, pickL (nw_signal w) d, pickZ (nw_rows w) d, pickZ (nw_cols w) d with
  | Some b, Some hi, Some xs, Some r, Some c =>
      if (r =? d_rows d) && (c =? d_cols d) && nw_store_image w
         && src_eqb (nw_strengths w) FromStrengths && src_eqb (nw_noises w) FromNoises
      then sar0_frame ch b hi xs else None
  | _, _, _, _, _ => None
  end.

(* the noisy variant with given per-bit perturbations (strengths / noises tuples of adc_bit_resolution elements) *)
Definition run_sarp (ch : dtype_chain) (w : sar0_wiring) (d : adc_detector) (ps : list b64)
  : option (Z * list (option Z)) :=
  match pickZ (nw_bits w) d, pickF (nw_vmax w) d, pickL (nw_signal w) d, pickZ (nw_rows w) d, pickZ (nw_cols w) d with
  | Some b, Some hi, Some xs, Some r, Some c =>
      if (r =? d_rows d) && (c =? d_cols d) && nw_store_image w
         && src_eqb (nw_strengths w) FromStrengths && src_eqb (nw_noises w) FromNoises
      then sarp_frame ch b hi ps xs else None
  | _, _, _, _, _ => None
  end.

(* the wiring the property text describes *)
Definition simple_wiring_ok (w : simple_wiring) : bool :=
  src_eqb (sw_signal w) FromSignal && src_eqb (sw_bits w) FromBits && src_eqb (sw_vmin w) FromRangeLo
  && src_eqb (sw_vmax w) FromRangeHi
  && match sw_dtype w with DtGetDtypeOf FromBits | DtOverrideElseGetDtypeOf FromBits => true | _ => false end
  && sw_store_image w.
Definition sar_wiring_ok (w : sar_wiring) : bool :=
  src_eqb (rw_signal w) FromSignal && src_eqb (rw_rows w) FromRows && src_eqb (rw_cols w) FromCols
  && src_eqb (rw_vmax w) FromRangeHi && src_eqb (rw_bits w) FromBits && rw_store_image w.
Definition sar0_wiring_ok (w : sar0_wiring) : bool :=
  src_eqb (nw_signal w) FromSignal && src_eqb (nw_rows w) FromRows && src_eqb (nw_cols w) FromCols
  && src_eqb (nw_strengths w) FromStrengths && src_eqb (nw_noises w) FromNoises
  && src_eqb (nw_vmax w) FromRangeHi && src_eqb (nw_bits w) FromBits
  && nw_guard_strengths w && nw_guard_noises w && nw_store_image w.

(* ---------------------------------------------------------------- the property's right-hand side
   (the specification the implementation's output is judged against; also the search oracle) *)

Fixpoint sortedZ (l : list Z) : bool :=
  match l with
  | a :: ((b :: _) as t) => (a <=? b) && sortedZ t
  | _ => true
  end.

(* the frames the specification speaks about: voltages given in non-decreasing order, no NaN *)
Fixpoint sortedB (l : list b64) : bool :=
  match l with
  | a :: ((b :: _) as t) => ble a b && sortedB t
  | _ => true
  end.

Definition no_nan (l : list b64) : bool := forallb (fun x => negb (bis_nan x)) l.

Definition in_code_range (bits c : Z) : bool := (0 <=? c) && (c <=? 2 ^ bits - 1).

(* one voltage / code pair of the simple converter *)
Definition simple_point_ok (bits : Z) (vmin vmax x : b64) (c : Z) : bool :=
  in_code_range bits c
  && (if ble x vmin then c =? 0 else true)
  && (if bge x vmax then c =? 2 ^ bits - 1 else true).

(* a frame whose voltages are given in non-decreasing order (NaN-free): codes must be sorted *)
Definition simple_spec (bits : Z) (vmin vmax : b64) (xs : list b64) (w : Z) (cs : list Z) : bool :=
  (2 ^ bits - 1 <? 2 ^ w) && (Nat.eqb (length xs) (length cs))
  && forallb (fun xc => simple_point_ok bits vmin vmax (fst xc) (snd xc)) (combine xs cs)
  && sortedZ cs.

Definition sar_spec (bits : Z) (xs : list b64) (w : Z) (cs : list Z) : bool :=
  (2 ^ bits - 1 <? 2 ^ w) && (Nat.eqb (length xs) (length cs))
  && forallb (in_code_range bits) cs && sortedZ cs.

(* with arbitrary perturbations only the bounds and the type width are demanded *)
Definition noisy_spec (bits : Z) (xs : list b64) (w : Z) (cs : list Z) : bool :=
  (2 ^ bits - 1 <? 2 ^ w) && (Nat.eqb (length xs) (length cs)) && forallb (in_code_range bits) cs.

(* ---------------------------------------------------------------- comparison helpers for case files *)

Definition optZ_agree (m : option Z) (o : Z) : bool :=
  match m with Some v => v =? o | None => true end.   (* undefined cast: nothing to compare *)

Fixpoint list_agree (ms : list (option Z)) (os : list Z) : bool :=
  match ms, os with
  | [], [] => true
  | m :: ms', o :: os' => optZ_agree m o && list_agree ms' os'
  | _, _ => false
  end.

(* observed: None = the implementation raised; Some (width, codes) otherwise *)
Definition frame_agree (m : option (Z * list (option Z))) (o : option (Z * list Z)) : bool :=
  match m, o with
  | None, None => true
  | Some (w, ms), Some (w', os) => (w =? w') && list_agree ms os
  | _, _ => false
  end.

Fixpoint indices_where {A} (f : A -> bool) (l : list A) (i : Z) : list Z :=
  match l with
  | [] => []
  | a :: t => if f a then i :: indices_where f t (i + 1) else indices_where f t (i + 1)
  end.

Inductive adc_kind := Simple | Sar | Sar0 | Sarp.

Record adc_case := {
  kind : adc_kind; bits : Z; vmin : b64; vmax : b64; xs : list b64;   (* xs sorted ascending *)
  observed : option (Z * list Z);
  twin : option (list Z);  (* Sar0 only: what the noise-free converter returned on the same frame *)
  via_model : bool;        (* true: through the detector-level model (simple_adc / sar_adc / sar_adc_with_noise)
                              on a 1 x n detector; false: the converter function called directly *)
  data_type : option Z;    (* Simple only: width of an explicit output type (data_type= / dtype=) *)
  n_strengths : Z; n_noises : Z;  (* Sar0 through the model: lengths of the two argument tuples *)
  perturb : list b64       (* Sarp only: the perturbation of each bit, strengths[i] + noises[i] * z_i *)
}.
(* All three converters work on a binary64 copy of the signal frame (np.asarray / np.array with
   dtype=float), so a float32 / float16 frame is handed to the model as the binary64 numbers it converts
   to exactly: the model applies to every frame precision and is always compared. *)

Fixpoint listZ_eqb (a b : list Z) : bool :=
  match a, b with
  | [], [] => true
  | x :: a', y :: b' => (x =? y) && listZ_eqb a' b'
  | _, _ => false
  end.

Definition det_of (c : adc_case) : adc_detector :=
  {| d_bits := bits c; d_lo := vmin c; d_hi := vmax c; d_signal := xs c;
     d_rows := 1; d_cols := Z.of_nat (length (xs c)) |}.

Definition model_of (ch : dtype_chain) (sw : simple_wiring) (rw : sar_wiring) (nw : sar0_wiring)
  (c : adc_case) : option (Z * list (option Z)) :=
  if via_model c then
    match kind c with
    | Simple => run_simple ch sw (det_of c) (data_type c)
    | Sar => run_sar ch rw (det_of c)
    | Sar0 => run_sar0 ch nw (det_of c) (n_strengths c) (n_noises c)
    | Sarp => run_sarp ch nw (det_of c) (perturb c)
    end
  else
    match kind c with
    | Simple => match data_type c with
                | Some wd => Some (wd, map (simple_code wd (bits c) (vmin c) (vmax c)) (xs c))
                | None => simple_frame ch (bits c) (vmin c) (vmax c) (xs c)
                end
    | Sar => sar_frame ch (bits c) (vmax c) (xs c)
    | Sar0 => sar0_frame ch (bits c) (vmax c) (xs c)
    | Sarp => sarp_frame ch (bits c) (vmax c) (perturb c) (xs c)
    end.

Definition case_mismatch ch sw rw nw (c : adc_case) : bool :=
  negb (frame_agree (model_of ch sw rw nw c) (observed c)).

(* a noisy-variant call whose tuples do not have adc_bit_resolution elements is refused (ValueError): that
   is not one of the allowed settings, the specification says nothing about it *)
Definition allowed_setting (c : adc_case) : bool :=
  match kind c with
  | Sar0 => if via_model c then (n_strengths c =? bits c) && (n_noises c =? bits c) else true
  | _ => true
  end.

(* the allowed settings: 4 <= bits <= 64 and vmin < vmax; on them the implementation must not raise *)
Definition case_violates (c : adc_case) : bool :=
  if negb (allowed_setting c) then false else
  match observed c with
  | None => true
  | Some (w, cs) =>
      negb (match kind c with
            | Simple => simple_spec (bits c) (vmin c) (vmax c) (xs c) w cs
            | Sar => sar_spec (bits c) (xs c) w cs
            | Sar0 => sar_spec (bits c) (xs c) w cs
                      && match twin c with Some ts => listZ_eqb ts cs | None => false end
            | Sarp => noisy_spec (bits c) (xs c) w cs
            end)
  end.

Definition mismatches ch sw rw nw (cs : list adc_case) : list Z := indices_where (case_mismatch ch sw rw nw) cs 0.
Definition violations (cs : list adc_case) : list Z := indices_where case_violates cs 0.
