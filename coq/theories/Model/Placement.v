(* Executable model of pyxel/util/image.py  fit_into_array / _set_relative_position  (C20),
   exactly as coded: coordinate ranges, np.intersect1d, first/last element, two Python slices, block
   assignment into np.zeros(output_shape).
   The integer expressions per alignment keyword and the keyword strings are PARAMETERS: the check
   instantiates them with Gen_C20.src_align / src_align_names regenerated from the source.
   No proofs here (Proofs/Placement.v). *)
From Coq Require Import ZArith List Bool String.
Import ListNotations.
Open Scope Z_scope.

(* ---------------------------------------------------------------- alignment keywords *)

Inductive align_kw := Center | TopLeft | TopRight | BottomLeft | BottomRight.

Definition align_kw_eqb (a b : align_kw) : bool :=
  match a, b with
  | Center, Center | TopLeft, TopLeft | TopRight, TopRight
  | BottomLeft, BottomLeft | BottomRight, BottomRight => true
  | _, _ => false
  end.

(* _set_relative_position(array_x, array_y, output_x, output_y, alignment) -> (pos_y, pos_x) *)
Definition align_fn := align_kw -> Z -> Z -> Z -> Z -> Z * Z.
(* class Alignment(Enum): value string -> member *)
Definition align_names := list (string * align_kw).

Fixpoint lookup_kw (names : align_names) (s : string) : option align_kw :=
  match names with
  | [] => None                                  (* Alignment("foo") raises ValueError *)
  | (n, k) :: rest => if String.eqb n s then Some k else lookup_kw rest s
  end.

(* ---------------------------------------------------------------- arrays *)

Definition mat := list (list Z).

Definition zlen {A} (l : list A) : Z := Z.of_nat (List.length l).

(* a is an ay x ax array (numpy shape; a 0 x n array has no rows) *)
Definition wf_matb (ny nx : Z) (a : mat) : bool :=
  (zlen a =? ny) && forallb (fun r => zlen r =? nx) a && (0 <=? nx).

(* a[i][j]; 0 outside (only used inside the bounds by the theorems) *)
Definition getZ (a : mat) (i j : Z) : Z :=
  if (0 <=? i) && (0 <=? j) then nth (Z.to_nat j) (nth (Z.to_nat i) a []) 0 else 0.

Definition zeros (ny nx : Z) : mat := repeat (repeat 0 (Z.to_nat nx)) (Z.to_nat ny).

(* np.array(range(start, start + len)) *)
Definition coords (start len : Z) : list Z :=
  map (fun k => start + Z.of_nat k) (seq 0 (Z.to_nat len)).

Definition memZ (x : Z) (l : list Z) : bool := existsb (Z.eqb x) l.

(* np.intersect1d(a, b) for an ascending duplicate-free a: the common values, ascending *)
Definition intersect1d (a b : list Z) : list Z := filter (fun x => memZ x b) a.

Definition first_of (l : list Z) : Z := hd 0 l.       (* overlap[0]; only used when l <> [] *)
Definition last_of (l : list Z) : Z := last l 0.      (* overlap[-1] *)

(* Python slice(lo, hi) on a sequence of length n: negative indices count from the end, then clip *)
Definition norm_idx (n i : Z) : Z := if i <? 0 then Z.max (i + n) 0 else Z.min i n.
Definition slice_bounds (n lo hi : Z) : Z * Z :=
  let s := norm_idx n lo in (s, Z.max s (norm_idx n hi)).

Definition py_slice {A} (lo hi : Z) (l : list A) : list A :=
  let '(s, e) := slice_bounds (zlen l) lo hi in
  firstn (Z.to_nat (e - s)) (skipn (Z.to_nat s) l).

(* l[lo:hi] = blk ; numpy refuses a block of another length (broadcasting of length-1 blocks is not
   modelled: None) *)
Definition set_slice {A} (lo hi : Z) (blk l : list A) : option (list A) :=
  let '(s, e) := slice_bounds (zlen l) lo hi in
  if zlen blk =? e - s
  then Some (firstn (Z.to_nat s) l ++ blk ++ skipn (Z.to_nat e) l)
  else None.

Fixpoint map2_opt {A B C} (f : A -> B -> option C) (l1 : list A) (l2 : list B) : option (list C) :=
  match l1, l2 with
  | [], [] => Some []
  | a :: t1, b :: t2 =>
      match f a b, map2_opt f t1 t2 with
      | Some c, Some t => Some (c :: t)
      | _, _ => None
      end
  | _, _ => None
  end.

(* out[y0:y1, x0:x1] = blk *)
Definition assign_block (y0 y1 x0 x1 : Z) (blk out : mat) : option mat :=
  let '(s, e) := slice_bounds (zlen out) y0 y1 in
  if zlen blk =? e - s then
    match map2_opt (fun row brow => set_slice x0 x1 brow row)
                   (firstn (Z.to_nat (e - s)) (skipn (Z.to_nat s) out)) blk with
    | Some mid => Some (firstn (Z.to_nat s) out ++ mid ++ skipn (Z.to_nat e) out)
    | None => None
    end
  else None.

(* ---------------------------------------------------------------- fit_into_array *)

Inductive fit_err := TooSmall | BadAlign | NoOverlap | ShapeClash.
Inductive fit_res := FitOk (out : mat) | FitErr (e : fit_err).     (* every error is a ValueError *)

(* `if align:` : None and "" mean "use relative_position" *)
Definition align_given (align : option string) : option string :=
  match align with
  | Some s => if String.eqb s "" then None else Some s
  | None => None
  end.

(* the position used: Some (py, px), or None when Alignment(align) raises *)
Definition resolve_position (algn : align_fn) (names : align_names)
           (ay ax oy ox : Z) (pos : Z * Z) (align : option string) : option (Z * Z) :=
  match align_given align with
  | None => Some pos
  | Some s => match lookup_kw names s with
              | Some kw => Some (algn kw ax ay ox oy)
              | None => None
              end
  end.

Definition fit_into_array (algn : align_fn) (names : align_names)
           (ay ax : Z) (a : mat) (oy ox : Z) (pos : Z * Z) (align : option string)
           (allow_smaller : bool) : fit_res :=
  let output := zeros oy ox in
  if negb allow_smaller && ((ay <? oy) || (ax <? ox)) then FitErr TooSmall else
  match resolve_position algn names ay ax oy ox pos align with
  | None => FitErr BadAlign
  | Some (py, px) =>
      let overlap_y := intersect1d (coords py ay) (coords 0 oy) in
      let overlap_x := intersect1d (coords px ax) (coords 0 ox) in
      match overlap_y, overlap_x with
      | [], _ | _, [] => FitErr NoOverlap
      | _, _ =>
          let y0 := first_of overlap_y in let y1 := last_of overlap_y + 1 in
          let x0 := first_of overlap_x in let x1 := last_of overlap_x + 1 in
          let cropped := map (py_slice (x0 - px) (x1 - px)) (py_slice (y0 - py) (y1 - py) a) in
          match assign_block y0 y1 x0 x1 cropped output with
          | Some out => FitOk out
          | None => FitErr ShapeClash
          end
      end
  end.

(* ---------------------------------------------------------------- the property's right-hand side *)

(* the input pixel the position (py, px) places on detector pixel (i, j), zero where none *)
Definition placed (a : mat) (ay ax py px i j : Z) : Z :=
  if (0 <=? i - py) && (i - py <? ay) && (0 <=? j - px) && (j - px <? ax)
  then getZ a (i - py) (j - px) else 0.

(* some detector pixel is reached by the input *)
Definition overlaps (ay ax oy ox py px : Z) : bool :=
  (Z.max py 0 <? Z.min (py + ay) oy) && (Z.max px 0 <? Z.min (px + ax) ox).

(* documented meaning of the keywords (pixel (0,0) = bottom left, rows = Y upwards, columns = X):
   bottom: input row 0 on detector row 0; top: last input row on the last detector row;
   left / right likewise for columns; center: half the size difference, rounded toward zero *)
Definition doc_align (kw : align_kw) (ax ay ox oy : Z) : Z * Z :=
  match kw with
  | Center => (Z.quot (oy - ay) 2, Z.quot (ox - ax) 2)
  | TopLeft => (oy - ay, 0)
  | TopRight => (oy - ay, ox - ax)
  | BottomLeft => (0, 0)
  | BottomRight => (0, ox - ax)
  end.

Definition doc_names : align_names :=
  [("center"%string, Center); ("top_left"%string, TopLeft); ("top_right"%string, TopRight);
   ("bottom_left"%string, BottomLeft); ("bottom_right"%string, BottomRight)].

(* the same, said without a formula: which edges coincide *)
Definition align_meets (kw : align_kw) (ax ay ox oy : Z) (p : Z * Z) : Prop :=
  let '(py, px) := p in
  match kw with
  | Center => -1 <= (oy - ay) - 2 * py <= 1 /\ -1 <= (ox - ax) - 2 * px <= 1
              /\ 0 <= py * (oy - ay) /\ 0 <= px * (ox - ax)     (* rounds toward zero *)
  | TopLeft => py + ay = oy /\ px = 0
  | TopRight => py + ay = oy /\ px + ax = ox
  | BottomLeft => py = 0 /\ px = 0
  | BottomRight => py = 0 /\ px + ax = ox
  end.

Definition tabulate (ny nx : Z) (f : Z -> Z -> Z) : mat :=
  map (fun i => map (fun j => f (Z.of_nat i) (Z.of_nat j)) (seq 0 (Z.to_nat nx))) (seq 0 (Z.to_nat ny)).

Definition mat_eqb (a b : mat) : bool :=
  (Nat.eqb (List.length a) (List.length b)) &&
  forallb (fun rr => (Nat.eqb (List.length (fst rr)) (List.length (snd rr))) &&
                     forallb (fun xy => fst xy =? snd xy) (combine (fst rr) (snd rr)))
          (combine a b).

Definition scale_mat (m : Z) (a : mat) : mat := map (map (Z.mul m)) a.

(* what the property demands of one call (independent of the model above):
   None = must be refused; Some out = the detector-shaped array, pixel by pixel *)
Definition spec_fit (ay ax : Z) (a : mat) (oy ox : Z) (pos : Z * Z) (align : option string)
           (allow_smaller : bool) : option mat :=
  match resolve_position doc_align doc_names ay ax oy ox pos align with
  | None => None
  | Some (py, px) =>
      if negb allow_smaller && ((ay <? oy) || (ax <? ox)) then None
      else if overlaps ay ax oy ox py px then Some (tabulate oy ox (placed a ay ax py px))
      else None
  end.

(* ---------------------------------------------------------------- case files *)

Record fit_case := {
  c_ay : Z; c_ax : Z; c_data : mat;           (* input array *)
  c_oy : Z; c_ox : Z;                         (* detector / output shape *)
  c_pos : Z * Z;                              (* (y, x) *)
  c_align : option string;
  c_allow : bool;
  c_mult : Z;                                 (* integer factor applied by the loading model (1 otherwise) *)
  c_obs : option mat                          (* None = the implementation raised ValueError *)
}.

Definition obs_agree (m : option mat) (o : option mat) : bool :=
  match m, o with
  | None, None => true
  | Some x, Some y => mat_eqb x y
  | _, _ => false
  end.

Definition model_out (algn : align_fn) (names : align_names) (c : fit_case) : option mat :=
  match fit_into_array algn names (c_ay c) (c_ax c) (c_data c) (c_oy c) (c_ox c) (c_pos c)
                       (c_align c) (c_allow c) with
  | FitOk out => Some (scale_mat (c_mult c) out)
  | FitErr _ => None
  end.

Definition spec_out (c : fit_case) : option mat :=
  match spec_fit (c_ay c) (c_ax c) (c_data c) (c_oy c) (c_ox c) (c_pos c) (c_align c) (c_allow c) with
  | Some out => Some (scale_mat (c_mult c) out)
  | None => None
  end.

Fixpoint indices_where {A} (f : A -> bool) (l : list A) (i : Z) : list Z :=
  match l with
  | [] => []
  | a :: t => if f a then i :: indices_where f t (i + 1) else indices_where f t (i + 1)
  end.

Definition mismatches (algn : align_fn) (names : align_names) (cs : list fit_case) : list Z :=
  indices_where (fun c => negb (obs_agree (model_out algn names c) (c_obs c))) cs 0.

Definition violations (cs : list fit_case) : list Z :=
  indices_where (fun c => negb (obs_agree (spec_out c) (c_obs c))) cs 0.
