(* C02 — binary64 view of the clock, for readout times whose differences are NOT exactly representable
   (0.1, 0.2, 0.3, ...).  Definitions only.

   numpy computes  steps = np.diff([start] ++ times)  and  absolute_time = start + time  in binary64:
   each result is the EXACT rational difference / sum of two doubles rounded to nearest-even (IEEE-754).
   The exact values are what Model/Exposure.v computes over Q; so the clock the models see is the image of
   the rational model's clock under [rnd64] applied to the time step and to the absolute time (the time
   itself, the counter and the flags are not computed).  [rnd64] is Flocq's binary_normalize (via Lib/B64.mk)
   — it computes on Z, no primitive floats. *)
From Coq Require Import QArith ZArith List Bool.
From Flocq Require Import Core BinarySingleNaN.
From PyxelV Require Import Lib.B64 Model.Exposure.
Import ListNotations.

(* a double as the exact rational it denotes *)
Definition b2tv (x : b64) : tv :=
  match x with
  | B754_zero _ => TQ 0
  | B754_finite s m e _ =>
      let z := if s then Z.neg m else Z.pos m in
      TQ (match e with
          | Z0 => z # 1
          | Zpos p => (z * Z.pow_pos 2 p) # 1
          | Zneg p => z # (Pos.pow 2 p)
          end)
  | B754_infinity _ => TNaN          (* overflow: outside the model (never generated) *)
  | B754_nan => TNaN
  end.

(* is the positive number a power of two, and which *)
Fixpoint pos_log2_exact (p : positive) : option Z :=
  match p with
  | xH => Some 0%Z
  | xO q => option_map Z.succ (pos_log2_exact q)
  | xI _ => None
  end.

(* round-to-nearest-even into binary64 of a dyadic rational n / 2^k (every sum or difference of two doubles
   is one); anything else is outside the model *)
Definition rnd64 (a : tv) : tv :=
  match a with
  | TNaN => TNaN
  | TQ (n # d) =>
      match pos_log2_exact d with
      | Some k => b2tv (mk n (- k))
      | None => TNaN
      end
  end.

Definition round_clock (c : clock) : clock :=
  {| c_time := c_time c; c_step := rnd64 (c_step c); c_abs := rnd64 (c_abs c); c_count := c_count c;
     c_first := c_first c; c_last := c_last c |}.

Definition round_obs {A} (o : observation A) : observation A :=
  {| o_clock := round_clock (o_clock o); o_begin := o_begin o; o_end := o_end o |}.

Definition round_outcome {A} (o : outcome A) : outcome A :=
  match o with Rejected s => Rejected s | Ran os => Ran (map round_obs os) end.

(* the binary64 steps of a schedule, as numpy computes them *)
Definition steps_f (start : tv) (ts : list tv) : list tv := map rnd64 (steps start ts).

(* --- correspondence / oracle for the binary64 stream ------------------------------------------------ *)

Definition model_of_f (G : guard_table) (E : empty_table) (SR : sr_policy) (c : c02_case) : outcome Z :=
  round_outcome (model_of G E SR c).

(* the ReadoutProperties object holds the binary64 steps *)
Definition round_rp (p : rp_state) : rp_state :=
  {| rp_times := rp_times p; rp_steps := map rnd64 (rp_steps p); rp_num := rp_num p; rp_start := rp_start p;
     rp_nd := rp_nd p; rp_time := rp_time p; rp_step := rnd64 (rp_step p); rp_count := rp_count p |}.

Definition case_mismatch_f (G : guard_table) (E : empty_table) (SR : sr_policy) (c : c02_case) : bool :=
  negb match model_of_f G E SR c, k_obs c with
       | Rejected s, IRejected s' n => Z.eqb s s' && Z.eqb n 0%Z
       | Ran os, IRan os' => list_eqb obs_eqb os os'
       | _, _ => false
       end.

(* informational only *)
Definition case_after_differs_f (G : guard_table) (E : empty_table) (SR : sr_policy) (c : c02_case) : bool :=
  negb match k_obs c with
       | IRan _ =>
           let st := state_after G E SR c in
           after_ok {| ds_det := ds_det st; ds_rp := option_map round_rp (ds_rp st) |} (k_after c)
       | IRejected _ _ => after_ok (state_after G E SR c) (k_after c)
       end.

(* the specification with the binary64 closed form of the clock:
   step_i = fl(t_i - t_(i-1)),  absolute_i = fl(start + t_i) *)
Fixpoint obs_ok_f (nd : bool) (start : tv) (ts : list tv) (i : nat) (prev : option (det Z))
         (os : list (observation Z)) : bool :=
  match os with
  | [] => Nat.eqb i (length ts)
  | o :: rest =>
      clock_eqb (o_clock o) (round_clock (spec_clock start ts i))
      && det_eqb (o_begin o) (spec_begin Z 0%Z nd prev)
      && obs_ok_f nd start ts (S i) (Some (o_end o)) rest
  end.

Definition case_violates_f (c : c02_case) : bool :=
  let fin := intended (ro0 c) (k_ops c) in
  negb match k_obs c with
       | IRan os =>
           ro_valid_b fin
           && match r_times fin with R1 ts => obs_ok_f (r_nd fin) (r_start fin) ts 0 None os | R2 => false end
       | IRejected _ n =>
           Z.eqb n 0%Z && negb (forallb ro_valid_b (intended_all (ro0 c) (k_ops c)))
       end.

Definition mismatches_f (G : guard_table) (E : empty_table) (SR : sr_policy) (cs : list c02_case) : list Z :=
  indices_where (case_mismatch_f G E SR) cs 0%Z.
Definition violations_f (cs : list c02_case) : list Z := indices_where case_violates_f cs 0%Z.
Definition after_differs_f (G : guard_table) (E : empty_table) (SR : sr_policy) (cs : list c02_case) : list Z :=
  indices_where (case_after_differs_f G E SR) cs 0%Z.
