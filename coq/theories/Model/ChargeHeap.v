(* Object identity for the arrays and DataFrames that cross the interface of pyxel's Charge  --  property C14.

   Model/Charge.v passes arrays BY VALUE.  numpy passes them BY REFERENCE: `add_charge_array(a)` receives the
   caller's array object, `.array` hands the container's own array object to the caller.  This file adds a tiny
   heap so that sharing is visible:

     h_args    the arrays the caller allocated itself (handle HArg k = the k-th of them)
     h_cells   the arrays the container allocated (np.zeros in __init__/empty/remove_from_frame, the array
               rebuilt by convert_df_to_array, the copy made by to_xarray)
     h_arr     Charge._array: a REFERENCE (to a container cell -- or to a caller array if the code binds it so)
     h_res     what every read returned (handle HRes j = the array returned by the j-th read): a reference
     h_dfs     the DataFrames the caller built (content only: the repaired add_charge_dataframe copies)

   The caller may, between container operations, overwrite any array it holds (HWrite) -- its own ones, or one
   it got from a read -- add the same array object again (HAdd), modify a DataFrame it added before (HWriteDf).
   What is shared is what the code says (record heapparams, regenerated from the source by translator/c14.py):
     hp_add            add_charge_array, no clusters: `self._array += array` (AddInPlace: writes into the stored
                       cell), `self._array = self._array + array` (AddFresh: a new cell), or some path binds
                       `self._array` to the ARGUMENT (AddAdopt; modelled as: when the stored array is all zero)
     hp_array_exposes  `.array` returns the stored array object itself (true, as coded) or a copy
     hp_np_exposes     `np.asarray(charge)` returns what `.array` returns (true, as coded) or a copy
     hp_xr_copies      `to_xarray` hands a copy of the array to xarray (true, as coded)
   and three audit flags that the model itself does not execute (hparams_ok demands them false):
     hp_writes_arg     add_charge_array writes into its argument
     hp_df_adopts      add_charge_dataframe binds self._frame to its argument (C14-F7, repaired)
     hp_binds_param    any other method of Charge binds self._array / self._frame to one of its parameters
   and, so that the model follows harmless variants, whether the three places that REPLACE the content of the
   stored array bind `self._array` to a new array (true, as coded) or overwrite the stored array in place:
     hp_reset_fresh    empty():               `self._array = np.zeros_like(self._array)`
     hp_remove_fresh   remove_from_frame():   the same, when the last cluster goes
     hp_rebuild_fresh  the `array` property:  `self._array = self.convert_df_to_array()`
   (either way is fine for the property; it decides what a caller still sees through an old `.array` view).
   All VALUES are computed by the value-level machine (stepP of Model/Charge.v) on the value the stored
   reference points to; this file only decides which cell a value is written to.
   No proofs in this file. *)
From Coq Require Import ZArith QArith Qround List Bool.
From PyxelV Require Import Model.Charge.
Import ListNotations.
Open Scope Q_scope.

Inductive add_mode := AddInPlace | AddFresh | AddAdopt.
Record heapparams := {
  hp_add : add_mode;
  hp_writes_arg : bool;
  hp_array_exposes : bool;
  hp_np_exposes : bool;
  hp_xr_copies : bool;
  hp_df_adopts : bool;
  hp_binds_param : bool;
  hp_reset_fresh : bool;
  hp_remove_fresh : bool;
  hp_rebuild_fresh : bool
}.
Definition std_hparams : heapparams :=
  {| hp_add := AddInPlace; hp_writes_arg := false; hp_array_exposes := true; hp_np_exposes := true;
     hp_xr_copies := true; hp_df_adopts := false; hp_binds_param := false;
     hp_reset_fresh := true; hp_remove_fresh := true; hp_rebuild_fresh := true |}.
Definition add_mode_eqb (a b : add_mode) : bool :=
  match a, b with AddInPlace, AddInPlace | AddFresh, AddFresh | AddAdopt, AddAdopt => true | _, _ => false end.
(* the container never keeps a reference to something the caller owns, never writes into it, and what it hands
   to xarray is a copy *)
Definition hparams_ok (H : heapparams) : Prop :=
  hp_add H <> AddAdopt /\ hp_writes_arg H = false /\ hp_xr_copies H = true /\ hp_df_adopts H = false /\
  hp_binds_param H = false.

Inductive ref := RArg (k : nat) | RCell (c : nat).
Inductive handle := HArg (k : nat) | HRes (j : nat).
Inductive rkind := RkArray | RkXr | RkNp.        (* .array | .to_xarray() | np.asarray(charge) *)

Inductive hop :=
| HNew (a : matrix)                   (* the caller allocates an array holding a *)
| HWrite (h : handle) (a : matrix)    (* the caller overwrites an array it holds: buf[...] = a *)
| HAdd (h : handle)                   (* charge.add_charge_array(<that array object>) *)
| HNewDf (cs : list cluster)          (* the caller builds a DataFrame (Charge.create_charges) *)
| HWriteDf (k : nat) (cs : list cluster)   (* the caller modifies its k-th DataFrame in place *)
| HAddDf (k : nat)                    (* charge.add_charge_dataframe(<that DataFrame object>) *)
| HCl (cs : list cluster)             (* charge.add_charge(...) with arrays the caller scribbles over afterwards *)
| HRead (k : rkind)
| HFrame
| HRemoveAll
| HRemove (ids : list Z)
| HReset.

Record hstate := {
  h_args : list matrix;
  h_cells : list matrix;
  h_arr : ref;
  h_frame : frame_t;
  h_res : list (rkind * ref);
  h_dfs : list (list cluster)
}.

Definition deref (hs : hstate) (r : ref) : option matrix :=
  match r with RArg k => nth_error (h_args hs) k | RCell c => nth_error (h_cells hs) c end.
(* writing INTO an existing array object *)
Definition store (hs : hstate) (r : ref) (m : matrix) : hstate :=
  match r with
  | RArg k => {| h_args := upd (h_args hs) k (fun _ => m); h_cells := h_cells hs; h_arr := h_arr hs;
                 h_frame := h_frame hs; h_res := h_res hs; h_dfs := h_dfs hs |}
  | RCell c => {| h_args := h_args hs; h_cells := upd (h_cells hs) c (fun _ => m); h_arr := h_arr hs;
                  h_frame := h_frame hs; h_res := h_res hs; h_dfs := h_dfs hs |}
  end.
(* self._array = <a new array object holding m> *)
Definition set_arr (hs : hstate) (m : matrix) : hstate :=
  {| h_args := h_args hs; h_cells := h_cells hs ++ [m]; h_arr := RCell (length (h_cells hs));
     h_frame := h_frame hs; h_res := h_res hs; h_dfs := h_dfs hs |}.
(* self._array = <an existing array object> *)
Definition bind_arr (hs : hstate) (r : ref) : hstate :=
  {| h_args := h_args hs; h_cells := h_cells hs; h_arr := r; h_frame := h_frame hs; h_res := h_res hs;
     h_dfs := h_dfs hs |}.
Definition set_frame (hs : hstate) (f : frame_t) : hstate :=
  {| h_args := h_args hs; h_cells := h_cells hs; h_arr := h_arr hs; h_frame := f; h_res := h_res hs;
     h_dfs := h_dfs hs |}.
Definition push_arg (hs : hstate) (a : matrix) : hstate :=
  {| h_args := h_args hs ++ [a]; h_cells := h_cells hs; h_arr := h_arr hs; h_frame := h_frame hs;
     h_res := h_res hs; h_dfs := h_dfs hs |}.
Definition set_dfs (hs : hstate) (d : list (list cluster)) : hstate :=
  {| h_args := h_args hs; h_cells := h_cells hs; h_arr := h_arr hs; h_frame := h_frame hs; h_res := h_res hs;
     h_dfs := d |}.
(* the content of the stored array is REPLACED by m: a new object is bound, or the stored object is overwritten *)
Definition renew (fresh : bool) (hs : hstate) (m : matrix) : hstate :=
  if fresh then set_arr hs m else store hs (h_arr hs) m.
(* a read returns the stored array object itself ... *)
Definition ret_stored (hs : hstate) (k : rkind) : hstate :=
  {| h_args := h_args hs; h_cells := h_cells hs; h_arr := h_arr hs; h_frame := h_frame hs;
     h_res := h_res hs ++ [(k, h_arr hs)]; h_dfs := h_dfs hs |}.
(* ... or a new array object holding a copy m *)
Definition ret_copy (hs : hstate) (k : rkind) (m : matrix) : hstate :=
  {| h_args := h_args hs; h_cells := h_cells hs ++ [m]; h_arr := h_arr hs; h_frame := h_frame hs;
     h_res := h_res hs ++ [(k, RCell (length (h_cells hs)))]; h_dfs := h_dfs hs |}.

(* the value Charge._array points to; the value-level state *)
Definition cur (hs : hstate) : matrix := match deref hs (h_arr hs) with Some m => m | None => [] end.
Definition vstate (hs : hstate) : state := {| st_arr := cur hs; st_frame := h_frame hs |}.

Definition resolve (hs : hstate) (h : handle) : option ref :=
  match h with
  | HArg k => if (k <? length (h_args hs))%nat then Some (RArg k) else None
  | HRes j => option_map snd (nth_error (h_res hs) j)
  end.

Definition hinit (g : geom) : hstate :=
  {| h_args := []; h_cells := [zeros (g_rows g) (g_cols g)]; h_arr := RCell 0; h_frame := []; h_res := [];
     h_dfs := [] |}.

Section WithParams.
Variable H : heapparams.
Variable P : srcparams.

Definition exposes (k : rkind) : bool :=
  match k with
  | RkArray => hp_array_exposes H
  | RkNp => hp_array_exposes H && hp_np_exposes H
  | RkXr => hp_array_exposes H && negb (hp_xr_copies H)
  end.

(* add_charge_array with no clusters: `a` is the current content of the argument object r *)
Definition add_array_mode (hs : hstate) (r : ref) (a : matrix) : hstate :=
  match hp_add H with
  | AddInPlace => store hs (h_arr hs) (madd (cur hs) a)
  | AddFresh => set_arr hs (madd (cur hs) a)
  | AddAdopt => if all_zero (cur hs) then bind_arr hs r else store hs (h_arr hs) (madd (cur hs) a)
  end.

Definition ret (hs : hstate) (k : rkind) (m : matrix) : option hstate * obs :=
  (Some (if exposes k then ret_stored hs k else ret_copy hs k m), OArr m).

(* remove_from_frame: the frame becomes f'; a new zero array when that empties a non-empty frame *)
Definition hremoved (g : geom) (hs : hstate) (f' : frame_t) : hstate :=
  match h_frame hs, f' with
  | _ :: _, [] => set_frame (renew (hp_remove_fresh H) hs (zeros (g_rows g) (g_cols g))) []
  | _, _ => set_frame hs f'
  end.

Definition hstep (g : geom) (hs : hstate) (o : hop) : option hstate * obs :=
  match o with
  | HNew a => (Some (push_arg hs a), OUnit)
  | HWrite h a =>
      match resolve hs h with
      | Some r => (Some (store hs r a), OUnit)
      | None => (Some hs, OUnit)
      end
  | HAdd h =>
      match resolve hs h with
      | Some r =>
          match deref hs r with
          | Some a =>
              if shape_ok (g_rows g) (g_cols g) a then
                match h_frame hs with
                | [] => (Some (add_array_mode hs r a), OUnit)
                | _ => (Some (set_frame hs (st_frame (add_frameP P g (vstate hs) (centresP P g a)))), OUnit)
                end
              else (Some hs, ORaise)
          | None => (Some hs, OUnit)
          end
      | None => (Some hs, OUnit)
      end
  | HNewDf cs => (Some (set_dfs hs (h_dfs hs ++ [cs])), OUnit)
  | HWriteDf k cs => (Some (set_dfs hs (upd (h_dfs hs) k (fun _ => cs))), OUnit)
  | HAddDf k =>
      match nth_error (h_dfs hs) k with
      | Some cs => (Some (set_frame hs (st_frame (add_frameP P g (vstate hs) cs))), OUnit)
      | None => (Some hs, OUnit)
      end
  | HCl cs => (Some (set_frame hs (st_frame (add_frameP P g (vstate hs) cs))), OUnit)
  | HRead k =>
      match h_frame hs with
      | [] => ret hs k (cur hs)
      | f => match to_arrayP P g (fcl f) with
             | Some m => ret (renew (hp_rebuild_fresh H) hs m) k m
             | None => (None, OCorrupt)
             end
      end
  | HFrame => (Some hs, OUnit)
  | HRemoveAll => (Some (hremoved g hs []), OUnit)
  | HRemove [] => (Some (hremoved g hs []), OUnit)
  | HRemove ids => (Some (hremoved g hs (filter (fun p => negb (id_in ids (fst p))) (h_frame hs))), OUnit)
  | HReset => (Some (set_frame (renew (hp_reset_fresh H) hs (zeros (g_rows g) (g_cols g))) []), OUnit)
  end.

Definition hexec1 (g : geom) (s : option hstate) (o : hop) : option hstate :=
  match s with None => None | Some s0 => fst (hstep g s0 o) end.
Definition hexec (g : geom) (s : option hstate) (ops : list hop) : option hstate := fold_left (hexec1 g) ops s.

(* the value of a `.array` read performed after the operations `ops` on a fresh container *)
Definition hread_of (g : geom) (s : option hstate) : obs :=
  match s with None => OCorrupt | Some s0 => snd (hstep g s0 (HRead RkArray)) end.
Definition hread_after (g : geom) (ops : list hop) : obs := hread_of g (hexec g (Some (hinit g)) ops).

(* what the caller can see of its own memory: its arrays, the arrays to_xarray gave it, its DataFrames *)
Definition xr_view (hs : hstate) : list matrix :=
  flat_map (fun p => match fst p with
                     | RkXr => [match deref hs (snd p) with Some m => m | None => [] end]
                     | _ => []
                     end) (h_res hs).
Definition hview := (obs * frame_t * (list matrix * list matrix * list (list cluster)))%type.
Definition view_of (ob : obs) (hs : hstate) : hview := (ob, h_frame hs, (h_args hs, xr_view hs, h_dfs hs)).

Fixpoint hrun (g : geom) (s : option hstate) (ops : list hop) : list hview :=
  match ops with
  | [] => []
  | o :: t =>
      match s with
      | None => (OCorrupt, [], ([], [], [])) :: hrun g None t
      | Some s0 =>
          let r := hstep g s0 o in
          (match fst r with Some x => view_of (snd r) x | None => (snd r, [], ([], [], [])) end) :: hrun g (fst r) t
      end
  end.
End WithParams.

(* ------------------------------------------------------------------ the specification side *)

(* The caller's own memory, as the CALLER wrote it -- independent of the container: *)
Definition cm_step (cm : list matrix * list (list cluster)) (o : hop) : list matrix * list (list cluster) :=
  match o with
  | HNew a => (fst cm ++ [a], snd cm)
  | HWrite (HArg k) a => (upd (fst cm) k (fun _ => a), snd cm)
  | HNewDf cs => (fst cm, snd cm ++ [cs])
  | HWriteDf k cs => (fst cm, upd (snd cm) k (fun _ => cs))
  | _ => cm
  end.
Definition caller_mem (ops : list hop) : list matrix * list (list cluster) := fold_left cm_step ops ([], []).

(* The same history BY VALUE: an addition contributes the value its argument holds AT THE TIME OF THE CALL;
   what the caller does to its own memory is no operation of the container at all (ReadFrame = no-op). *)
Definition erase1 (cm : list matrix * list (list cluster)) (o : hop) : op :=
  match o with
  | HAdd (HArg k) => match nth_error (fst cm) k with Some a => AddArray a | None => ReadFrame end
  | HAddDf k => match nth_error (snd cm) k with Some cs => AddClusters cs | None => ReadFrame end
  | HCl cs => AddClusters cs
  | HRead _ => Read
  | HRemoveAll => RemoveAll
  | HRemove ids => Remove ids
  | HReset => Reset
  | _ => ReadFrame
  end.
Fixpoint erase (cm : list matrix * list (list cluster)) (ops : list hop) : list op :=
  match ops with
  | [] => []
  | o :: t => erase1 cm o :: erase (cm_step cm o) t
  end.
Definition by_value (ops : list hop) : list op := erase ([], []) ops.

(* The discipline of a caller that only touches what it owns: it writes into its own arrays and into arrays
   to_xarray gave it (copies), and it adds its own arrays.  `kinds` = the kinds of the reads so far. *)
Definition disc1 (kinds : list rkind) (o : hop) : bool :=
  match o with
  | HWrite (HArg _) _ => true
  | HWrite (HRes j) _ => match nth_error kinds j with Some RkXr => true | _ => false end
  | HAdd (HArg _) => true
  | HAdd (HRes _) => false
  | _ => true
  end.
Definition kinds_step (kinds : list rkind) (o : hop) : list rkind :=
  match o with HRead k => kinds ++ [k] | _ => kinds end.
Fixpoint disc (kinds : list rkind) (ops : list hop) : bool :=
  match ops with
  | [] => true
  | o :: t => disc1 kinds o && disc (kinds_step kinds o) t
  end.
Definition disciplined (ops : list hop) : bool := disc [] ops.

(* a caller write into an array it received from a read *)
Definition writes_result (o : hop) : bool := match o with HWrite (HRes _) _ => true | _ => false end.

(* ------------------------------------------------------------------ case files *)

Definition hview_eqb (a b : hview) : bool :=
  match a, b with
  | (oa, fa, (aa, xa, da)), (ob, fb, (ab, xb, db)) =>
      obs_eqb oa ob && frame_eqb fa fb && list_eqb meqb aa ab && list_eqb meqb xa xb &&
      list_eqb (list_eqb cluster_eqb) da db
  end.

Definition hobs_d := (obs * (nat * frame_t) * (list matrix * list matrix * list (list cluster)))%type.
Fixpoint hexpand (prev : frame_t) (l : list hobs_d) : list hview :=
  match l with
  | [] => []
  | (o, (k, t), mem) :: r => let f := firstn k prev ++ t in (o, f, mem) :: hexpand f r
  end.
Record hcase := { hk_g : geom; hk_ops : list hop; hk_obs_d : list hobs_d }.
Definition hk_obs (k : hcase) : list hview := hexpand [] (hk_obs_d k).

Definition hcase_mismatch (H : heapparams) (P : srcparams) (k : hcase) : bool :=
  negb (list_eqb hview_eqb (hrun H P (hk_g k) (Some (hinit (hk_g k))) (hk_ops k)) (hk_obs k)).

(* judged: a disciplined caller, positive pixel sizes, non-negative arrays at the time they are added *)
Definition hjudged (k : hcase) : bool :=
  geom_ok (hk_g k) && disciplined (hk_ops k) && forallb op_arrays_nonneg (by_value (hk_ops k)).

(* (a) every read must be what the by-value history demands *)
Definition hcase_first_bad_read (k : hcase) : Z :=
  if hjudged k then
    first_bad 1 (by_value (hk_ops k)) (spec_trace (hk_g k) (by_value (hk_ops k)))
              (map (fun v : hview => (fst (fst v), snd (fst v))) (hk_obs k))
  else 0%Z.

(* (b) the caller's memory holds what the CALLER put there: its arrays and DataFrames are never modified by the
   container, and an array returned by to_xarray keeps the value it had when it was returned (a snapshot) until
   the caller itself overwrites it.  xs = expected contents of the to_xarray results so far. *)
Definition xr_index (kinds : list rkind) (j : nat) : nat :=
  length (filter (fun k => match k with RkXr => true | _ => false end) (firstn j kinds)).
Definition xs_step (kinds : list rkind) (xs : list matrix) (o : hop) (ob : obs) : list matrix :=
  match o, ob with
  | HRead RkXr, OArr m => xs ++ [m]
  | HWrite (HRes j) a, _ =>
      match nth_error kinds j with Some RkXr => upd xs (xr_index kinds j) (fun _ => a) | _ => xs end
  | _, _ => xs
  end.
Fixpoint first_bad_mem (n : Z) (cm : list matrix * list (list cluster)) (kinds : list rkind) (xs : list matrix)
         (ops : list hop) (impl : list hview) : Z :=
  match ops, impl with
  | o :: ops', (ob, _, (aa, xa, da)) :: impl' =>
      let cm' := cm_step cm o in
      let xs' := xs_step kinds xs o ob in
      match ob with
      | OCorrupt => 0%Z
      | _ =>
        if list_eqb meqb (fst cm') aa && list_eqb (list_eqb cluster_eqb) (snd cm') da && list_eqb meqb xs' xa
        then first_bad_mem (n + 1)%Z cm' (kinds_step kinds o) xs' ops' impl'
        else n
      end
  | _, _ => 0%Z
  end.
Definition hcase_first_bad_mem (k : hcase) : Z :=
  if hjudged k then first_bad_mem 1 ([], []) [] [] (hk_ops k) (hk_obs k) else 0%Z.

Definition hcase_violates (k : hcase) : bool :=
  negb (hcase_first_bad_read k =? 0)%Z || negb (hcase_first_bad_mem k =? 0)%Z.

Definition hmismatches (H : heapparams) (P : srcparams) (cs : list hcase) : list Z :=
  indices_where (hcase_mismatch H P) cs 0%Z.
Definition hviolations (cs : list hcase) : list Z := indices_where hcase_violates cs 0%Z.
Definition hfirst_bad_reads (cs : list hcase) : list Z := map hcase_first_bad_read cs.
Definition hfirst_bad_mems (cs : list hcase) : list Z := map hcase_first_bad_mem cs.
