(* C10, third layer: WHICH OBJECT a caller hands to ParameterValues(values=...) for n placeholders, what the
   object kept by the ParameterValues is afterwards, and which TYPE TEST sends it to the scalar branch, to the
   vector branch, to a refusal or past every branch in each of the four walks over the variables

     pyxel/observation/parameter_values.py   convert_values (outer container)            -> kd_norm
     pyxel/calibration/fitting_datatree.py   ModelFittingDataTree._set_bound            -> kd_sb
                                             ModelFittingDataTree.__init__ (count)      -> kd_init
                                             ModelFittingDataTree.convert_to_parameters -> kd_cv
                                             ModelFittingDataTree.update_processor      -> kd_up

   The description `kdesc` is filled in on every run by translator/c10.py: the if / elif chains on
   `var.values` are kept as decision trees over the tests the source makes (`== "_"`, isinstance(..., list |
   tuple | str | np.ndarray | Sequence), all(x == "_" ...)), their leaves are labelled with what the walk does
   there.  `kinds_ok` decides, over the finite universe of containers (every kind, 0 / 1 / >= 2 placeholders),
   that the four walks send every object the ParameterValues can hold to the same branch; the views of a
   declaration (`views`) then coincide and are the variables of Model/Decision.v.

   No proofs in this file (Proofs/DecisionKinds.v). *)
From Coq Require Import List Bool Arith String ZArith QArith.
From PyxelV Require Import Model.Decision Model.DecisionSrc.
Import ListNotations.
Local Close Scope Q_scope.
Local Open Scope nat_scope.

(* ==================================================================== containers and type tests *)

(* what is handed in for `values` (every element a placeholder "_") *)
Inductive ckind :=
| KUnd      (* the string "_" itself *)
| KList     (* a list: what YAML / JSON produce *)
| KTuple    (* a tuple *)
| KStr      (* another string: "" or "__", "___", ... (a str is a Sequence of one-character strings) *)
| KArr      (* a numpy array of "_" strings *)
| KSeq      (* another collections.abc.Sequence (collections.UserList, ...) *)
| KIter.    (* an iterable that is not a Sequence: a generator, consumed once *)

Definition all_kinds : list ckind := [KUnd; KList; KTuple; KStr; KArr; KSeq; KIter].

(* a container: its kind and the number of placeholders in it *)
Definition pval := (ckind * nat)%type.

(* the classes the source names in isinstance tests *)
Inductive pycls := CList | CTuple | CStr | CArr | CSeq (* collections.abc.Sequence *).

Definition isinst (c : pycls) (k : ckind) : bool :=
  match c, k with
  | CList, KList | CTuple, KTuple | CStr, KUnd | CStr, KStr | CArr, KArr => true
  | CSeq, KUnd | CSeq, KList | CSeq, KTuple | CSeq, KStr | CSeq, KSeq => true    (* numpy arrays, generators: not *)
  | _, _ => false
  end.

Inductive ttest :=
| TTrue
| TEq                       (* var.values == "_" *)
| TInst (cs : list pycls)   (* isinstance(var.values, (c1, c2, ...)) *)
| TAllPh                    (* all(x == "_" for x in var.values) *)
| TNot (t : ttest)
| TAnd (a b : ttest)
| TOr (a b : ttest).

(* `== "_"` on a numpy array is elementwise; `if` on the result is its only element when there is exactly one
   (and raises otherwise: such arrays never get past ParameterValues.__init__, see pv_accepts) *)
Fixpoint holds (t : ttest) (v : pval) : bool :=
  match t with
  | TTrue => true
  | TEq => match fst v with KUnd => true | KArr => snd v =? 1 | _ => false end
  | TInst cs => existsb (fun c => isinst c (fst v)) cs
  | TAllPh => true           (* the domain: containers of placeholders only *)
  | TNot a => negb (holds a v)
  | TAnd a b => holds a v && holds b v
  | TOr a b => holds a v || holds b v
  end.

(* ParameterValues.__init__ (as modelled, tied by correspondence): "_" and anything `== "_"` is ParameterType.Multi;
   a non-Sequence is refused; numpy arrays with other than one element make `if values == "_"` raise *)
Definition pv_accepts (v : pval) : bool :=
  match fst v with
  | KIter => false
  | KUnd | KArr => snd v =? 1
  | _ => true
  end.

(* convert_values: `values` is returned as it is for ParameterType.Simple (no placeholder in it: the empty
   containers) and for `values == "_"`; otherwise the outer container becomes nd_default, except for the
   classes listed in nd_rules (first match) *)
Record norm_desc := mkNorm {
  nd_keep_simple : bool;
  nd_keep_und : bool;
  nd_rules : list (pycls * ckind);
  nd_default : ckind
}.

Fixpoint first_rule (rs : list (pycls * ckind)) (k : ckind) : option ckind :=
  match rs with
  | [] => None
  | (c, r) :: rest => if isinst c k then Some r else first_rule rest k
  end.

Definition norm (nd : norm_desc) (v : pval) : pval :=
  if (nd_keep_simple nd && (snd v =? 0)) || (nd_keep_und nd && holds TEq v) then v
  else (match first_rule (nd_rules nd) (fst v) with Some r => r | None => nd_default nd end, snd v).

(* what a walk does with the variable in the branch a test chain leads to *)
Inductive outcome :=
| OScalar    (* one component, handed over as a number *)
| OVector    (* len(var.values) components, handed over as an array *)
| ORaise     (* the declaration is refused *)
| OSkip.     (* no branch is taken: nothing is appended / assigned, the offset moves by a stale width *)

Inductive gtree := GLeaf (o : outcome) | GIf (t : ttest) (th el : gtree).

Fixpoint classify (g : gtree) (v : pval) : outcome :=
  match g with
  | GLeaf o => o
  | GIf t a b => if holds t v then classify a v else classify b v
  end.

Record kdesc := mkKd {
  kd_norm : norm_desc;
  kd_sb : gtree;               (* _set_bound *)
  kd_init : option gtree;      (* __init__: the count of parameters (None: the source keeps no such count) *)
  kd_cv : gtree;               (* convert_to_parameters *)
  kd_up : gtree                (* update_processor *)
}.

Definition t_list : ttest := TInst [CList].

(* the description of the (repaired) unchanged tree: translator FALLBACK, examples *)
Definition kinds_as_coded : kdesc :=
  mkKd (mkNorm true true [] KList)
       (GIf TEq (GLeaf OScalar) (GIf (TAnd t_list TAllPh) (GLeaf OVector) (GLeaf ORaise)))
       (Some (GIf t_list (GLeaf OVector) (GLeaf OScalar)))
       (GIf t_list (GLeaf OVector) (GLeaf OScalar))
       (GIf TEq (GLeaf OScalar) (GIf t_list (GLeaf OVector) (GLeaf OSkip))).

(* ---------------------------------------------------------------- the four walks see the same variable *)

(* what the DECLARATION means: "_" (and the one-element array that equals it) is a scalar parameter, every other
   container of n placeholders is a vector parameter of n components *)
Definition spec_outcome (v : pval) : outcome := match fst v with KUnd | KArr => OScalar | _ => OVector end.

Definition outcome_eqb (a b : outcome) : bool :=
  match a, b with
  | OScalar, OScalar | OVector, OVector | ORaise, ORaise | OSkip, OSkip => true
  | _, _ => false
  end.

(* the number of components a branch takes: 1 | len(var.values) *)
Definition owidth (o : outcome) (n : nat) : option nat :=
  match o with OScalar => Some 1 | OVector => Some n | _ => None end.

(* convert_to_parameters and the count of __init__ only use the WIDTH of a variable (the slice [a, a + b) and
   the new offset): a branch that takes len("_") = 1 components is the scalar branch *)
Definition same_width (o' o : outcome) (n : nat) : bool :=
  match owidth o' n, owidth o n with Some a, Some b => a =? b | _, _ => false end.

Definition init_width (kd : kdesc) (v : pval) (o : outcome) : bool :=
  match kd_init kd with None => true | Some g => same_width (classify g v) o (snd v) end.

(* a container the ParameterValues accepts is either refused by _set_bound or walked by all four walks as the
   declaration means (a scalar only when it holds exactly one placeholder): _set_bound and update_processor take
   the branch the declaration means, convert_to_parameters and __init__ a branch of the same width *)
Definition agree_at (kd : kdesc) (v0 : pval) : bool :=
  if pv_accepts v0 then
    let v := norm (kd_norm kd) v0 in
    match classify (kd_sb kd) v with
    | ORaise => true
    | OSkip => false
    | o => outcome_eqb o (spec_outcome v0) &&
           same_width (classify (kd_cv kd) v) o (snd v) && outcome_eqb (classify (kd_up kd) v) o &&
           init_width kd v o &&
           match o with OScalar => snd v0 =? 1 | _ => true end
    end
  else true.

Definition universe : list pval := flat_map (fun k => [(k, 0); (k, 1); (k, 2)]) all_kinds.

(* what YAML produces is accepted: "_" as a scalar, a list of any length as a vector *)
Definition canonical_ok (kd : kdesc) : bool :=
  outcome_eqb (classify (kd_sb kd) (norm (kd_norm kd) (KUnd, 1))) OScalar &&
  forallb (fun n => outcome_eqb (classify (kd_sb kd) (norm (kd_norm kd) (KList, n))) OVector) [0; 1; 2].

Definition kinds_ok (kd : kdesc) : bool := forallb (agree_at kd) universe && canonical_ok kd.

(* the first container of the universe on which the walks disagree (for messages and examples) *)
Definition first_disagreement (kd : kdesc) : option pval := find (fun v => negb (agree_at kd v)) universe.

(* ==================================================================== the views of a declaration *)

Section Views.
  Context {A : Type}.
  Notation var := (@var A).

  (* a declared variable: key / flag / boundaries (its `shape` field is not looked at) and the container *)
  Definition dvar := (var * pval)%type.

  Definition reshape (sh : option nat) (v : var) : var := mkVar (key v) sh (islog v) (bounds v).

  Definition shape_of (o : outcome) (n : nat) : option (option nat) :=
    match o with OScalar => Some None | OVector => Some (Some n) | _ => None end.

  Definition spec_var (d : dvar) : var :=
    reshape (match spec_outcome (snd d) with OScalar => None | _ => Some (snd (snd d)) end) (fst d).

  (* the variable a walk sees: None = the walk raises or takes no branch *)
  Definition view (nd : norm_desc) (g : gtree) (d : dvar) : option var :=
    option_map (fun sh => reshape sh (fst d)) (shape_of (classify g (norm nd (snd d))) (snd (snd d))).

  Fixpoint views (nd : norm_desc) (g : gtree) (l : list dvar) : option (list var) :=
    match l with
    | [] => Some []
    | d :: r => match view nd g d, views nd g r with
                | Some v, Some vs => Some (v :: vs)
                | _, _ => None
                end
    end.

  Definition accepted_objects (l : list dvar) : bool := forallb (fun d => pv_accepts (snd d)) l.

  Variable flog fexp : A -> A.
  Variable logdom : A -> bool.

  (* the walks of the source on a declaration in ANY containers *)
  Definition k_bounds (kd : kdesc) (d : wdesc) (l : list dvar) : option (list A * list A) :=
    if accepted_objects l then
      match views (kd_norm kd) (kd_sb kd) l with
      | Some vs => fst (g_bounds flog logdom d vs)
      | None => None
      end
    else None.

  Definition k_convert (kd : kdesc) (d : wdesc) (l : list dvar) (x : list A) : option (list A) :=
    option_map (fun vs => g_convert fexp (d_cv d) vs x) (views (kd_norm kd) (kd_cv kd) l).

  Definition k_assign (kd : kdesc) (d : wdesc) (l : list dvar) (p : list A) : option (list (string * @aval A)) :=
    match views (kd_norm kd) (kd_up kd) l with
    | Some vs => g_assign (d_up d) vs p
    | None => None
    end.

  (* the number of parameters __init__ counts (None: not counted, or no branch) *)
  Definition k_count (kd : kdesc) (l : list dvar) : option nat :=
    match kd_init kd with
    | None => None
    | Some g => option_map total (views (kd_norm kd) g l)
    end.

End Views.

(* ==================================================================== symbolic instance (correspondence) *)

Local Open Scope Q_scope.

Definition ckind_eqb (a b : ckind) : bool :=
  match a, b with
  | KUnd, KUnd | KList, KList | KTuple, KTuple | KStr, KStr | KArr, KArr | KSeq, KSeq | KIter, KIter => true
  | _, _ => false
  end.
Definition pval_eqb (a b : pval) : bool := ckind_eqb (fst a) (fst b) && Nat.eqb (snd a) (snd b).

(* one declaration driven through the implementation, with the containers it was declared in *)
Record c10_kcase := {
  kc_case : c10_case;                  (* c_vars: the variables as the declaration means them (spec_var) *)
  kc_decl : list pval;                 (* the container handed to ParameterValues for every variable *)
  kc_vals : option (list pval);        (* what ParameterValues.values is afterwards; None: not observed / refused *)
  kc_npar : option nat                 (* the number of parameters the problem counted; None: not observed *)
}.

Definition kc_dvars (kc : c10_kcase) : list (@dvar sym) := combine (c_vars (kc_case kc)) (kc_decl kc).

Definition canonical (decl : list pval) : bool :=
  forallb (fun v => match fst v with KUnd | KList => true | _ => false end) decl.

(* ---- the generated descriptions (loops + type tests) vs the implementation *)

Definition probe_mismatch_k (d : wdesc) (vcv vup : option (list svar)) (p : probe) : bool :=
  let x := map Raw (p_x p) in
  match vcv with
  | None => true                       (* convert_to_parameters takes no branch: no prediction *)
  | Some vc =>
      let conv := sg_convert d vc x in
      negb (match p_conv p with Some c => all2 sym_match conv c | None => true end
            &&
            match p_applied p with
            | None => true
            | Some a => match vup with
                        | Some vu => match sg_assign d vu conv with Some m => all2 kv_match m a | None => false end
                        | None => false
                        end
            end)
  end.

(* A refusal of a declaration in a container YAML cannot produce is never a disagreement: the theorems say nothing
   about a declaration that is refused, whatever the model expected. *)
Definition kcase_mismatch (kd : kdesc) (d : wdesc) (kc : c10_kcase) : bool :=
  let c := kc_case kc in
  let l := kc_dvars kc in
  negb (Nat.eqb (List.length (kc_decl kc)) (List.length (c_vars c))) ||
  if negb (canonical (kc_decl kc)) && match c_bounds c with None => true | Some _ => false end then false else
  if accepted_objects l then
    (match kc_vals kc with
     | Some vals => negb (all2 pval_eqb (map (norm (kd_norm kd)) (kc_decl kc)) vals)
     | None => false
     end) ||
    match views (kd_norm kd) (kd_sb kd) l with
    | None => match c_bounds c with None => false | Some _ => true end
    | Some vsb =>
        match fst (sg_bounds d vsb), c_bounds c with
        | None, None => false
        | Some (lb, ub), Some (ilb, iub) =>
            negb (all2 sym_match lb ilb && all2 sym_match ub iub) ||
            existsb (probe_mismatch_k d (views (kd_norm kd) (kd_cv kd) l) (views (kd_norm kd) (kd_up kd) l))
                    (c_probes c) ||
            match kc_npar kc, k_count kd l with
            | Some m, Some n => negb (Nat.eqb m n)
            | _, _ => false
            end
        | _, _ => true
        end
    end
  else match c_bounds c with None => false | Some _ => true end.

(* bit 1: the hand-written walks of Model/Decision.v, bit 2: the walks of the generated description (both on the
   variables as declared, only for what YAML can produce), bit 4: the generated type tests + description *)
Definition kcase_mismatch_code (kd : kdesc) (d : wdesc) (kc : c10_kcase) : Z :=
  let can := canonical (kc_decl kc) in
  ((if can && case_mismatch (kc_case kc) then 1 else 0) +
   (if can && case_mismatch_g d (kc_case kc) then 2 else 0) +
   (if kcase_mismatch kd d kc then 4 else 0))%Z.

(* flat: index, code for every case with a non-zero code *)
Definition kmismatches (kd : kdesc) (d : wdesc) (cs : list c10_kcase) : list Z :=
  (fix go (l : list c10_kcase) (i : Z) : list Z :=
     match l with
     | [] => []
     | c :: r => let code := kcase_mismatch_code kd d c in
                 if Z.eqb code 0 then go r (i + 1)%Z else i :: code :: go r (i + 1)%Z
     end) cs 0%Z.

(* ---- specification: clauses 1..7 of Model/Decision.v on the variables as the declaration means them.
   A declaration in a container YAML cannot produce MAY be refused (the property says what happens to the
   parameters of a problem that exists); once it is accepted it is judged like any other.
   10: the problem's own count of parameters is not the number of components the declaration has *)
Definition kcase_clauses (kc : c10_kcase) : list nat :=
  let c := kc_case kc in
  if negb (Nat.eqb (List.length (kc_decl kc)) (List.length (c_vars c))) then [0%nat]
  else
  match c_bounds c with
  | None => if canonical (kc_decl kc) then case_clauses c else []
  | Some _ =>
      case_clauses c ++
      match kc_npar kc with
      | Some m => if Nat.eqb m (total (c_vars c)) then [] else [10%nat]
      | None => []
      end
  end.

Definition kviolation_details (cs : list c10_kcase) : list Z :=
  (fix go (l : list c10_kcase) (i : Z) : list Z :=
     match l with
     | [] => []
     | c :: r => match kcase_clauses c with
                 | [] => go r (i + 1)%Z
                 | cl => (i :: first_bad_probe (kc_case c) :: Z.of_nat (List.length cl) :: map Z.of_nat cl)
                         ++ go r (i + 1)%Z
                 end
     end) cs 0%Z.

(* ---- histories (Model/DecisionSrc.v) on a declaration in any containers: the variables of the history are the
   variables the declaration means; the refusal of a declaration in a container YAML cannot produce is neither a
   disagreement with the model nor a breach of the refusal rule (clause 7) *)

Definition refused_build (s : hstep) : bool := match h_op s with HBuild None => true | _ => false end.

Definition khist_mismatch (d : wdesc) (decl : list pval) (c : c10_hist) : bool :=
  if negb (canonical decl) && existsb refused_build (hc_steps c) then false else hist_mismatch d c.

Definition khist_clauses (decl : list pval) (c : c10_hist) : list (nat * list nat) :=
  if canonical decl then hist_clauses c
  else filter (fun e => negb (match nth_error (hc_steps c) (fst e) with Some s => refused_build s | None => false end
                              && forallb (Nat.eqb 7) (snd e)))
              (hist_clauses c).

Definition khist_mismatches (d : wdesc) (cs : list (list pval * c10_hist)) : list Z :=
  indices_where (fun e => khist_mismatch d (fst e) (snd e)) cs 0%Z.

(* flat, per violating history: index, first offending step, number of clauses of that step, the clauses *)
Definition khist_details (cs : list (list pval * c10_hist)) : list Z :=
  (fix go (l : list (list pval * c10_hist)) (i : Z) : list Z :=
     match l with
     | [] => []
     | c :: r => match khist_clauses (fst c) (snd c) with
                 | [] => go r (i + 1)%Z
                 | (k, cl) :: _ => (i :: Z.of_nat k :: Z.of_nat (List.length cl) :: map Z.of_nat cl) ++ go r (i + 1)%Z
                 end
     end) cs 0%Z.
