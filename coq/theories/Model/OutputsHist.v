(* Executable model of HISTORIES on one Outputs / running-mode object (C19).  No proofs here.

   One configuration object is used for several simulations: pyxel.run_mode(mode, ...) is called again
   and again, and between the calls the user edits mode.outputs — the request save_data_to_file (in
   place or by assignment), output_folder, custom_dir_name.  Every call of run_mode creates a new
   directory (Outputs.create_output_folder -> create_output_directory) and saves into it with the
   request in force AT THAT TIME.  A dask Observation is lazy: run_mode only STARTS it (directory
   created, graph built), the files are written when the result is COMPUTED, possibly after other
   simulations have been started on the same object.

   pyxel/run.py run_mode                         -> step (Run / Start)
   pyxel/outputs/outputs.py  Outputs attributes  -> cfg, apply_edit
   pyxel/observation/observation_dask.py         -> Start / Compute (what the graph captured)
*)
From Coq Require Import List Bool Arith ZArith String.
From PyxelV Require Import Model.Outputs.
Import ListNotations.
Open Scope string_scope.

(* ------------------------------------------------------------------ the configuration and its edits *)

Definition dict := list (bucket * list fmt).

Record cfg := { c_req : request; c_folder : string; c_prefix : string }.

Inductive edit :=
| ESetReq (r : request)                               (* outputs.save_data_to_file = r *)
| EAppendDict (d : dict)                              (* outputs.save_data_to_file.append(d) *)
| ERemoveDict (i : nat)                               (* del outputs.save_data_to_file[i] *)
| ESetBucket (i : nat) (b : bucket) (fl : list fmt)   (* outputs.save_data_to_file[i][b] = fl *)
| ERemoveBucket (i : nat) (b : bucket)                (* del outputs.save_data_to_file[i][b] *)
| EAppendFmt (i : nat) (b : bucket) (f : fmt)         (* outputs.save_data_to_file[i][b].append(f) *)
| ERemoveFmt (i : nat) (b : bucket) (f : fmt)         (* outputs.save_data_to_file[i][b].remove(f) *)
| ESetFolder (s : string)                             (* outputs.output_folder = s *)
| ESetPrefix (s : string).                            (* outputs.custom_dir_name = s *)

Fixpoint upd_nth {A} (i : nat) (g : A -> A) (l : list A) : list A :=
  match l, i with
  | [], _ => []
  | x :: r, O => g x :: r
  | x :: r, S j => x :: upd_nth j g r
  end.

Fixpoint del_nth {A} (i : nat) (l : list A) : list A :=
  match l, i with
  | [], _ => []
  | _ :: r, O => r
  | x :: r, S j => x :: del_nth j r
  end.

(* python dict: assigning an existing key keeps its position, a new key goes last *)
Fixpoint dict_set (b : bucket) (fl : list fmt) (d : dict) : dict :=
  match d with
  | [] => [(b, fl)]
  | (b', fl') :: r => if bucket_eqb b b' then (b', fl) :: r else (b', fl') :: dict_set b fl r
  end.

Definition dict_del (b : bucket) (d : dict) : dict := filter (fun x => negb (bucket_eqb (fst x) b)) d.

Definition dict_upd (b : bucket) (g : list fmt -> list fmt) (d : dict) : dict :=
  map (fun x => if bucket_eqb (fst x) b then (fst x, g (snd x)) else x) d.

Fixpoint remove_first (f : fmt) (fl : list fmt) : list fmt :=
  match fl with
  | [] => []
  | g :: r => if fmt_eqb f g then r else g :: remove_first f r
  end.

Definition edit_req (e : edit) (r : request) : request :=
  match e with
  | ESetReq r' => r'
  | EAppendDict d => (r ++ [d])%list
  | ERemoveDict i => del_nth i r
  | ESetBucket i b fl => upd_nth i (dict_set b fl) r
  | ERemoveBucket i b => upd_nth i (dict_del b) r
  | EAppendFmt i b f => upd_nth i (dict_upd b (fun fl => (fl ++ [f])%list)) r
  | ERemoveFmt i b f => upd_nth i (dict_upd b (remove_first f)) r
  | ESetFolder _ | ESetPrefix _ => r
  end.

Definition apply_edit (e : edit) (c : cfg) : cfg :=
  match e with
  | ESetFolder s => {| c_req := c_req c; c_folder := s; c_prefix := c_prefix c |}
  | ESetPrefix s => {| c_req := c_req c; c_folder := c_folder c; c_prefix := s |}
  | _ => {| c_req := edit_req e (c_req c); c_folder := c_folder c; c_prefix := c_prefix c |}
  end.

(* the directory name create_output_directory tries first: <folder>/<prefix or "run_"><timestamp> *)
Definition base_name (ts : string) (c : cfg) : string :=
  c_folder c ++ "/" ++ (if String.eqb (c_prefix c) "" then "run_" else c_prefix c) ++ ts.

(* ------------------------------------------------------------------ the world: directories with files *)

Definition world := list (string * files).

Fixpoint wget (d : string) (w : world) : option files :=
  match w with
  | [] => None
  | (d', fs) :: r => if String.eqb d d' then Some fs else wget d r
  end.

Fixpoint wset (d : string) (fs : files) (w : world) : world :=
  match w with
  | [] => [(d, fs)]
  | (d', fs') :: r => if String.eqb d d' then (d', fs) :: r else (d', fs') :: wset d fs r
  end.

Definition wdirs (w : world) : list string := map fst w.

(* ------------------------------------------------------------------ operations, state, records *)

Inductive op :=
| Edit (e : edit)
| Run (n : nat) (pre : files)      (* run_mode and, for a dask observation, compute at once; [pre] =
                                      files that appear in the new directory before the first write *)
| Start (n : nat) (pre : files)    (* dask observation: run_mode only (lazy result kept) *)
| Compute (i : nat).               (* compute the lazy result of simulation i (counting Run and Start) *)

(* what the lazy graph of a started dask observation holds on to (p_pre: what was in its directory
   when it was started — not used by [step], kept for the statements about histories) *)
Record pend := { p_dir : string; p_req : request; p_nruns : nat; p_ep : nat; p_pre : files; p_live : bool }.

Record hstate := { h_cfg : cfg; h_cur : option string; h_pend : list pend }.

Record runrec := {
  r_ep : nat;              (* which simulation (0, 1, 2 ... in the order they were started) *)
  r_dir : string;          (* the directory this simulation created *)
  r_at : string;           (* the directory its files went to *)
  r_rep : list entry;      (* its /output node *)
  r_err : option err;
  r_files : files          (* listing of r_at when it had finished *)
}.

Definition flow (m : mode) (T : tables) (ep : nat) (req : request) (n : nat) (pre : files)
  : files * list entry * option err :=
  match m with
  | MExposure => flow_exposure T ep req pre
  | MSeq => flow_seq T ep req n pre
  | MDask => flow_dask T ep req n pre
  end.

Definition nruns_of (m : mode) (n : nat) : nat := match m with MExposure => 1 | _ => n end.

Definition kill (i : nat) (l : list pend) : list pend :=
  upd_nth i (fun p => {| p_dir := p_dir p; p_req := p_req p; p_nruns := p_nruns p; p_ep := p_ep p;
                         p_pre := p_pre p; p_live := false |}) l.

(* one operation.  Returns the new state, world, the number of simulations started so far, and the
   records of the simulations that finished in this step. *)
Definition step (m : mode) (T : tables) (excl : bool) (ts : string) (o : op)
           (st : hstate) (w : world) (ep : nat) : hstate * world * nat * list runrec :=
  match o with
  | Edit e => ({| h_cfg := apply_edit e (h_cfg st); h_cur := h_cur st; h_pend := h_pend st |}, w, ep, [])
  | Run n pre =>
      match create_dir excl (wdirs w) (base_name ts (h_cfg st)) with
      | None => (st, w, ep, [])
      | Some (p, _, _) =>
          match flow m T ep (c_req (h_cfg st)) n pre with
          | (fs', rep, e) =>
              ({| h_cfg := h_cfg st; h_cur := Some p;
                  h_pend := (h_pend st ++ [{| p_dir := p; p_req := c_req (h_cfg st); p_nruns := n; p_ep := ep;
                                              p_pre := pre; p_live := false |}])%list |},
               (p, fs') :: w, S ep,
               [{| r_ep := ep; r_dir := p; r_at := p; r_rep := rep; r_err := e; r_files := fs' |}])
          end
      end
  | Start n pre =>
      match create_dir excl (wdirs w) (base_name ts (h_cfg st)) with
      | None => (st, w, ep, [])
      | Some (p, _, _) =>
          let req := c_req (h_cfg st) in
          match dask_meta_err T ep req with
          | Some e =>
              ({| h_cfg := h_cfg st; h_cur := Some p;
                  h_pend := (h_pend st ++ [{| p_dir := p; p_req := req; p_nruns := n; p_ep := ep; p_pre := pre; p_live := false |}])%list |},
               (p, pre) :: w, S ep,
               [{| r_ep := ep; r_dir := p; r_at := p; r_rep := []; r_err := Some e; r_files := pre |}])
          | None =>
              ({| h_cfg := h_cfg st; h_cur := Some p;
                  h_pend := (h_pend st ++ [{| p_dir := p; p_req := req; p_nruns := n; p_ep := ep; p_pre := pre; p_live := true |}])%list |},
               (p, pre) :: w, S ep, [])
          end
      end
  | Compute i =>
      match nth_error (h_pend st) i with
      | None => (st, w, ep, [])
      | Some pd =>
          if negb (p_live pd) then (st, w, ep, []) else
          let d := if t_dask_snapshot T then p_dir pd
                   else match h_cur st with Some c => c | None => p_dir pd end in
          let rq := if t_dask_snapshot T then p_req pd else c_req (h_cfg st) in
          match wget d w with
          | None => (st, w, ep, [])
          | Some fs =>
              match flow_dask_from T (p_ep pd) rq (p_nruns pd) 0 fs [] with
              | (fs', rep, e) =>
                  ({| h_cfg := h_cfg st; h_cur := h_cur st; h_pend := kill i (h_pend st) |},
                   wset d fs' w, ep,
                   [{| r_ep := p_ep pd; r_dir := p_dir pd; r_at := d; r_rep := rep; r_err := e; r_files := fs' |}])
              end
          end
      end
  end.

Fixpoint run_hist (m : mode) (T : tables) (excl : bool) (ts : string) (ops : list op)
         (st : hstate) (w : world) (ep : nat) : world * list runrec :=
  match ops with
  | [] => (w, [])
  | o :: rest =>
      match step m T excl ts o st w ep with
      | (st', w', ep', recs) =>
          let (wf, more) := run_hist m T excl ts rest st' w' ep' in (wf, (recs ++ more)%list)
      end
  end.

Definition init_state (c : cfg) : hstate := {| h_cfg := c; h_cur := None; h_pend := [] |}.

(* ------------------------------------------------------------------ what was asked, and when
   Independent of the machinery above: the simulations a history starts, each with the request, folder
   and prefix in force when it was started. *)

Record sim := { sm_ep : nat; sm_req : request; sm_base : string; sm_n : nat; sm_pre : files; sm_lazy : bool }.

Fixpoint sims (ts : string) (ops : list op) (c : cfg) (ep : nat) : list sim :=
  match ops with
  | [] => []
  | Edit e :: rest => sims ts rest (apply_edit e c) ep
  | Run n pre :: rest =>
      {| sm_ep := ep; sm_req := c_req c; sm_base := base_name ts c; sm_n := n; sm_pre := pre; sm_lazy := false |}
      :: sims ts rest c (S ep)
  | Start n pre :: rest =>
      {| sm_ep := ep; sm_req := c_req c; sm_base := base_name ts c; sm_n := n; sm_pre := pre; sm_lazy := true |}
      :: sims ts rest c (S ep)
  | Compute _ :: rest => sims ts rest c ep
  end.

Fixpoint find_sim (ep : nat) (l : list sim) : option sim :=
  match l with
  | [] => None
  | s :: r => if Nat.eqb (sm_ep s) ep then Some s else find_sim ep r
  end.

(* ------------------------------------------------------------------ specification (bool) *)

Fixpoint prefix_b (a b : string) : bool :=
  match a, b with
  | EmptyString, _ => true
  | String x a', String y b' => Ascii.eqb x y && prefix_b a' b'
  | _, _ => false
  end.

(* is d one of the names the retry loop may return for this base: base, base_1, base_2, ... *)
Definition is_cand (base d : string) (bound : nat) : bool :=
  existsb (fun k => String.eqb d (cand base k)) (seq 0 (S bound)).

(* One finished simulation, judged against the request / folder / prefix in force when it was started.
   The clauses are separate functions so that a failing case can be classified. *)
Definition with_sim (ss : list sim) (r : runrec) (k : sim -> bool) : bool :=
  match find_sim (r_ep r) ss with None => false | Some s => k s end.

(* it wrote into the directory it created, which did not exist before and is a candidate of the folder
   and prefix of that time *)
Definition rec_dir_ok (w0 : world) (ss : list sim) (r : runrec) : bool :=
  with_sim ss r (fun s =>
    String.eqb (r_at r) (r_dir r)
    && negb (mem (r_dir r) (wdirs w0))
    && is_cand (sm_base s) (r_dir r) (List.length w0 + List.length ss)).

Definition rec_unchanged_ok (ss : list sim) (r : runrec) : bool :=
  with_sim ss r (fun s => spec_unchanged (sm_pre s) (r_files r)).

Definition rec_attr_ok (r : runrec) : bool :=
  match r_err r with Some _ => true | None => spec_attributed (r_ep r) (r_rep r) (r_files r) end.

Definition rec_complete_ok (m : mode) (ss : list sim) (r : runrec) : bool :=
  with_sim ss r (fun s =>
    match r_err r with Some _ => true | None => spec_complete (sm_req s) (nruns_of m (sm_n s)) (r_rep r) end).

Definition rec_named_ok (m : mode) (r : runrec) : bool :=
  match r_err r with Some _ => true | None => spec_named m (r_rep r) end.

Definition files_same (a b : files) : bool := same_set file_eqb a b.

Definition hist_dirs_ok (w0 : world) (ss : list sim) (recs : list runrec) : bool :=
  forallb (rec_dir_ok w0 ss) recs
  && nodup_b (map r_dir recs)                                          (* pairwise distinct directories *)
  && nodup_b (map (fun r => dec (r_ep r)) recs)                        (* one record per simulation *)
  && forallb (fun s => sm_lazy s || existsb (fun r => Nat.eqb (r_ep r) (sm_ep s)) recs) ss.
                                                                       (* every run_mode call is recorded *)

Definition hist_unchanged_ok (w0 : world) (ss : list sim) (recs : list runrec) (wf : world) : bool :=
  forallb (rec_unchanged_ok ss) recs
  && forallb (fun x => match wget (fst x) wf with Some fs => files_same fs (snd x) | None => false end) w0
                                                                       (* nothing that existed was touched *)
  && forallb (fun r => match wget (r_at r) wf with Some fs => files_same fs (r_files r) | None => false end) recs.
                                                                       (* later simulations left earlier ones alone *)

Definition hist_spec_ok (m : mode) (ts : string) (c : cfg) (w0 : world) (ops : list op)
           (recs : list runrec) (wf : world) : bool :=
  let ss := sims ts ops c 0 in
  hist_dirs_ok w0 ss recs
  && hist_unchanged_ok w0 ss recs wf
  && forallb rec_attr_ok recs
  && forallb (rec_complete_ok m ss) recs
  && forallb (rec_named_ok m) recs.

(* ------------------------------------------------------------------ correspondence cases *)

Record hist_case := {
  hc_mode : mode;
  hc_ts : string;
  hc_cfg : cfg;
  hc_world : world;
  hc_ops : list op;
  hc_recs : list runrec;     (* implementation *)
  hc_final : world           (* implementation: every directory with its files at the end *)
}.

(* A parallel observation that fails: which of the OTHER runs' files got written before the exception
   surfaced is a matter of scheduling; for such a simulation only the outcome is compared. *)
Definition loose (m : mode) (r : runrec) : bool :=
  match m, r_err r with MDask, Some _ => true | _, _ => false end.

Definition rec_eqb (m : mode) (a b : runrec) : bool :=
  Nat.eqb (r_ep a) (r_ep b) && String.eqb (r_dir a) (r_dir b) && String.eqb (r_at a) (r_at b)
  && opt_err_eqb (r_err a) (r_err b) && (files_same (r_files a) (r_files b) || loose m a)
  && match r_err a with None => same_set entry_eqb (r_rep a) (r_rep b) | Some _ => true end.

Definition world_eqb (skip : list string) (a b : world) : bool :=
  forallb (fun x => mem (fst x) skip
                    || match wget (fst x) b with Some fs => files_same fs (snd x) | None => false end) a
  && forallb (fun x => match wget (fst x) a with Some _ => true | None => false end) b.

Definition hist_model_ok (T : tables) (excl : bool) (c : hist_case) : bool :=
  match run_hist (hc_mode c) T excl (hc_ts c) (hc_ops c) (init_state (hc_cfg c)) (hc_world c) 0 with
  | (wf, recs) =>
      list_eqb (rec_eqb (hc_mode c)) recs (hc_recs c)
      && world_eqb (map r_at (filter (loose (hc_mode c)) recs)) wf (hc_final c)
  end.

Definition hc_sims (c : hist_case) : list sim := sims (hc_ts c) (hc_ops c) (hc_cfg c) 0.

Definition hist_case_spec_ok (c : hist_case) : bool :=
  hist_spec_ok (hc_mode c) (hc_ts c) (hc_cfg c) (hc_world c) (hc_ops c) (hc_recs c) (hc_final c).
