(* C18 — executable model of the detector <-> dictionary <-> file codec of pyxel.

   A detector value is {type; geometry/environment/characteristics; containers : field -> option payload}.
   `to_dict` / `from_dict` are driven by key TABLES (which dictionary key stores which container, which
   key `from_dict` reads back into which container of the new detector, the type tag written, the tag
   each class accepts, the dispatch of Detector.from_dict, the photon sub-keys, the key escaping).  The
   tables for the current source are regenerated on every run (Gen_C18.v, translator/c18.py).

   No proofs here (Proofs/Codec.v); the file also holds the executable specification used by the
   correspondence leg (`violations`) and the model-vs-implementation comparison (`mismatches`). *)
From Coq Require Import ZArith List Bool String Ascii.
Import ListNotations.
Open Scope string_scope.

Inductive dkind := CCD | CMOS | MKID | APD.
Inductive field :=
  FPhoton | FPixel | FSignal | FImage | FPhase | FData | FChargeArray | FChargeFrame | FScene.
Inductive pfield := PGeometry | PEnvironment | PCharacteristics.

Definition dkind_eqb (a b : dkind) : bool :=
  match a, b with CCD, CCD | CMOS, CMOS | MKID, MKID | APD, APD => true | _, _ => false end.
Definition field_eqb (a b : field) : bool :=
  match a, b with
  | FPhoton, FPhoton | FPixel, FPixel | FSignal, FSignal | FImage, FImage | FPhase, FPhase
  | FData, FData | FChargeArray, FChargeArray | FChargeFrame, FChargeFrame | FScene, FScene => true
  | _, _ => false end.
Definition pfield_eqb (a b : pfield) : bool :=
  match a, b with PGeometry, PGeometry | PEnvironment, PEnvironment | PCharacteristics, PCharacteristics => true
  | _, _ => false end.

Definition all_fields : list field :=
  [FPhoton; FPixel; FSignal; FImage; FPhase; FData; FChargeArray; FChargeFrame; FScene].
Definition all_pfields : list pfield := [PGeometry; PEnvironment; PCharacteristics].
Definition all_kinds : list dkind := [CCD; CMOS; MKID; APD].

(* phase exists only on MKID detectors *)
Definition applicable (T : dkind) (f : field) : bool :=
  match f with FPhase => dkind_eqb T MKID | _ => true end.

(* ---------------------------------------------------------------- payloads *)

(* an array: dtype name, shape, flattened values (floats as their binary64 bit pattern: exact) *)
Record arr := mk_arr { a_dt : string; a_sh : list Z; a_v : list Z }.
Definition items := list (string * arr).       (* named arrays (a serialised Dataset / table columns) *)
Definition keyed := list (string * items).     (* key -> entry; DataTree path -> Dataset, or the entries of a DataArray *)

Inductive payload :=
| PArr (a : arr)                          (* pixel, signal, image, phase, charge array, 2-D photon *)
| PKeyed (m : keyed)                      (* 3-D photon (DataArray entries), scene, processed data (path -> Dataset) *)
| PFrame (idx : list Z) (cols : items).   (* cluster table: row labels + columns *)

Fixpoint list_eqb {A} (e : A -> A -> bool) (x y : list A) : bool :=
  match x, y with
  | [], [] => true
  | a :: x', b :: y' => e a b && list_eqb e x' y'
  | _, _ => false
  end.
Definition arr_eqb (x y : arr) : bool :=
  String.eqb (a_dt x) (a_dt y) && list_eqb Z.eqb (a_sh x) (a_sh y) && list_eqb Z.eqb (a_v x) (a_v y).
Definition items_eqb : items -> items -> bool :=
  list_eqb (fun p q => String.eqb (fst p) (fst q) && arr_eqb (snd p) (snd q)).
(* a mapping: compared as a set of (key, entry) pairs — the order of a Python dict is not an observable here *)
Definition keyed_eqb (x y : keyed) : bool :=
  Nat.eqb (List.length x) (List.length y) &&
  forallb (fun p => existsb (fun q => String.eqb (fst p) (fst q) && items_eqb (snd p) (snd q)) y) x.
Definition payload_eqb (x y : payload) : bool :=
  match x, y with
  | PArr a, PArr b => arr_eqb a b
  | PKeyed a, PKeyed b => keyed_eqb a b
  | PFrame i a, PFrame j b => list_eqb Z.eqb i j && items_eqb a b
  | _, _ => false
  end.
Definition opt_eqb {A} (e : A -> A -> bool) (x y : option A) : bool :=
  match x, y with None, None => true | Some a, Some b => e a b | _, _ => false end.

Record detector := mk_det {
  d_kind : dkind;
  d_props : pfield -> items;
  d_cont : field -> option payload
}.

(* ---------------------------------------------------------------- strings / keys *)

Fixpoint replace_char (a b : ascii) (s : string) : string :=
  match s with
  | EmptyString => EmptyString
  | String c r => String (if Ascii.eqb c a then b else c) (replace_char a b r)
  end.
Fixpoint has_char (a : ascii) (s : string) : bool :=
  match s with EmptyString => false | String c r => Ascii.eqb c a || has_char a r end.

Definition esc := option (ascii * ascii).       (* key.replace(a, b) *)
Definition apply_esc (e : esc) (k : string) : string :=
  match e with None => k | Some (a, b) => replace_char a b k end.
Definition map_keys {A} (f : string -> string) (m : list (string * A)) : list (string * A) :=
  map (fun kv => (f (fst kv), snd kv)) m.

(* Python dict literal / repeated assignment: the LAST binding of a key wins *)
Fixpoint lookup_last {A} (k : string) (l : list (string * A)) : option A :=
  match l with
  | [] => None
  | (k', v) :: r =>
      match lookup_last k r with
      | Some x => Some x
      | None => if String.eqb k k' then Some v else None
      end
  end.

(* ---------------------------------------------------------------- values as nested lists
   Scene.to_dict, Photon.to_dict (3-D) and the backends turn every xarray object into `obj.to_dict()`: the VALUES of
   a variable become nested Python lists; neither its dtype nor its shape is written.  On the way back numpy infers
   both from the list: the dtype is the widest of the value class, an empty list is a float64 array, and a list
   that is empty above its innermost level has fewer levels than the variable has dimension names and cannot be
   converted at all (Dataset.from_dict raises). *)
Definition list_dtype (dt : string) : string :=
  if existsb (String.eqb dt) ["int8"; "int16"; "int32"; "int64"; "uint8"; "uint16"; "uint32"; "uint64"] then "int64"
  else if existsb (String.eqb dt) ["float16"; "float32"; "float64"] then "float64"
  else if existsb (String.eqb dt) ["complex64"; "complex128"] then "complex128"
  else if existsb (String.eqb dt) ["datetime64[ns]"; "datetime64[us]"; "datetime64[ms]"; "datetime64[s]"]
       then "datetime64[us]"
  else dt.
Definition unreadable : string := "!unreadable".
Definition has_zero (sh : list Z) : bool := existsb (Z.eqb 0) sh.
(* ndarray.tolist() nests lists down to the FIRST dimension of length 0: that much of the shape survives *)
Fixpoint upto_zero (sh : list Z) : list Z :=
  match sh with [] => [] | x :: r => if Z.eqb x 0 then [x] else x :: upto_zero r end.
Definition listify_arr (a : arr) : arr :=
  if has_zero (a_sh a) then
    if list_eqb Z.eqb (upto_zero (a_sh a)) (a_sh a)
    then mk_arr "float64" (a_sh a) (a_v a)          (* the only 0 is the last dimension: shape kept, dtype float64 *)
    else mk_arr unreadable (a_sh a) (a_v a)         (* fewer list levels than dimension names: from_dict raises *)
  else mk_arr (list_dtype (a_dt a)) (a_sh a) (a_v a).
Definition listify_items (it : items) : items := map (fun la => (fst la, listify_arr (snd la))) it.
Definition listify_keyed (m : keyed) : keyed := map (fun kv => (fst kv, listify_items (snd kv))) m.

Definition arr_stable (a : arr) : bool := arr_eqb (listify_arr a) a && negb (String.eqb (a_dt a) unreadable).
Definition items_stable (it : items) : bool := forallb (fun la => arr_stable (snd la)) it.
Definition keyed_stable (m : keyed) : bool := forallb (fun kv => items_stable (snd kv)) m.
Definition keyed_readable (m : keyed) : bool :=
  forallb (fun kv => forallb (fun la => negb (String.eqb (a_dt (snd la)) unreadable)) (snd kv)) m.

(* ---------------------------------------------------------------- group paths
   DataTree.to_dict flattens a tree into {path: Dataset} with one entry per group (the root is "/", a descendant
   "/a/b"); DataTree.from_dict rebuilds the tree and creates every group that is only implied by a longer path. *)
Fixpoint anc_aux (pre s : string) : list string :=
  match s with
  | EmptyString => []
  | String c r =>
      ((if Ascii.eqb c "/"%char then match pre with EmptyString => [] | _ => [pre] end else [])
        ++ anc_aux (pre ++ String c EmptyString) r)%list
  end.
Definition ancestors (p : string) : list string :=
  if String.eqb p "/" then [] else "/" :: anc_aux "" p.
Definition has_key {A} (k : string) (m : list (string * A)) : bool := existsb (fun kv => String.eqb k (fst kv)) m.
Fixpoint dedup (l : list string) : list string :=
  match l with
  | [] => []
  | x :: r => if existsb (String.eqb x) r then dedup r else x :: dedup r
  end.
Definition missing_groups (m : keyed) : list string :=
  dedup (filter (fun a => negb (has_key a m)) (flat_map (fun kv => ancestors (fst kv)) m)).
Definition paths_closed (m : keyed) : bool := match missing_groups m with [] => true | _ => false end.
Definition close_paths (m : keyed) : keyed := (m ++ map (fun a => (a, [])) (missing_groups m))%list.

(* what a tree (path -> group) goes through between to_dict and from_dict, with escaping a->b / b->a of its paths *)
Definition tree_trip (a b : ascii) (m : keyed) : keyed :=
  close_paths (map_keys (replace_char b a) (listify_keyed (map_keys (replace_char a b) m))).
(* everything of a tree except the dtype NAMES: group paths, and per group the labelled entries (variable / coordinate
   name + dims in order, attributes) with their shapes and values *)
Definition keyed_skeleton (m : keyed) : list (string * list (string * list Z * list Z)) :=
  map (fun kv => (fst kv, map (fun la => (fst la, a_sh (snd la), a_v (snd la))) (snd kv))) m.

(* ---------------------------------------------------------------- tables *)

Definition wentry := (string * field * esc)%type.    (* dictionary key <- container, key escaping applied *)
Definition rentry := (field * string * esc)%type.    (* container of the new detector <- dictionary key, unescaping *)

Record tables := mk_tables {
  t_written : dkind -> list wentry;
  t_read : dkind -> list rentry;
  t_pwritten : dkind -> list (string * pfield);
  t_pread : dkind -> list (pfield * string);
  t_tag_written : dkind -> string;              (* "type": "CCD" *)
  t_tag_guard : dkind -> string;                (* T.from_dict refuses dct["type"] != ... *)
  t_dispatch : list (string * dkind);           (* Detector.from_dict: tag -> class *)
  t_photon_w : string * string;                 (* Photon.to_dict keys (2-D, 3-D) *)
  t_photon_r : string * string;                 (* Photon.from_dict keys (2-D tested first, 3-D) *)
  t_photon_esc_w : esc;
  t_photon_esc_r : esc;
  t_frame_index_kept : bool;                    (* ASDF backend: the row labels of the cluster table are stored
                                                   next to its columns and used when the DataFrame is rebuilt *)
  t_load_rebinds_only : bool;                   (* load_detector: `detector = new_detector` *)
  t_load_assigned : list field                  (* containers of the PASSED detector assigned from the loaded one *)
}.

Fixpoint wlast (k : string) (l : list wentry) : option wentry :=
  match l with
  | [] => None
  | (k', f, e) :: r =>
      match wlast k r with Some x => Some x | None => if String.eqb k k' then Some (k', f, e) else None end
  end.
Fixpoint wfind (f : field) (l : list wentry) : option wentry :=
  match l with
  | [] => None
  | (k, f', e) :: r => if field_eqb f f' then Some (k, f', e) else wfind f r
  end.
Fixpoint rlast (f : field) (l : list rentry) : option rentry :=
  match l with
  | [] => None
  | (f', k, e) :: r =>
      match rlast f r with Some x => Some x | None => if field_eqb f f' then Some (f', k, e) else None end
  end.
Fixpoint plast (pf : pfield) (l : list (pfield * string)) : option string :=
  match l with
  | [] => None
  | (pf', k) :: r => match plast pf r with Some x => Some x | None => if pfield_eqb pf pf' then Some k else None end
  end.
Fixpoint pwfind (pf : pfield) (l : list (string * pfield)) : option string :=
  match l with
  | [] => None
  | (k, pf') :: r => if pfield_eqb pf pf' then Some k else pwfind pf r
  end.
Fixpoint pwlast (k : string) (l : list (string * pfield)) : option pfield :=
  match l with
  | [] => None
  | (k', pf) :: r => match pwlast k r with Some x => Some x | None => if String.eqb k k' then Some pf else None end
  end.

(* ---------------------------------------------------------------- the dictionary *)

Inductive pleaf := LArr (a : arr) | LKeyed (m : keyed).
Inductive dval :=
| DNone
| DArr (a : arr)
| DKeyed (m : keyed)
| DFrame (idx : list Z) (cols : items)     (* a pandas DataFrame (row labels + columns) *)
| DPhoton (l : list (string * pleaf)).     (* the nested dictionary written by Photon.to_dict *)

Record pdict := mk_pdict {
  p_type : string;
  p_props : list (string * items);
  p_data : list (string * dval)
}.

Definition enc (tb : tables) (f : field) (e : esc) (o : option payload) : dval :=
  match f with
  | FPhoton =>
      match o with
      | None => DPhoton []
      | Some (PArr a) => DPhoton [(fst (t_photon_w tb), LArr a)]
      | Some (PKeyed m) => DPhoton [(snd (t_photon_w tb), LKeyed (map_keys (apply_esc (t_photon_esc_w tb)) (listify_keyed m)))]
      | Some (PFrame _ _) => DNone
      end
  | FPixel | FSignal | FImage | FPhase | FChargeArray =>
      match o with Some (PArr a) => DArr a | _ => DNone end
  | FData =>       (* the Datasets themselves: the backend converts them (backend_conv) *)
      match o with Some (PKeyed m) => DKeyed (map_keys (apply_esc e) m) | _ => DKeyed [] end
  | FScene =>      (* Scene.to_dict: {path: Dataset.to_dict()} *)
      match o with Some (PKeyed m) => DKeyed (map_keys (apply_esc e) (listify_keyed m)) | _ => DKeyed [] end
  | FChargeFrame =>
      match o with Some (PFrame idx cols) => DFrame idx cols | _ => DFrame [] [] end
  end.

Definition dec (tb : tables) (f : field) (e : esc) (v : dval) : option payload :=
  match f with
  | FPhoton =>
      match v with
      | DPhoton l =>
          match lookup_last (fst (t_photon_r tb)) l with
          | Some (LArr a) => Some (PArr a)
          | Some (LKeyed _) => None
          | None =>
              match lookup_last (snd (t_photon_r tb)) l with
              | Some (LKeyed m) => Some (PKeyed (map_keys (apply_esc (t_photon_esc_r tb)) m))
              | _ => None
              end
          end
      | _ => None
      end
  | FPixel | FSignal | FImage | FPhase | FChargeArray =>
      match v with DArr a => Some (PArr a) | _ => None end
  | FData | FScene =>
      match v with
      | DKeyed [] => None
      | DKeyed m => Some (PKeyed (close_paths (map_keys (apply_esc e) m)))     (* DataTree.from_dict *)
      | _ => None
      end
  | FChargeFrame =>
      match v with
      | DFrame [] _ => None
      | DFrame idx cols => Some (PFrame idx cols)
      | _ => None
      end
  end.

Definition to_dict (tb : tables) (d : detector) : pdict :=
  let T := d_kind d in
  {| p_type := t_tag_written tb T;
     p_props := map (fun e => (fst e, d_props d (snd e))) (t_pwritten tb T);
     p_data := map (fun w => match w with (k, f, e) => (k, enc tb f e (d_cont d f)) end) (t_written tb T) |}.

Definition from_dict_as (tb : tables) (T : dkind) (pd : pdict) : detector :=
  {| d_kind := T;
     d_props := fun pf =>
       match plast pf (t_pread tb T) with
       | Some k => match lookup_last k (p_props pd) with Some v => v | None => [] end
       | None => []
       end;
     d_cont := fun f =>
       match rlast f (t_read tb T) with
       | Some (_, k, e) => match lookup_last k (p_data pd) with Some v => dec tb f e v | None => None end
       | None => None
       end |}.

(* Detector.from_dict: dispatch on the tag, then the class checks the tag itself (None = raises) *)
Definition dval_readable (v : dval) : bool :=
  match v with
  | DKeyed m => keyed_readable m
  | DPhoton l => forallb (fun kl => match snd kl with LKeyed m => keyed_readable m | LArr _ => true end) l
  | _ => true
  end.
Definition from_dict (tb : tables) (pd : pdict) : option detector :=
  match lookup_last (p_type pd) (t_dispatch tb) with
  | None => None
  | Some T =>
      if String.eqb (p_type pd) (t_tag_guard tb T) && forallb (fun kv => dval_readable (snd kv)) (p_data pd)
      then Some (from_dict_as tb T pd) else None
  end.

(* ---------------------------------------------------------------- the file backend (ASDF)
   to_asdf turns the cluster table into {column: list} (orient="list": the row labels are not part of it) and
   from_asdf rebuilds a DataFrame from it; the row labels come back iff they are stored separately and handed to the
   DataFrame constructor (t_frame_index_kept), otherwise they are 0..n-1; the processed data goes through
   backend_conv; everything else passes through. *)
Fixpoint zrange_from (s : Z) (n : nat) : list Z :=
  match n with O => [] | S n' => s :: zrange_from (s + 1)%Z n' end.
Definition nrows (cols : items) : nat :=
  match cols with [] => O | (_, a) :: _ => List.length (a_v a) end.
(* every backend: {key: Dataset.to_dict()} for the processed data (the dictionary route of the correspondence does
   the same conversion in memory, because from_dict cannot read Dataset objects) *)
Definition backend_conv (v : dval) : dval :=
  match v with DKeyed m => DKeyed (listify_keyed m) | _ => v end.
Definition file_conv (tb : tables) (v : dval) : dval :=
  match v with
  | DFrame idx cols => DFrame (if t_frame_index_kept tb then idx else zrange_from 0%Z (nrows cols)) cols
  | _ => backend_conv v
  end.
Definition via (conv : dval -> dval) (pd : pdict) : pdict :=
  {| p_type := p_type pd; p_props := p_props pd;
     p_data := map (fun kv => (fst kv, conv (snd kv))) (p_data pd) |}.
Definition via_dict : pdict -> pdict := via backend_conv.
Definition via_file (tb : tables) : pdict -> pdict := via (file_conv tb).

(* ---------------------------------------------------------------- load_detector inside a pipeline *)
Definition load_detector_effect (tb : tables) (running file : detector) : detector :=
  {| d_kind := d_kind running; d_props := d_props running;
     d_cont := fun f => if existsb (field_eqb f) (t_load_assigned tb) then d_cont file f else d_cont running f |}.

(* ---------------------------------------------------------------- well-formed detectors
   wf_shape : the type invariants of a real detector (the quantifier of the property)
   restr    : the extra restrictions under which the CURRENT codec round-trips (the `_partial` theorems) *)
Definition wf_shape (T : dkind) (f : field) (o : option payload) : Prop :=
  match o with
  | None => True
  | Some p =>
      applicable T f = true /\
      match f, p with
      | FPhoton, PArr _ => True
      | FPhoton, PKeyed _ => True
      | (FPixel | FSignal | FImage | FPhase | FChargeArray), PArr _ => True
      | (FData | FScene), PKeyed m => m <> [] /\ paths_closed m = true      (* a tree has all its ancestors *)
      | FChargeFrame, PFrame idx _ => idx <> []
      | _, _ => False
      end
  end.

Definition hash : ascii := "#"%char.
Definition slash : ascii := "/"%char.
Definition keys_nohash (m : keyed) : bool := forallb (fun kv => negb (has_char hash (fst kv))) m.

(* no '#' in a key, and every variable has a dtype / shape that survives the trip through nested lists *)
Definition restr_dict (f : field) (o : option payload) : Prop :=
  match o with Some (PKeyed m) => keys_nohash m = true /\ keyed_stable m = true | _ => True end.
Definition restr_file (tb : tables) (f : field) (o : option payload) : Prop :=
  restr_dict f o /\
  match o with
  | Some (PFrame idx cols) => t_frame_index_kept tb = true \/ idx = zrange_from 0%Z (nrows cols)
  | _ => True
  end.

(* ---------------------------------------------------------------- decidable sufficient condition *)
Definition esc_is (e : esc) (a b : ascii) : bool :=
  match e with Some (x, y) => Ascii.eqb x a && Ascii.eqb y b | None => false end.

Definition field_ok (tb : tables) (T : dkind) (f : field) : bool :=
  if applicable T f then
    match wfind f (t_written tb T), rlast f (t_read tb T) with
    | Some (k, _, _), Some (_, k', er) =>
        String.eqb k k' &&
        match wlast k (t_written tb T) with      (* the binding of that key which survives in the dict *)
        | Some (_, f', ew) =>
            field_eqb f f' &&
            match f with
            | FData | FScene => esc_is ew slash hash && esc_is er hash slash
            | _ => true
            end
        | None => false
        end
    | _, _ => false
    end
  else
    match rlast f (t_read tb T) with None => true | Some _ => false end.

Definition pfield_ok (tb : tables) (T : dkind) (pf : pfield) : bool :=
  match pwfind pf (t_pwritten tb T), plast pf (t_pread tb T) with
  | Some k, Some k' =>
      String.eqb k k' && match pwlast k (t_pwritten tb T) with Some pf' => pfield_eqb pf pf' | None => false end
  | _, _ => false
  end.

Definition header_ok (tb : tables) (T : dkind) : bool :=
  match lookup_last (t_tag_written tb T) (t_dispatch tb) with Some T' => dkind_eqb T T' | None => false end &&
  String.eqb (t_tag_written tb T) (t_tag_guard tb T) &&
  forallb (pfield_ok tb T) all_pfields &&
  String.eqb (fst (t_photon_w tb)) (fst (t_photon_r tb)) &&
  String.eqb (snd (t_photon_w tb)) (snd (t_photon_r tb)) &&
  negb (String.eqb (fst (t_photon_r tb)) (snd (t_photon_w tb))) &&
  esc_is (t_photon_esc_w tb) slash hash && esc_is (t_photon_esc_r tb) hash slash.

Definition codec_ok (tb : tables) (T : dkind) (fs : list field) : bool :=
  header_ok tb T && forallb (field_ok tb T) fs.

(* the containers for which the current tables round-trip *)
Definition ok_fields (tb : tables) (T : dkind) : list field := filter (field_ok tb T) all_fields.

(* ---------------------------------------------------------------- the property, as Props *)
Definition same_detector_on (fs : list field) (d' d : detector) : Prop :=
  d_kind d' = d_kind d /\ (forall pf, d_props d' pf = d_props d pf) /\
  (forall f, In f fs -> d_cont d' f = d_cont d f).

Definition roundtrip_on (route : pdict -> pdict) (P : dkind -> field -> option payload -> Prop)
           (tb : tables) (T : dkind) (fs : list field) : Prop :=
  forall d, d_kind d = T -> (forall f, P T f (d_cont d f)) ->
  exists d', from_dict tb (route (to_dict tb d)) = Some d' /\ same_detector_on fs d' d.

Definition load_replaces (tb : tables) : Prop :=
  forall running file f, d_cont (load_detector_effect tb running file) f = d_cont file f.

(* ---------------------------------------------------------------- correspondence cases *)
Definition cont_of (l : list (field * payload)) : field -> option payload :=
  fun f => match find (fun e => field_eqb f (fst e)) l with Some (_, p) => Some p | None => None end.
Definition props_of (g e c : items) : pfield -> items :=
  fun pf => match pf with PGeometry => g | PEnvironment => e | PCharacteristics => c end.

Record snapshot := mk_snap {
  s_kind : dkind; s_geo : items; s_env : items; s_chr : items; s_cont : list (field * payload)
}.
Definition det_of (s : snapshot) : detector :=
  {| d_kind := s_kind s; d_props := props_of (s_geo s) (s_env s) (s_chr s); d_cont := cont_of (s_cont s) |}.

Inductive route := RDict | RFile | RLoad.

Record codec_case := mk_case {
  c_route : route;
  c_orig : snapshot;                 (* the detector that was saved (RLoad: the file's detector) *)
  c_running : option snapshot;       (* RLoad only: the running detector when the load model executes *)
  c_back : option snapshot           (* what the implementation produced (None = it raised);
                                        RLoad: what the probe placed after load_detector saw *)
}.

Definition det_eqb (a b : detector) : bool :=
  dkind_eqb (d_kind a) (d_kind b) &&
  forallb (fun pf => items_eqb (d_props a pf) (d_props b pf)) all_pfields &&
  forallb (fun f => opt_eqb payload_eqb (d_cont a f) (d_cont b f)) all_fields.
(* RLoad compares the data containers only (the property: "replaces the running detector's DATA") *)
Definition cont_eqb (a b : detector) : bool :=
  forallb (fun f => opt_eqb payload_eqb (d_cont a f) (d_cont b f)) all_fields.

Definition model_of (tb : tables) (c : codec_case) : option detector :=
  match c_route c with
  | RDict => from_dict tb (via_dict (to_dict tb (det_of (c_orig c))))
  | RFile => from_dict tb (via_file tb (to_dict tb (det_of (c_orig c))))
  | RLoad => (* the file was written by save (to_dict + backend), load_detector reads it back and copies *)
             match c_running c, from_dict tb (via_file tb (to_dict tb (det_of (c_orig c)))) with
             | Some r, Some loaded => Some (load_detector_effect tb (det_of r) loaded)
             | _, _ => None
             end
  end.

Definition case_mismatch (tb : tables) (c : codec_case) : bool :=
  match model_of tb c, c_back c with
  | None, None => false
  | Some m, Some b => negb (match c_route c with RLoad => cont_eqb m (det_of b) | _ => det_eqb m (det_of b) end)
  | _, _ => true
  end.

(* SPECIFICATION (right-hand side of the theorems): what came back IS the saved detector *)
Definition case_violates (c : codec_case) : bool :=
  match c_back c with
  | None => true
  | Some b => negb (match c_route c with
                    | RLoad => cont_eqb (det_of b) (det_of (c_orig c))
                    | _ => det_eqb (det_of b) (det_of (c_orig c))
                    end)
  end.

Fixpoint indices_where {A} (p : A -> bool) (l : list A) (i : Z) : list Z :=
  match l with
  | [] => []
  | x :: r => if p x then i :: indices_where p r (i + 1)%Z else indices_where p r (i + 1)%Z
  end.
Definition mismatches (tb : tables) (cs : list codec_case) : list Z := indices_where (case_mismatch tb) cs 0%Z.
Definition violations (cs : list codec_case) : list Z := indices_where case_violates cs 0%Z.

(* which containers differ between what came back and the original (for the report only) *)
Definition differing_fields (c : codec_case) : list field :=
  match c_back c with
  | None => []
  | Some b => filter (fun f => negb (opt_eqb payload_eqb (d_cont (det_of b) f) (d_cont (det_of (c_orig c)) f))) all_fields
  end.
