(* C06 — store model, third part: the RANDOM GENERATOR as an explicit input of every run.
   Executable definitions only (no proofs); proofs in Proofs/HeapRngFrame.v.

   What is modelled
   ----------------
   * numpy's global generator is a value [g : gen] threaded through everything that happens; a
     pipeline (user model functions, some of them stochastic and WITHOUT a seed of their own: shot
     noise, a model that calls numpy.random functions) receives the current generator state and returns the state
     it leaves behind:
        run : params -> gen -> heap -> loc -> heap * gen * option res
   * [seeded sd g body] is `with set_random_seed(sd): body` (pyxel/util/randomize.py): with a seed the
     body starts from [seed_gen sd] and the previous state [g] is put back afterwards (in a finally
     clause: also when the body raises); without a seed the body works on [g] itself and leaves what
     it leaves.
   * a standalone exposure with pipeline_seed = sd on a copy of the user's configuration is
     [step_rng pol ps (seed_gen sd) s0 p]  (exposure.run_pipeline brackets its whole body with the seed).
   * where the run sites of an observation / calibration put the bracket is the generated table
     [src_seeding] (translator: which `pipeline_seed=` the run site hands to run_pipeline, whether a
     `with set_random_seed` surrounds the loop over the runs):
        SeedEachRun      every run is bracketed with the pipeline seed (the source, as generated)
        SeedOncePerCall  ONE bracket around the whole loop, the runs inside are not seeded: run 0
                         starts from seed_gen sd, run k+1 from the state run k left
        SeedNever        the seed is dropped: every run continues the ambient stream
   * one call = a list of runs (loop path: aborted at the first failing run); a history = a list of
     calls on the same caller objects and the same ambient generator. *)
From Coq Require Import String ZArith List Arith Bool Lia.
From PyxelV Require Import Model.Heap Model.HeapExc.
Import ListNotations.
Local Open Scope string_scope.

Inductive seeding := SeedEachRun | SeedOncePerCall | SeedNever.

Definition seeding_eqb (a b : seeding) : bool :=
  match a, b with
  | SeedEachRun, SeedEachRun | SeedOncePerCall, SeedOncePerCall | SeedNever, SeedNever => true
  | _, _ => false
  end.

Definition seeding_ok (rows : list (string * seeding)) : bool :=
  negb (Nat.eqb (length rows) 0) && forallb (fun r => seeding_eqb (snd r) SeedEachRun) rows.

Section ObserveRng.
  Variables (params res gen seed : Type).
  Variable seed_gen : seed -> gen.
  Variable setp : params -> heap -> loc -> heap * bool.
  Variable run : params -> gen -> heap -> loc -> heap * gen * option res.

  (* the pipeline started from generator state [g], as a run of the generator-free model *)
  Definition run_at (g : gen) (ps : params) (s : heap) (c : loc) : heap * option res :=
    (fst (fst (run ps g s c)), snd (run ps g s c)).

  (* `with set_random_seed(sd): body` *)
  Definition seeded (X : Type) (sd : option seed) (g : gen) (body : gen -> heap * gen * X) : heap * gen * X :=
    match sd with
    | Some x => (fst (fst (body (seed_gen x))), g, snd (body (seed_gen x)))
    | None => body g
    end.

  (* copy site, Processor.set of the run's values, pipeline started from generator state [g] *)
  Definition step_rng (pol : policy) (ps : params) (g : gen) (s : heap) (p : loc) : heap * gen * option res :=
    match deepcopy pol s p with
    | Some (s1, c) =>
      if snd (setp ps s1 c) then run ps g (fst (setp ps s1 c)) c else (fst (setp ps s1 c), g, None)
    | None => (s, g, None)
    end.

  (* the loop over the runs of one call; [each] = the seed every single run is bracketed with *)
  Fixpoint loop_rng (each : option seed) (stop : bool) (pol : policy) (rs : list params) (g : gen) (s : heap)
           (p : loc) : heap * gen * list (option res) :=
    match rs with
    | [] => (s, g, [])
    | ps :: rest =>
      let r := seeded (option res) each g (fun g' => step_rng pol ps g' s p) in
      match snd r, stop with
      | None, true => (fst (fst r), snd (fst r), [None])
      | _, _ =>
        let o := loop_rng each stop pol rest (snd (fst r)) (fst (fst r)) p in
        (fst (fst o), snd (fst o), snd r :: snd o)
      end
    end.

  (* one call under a seeding discipline, with the user's pipeline_seed [sd] *)
  Definition observe_rng (d : seeding) (sd : option seed) (stop : bool) (pol : policy) (rs : list params)
             (g : gen) (s : heap) (p : loc) : heap * gen * list (option res) :=
    match d with
    | SeedEachRun => loop_rng sd stop pol rs g s p
    | SeedOncePerCall => seeded (list (option res)) sd g (fun g' => loop_rng None stop pol rs g' s p)
    | SeedNever => loop_rng None stop pol rs g s p
    end.

  (* a history: successive calls on the same caller objects and the same ambient generator *)
  Fixpoint calls_rng (d : seeding) (sd : option seed) (pol : policy) (cs : list (bool * list params))
           (g : gen) (s : heap) (p : loc) : heap * gen * list (list (option res)) :=
    match cs with
    | [] => (s, g, [])
    | c :: rest =>
      let o := observe_rng d sd (fst c) pol (snd c) g s p in
      let o' := calls_rng d sd pol rest (snd (fst o)) (fst (fst o)) p in
      (fst (fst o'), snd (fst o'), snd o :: snd o')
    end.

  (* the outcome of the standalone exposure with pipeline_seed [sd] and the run's parameter values *)
  Definition standalone (pol : policy) (sd : seed) (s0 : heap) (p : loc) (ps : params) : option res :=
    snd (step_rng pol ps (seed_gen sd) s0 p).
End ObserveRng.

(* ---------------------------------------------------------------- concrete legal witnesses *)

(* generator = a counter; a stochastic pipeline: it returns the detector memory plus the number it
   draws, changes the memory (run_touch) and advances the generator by k+1 draws; it raises (after
   its effects) when what it drew exceeds 1000 *)
Definition run_draw (k : Z) (g : Z) (s : heap) (l : loc) : heap * Z * option Z :=
  (fst (run_touch k s l), (g + k + 1)%Z,
   if (1000 <? g)%Z then None else Some (snd (run_touch k s l) + g)%Z).

Definition seed_id (x : Z) : Z := x.
