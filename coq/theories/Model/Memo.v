(* Memoisation of pyxel/util/image.py load_cropped_and_aligned_image (functools.lru_cache) over a
   history of file writes and loads in ONE process (C20, "what a model loads reflects the file's
   content at the time of the run").
   The key fields (= the function's parameter list), whether the function is memoised at all and the
   cache size are PARAMETERS: the check instantiates them from Gen_C20 (regenerated from the source).
   The function being memoised (load_image + fit_into_array) is a parameter `fitf` too, so that the
   theorems hold whatever it computes; case files instantiate it with Model.Placement.
   No proofs here (Proofs/PlacementMemo.v). *)
From Coq Require Import ZArith List Bool String.
From PyxelV Require Import Model.Placement.
Import ListNotations.
Open Scope Z_scope.

Inductive key_field := KShape | KFile | KPosX | KPosY | KAlign | KAllow.

Definition key_field_eqb (a b : key_field) : bool :=
  match a, b with
  | KShape, KShape | KFile, KFile | KPosX, KPosX | KPosY, KPosY | KAlign, KAlign | KAllow, KAllow => true
  | _, _ => false
  end.

Definition all_fields : list key_field := [KShape; KFile; KPosX; KPosY; KAlign; KAllow].

Record request := {
  q_shape : Z * Z;               (* detector (rows, cols) *)
  q_file : string;
  q_px : Z; q_py : Z;
  q_align : option string;
  q_allow : bool
}.

Inductive kval := VZ (z : Z) | VS (s : string) | VO (o : option string) | VB (b : bool) | VP (p : Z * Z).

Definition kval_eqb (a b : kval) : bool :=
  match a, b with
  | VZ x, VZ y => x =? y
  | VS x, VS y => String.eqb x y
  | VO None, VO None => true
  | VO (Some x), VO (Some y) => String.eqb x y
  | VB x, VB y => Bool.eqb x y
  | VP (a1, a2), VP (b1, b2) => (a1 =? b1) && (a2 =? b2)
  | _, _ => false
  end.

Definition field (q : request) (f : key_field) : kval :=
  match f with
  | KShape => VP (q_shape q) | KFile => VS (q_file q) | KPosX => VZ (q_px q) | KPosY => VZ (q_py q)
  | KAlign => VO (q_align q) | KAllow => VB (q_allow q)
  end.

Definition key := list kval.
Definition key_of (kf : list key_field) (q : request) : key := map (field q) kf.

Fixpoint key_eqb (a b : key) : bool :=
  match a, b with
  | [], [] => true
  | x :: a', y :: b' => kval_eqb x y && key_eqb a' b'
  | _, _ => false
  end.

(* every argument that influences the result is part of the key *)
Definition key_complete (kf : list key_field) : bool :=
  forallb (fun f => existsb (key_field_eqb f) kf) all_fields.

(* a file's content: the stored array with its shape *)
Definition content := (Z * Z * mat)%type.
Definition fs_t := list (string * content).

Fixpoint fs_get (fs : fs_t) (p : string) : option content :=
  match fs with
  | [] => None
  | (n, c) :: t => if String.eqb n p then Some c else fs_get t p
  end.

Definition fs_put (fs : fs_t) (p : string) (c : content) : fs_t := (p, c) :: fs.

(* lru_cache: most recently used first; exceptions are not cached *)
Definition cache_t := list (key * mat).

Fixpoint cache_get (c : cache_t) (k : key) : option mat :=
  match c with
  | [] => None
  | (k', v) :: t => if key_eqb k' k then Some v else cache_get t k
  end.

Definition cache_drop (c : cache_t) (k : key) : cache_t := filter (fun e => negb (key_eqb (fst e) k)) c.

Definition cache_touch (c : cache_t) (k : key) (v : mat) : cache_t := (k, v) :: cache_drop c k.
Definition cache_insert (maxsize : nat) (c : cache_t) (k : key) (v : mat) : cache_t :=
  firstn maxsize ((k, v) :: c).

Record mstate := { st_fs : fs_t; st_cache : cache_t }.
Definition mstate0 : mstate := {| st_fs := []; st_cache := [] |}.

Inductive event :=
| Write (p : string) (c : content)      (* the file at p now holds c *)
| Load (q : request)                    (* a model calls load_cropped_and_aligned_image with arguments q *)
| LoadRaw (p : string).                 (* a direct pyxel.inputs load (load_image / load_table) of the whole file *)

(* what a direct loader call returns from the file as it is now: the stored array, whole *)
Definition raw_load (fs : fs_t) (p : string) : option mat :=
  match fs_get fs p with
  | Some (_, _, a) => Some a
  | None => None                         (* FileNotFoundError *)
  end.

Section Memo.
Variable fitf : content -> request -> option mat.     (* None = raises *)
Variable memoised : bool.
Variable maxsize : nat.
Variable kf : list key_field.

(* what the call computes from the file as it is now *)
Definition compute (fs : fs_t) (q : request) : option mat :=
  match fs_get fs (q_file q) with
  | None => None                         (* FileNotFoundError *)
  | Some c => fitf c q
  end.

Definition do_load (st : mstate) (q : request) : mstate * option mat :=
  if memoised then
    let k := key_of kf q in
    match cache_get (st_cache st) k with
    | Some v => ({| st_fs := st_fs st; st_cache := cache_touch (st_cache st) k v |}, Some v)
    | None =>
        match compute (st_fs st) q with
        | Some v => ({| st_fs := st_fs st; st_cache := cache_insert maxsize (st_cache st) k v |}, Some v)
        | None => (st, None)
        end
    end
  else (st, compute (st_fs st) q).

(* results of the loads of a history, in order *)
Fixpoint run (st : mstate) (h : list event) : list (option mat) :=
  match h with
  | [] => []
  | Write p c :: t => run {| st_fs := fs_put (st_fs st) p c; st_cache := st_cache st |} t
  | Load q :: t => let '(st', r) := do_load st q in r :: run st' t
  | LoadRaw p :: t => raw_load (st_fs st) p :: run st t      (* the pyxel.inputs loaders keep no state *)
  end.

End Memo.

(* the property's right-hand side: every load returns what the file holds at that moment *)
Fixpoint fresh_run (fitf : content -> request -> option mat) (fs : fs_t) (h : list event)
  : list (option mat) :=
  match h with
  | [] => []
  | Write p c :: t => fresh_run fitf (fs_put fs p c) t
  | Load q :: t => compute fitf fs q :: fresh_run fitf fs t
  | LoadRaw p :: t => raw_load fs p :: fresh_run fitf fs t
  end.

(* histories in which no file is written again after it has been loaded *)
Fixpoint no_rewrite (loaded : list string) (h : list event) : bool :=
  match h with
  | [] => true
  | Write p _ :: t => negb (existsb (String.eqb p) loaded) && no_rewrite loaded t
  | Load q :: t => no_rewrite (q_file q :: loaded) t
  | LoadRaw _ :: t => no_rewrite loaded t
  end.

(* well-formed histories: every written content is a rectangular array of its stated shape, every request names a
   detector shape with non-negative sides (what numpy / Geometry guarantee) *)
Definition wf_content (c : content) : bool := let '(ay, ax, a) := c in wf_matb ay ax a.
Definition wf_request (q : request) : bool := (0 <=? fst (q_shape q)) && (0 <=? snd (q_shape q)).

Fixpoint wf_history (h : list event) : bool :=
  match h with
  | [] => true
  | Write _ c :: t => wf_content c && wf_history t
  | Load q :: t => wf_request q && wf_history t
  | LoadRaw _ :: t => wf_history t
  end.

(* ---------------------------------------------------------------- case files *)

Definition fit_of (algn : align_fn) (names : align_names) (c : content) (q : request) : option mat :=
  let '(ay, ax, a) := c in
  match fit_into_array algn names ay ax a (fst (q_shape q)) (snd (q_shape q)) (q_py q, q_px q)
                       (q_align q) (q_allow q) with
  | FitOk out => Some out
  | FitErr _ => None
  end.

Definition spec_fit_of (c : content) (q : request) : option mat :=
  let '(ay, ax, a) := c in
  spec_fit ay ax a (fst (q_shape q)) (snd (q_shape q)) (q_py q, q_px q) (q_align q) (q_allow q).

Record memo_case := { m_hist : list event; m_obs : list (option mat) }.

Fixpoint obs_list_agree (m o : list (option mat)) : bool :=
  match m, o with
  | [], [] => true
  | x :: m', y :: o' => obs_agree x y && obs_list_agree m' o'
  | _, _ => false
  end.

Definition memo_mismatches algn names memoised maxsize kf (cs : list memo_case) : list Z :=
  indices_where (fun c => negb (obs_list_agree
     (run (fit_of algn names) memoised maxsize kf mstate0 (m_hist c)) (m_obs c))) cs 0.

Definition memo_violations (cs : list memo_case) : list Z :=
  indices_where (fun c => negb (obs_list_agree (fresh_run spec_fit_of [] (m_hist c)) (m_obs c))) cs 0.

(* ---------------------------------------------------------------- the two loading models' call sites *)

(* photon_collection.load_image and charge_generation.load_charge call load_cropped_and_aligned_image with arguments
   built from the detector's geometry and their own parameters, scale the result and add it to a bucket.  What each
   passes where is read from the source (Gen_C20.src_photon_call / src_charge_call). *)
Inductive geo_src := GRow | GCol.                       (* detector.geometry.row / .col *)

Record model_call := {
  mc_shape : geo_src * geo_src;        (* the `shape` argument *)
  mc_py : nat; mc_px : nat;            (* which component of the model's `position` goes to position_y / position_x *)
  mc_file : bool;                      (* `filename` is the model's file parameter *)
  mc_align : bool;                     (* `align` is the model's align parameter *)
  mc_allow : bool;                     (* allow_smaller_array (default True when not passed) *)
  mc_factor : Z * Z * Z;               (* exponents of time_step, time_scale, multiplier in the scaling factor *)
  mc_adds : bool                       (* the scaled array is ADDED to the bucket (+= / add_charge_array) *)
}.

Definition geo_pick (g : geo_src) (rows cols : Z) : Z := match g with GRow => rows | GCol => cols end.
Definition pos_pick (k : nat) (pos : Z * Z) : Z := match k with O => fst pos | _ => snd pos end.

(* the request a model makes for a detector of rows x cols, its file, position and align parameters *)
Definition model_request (mc : model_call) (rows cols : Z) (file : string) (pos : Z * Z) (align : option string)
  : request :=
  {| q_shape := (geo_pick (fst (mc_shape mc)) rows cols, geo_pick (snd (mc_shape mc)) rows cols);
     q_file := file; q_px := pos_pick (mc_px mc) pos; q_py := pos_pick (mc_py mc) pos;
     q_align := align; q_allow := mc_allow mc |}.
