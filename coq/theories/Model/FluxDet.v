(* C17 — the lifecycle of the detector buckets between the readouts of one exposure, per detector type.

   Executable model only (no proofs).  translator/c17.py reads from the source under test

     pyxel/detectors/**            every class of the Detector family, its parent, and — where the class defines
                                   its own `empty(self, reset=...)` — what that method does for reset = True and for
                                   reset = False: which buckets it certainly empties, which it empties only under a
                                   condition on the detector's own state, and whether / with which value it calls
                                   the parent's `empty` (`super().empty(reset)` forwards the flag, `super().empty()`
                                   silently turns it into the parent's default)                 -> [det_table]
     pyxel/exposure/exposure.py    every function that calls `detector.empty(...)`: the calls before the readout
                                   loop, and the argument of the call inside the loop as a function of the readout
                                   mode (non-destructive or not)                                -> [loop_table]

   and Properties/C17.v proves over the regenerated tables that an exposure on ANY detector type of the family,
   run by ANY of these loops from ANY initial bucket content, is the exposure of Model/Flux.v (run_exposure), to
   which the partition / proportionality theorems apply. *)
From Coq Require Import QArith List Bool String Arith.
From PyxelV Require Import Model.Flux.
Import ListNotations.
Open Scope string_scope.
Open Scope Q_scope.

(* what one definition of `empty` does for one value of `reset` *)
Record empty_case : Type := {
  ec_super : option bool;      (* Some r: it calls the parent's empty with the value r; None: no such call *)
  ec_clears : list string;     (* buckets it empties itself on every path *)
  ec_may : list string         (* buckets it empties only under a condition on the detector's own state *)
}.

Record empty_def : Type := {
  ed_default : option bool;    (* default value of `reset` in the signature (None: the argument is required) *)
  ed_true : empty_case;        (* behaviour for reset = True *)
  ed_false : empty_case        (* behaviour for reset = False *)
}.

Record det_class : Type := {
  dc_name : string;
  dc_parent : string;                 (* "" for the root of the family *)
  dc_empty : option empty_def         (* None: `empty` is inherited *)
}.

Definition smem (s : string) (l : list string) : bool := existsb (String.eqb s) l.

Fixpoint find_class (n : string) (t : list det_class) : option det_class :=
  match t with
  | [] => None
  | c :: r => if String.eqb (dc_name c) n then Some c else find_class n r
  end.

(* is bucket b emptied by `cls.empty(reset)`?  [may] = false: on every path; [may] = true: on some path.
   Method resolution follows the parent chain (fuel = length of the table + 1 is enough for any acyclic table) *)
Fixpoint cleared_f (fuel : nat) (may : bool) (t : list det_class) (cls : string) (reset : bool) (b : string) : bool :=
  match fuel with
  | O => false
  | S f =>
      match find_class cls t with
      | None => false
      | Some c =>
          match dc_empty c with
          | None => cleared_f f may t (dc_parent c) reset b
          | Some d =>
              let k := if reset then ed_true d else ed_false d in
              smem b (ec_clears k) || (may && smem b (ec_may k))
              || match ec_super k with
                 | Some r => cleared_f f may t (dc_parent c) r b
                 | None => false
                 end
          end
      end
  end.

Definition cleared (t : list det_class) (cls : string) (reset : bool) (b : string) : bool :=
  cleared_f (S (List.length t)) false t cls reset b.
Definition may_cleared (t : list det_class) (cls : string) (reset : bool) (b : string) : bool :=
  cleared_f (S (List.length t)) true t cls reset b.

(* the default of `reset` of the definition of `empty` that the class uses *)
Fixpoint default_f (fuel : nat) (t : list det_class) (cls : string) : option bool :=
  match fuel with
  | O => None
  | S f =>
      match find_class cls t with
      | None => None
      | Some c => match dc_empty c with
                  | None => default_f f t (dc_parent c)
                  | Some d => ed_default d
                  end
      end
  end.
Definition default_reset (t : list det_class) (cls : string) : option bool := default_f (S (List.length t)) t cls.

(* the argument of a call `detector.empty(...)` *)
Inductive earg : Type := EDefault | EBool (b : bool).

(* None: the call raises (no argument given and no default) *)
Definition arg_value (t : list det_class) (cls : string) (a : earg) : option bool :=
  match a with
  | EBool b => Some b
  | EDefault => default_reset t cls
  end.

(* one function that runs the readouts of an exposure *)
Record loop_def : Type := {
  lp_name : string;
  lp_pre : list earg;       (* the calls of detector.empty before the loop, in order *)
  lp_nd : earg;             (* the call at the top of every readout when the readout mode is non-destructive *)
  lp_d : earg               (* ... when it is destructive *)
}.

(* the effect of detector.empty on the three buckets of the property *)
Definition empty_st (must : string -> bool) (s : st) : st :=
  mkst (if must "photon" then 0 else photon s)
       (if must "charge" then 0 else charge s)
       (if must "pixel" then 0 else pixel s).

Definition det_empty (t : list det_class) (cls : string) (a : earg) (s : st) : option st :=
  match arg_value t cls a with
  | Some r => Some (empty_st (cleared t cls r) s)
  | None => None
  end.

Fixpoint pre_empties (t : list det_class) (cls : string) (pre : list earg) (s : st) : option st :=
  match pre with
  | [] => Some s
  | a :: r => match det_empty t cls a s with
              | Some s' => pre_empties t cls r s'
              | None => None
              end
  end.

(* Model/Flux.v's run_steps with the begin-of-readout action as a parameter *)
Fixpoint run_steps_of (beg : st -> st) (ops : list mop) (s : st) (steps : list Q) : list st :=
  match steps with
  | [] => []
  | d :: r => let s' := fold_left (apply_op d) ops (beg s) in s' :: run_steps_of beg ops s' r
  end.

(* an exposure on a detector of class cls, run by loop lp, starting from ANY bucket content s_init
   (a detector that was used before): the schedule guard, the empties before the loop, then for every readout
   detector.empty(<the loop's argument for this mode>) followed by the models *)
Definition run_exposure_of (t : list det_class) (cls : string) (lp : loop_def) (nd : bool) (ops : list mop)
           (s_init : st) (start : Q) (ts : list Q) : option (list st) :=
  if valid_schedule start ts then
    match pre_empties t cls (lp_pre lp) s_init, arg_value t cls (if nd then lp_nd lp else lp_d lp) with
    | Some s0, Some r => Some (run_steps_of (empty_st (cleared t cls r)) ops s0 (diffs start ts))
    | _, _ => None
    end
  else None.

(* ------------------------------------------------------------------ the executable check over the tables *)

Definition opt_is (o : option bool) (b : bool) : bool :=
  match o with Some x => Bool.eqb x b | None => false end.

(* photon and charge are emptied at every call; pixel exactly when reset is True — on every path, and on no
   path otherwise *)
Definition class_ok (t : list det_class) (c : det_class) : bool :=
  forallb (fun reset =>
             cleared t (dc_name c) reset "photon" && cleared t (dc_name c) reset "charge"
             && Bool.eqb (cleared t (dc_name c) reset "pixel") reset
             && Bool.eqb (may_cleared t (dc_name c) reset "pixel") reset) [true; false].

(* before the loop the detector is reset (at least one call with reset = True, every call well-formed);
   inside the loop reset = (the readout is destructive) *)
Definition loop_ok (t : list det_class) (cls : string) (lp : loop_def) : bool :=
  forallb (fun a => match arg_value t cls a with Some _ => true | None => false end) (lp_pre lp)
  && existsb (fun a => opt_is (arg_value t cls a) true) (lp_pre lp)
  && opt_is (arg_value t cls (lp_nd lp)) false
  && opt_is (arg_value t cls (lp_d lp)) true.

Definition lifecycle_ok (t : list det_class) (loops : list loop_def) : bool :=
  negb (match t with [] => true | _ => false end)
  && negb (match loops with [] => true | _ => false end)
  && forallb (class_ok t) t
  && forallb (fun c => forallb (loop_ok t (dc_name c)) loops) t.

(* the (class, loop) pairs the check rejects: for the failing-input search and the log *)
Definition bad_classes (t : list det_class) : list string :=
  map dc_name (filter (fun c => negb (class_ok t c)) t).
Definition bad_loops (t : list det_class) (loops : list loop_def) : list string :=
  map lp_name (filter (fun lp => negb (forallb (fun c => loop_ok t (dc_name c) lp) t)) loops).

(* ------------------------------------------------------------------ correspondence cases for the table:
   `detector.empty(arg)` called on a real detector of the class whose photon / charge / pixel buckets hold
   non-zero data; observed: which of the three were emptied (None = the call raised) *)
Record life_case : Type := {
  lf_class : string;
  lf_arg : earg;
  lf_obs : option (bool * bool * bool)     (* photon, charge, pixel emptied *)
}.

Definition life_model (t : list det_class) (c : life_case) : option (bool * bool * bool) :=
  match arg_value t (lf_class c) (lf_arg c) with
  | Some r => Some (cleared t (lf_class c) r "photon", cleared t (lf_class c) r "charge", cleared t (lf_class c) r "pixel")
  | None => None
  end.

Definition obs_eqb (a b : option (bool * bool * bool)) : bool :=
  match a, b with
  | Some (a1, a2, a3), Some (b1, b2, b3) => Bool.eqb a1 b1 && Bool.eqb a2 b2 && Bool.eqb a3 b3
  | None, None => true
  | _, _ => false
  end.

(* the table read from the source describes what the implementation did; a class the table does not know is a
   mismatch too *)
Definition life_matches (t : list det_class) (c : life_case) : bool :=
  match find_class (lf_class c) t with
  | None => false
  | Some _ => obs_eqb (life_model t c) (lf_obs c)
  end.

(* specification: photon and charge emptied, pixel emptied exactly when reset (default: True) *)
Definition life_spec (c : life_case) : bool :=
  let reset := match lf_arg c with EDefault => true | EBool b => b end in
  obs_eqb (lf_obs c) (Some (true, true, reset)).

Definition life_mismatches (t : list det_class) (cases : list life_case) : list nat :=
  indices_where (fun c => negb (life_matches t c)) 0 cases.
Definition life_violations (cases : list life_case) : list nat :=
  indices_where (fun c => negb (life_spec c)) 0 cases.
