(* C06 — store model, second part: runs that FAIL, copy sites that touch the caller, parameter
   values that are references.  Executable definitions only (no proofs); proofs in
   Proofs/HeapExcFrame.v.

   What is modelled
   ----------------
   * one run of an observation / calibration through a copy site is now three steps, two of which
     may raise:
        copy   the site's own code (deepcopy of the caller's processor, possibly surrounded by code
               that writes to the caller's objects)
        setp   Processor.set of the run's parameter values on the copy; a setter may REJECT a value
               (Characteristics.quantum_efficiency = 1.5 -> ValueError), an unknown key raises, ...
               -> (heap, accepted?) ; on rejection a prefix of the keys may already have been applied
        run    the pipeline (user model functions) -> (heap, Some result | None = a model raised,
               after having changed whatever it had changed up to that point)
     [exec] = setp then run = everything that happens ON THE COPY.
   * a call (one Observation.run_pipelines / one fitness evaluation sequence) is a list of runs with a
     flag: the sequential loop STOPS at the first failing run (the exception propagates, the later
     runs never happen), the dask path computes every run and raises afterwards.  A history is a
     list of calls on the same caller objects; a failed call is followed by further calls.
   * site kinds
        KCopy       v = deepcopy(p); v.set(...)*; return v              (the source, as generated)
        KInPlace    p.set(...)*; return p
        KDetach g   the site first WRITES TO THE CALLER (it empties the references of the caller's
                    detector - "detach the big arrays before copying"), copies, sets, and puts the
                    references back; g = true: the write-back is in a finally clause, g = false: it
                    is skipped when setp raises.  This is the smallest site of the generated effect
                    class [Touches]; it shows that the exceptional path is a separate obligation:
                    KDetach false keeps the frame on every history without failures and loses it on
                    the first rejected value.
   * a parameter value that is a REFERENCE into the caller's heap (sequential mode: the defaults of
     all swept keys are processor.get(key) of the CALLER's processor; an ndarray / a nested list keeps
     its identity through Processor.set): [step_ref vcopy] hands the run either the caller's object
     (vcopy = false) or a deep copy of it taken by the site (vcopy = true; generated flag
     src_value_copy). *)
From Coq Require Import String ZArith List Arith Bool Lia.
From PyxelV Require Import Model.Heap.
Import ListNotations.
Local Open Scope string_scope.

Inductive effect := Pure | Touches.
Inductive skind := KCopy | KInPlace | KDetach (guarded : bool).

Definition effect_eqb (a b : effect) : bool :=
  match a, b with Pure, Pure | Touches, Touches => true | _, _ => false end.

(* what the generated rows (mode, effect) of a copy site mean; Touches has no fixed meaning (any
   write to the caller), the theorems hold for rows that are (Deep, Pure) *)
Definition kind_of (m : cmode) (e : effect) : option skind :=
  match m, e with
  | Deep, Pure => Some KCopy
  | Alias, _ => Some KInPlace
  | _, _ => None
  end.

Definition sites_pure (rows : list (string * effect)) : bool :=
  forallb (fun r => effect_eqb (snd r) Pure) rows.

Definition flag_of (rows : list (string * bool)) (name : string) : bool :=
  match find (fun r => String.eqb (fst r) name) rows with
  | Some r => snd r
  | None => false
  end.

(* the caller's detector: target of the processor's "detector" field *)
Definition detector_of (s : heap) (p : loc) : option loc :=
  match nth_error s p with
  | Some o => match find (fun fr => String.eqb (fst fr) "detector") (refs o) with
              | Some fr => Some (snd fr)
              | None => None
              end
  | None => None
  end.

Definition detach (s : heap) (d : loc) : heap :=
  match nth_error s d with
  | Some o => set_nth d (mkObj (ocls o) (payload o) []) s
  | None => s
  end.

(* put back at [d] what [s0] held there *)
Definition reattach (s0 s : heap) (d : loc) : heap :=
  match nth_error s0 d with
  | Some o => set_nth d o s
  | None => s
  end.

Section ObserveExc.
  Variables (params res : Type).
  Variable setp : params -> heap -> loc -> heap * bool.
  Variable run : params -> heap -> loc -> heap * option res.

  Definition exec (ps : params) (s : heap) (c : loc) : heap * option res :=
    if snd (setp ps s c) then run ps (fst (setp ps s c)) c else (fst (setp ps s c), None).

  Definition step_exc (pol : policy) (k : skind) (ps : params) (s : heap) (p : loc)
    : heap * option res :=
    match k with
    | KCopy =>
      match deepcopy pol s p with
      | Some (s1, c) => exec ps s1 c
      | None => (s, None)                      (* an un-copyable object: the copy raises *)
      end
    | KInPlace => exec ps s p
    | KDetach g =>
      match detector_of s p with
      | None => (s, None)
      | Some d =>
        let s1 := detach s d in
        match deepcopy pol s1 p with
        | None => ((if g then reattach s s1 d else s1), None)
        | Some (s2, c) =>
          let s3 := fst (setp ps s2 c) in
          if snd (setp ps s2 c) then run ps (reattach s s3 d) c
          else ((if g then reattach s s3 d else s3), None)
        end
      end
    end.

  (* one call: [stop] = the loop path (first failure aborts the call) *)
  Fixpoint observe_exc (stop : bool) (pol : policy) (k : skind) (rs : list params) (s : heap) (p : loc)
    : heap * list (option res) :=
    match rs with
    | [] => (s, [])
    | ps :: rest =>
      let r := step_exc pol k ps s p in
      match snd r, stop with
      | None, true => (fst r, [None])
      | _, _ => let o := observe_exc stop pol k rest (fst r) p in (fst o, snd r :: snd o)
      end
    end.

  (* a history: successive calls on the same caller objects, whatever happened in the earlier ones *)
  Fixpoint calls_exc (pol : policy) (k : skind) (cs : list (bool * list params)) (s : heap) (p : loc)
    : heap * list (list (option res)) :=
    match cs with
    | [] => (s, [])
    | c :: rest =>
      let o := observe_exc (fst c) pol k (snd c) s p in
      let o' := calls_exc pol k rest (fst o) p in
      (fst o', snd o :: snd o')
    end.
End ObserveExc.

(* ---------------------------------------------------------------- reference-valued parameters *)

Section ObserveRef.
  Variable res : Type.
  (* the run receives the location of its parameter value *)
  Variable run : loc -> heap -> loc -> heap * res.

  Definition step_ref (vcopy : bool) (pol : policy) (d : loc) (s : heap) (p : loc) : option (heap * res) :=
    match deepcopy pol s p with
    | None => None
    | Some (s1, c) =>
      if vcopy then
        match deepcopy pol s1 d with
        | None => None
        | Some (s2, d') => Some (run d' s2 c)
        end
      else Some (run d s1 c)
    end.

  Fixpoint observe_ref (vcopy : bool) (pol : policy) (ds : list loc) (s : heap) (p : loc)
    : option (heap * list res) :=
    match ds with
    | [] => Some (s, [])
    | d :: rest =>
      match step_ref vcopy pol d s p with
      | None => None
      | Some (s1, r) =>
        match observe_ref vcopy pol rest s1 p with
        | Some (sn, out) => Some (sn, r :: out)
        | None => None
        end
      end
    end.
End ObserveRef.

(* ---------------------------------------------------------------- concrete legal witnesses *)

(* a setter that rejects negative values and otherwise stores nothing (the value is used by the run) *)
Definition setp_nonneg (k : Z) (s : heap) (c : loc) : heap * bool := (s, (0 <=? k)%Z).

(* run_touch as a run that never raises / that raises (after its mutation) when the new memory
   value exceeds 100 *)
Definition run_touch_some (k : Z) (s : heap) (l : loc) : heap * option Z :=
  (fst (run_touch k s l), Some (snd (run_touch k s l))).
Definition run_touch_limit (k : Z) (s : heap) (l : loc) : heap * option Z :=
  (fst (run_touch k s l),
   if (100 <? snd (run_touch k s l))%Z then None else Some (snd (run_touch k s l))).

(* ---------------------------------------------------------------- case files: failing copy sites *)

(* a copy site asked to apply a value that a setter rejects: the site must raise (no copy is
   returned) and the caller's objects must hold exactly what they held before *)
Record fail_case := mkFailCase {
  fc_raised : bool;        (* the site raised *)
  fc_changed : nat;        (* number of value paths of the caller's detector/pipeline that changed *)
  fc_std_raised : bool     (* the same value applied to an independently built configuration raises *)
}.

Definition fail_spec (c : fail_case) : bool :=
  Bool.eqb (fc_raised c) (fc_std_raised c) && Nat.eqb (fc_changed c) 0.

Definition fail_violations (cases : list fail_case) : list nat :=
  indices_where (fun c => negb (fail_spec c)) cases 0.
