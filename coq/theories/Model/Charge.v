(* Executable model of pyxel/data_structure/charge.py (class Charge) over Q  --  property C14.

   State   : _array (rows x cols matrix) and _frame (table of clusters, with its pandas index labels).
   Ops     : add_charge_array / add_charge (clusters) / .array (Read) / .frame (ReadFrame) /
             remove_from_frame() / remove_from_frame(ids) / empty() (Reset).
   Faithful to the code that exists:
     - add_charge_array adds to _array when the frame is empty, otherwise converts the array to
       clusters at pixel centres (only entries > 0) and appends them;
     - add_charge_dataframe on an empty frame first converts the current array (entries > 0) to
       clusters, WITHOUT clearing _array; pd.concat(ignore_index=True) renumbers the index;
     - .array with a non-empty frame recomputes _array = convert_df_to_array() and caches it;
       with an empty frame it returns the cached _array;
     - convert_df_to_array bins with floor(pos / size), KEEPS ONLY the clusters whose two indices lie in
       [0, row) x [0, col) (repair of C14-F4a/F4b) and hands them to the njit loop, whose indexing is
       still modelled as numba's UNCHECKED indexing: an index in [-n, -1] wraps to n + index, any
       other index outside [0, n) is an out-of-bounds write = outcome Corrupt (sticky) -- so that
       "Corrupt is unreachable" is a theorem about the mask and not a property of the modelling;
     - remove_from_frame zeroes _array when it turns a non-empty frame into an empty one (repair of
       C14-F5); remove_from_frame([]) removes everything (`if id_list`).
   The index expressions, the mask, the conversion threshold and the pixel-centre formulas are ALSO
   available as parameters (record srcparams, regenerated from the source by translator/c14.py);
   the parametrised twins (stepP, runP, read_afterP ...) are proved equal to the fixed model for every
   parameter record satisfying params_ok (Proofs/ChargeSrc.v).
   No proofs in this file. *)
From Coq Require Import ZArith QArith Qround List Bool.
Import ListNotations.
Open Scope Q_scope.

Record geom := { g_rows : nat; g_cols : nat; g_ph : Q; g_pw : Q }.
Record cluster := { c_n : Q; c_v : Q; c_h : Q }.   (* number, position_ver, position_hor *)
Definition matrix := list (list Q).
Definition frame_t := list (Z * cluster).          (* (index label, cluster) *)

Inductive op :=
| AddArray (a : matrix)
| AddClusters (cs : list cluster)
| Read
| ReadFrame
| RemoveAll
| Remove (ids : list Z)
| Reset.

Inductive obs := OUnit | OArr (m : matrix) | ORaise | OCorrupt.

(* ------------------------------------------------------------------ matrices *)

Definition zeros (r c : nat) : matrix := repeat (repeat 0 c) r.
Definition mget (m : matrix) (i j : nat) : Q := nth j (nth i m []) 0.

Fixpoint upd {A} (l : list A) (k : nat) (f : A -> A) : list A :=
  match l, k with
  | [], _ => []
  | x :: t, O => f x :: t
  | x :: t, S k' => x :: upd t k' f
  end.
Definition mupd (m : matrix) (i j : nat) (f : Q -> Q) : matrix := upd m i (fun r => upd r j f).

Fixpoint zipw {A} (f : A -> A -> A) (a b : list A) : list A :=
  match a, b with
  | x :: a', y :: b' => f x y :: zipw f a' b'
  | _, _ => []
  end.
Definition madd (a b : matrix) : matrix := zipw (zipw Qplus) a b.

Definition shape_ok (r c : nat) (m : matrix) : bool :=
  (length m =? r)%nat && forallb (fun row => (length row =? c)%nat) m.
Definition all_zero (m : matrix) : bool := forallb (forallb (fun x => Qeq_bool x 0)) m.
Definition gt0 (x : Q) : bool := negb (Qle_bool x 0).
Definition tabulate (r c : nat) (f : nat -> nat -> Q) : matrix :=
  map (fun i => map (fun j => f i j) (seq 0 c)) (seq 0 r).

(* ------------------------------------------------------------------ geometry *)

(* np.floor_divide(pos, size).astype(int) *)
Definition pix (s p : Q) : Z := Qfloor (p / s).
(* np.arange(0., n, 1.) * size + size / 2 *)
Definition centre (s : Q) (k : nat) : Q := inject_Z (Z.of_nat k) * s + s / 2.

(* numba array indexing without bounds check (wraparound on): None = out-of-bounds access *)
Definition wrap (n : nat) (k : Z) : option nat :=
  if (0 <=? k)%Z && (k <? Z.of_nat n)%Z then Some (Z.to_nat k)
  else if (- Z.of_nat n <=? k)%Z && (k <? 0)%Z then Some (Z.to_nat (k + Z.of_nat n))
  else None.

(* convert_array_to_df: row-major over the geometry, entries > 0 only, at pixel centres *)
Definition centres (g : geom) (a : matrix) : list cluster :=
  flat_map (fun i =>
    flat_map (fun j =>
      let x := mget a i j in
      if gt0 x then [{| c_n := x; c_v := centre (g_ph g) i; c_h := centre (g_pw g) j |}] else [])
      (seq 0 (g_cols g)))
    (seq 0 (g_rows g)).

(* convert_df_to_array: the mask `inside` computed before the loop *)
Definition in_range (n : nat) (k : Z) : bool := (0 <=? k)%Z && (k <? Z.of_nat n)%Z.
Definition kept (g : geom) (c : cluster) : bool :=
  in_range (g_rows g) (pix (g_ph g) (c_v c)) && in_range (g_cols g) (pix (g_pw g) (c_h c)).

(* convert_df_to_array: the njit loop *)
Definition bin1 (g : geom) (m : matrix) (c : cluster) : option matrix :=
  match wrap (g_rows g) (pix (g_ph g) (c_v c)), wrap (g_cols g) (pix (g_pw g) (c_h c)) with
  | Some i, Some j => Some (mupd m i j (fun x => x + c_n c))
  | _, _ => None
  end.
Fixpoint bin (g : geom) (m : matrix) (cs : list cluster) : option matrix :=
  match cs with
  | [] => Some m
  | c :: t => match bin1 g m c with Some m' => bin g m' t | None => None end
  end.

(* ------------------------------------------------------------------ the state machine *)

Record state := { st_arr : matrix; st_frame : frame_t }.

(* convert_df_to_array as a whole: mask, then loop over what is kept, starting from zeros *)
Definition to_array (g : geom) (cs : list cluster) : option matrix :=
  bin g (zeros (g_rows g) (g_cols g)) (filter (kept g) cs).

Definition renumber (cs : list cluster) : frame_t := combine (map Z.of_nat (seq 0 (length cs))) cs.
Definition fcl (f : frame_t) : list cluster := map snd f.
Definition init (g : geom) : state := {| st_arr := zeros (g_rows g) (g_cols g); st_frame := [] |}.

(* add_charge_dataframe *)
Definition add_frame (g : geom) (s : state) (cs : list cluster) : state :=
  match st_frame s with
  | [] => if all_zero (st_arr s)
          then {| st_arr := st_arr s; st_frame := renumber cs |}
          else {| st_arr := st_arr s; st_frame := renumber (centres g (st_arr s) ++ cs) |}
  | f => {| st_arr := st_arr s; st_frame := renumber (fcl f ++ cs) |}
  end.

Definition id_in (ids : list Z) (k : Z) : bool := existsb (Z.eqb k) ids.

(* remove_from_frame: the frame becomes f'; when that empties a non-empty frame the array is zeroed *)
Definition removed (g : geom) (s : state) (f' : frame_t) : state :=
  match st_frame s, f' with
  | _ :: _, [] => {| st_arr := zeros (g_rows g) (g_cols g); st_frame := [] |}
  | _, _ => {| st_arr := st_arr s; st_frame := f' |}
  end.

Definition step (g : geom) (s : state) (o : op) : option state * obs :=
  match o with
  | AddArray a =>
      if shape_ok (g_rows g) (g_cols g) a then
        match st_frame s with
        | [] => (Some {| st_arr := madd (st_arr s) a; st_frame := [] |}, OUnit)
        | _ => (Some (add_frame g s (centres g a)), OUnit)
        end
      else (Some s, ORaise)
  | AddClusters cs => (Some (add_frame g s cs), OUnit)
  | Read =>
      match st_frame s with
      | [] => (Some s, OArr (st_arr s))
      | f => match to_array g (fcl f) with
             | Some m => (Some {| st_arr := m; st_frame := f |}, OArr m)
             | None => (None, OCorrupt)
             end
      end
  | ReadFrame => (Some s, OUnit)
  | RemoveAll => (Some (removed g s []), OUnit)
  | Remove [] => (Some (removed g s []), OUnit)
  | Remove ids => (Some (removed g s (filter (fun p => negb (id_in ids (fst p))) (st_frame s))), OUnit)
  | Reset => (Some (init g), OUnit)
  end.

(* None = memory was corrupted earlier: nothing is defined any more *)
Definition exec1 (g : geom) (s : option state) (o : op) : option state :=
  match s with None => None | Some s0 => fst (step g s0 o) end.
Definition exec (g : geom) (s : option state) (ops : list op) : option state := fold_left (exec1 g) ops s.

(* the value of a `.array` read performed after the operations `ops` on a fresh container *)
Definition read_of (g : geom) (s : option state) : obs :=
  match s with None => OCorrupt | Some s0 => snd (step g s0 Read) end.
Definition read_after (g : geom) (ops : list op) : obs := read_of g (exec g (Some (init g)) ops).

(* per-op trace: (returned observation, frame after the op) *)
Fixpoint run (g : geom) (s : option state) (ops : list op) : list (obs * frame_t) :=
  match ops with
  | [] => []
  | o :: t =>
      match s with
      | None => (OCorrupt, []) :: run g None t
      | Some s0 =>
          let r := step g s0 o in
          (snd r, match fst r with Some x => st_frame x | None => [] end) :: run g (fst r) t
      end
  end.

(* ------------------------------------------------------------------ the same machine over regenerated source parameters *)

(* What translator/c14.py reads from pyxel/data_structure/charge.py and pyxel/detectors/geometry.py. *)
Record srcparams := {
  sp_iv   : Q -> Q -> Q -> Q -> Z;     (* position_ver position_hor pixel_vert_size pixel_horz_size |-> FIRST subscript of the njit loop *)
  sp_ih   : Q -> Q -> Q -> Q -> Z;     (* same arguments |-> SECOND subscript of the njit loop *)
  sp_keep : Z -> Z -> Z -> Z -> bool;  (* first second geo.row geo.col |-> is the cluster handed to the loop? *)
  sp_thr  : Q -> bool;                 (* convert_array_to_df: is this array entry converted to a cluster? *)
  sp_cv   : Q -> Q -> nat -> Q;        (* pixel_vert_size pixel_horz_size k |-> position_ver given to the cluster made from a pixel of row k *)
  sp_ch   : Q -> Q -> nat -> Q         (* pixel_vert_size pixel_horz_size k |-> position_hor given to the cluster made from a pixel of column k *)
}.

(* float -> int conversions the translator may meet in an index expression *)
Definition Qtrunc (x : Q) : Z := if Qle_bool 0 x then Qfloor x else Qceiling x.           (* .astype(int), np.trunc *)
Definition Qrint (x : Q) : Z :=                                                            (* np.rint / np.round: half to even *)
  let f := Qfloor x in
  let d := x - inject_Z f in
  if Qle_bool d (1 # 2) then (if Qeq_bool d (1 # 2) then (if Z.even f then f else f + 1)%Z else f) else (f + 1)%Z.

Definition std_params : srcparams :=
  {| sp_iv := fun pv _ sv _ => pix sv pv;
     sp_ih := fun _ ph _ sh => pix sh ph;
     sp_keep := fun iv ih r c => ((0 <=? iv)%Z && (iv <? r)%Z) && ((0 <=? ih)%Z && (ih <? c)%Z);
     sp_thr := gt0;
     sp_cv := fun sv _ k => centre sv k;
     sp_ch := fun _ sh k => centre sh k |}.

(* the regenerated parameters say what the fixed model says (pointwise; discharged in Properties/C14.v
   for the record generated from the current source) *)
Definition params_ok (P : srcparams) : Prop :=
  (forall pv ph sv sh, sp_iv P pv ph sv sh = pix sv pv) /\
  (forall pv ph sv sh, sp_ih P pv ph sv sh = pix sh ph) /\
  (forall iv ih r c, sp_keep P iv ih r c = ((0 <=? iv)%Z && (iv <? r)%Z) && ((0 <=? ih)%Z && (ih <? c)%Z)) /\
  (forall x, sp_thr P x = gt0 x) /\
  (forall sv sh k, sp_cv P sv sh k = centre sv k) /\
  (forall sv sh k, sp_ch P sv sh k = centre sh k).

Section WithSourceParams.
Variable P : srcparams.

Definition centresP (g : geom) (a : matrix) : list cluster :=
  flat_map (fun i =>
    flat_map (fun j =>
      let x := mget a i j in
      if sp_thr P x then [{| c_n := x; c_v := sp_cv P (g_ph g) (g_pw g) i; c_h := sp_ch P (g_ph g) (g_pw g) j |}] else [])
      (seq 0 (g_cols g)))
    (seq 0 (g_rows g)).

Definition ivP (g : geom) (c : cluster) : Z := sp_iv P (c_v c) (c_h c) (g_ph g) (g_pw g).
Definition ihP (g : geom) (c : cluster) : Z := sp_ih P (c_v c) (c_h c) (g_ph g) (g_pw g).
Definition keptP (g : geom) (c : cluster) : bool :=
  sp_keep P (ivP g c) (ihP g c) (Z.of_nat (g_rows g)) (Z.of_nat (g_cols g)).

Definition bin1P (g : geom) (m : matrix) (c : cluster) : option matrix :=
  match wrap (g_rows g) (ivP g c), wrap (g_cols g) (ihP g c) with
  | Some i, Some j => Some (mupd m i j (fun x => x + c_n c))
  | _, _ => None
  end.
Fixpoint binP (g : geom) (m : matrix) (cs : list cluster) : option matrix :=
  match cs with
  | [] => Some m
  | c :: t => match bin1P g m c with Some m' => binP g m' t | None => None end
  end.
Definition to_arrayP (g : geom) (cs : list cluster) : option matrix :=
  binP g (zeros (g_rows g) (g_cols g)) (filter (keptP g) cs).

Definition add_frameP (g : geom) (s : state) (cs : list cluster) : state :=
  match st_frame s with
  | [] => if all_zero (st_arr s)
          then {| st_arr := st_arr s; st_frame := renumber cs |}
          else {| st_arr := st_arr s; st_frame := renumber (centresP g (st_arr s) ++ cs) |}
  | f => {| st_arr := st_arr s; st_frame := renumber (fcl f ++ cs) |}
  end.

Definition stepP (g : geom) (s : state) (o : op) : option state * obs :=
  match o with
  | AddArray a =>
      if shape_ok (g_rows g) (g_cols g) a then
        match st_frame s with
        | [] => (Some {| st_arr := madd (st_arr s) a; st_frame := [] |}, OUnit)
        | _ => (Some (add_frameP g s (centresP g a)), OUnit)
        end
      else (Some s, ORaise)
  | AddClusters cs => (Some (add_frameP g s cs), OUnit)
  | Read =>
      match st_frame s with
      | [] => (Some s, OArr (st_arr s))
      | f => match to_arrayP g (fcl f) with
             | Some m => (Some {| st_arr := m; st_frame := f |}, OArr m)
             | None => (None, OCorrupt)
             end
      end
  | ReadFrame => (Some s, OUnit)
  | RemoveAll => (Some (removed g s []), OUnit)
  | Remove [] => (Some (removed g s []), OUnit)
  | Remove ids => (Some (removed g s (filter (fun p => negb (id_in ids (fst p))) (st_frame s))), OUnit)
  | Reset => (Some (init g), OUnit)
  end.

Definition exec1P (g : geom) (s : option state) (o : op) : option state :=
  match s with None => None | Some s0 => fst (stepP g s0 o) end.
Definition execP (g : geom) (s : option state) (ops : list op) : option state := fold_left (exec1P g) ops s.
Definition read_ofP (g : geom) (s : option state) : obs :=
  match s with None => OCorrupt | Some s0 => snd (stepP g s0 Read) end.
Definition read_afterP (g : geom) (ops : list op) : obs := read_ofP g (execP g (Some (init g)) ops).
Definition frame_afterP (g : geom) (ops : list op) : frame_t :=
  match execP g (Some (init g)) ops with Some s => st_frame s | None => [] end.

Fixpoint runP (g : geom) (s : option state) (ops : list op) : list (obs * frame_t) :=
  match ops with
  | [] => []
  | o :: t =>
      match s with
      | None => (OCorrupt, []) :: runP g None t
      | Some s0 =>
          let r := stepP g s0 o in
          (snd r, match fst r with Some x => st_frame x | None => [] end) :: runP g (fst r) t
      end
  end.
End WithSourceParams.

(* ------------------------------------------------------------------ the specification *)

(* (1) the accumulator: per-pixel sum of everything added since the last reset.  A cluster is
   credited to exactly the pixel (floor(v/ph), floor(h/pw)); clusters outside are credited nowhere. *)
Definition hit_exact (g : geom) (c : cluster) (i j : nat) : bool :=
  (pix (g_ph g) (c_v c) =? Z.of_nat i)%Z && (pix (g_pw g) (c_h c) =? Z.of_nat j)%Z.

Definition credit (hit : cluster -> nat -> nat -> bool) (cs : list cluster) (i j : nat) : Q :=
  fold_right (fun c acc => (if hit c i j then c_n c else 0) + acc) 0 cs.

Definition acc_step (g : geom) (hit : cluster -> nat -> nat -> bool)
           (acc : nat -> nat -> Q) (o : op) : nat -> nat -> Q :=
  match o with
  | AddArray a => if shape_ok (g_rows g) (g_cols g) a then fun i j => acc i j + mget a i j else acc
  | AddClusters cs => fun i j => acc i j + credit hit cs i j
  | Reset => fun _ _ => 0
  | _ => acc
  end.
Definition acc_of (g : geom) (hit : cluster -> nat -> nat -> bool) (ops : list op) : nat -> nat -> Q :=
  fold_left (acc_step g hit) ops (fun _ _ => 0).
Definition spec_acc (g : geom) (ops : list op) := acc_of g (hit_exact g) ops.

(* (2) the ideal two-representation container (adds removals to the accumulator):
   charge is MOVED between the representations, reads are pure, outside clusters are masked. *)
Definition bin_exact (g : geom) (cs : list cluster) : matrix :=
  tabulate (g_rows g) (g_cols g) (credit (hit_exact g) cs).

Definition ideal_add (g : geom) (s : state) (cs : list cluster) : state :=
  match st_frame s with
  | [] => match centres g (st_arr s) ++ cs with
          | [] => s                               (* nothing to convert, nothing to add *)
          | l => {| st_arr := zeros (g_rows g) (g_cols g); st_frame := renumber l |}
          end
  | f => {| st_arr := st_arr s; st_frame := renumber (fcl f ++ cs) |}
  end.

Definition ideal_read (g : geom) (s : state) : matrix :=
  match st_frame s with [] => st_arr s | f => bin_exact g (fcl f) end.

Definition ideal_step (g : geom) (s : state) (o : op) : state * obs :=
  match o with
  | AddArray a =>
      if shape_ok (g_rows g) (g_cols g) a then
        match st_frame s with
        | [] => ({| st_arr := madd (st_arr s) a; st_frame := [] |}, OUnit)
        | _ => (ideal_add g s (centres g a), OUnit)
        end
      else (s, ORaise)
  | AddClusters cs => (ideal_add g s cs, OUnit)
  | Read => (s, OArr (ideal_read g s))
  | ReadFrame => (s, OUnit)
  | RemoveAll | Remove [] => ({| st_arr := st_arr s; st_frame := [] |}, OUnit)
  | Remove ids =>
      ({| st_arr := st_arr s; st_frame := filter (fun p => negb (id_in ids (fst p))) (st_frame s) |}, OUnit)
  | Reset => (init g, OUnit)
  end.

Definition ideal_exec (g : geom) (s : state) (ops : list op) : state :=
  fold_left (fun s o => fst (ideal_step g s o)) ops s.
Definition ideal_read_after (g : geom) (ops : list op) : obs :=
  OArr (ideal_read g (ideal_exec g (init g) ops)).

Fixpoint ideal_run (g : geom) (s : state) (ops : list op) : list obs :=
  match ops with
  | [] => []
  | o :: t => let r := ideal_step g s o in snd r :: ideal_run g (fst r) t
  end.

(* the accumulator as a trace: at every Read, tabulate spec_acc of the prefix (no removals) *)
Fixpoint acc_run (g : geom) (acc : nat -> nat -> Q) (ops : list op) : list obs :=
  match ops with
  | [] => []
  | o :: t =>
      (match o with
       | Read => OArr (tabulate (g_rows g) (g_cols g) acc)
       | AddArray a => if shape_ok (g_rows g) (g_cols g) a then OUnit else ORaise
       | _ => OUnit
       end) :: acc_run g (acc_step g (hit_exact g) acc o) t
  end.

Definition is_removal (o : op) : bool := match o with RemoveAll | Remove _ => true | _ => false end.
Definition has_removal (ops : list op) : bool := existsb is_removal ops.

(* hypotheses of the property as bool functions (used by theorems and by the case judge) *)
Definition nonneg_matrix (a : matrix) : bool := forallb (forallb (fun x => Qle_bool 0 x)) a.
Definition op_arrays_nonneg (o : op) : bool := match o with AddArray a => nonneg_matrix a | _ => true end.
Definition inside (g : geom) (c : cluster) : bool :=
  Qle_bool 0 (c_v c) && negb (Qle_bool (inject_Z (Z.of_nat (g_rows g)) * g_ph g) (c_v c)) &&
  Qle_bool 0 (c_h c) && negb (Qle_bool (inject_Z (Z.of_nat (g_cols g)) * g_pw g) (c_h c)).
Definition op_clusters (P : cluster -> bool) (o : op) : bool :=
  match o with AddClusters cs => forallb P cs | _ => true end.
Definition geom_ok (g : geom) : bool := negb (Qle_bool (g_ph g) 0) && negb (Qle_bool (g_pw g) 0).

(* removals: the clusters a `remove_from_frame(ids)` takes away from the live frame f *)
Definition selected (ids : list Z) (f : frame_t) : frame_t :=
  match ids with [] => f | _ => filter (fun p => id_in ids (fst p)) f end.
Definition removal_ids (o : op) : option (list Z) :=
  match o with RemoveAll => Some [] | Remove ids => Some ids | _ => None end.
(* the `.frame` after the operations `ops` on a fresh container *)
Definition frame_after (g : geom) (ops : list op) : frame_t :=
  match exec g (Some (init g)) ops with Some s => st_frame s | None => [] end.

(* (3) the accumulator for ALL sequences, removals included ("the ledger"): additions are credited as
   in (1); a removal debits exactly the clusters it takes away -- those of the live table of labelled
   clusters (kept by the ideal container (2)) whose label is listed, all of them for an empty list. *)
Definition ledger_step (g : geom) (st : (nat -> nat -> Q) * state) (o : op) : (nat -> nat -> Q) * state :=
  (match removal_ids o with
   | Some ids => fun i j => fst st i j - credit (hit_exact g) (fcl (selected ids (st_frame (snd st)))) i j
   | None => acc_step g (hit_exact g) (fst st) o
   end,
   fst (ideal_step g (snd st) o)).
Definition ledger_of (g : geom) (ops : list op) : (nat -> nat -> Q) * state :=
  fold_left (ledger_step g) ops (fun _ _ => 0, init g).
Definition spec_ledger (g : geom) (ops : list op) : nat -> nat -> Q := fst (ledger_of g ops).

(* the judge: what every Read must return *)
Definition spec_trace (g : geom) (ops : list op) : list obs :=
  if has_removal ops then ideal_run g (init g) ops else acc_run g (fun _ _ => 0) ops.

(* ------------------------------------------------------------------ case files *)

Fixpoint list_eqb {A} (e : A -> A -> bool) (a b : list A) : bool :=
  match a, b with
  | [], [] => true
  | x :: a', y :: b' => e x y && list_eqb e a' b'
  | _, _ => false
  end.
Definition meqb : matrix -> matrix -> bool := list_eqb (list_eqb Qeq_bool).
Definition cluster_eqb (a b : cluster) : bool :=
  Qeq_bool (c_n a) (c_n b) && Qeq_bool (c_v a) (c_v b) && Qeq_bool (c_h a) (c_h b).
Definition frame_eqb : frame_t -> frame_t -> bool :=
  list_eqb (fun p q => Z.eqb (fst p) (fst q) && cluster_eqb (snd p) (snd q)).
Definition obs_eqb (a b : obs) : bool :=
  match a, b with
  | OUnit, OUnit | ORaise, ORaise | OCorrupt, OCorrupt => true
  | OArr m, OArr n => meqb m n
  | _, _ => false
  end.

(* frames observed with inexact pixel sizes (k_loose): the implementation computes pixel centres in
   binary64 (k*s rounded, + s/2 rounded) while the model computes them exactly; positions are then
   compared by the pixel they fall into, labels and numbers exactly *)
Definition cluster_eqb_loose (g : geom) (a b : cluster) : bool :=
  Qeq_bool (c_n a) (c_n b) && (pix (g_ph g) (c_v a) =? pix (g_ph g) (c_v b))%Z
  && (pix (g_pw g) (c_h a) =? pix (g_pw g) (c_h b))%Z.
Definition frame_eqb_loose (g : geom) : frame_t -> frame_t -> bool :=
  list_eqb (fun p q => Z.eqb (fst p) (fst q) && cluster_eqb_loose g (snd p) (snd q)).

(* k_checked = the implementation ran with numba's bounds check on (or without the JIT): an
   out-of-bounds access is then observed as OCorrupt (IndexError) and nothing is corrupted.  Otherwise
   (default configuration, isolated subprocess) whatever follows an out-of-bounds write of the model
   is undefined. *)
(* The observed frames are written as differences: (k, tail) = the first k rows of the frame observed after
   the previous op (initially none), followed by `tail` -- most ops append to the frame or leave it alone, so
   the case files stay linear in the number of clusters. *)
Fixpoint expand_obs (prev : frame_t) (l : list (obs * (nat * frame_t))) : list (obs * frame_t) :=
  match l with
  | [] => []
  | (o, (k, t)) :: r => let f := firstn k prev ++ t in (o, f) :: expand_obs f r
  end.
Record ccase := { k_g : geom; k_ops : list op; k_checked : bool; k_loose : bool;
                  k_obs_d : list (obs * (nat * frame_t)) }.
Definition k_obs (k : ccase) : list (obs * frame_t) := expand_obs [] (k_obs_d k).

Definition has_corrupt (t : list (obs * frame_t)) : bool :=
  existsb (fun p => match fst p with OCorrupt => true | _ => false end) t.

Fixpoint trace_eqb (feq : frame_t -> frame_t -> bool) (checked : bool) (model impl : list (obs * frame_t)) : bool :=
  match model, impl with
  | [], [] => true
  | (OCorrupt, _) :: _, (o, _) :: _ =>
      if checked then match o with OCorrupt => true | _ => false end else true
  | _ :: _, [] => negb checked && has_corrupt model   (* the isolated process died: only an out-of-bounds
                                                         write of the model explains that *)
  | (a, f) :: m', (b, f') :: i' => obs_eqb a b && feq f f' && trace_eqb feq checked m' i'
  | _, _ => false
  end.

Definition case_mismatch (P : srcparams) (k : ccase) : bool :=
  negb (trace_eqb (if k_loose k then frame_eqb_loose (k_g k) else frame_eqb) (k_checked k)
          (runP P (k_g k) (Some (init (k_g k))) (k_ops k)) (k_obs k)).

(* first Read (1-based op position) whose observed value is not what the specification demands;
   a missing observation (crash of the isolated process) counts as a wrong one *)
Fixpoint first_bad (n : Z) (ops : list op) (spec : list obs) (impl : list (obs * frame_t)) : Z :=
  match ops, spec with
  | o :: ops', sp :: spec' =>
      let here := match o with Read => true | _ => false end in
      match impl with
      | (ob, _) :: impl' =>
          if here && negb (obs_eqb sp ob) then n else first_bad (n + 1)%Z ops' spec' impl'
      | [] => if here then n else first_bad (n + 1)%Z ops' spec' []
      end
  | _, _ => 0%Z
  end.

Definition judged (k : ccase) : bool := geom_ok (k_g k) && forallb op_arrays_nonneg (k_ops k).
Definition case_first_bad (k : ccase) : Z :=
  if judged k then first_bad 1 (k_ops k) (spec_trace (k_g k) (k_ops k)) (k_obs k) else 0%Z.
Definition case_violates (k : ccase) : bool := negb (case_first_bad k =? 0)%Z.

(* sanity of the judge itself: on removal-free cases the ideal container and the accumulator agree *)
Definition case_selfcheck_bad (k : ccase) : bool :=
  judged k && negb (has_removal (k_ops k)) &&
  negb (list_eqb obs_eqb (ideal_run (k_g k) (init (k_g k)) (k_ops k)) (acc_run (k_g k) (fun _ _ => 0) (k_ops k))).

Fixpoint indices_where {A} (p : A -> bool) (l : list A) (i : Z) : list Z :=
  match l with
  | [] => []
  | x :: t => if p x then i :: indices_where p t (i + 1)%Z else indices_where p t (i + 1)%Z
  end.
Definition mismatches (P : srcparams) (cs : list ccase) : list Z := indices_where (case_mismatch P) cs 0%Z.
Definition violations (cs : list ccase) : list Z := indices_where case_violates cs 0%Z.
Definition first_bads (cs : list ccase) : list Z := map case_first_bad cs.
Definition selfcheck (cs : list ccase) : list Z := indices_where case_selfcheck_bad cs 0%Z.
