(* Executable model of pyxel/data_structure/charge.py (class Charge) over Q  --  property C14.

   State   : _array (rows x cols matrix) and _frame (table of clusters, with its pandas index labels).
   Ops     : add_charge_array / add_charge (clusters) / .array (Read) / .frame (ReadFrame) /
             remove_from_frame() / remove_from_frame(ids) / empty() (Reset).
   Faithful to the code that exists:
     - add_charge_array adds to _array when the frame is empty, otherwise converts the array to
       clusters at pixel centres (only entries > 0) and appends them;
     - add_charge_dataframe on an empty frame first converts the current array (entries > 0) to
       clusters, WITHOUT clearing _array; pd.concat(ignore_index=True) renumbers the index;
     - .array with a non-empty frame recomputes _array = convert_df_to_array() and caches it;
       with an empty frame it returns the cached _array whatever happened before;
     - convert_df_to_array bins with floor(pos / size) and writes through numba's UNCHECKED
       indexing: an index in [-n, -1] wraps to n + index, any other index outside [0, n) is an
       out-of-bounds write = outcome Corrupt (sticky);
     - remove_from_frame never touches _array; remove_from_frame([]) removes everything (`if id_list`).
   No proofs in this file. *)
From Coq Require Import ZArith QArith Qround List Bool.
Import ListNotations.
Open Scope Q_scope.

Record geom := { g_rows : nat; g_cols : nat; g_ph : Q; g_pw : Q }.
Record cluster := { c_n : Q; c_v : Q; c_h : Q }.   (* number, position_ver, position_hor *)
Definition matrix := list (list Q).
Definition frame_t := list (Z * cluster).          (* (index label, cluster) *)

Inductive op :=
| AddArray (a : matrix)
| AddClusters (cs : list cluster)
| Read
| ReadFrame
| RemoveAll
| Remove (ids : list Z)
| Reset.

Inductive obs := OUnit | OArr (m : matrix) | ORaise | OCorrupt.

(* ------------------------------------------------------------------ matrices *)

Definition zeros (r c : nat) : matrix := repeat (repeat 0 c) r.
Definition mget (m : matrix) (i j : nat) : Q := nth j (nth i m []) 0.

Fixpoint upd {A} (l : list A) (k : nat) (f : A -> A) : list A :=
  match l, k with
  | [], _ => []
  | x :: t, O => f x :: t
  | x :: t, S k' => x :: upd t k' f
  end.
Definition mupd (m : matrix) (i j : nat) (f : Q -> Q) : matrix := upd m i (fun r => upd r j f).

Fixpoint zipw {A} (f : A -> A -> A) (a b : list A) : list A :=
  match a, b with
  | x :: a', y :: b' => f x y :: zipw f a' b'
  | _, _ => []
  end.
Definition madd (a b : matrix) : matrix := zipw (zipw Qplus) a b.

Definition shape_ok (r c : nat) (m : matrix) : bool :=
  (length m =? r)%nat && forallb (fun row => (length row =? c)%nat) m.
Definition all_zero (m : matrix) : bool := forallb (forallb (fun x => Qeq_bool x 0)) m.
Definition gt0 (x : Q) : bool := negb (Qle_bool x 0).
Definition tabulate (r c : nat) (f : nat -> nat -> Q) : matrix :=
  map (fun i => map (fun j => f i j) (seq 0 c)) (seq 0 r).

(* ------------------------------------------------------------------ geometry *)

(* np.floor_divide(pos, size).astype(int) *)
Definition pix (s p : Q) : Z := Qfloor (p / s).
(* np.arange(0., n, 1.) * size + size / 2 *)
Definition centre (s : Q) (k : nat) : Q := inject_Z (Z.of_nat k) * s + s / 2.

(* numba array indexing without bounds check (wraparound on): None = out-of-bounds access *)
Definition wrap (n : nat) (k : Z) : option nat :=
  if (0 <=? k)%Z && (k <? Z.of_nat n)%Z then Some (Z.to_nat k)
  else if (- Z.of_nat n <=? k)%Z && (k <? 0)%Z then Some (Z.to_nat (k + Z.of_nat n))
  else None.

(* convert_array_to_df: row-major over the geometry, entries > 0 only, at pixel centres *)
Definition centres (g : geom) (a : matrix) : list cluster :=
  flat_map (fun i =>
    flat_map (fun j =>
      let x := mget a i j in
      if gt0 x then [{| c_n := x; c_v := centre (g_ph g) i; c_h := centre (g_pw g) j |}] else [])
      (seq 0 (g_cols g)))
    (seq 0 (g_rows g)).

(* convert_df_to_array: the njit loop *)
Definition bin1 (g : geom) (m : matrix) (c : cluster) : option matrix :=
  match wrap (g_rows g) (pix (g_ph g) (c_v c)), wrap (g_cols g) (pix (g_pw g) (c_h c)) with
  | Some i, Some j => Some (mupd m i j (fun x => x + c_n c))
  | _, _ => None
  end.
Fixpoint bin (g : geom) (m : matrix) (cs : list cluster) : option matrix :=
  match cs with
  | [] => Some m
  | c :: t => match bin1 g m c with Some m' => bin g m' t | None => None end
  end.

(* ------------------------------------------------------------------ the state machine *)

Record state := { st_arr : matrix; st_frame : frame_t }.

Definition renumber (cs : list cluster) : frame_t := combine (map Z.of_nat (seq 0 (length cs))) cs.
Definition fcl (f : frame_t) : list cluster := map snd f.
Definition init (g : geom) : state := {| st_arr := zeros (g_rows g) (g_cols g); st_frame := [] |}.

(* add_charge_dataframe *)
Definition add_frame (g : geom) (s : state) (cs : list cluster) : state :=
  match st_frame s with
  | [] => if all_zero (st_arr s)
          then {| st_arr := st_arr s; st_frame := renumber cs |}
          else {| st_arr := st_arr s; st_frame := renumber (centres g (st_arr s) ++ cs) |}
  | f => {| st_arr := st_arr s; st_frame := renumber (fcl f ++ cs) |}
  end.

Definition id_in (ids : list Z) (k : Z) : bool := existsb (Z.eqb k) ids.

Definition step (g : geom) (s : state) (o : op) : option state * obs :=
  match o with
  | AddArray a =>
      if shape_ok (g_rows g) (g_cols g) a then
        match st_frame s with
        | [] => (Some {| st_arr := madd (st_arr s) a; st_frame := [] |}, OUnit)
        | _ => (Some (add_frame g s (centres g a)), OUnit)
        end
      else (Some s, ORaise)
  | AddClusters cs => (Some (add_frame g s cs), OUnit)
  | Read =>
      match st_frame s with
      | [] => (Some s, OArr (st_arr s))
      | f => match bin g (zeros (g_rows g) (g_cols g)) (fcl f) with
             | Some m => (Some {| st_arr := m; st_frame := f |}, OArr m)
             | None => (None, OCorrupt)
             end
      end
  | ReadFrame => (Some s, OUnit)
  | RemoveAll => (Some {| st_arr := st_arr s; st_frame := [] |}, OUnit)
  | Remove [] => (Some {| st_arr := st_arr s; st_frame := [] |}, OUnit)
  | Remove ids =>
      (Some {| st_arr := st_arr s; st_frame := filter (fun p => negb (id_in ids (fst p))) (st_frame s) |}, OUnit)
  | Reset => (Some (init g), OUnit)
  end.

(* None = memory was corrupted earlier: nothing is defined any more *)
Definition exec1 (g : geom) (s : option state) (o : op) : option state :=
  match s with None => None | Some s0 => fst (step g s0 o) end.
Definition exec (g : geom) (s : option state) (ops : list op) : option state := fold_left (exec1 g) ops s.

(* the value of a `.array` read performed after the operations `ops` on a fresh container *)
Definition read_of (g : geom) (s : option state) : obs :=
  match s with None => OCorrupt | Some s0 => snd (step g s0 Read) end.
Definition read_after (g : geom) (ops : list op) : obs := read_of g (exec g (Some (init g)) ops).

(* per-op trace: (returned observation, frame after the op) *)
Fixpoint run (g : geom) (s : option state) (ops : list op) : list (obs * frame_t) :=
  match ops with
  | [] => []
  | o :: t =>
      match s with
      | None => (OCorrupt, []) :: run g None t
      | Some s0 =>
          let r := step g s0 o in
          (snd r, match fst r with Some x => st_frame x | None => [] end) :: run g (fst r) t
      end
  end.

(* ------------------------------------------------------------------ the specification *)

(* (1) the accumulator: per-pixel sum of everything added since the last reset.  A cluster is
   credited to exactly the pixel (floor(v/ph), floor(h/pw)); clusters outside are credited nowhere. *)
Definition hit_exact (g : geom) (c : cluster) (i j : nat) : bool :=
  (pix (g_ph g) (c_v c) =? Z.of_nat i)%Z && (pix (g_pw g) (c_h c) =? Z.of_nat j)%Z.

(* what the code's unchecked indexing does instead (used to describe the actual behaviour) *)
Definition hit_wrap (g : geom) (c : cluster) (i j : nat) : bool :=
  match wrap (g_rows g) (pix (g_ph g) (c_v c)), wrap (g_cols g) (pix (g_pw g) (c_h c)) with
  | Some i', Some j' => (i' =? i)%nat && (j' =? j)%nat
  | _, _ => false
  end.

Definition credit (hit : cluster -> nat -> nat -> bool) (cs : list cluster) (i j : nat) : Q :=
  fold_right (fun c acc => (if hit c i j then c_n c else 0) + acc) 0 cs.

Definition acc_step (g : geom) (hit : cluster -> nat -> nat -> bool)
           (acc : nat -> nat -> Q) (o : op) : nat -> nat -> Q :=
  match o with
  | AddArray a => if shape_ok (g_rows g) (g_cols g) a then fun i j => acc i j + mget a i j else acc
  | AddClusters cs => fun i j => acc i j + credit hit cs i j
  | Reset => fun _ _ => 0
  | _ => acc
  end.
Definition acc_of (g : geom) (hit : cluster -> nat -> nat -> bool) (ops : list op) : nat -> nat -> Q :=
  fold_left (acc_step g hit) ops (fun _ _ => 0).
Definition spec_acc (g : geom) (ops : list op) := acc_of g (hit_exact g) ops.
Definition wrap_acc (g : geom) (ops : list op) := acc_of g (hit_wrap g) ops.

(* (2) the ideal two-representation container (adds removals to the accumulator):
   charge is MOVED between the representations, reads are pure, outside clusters are masked. *)
Definition bin_exact (g : geom) (cs : list cluster) : matrix :=
  tabulate (g_rows g) (g_cols g) (credit (hit_exact g) cs).

Definition ideal_add (g : geom) (s : state) (cs : list cluster) : state :=
  match st_frame s with
  | [] => match centres g (st_arr s) ++ cs with
          | [] => s                               (* nothing to convert, nothing to add *)
          | l => {| st_arr := zeros (g_rows g) (g_cols g); st_frame := renumber l |}
          end
  | f => {| st_arr := st_arr s; st_frame := renumber (fcl f ++ cs) |}
  end.

Definition ideal_read (g : geom) (s : state) : matrix :=
  match st_frame s with [] => st_arr s | f => bin_exact g (fcl f) end.

Definition ideal_step (g : geom) (s : state) (o : op) : state * obs :=
  match o with
  | AddArray a =>
      if shape_ok (g_rows g) (g_cols g) a then
        match st_frame s with
        | [] => ({| st_arr := madd (st_arr s) a; st_frame := [] |}, OUnit)
        | _ => (ideal_add g s (centres g a), OUnit)
        end
      else (s, ORaise)
  | AddClusters cs => (ideal_add g s cs, OUnit)
  | Read => (s, OArr (ideal_read g s))
  | ReadFrame => (s, OUnit)
  | RemoveAll | Remove [] => ({| st_arr := st_arr s; st_frame := [] |}, OUnit)
  | Remove ids =>
      ({| st_arr := st_arr s; st_frame := filter (fun p => negb (id_in ids (fst p))) (st_frame s) |}, OUnit)
  | Reset => (init g, OUnit)
  end.

Definition ideal_exec (g : geom) (s : state) (ops : list op) : state :=
  fold_left (fun s o => fst (ideal_step g s o)) ops s.
Definition ideal_read_after (g : geom) (ops : list op) : obs :=
  OArr (ideal_read g (ideal_exec g (init g) ops)).

Fixpoint ideal_run (g : geom) (s : state) (ops : list op) : list obs :=
  match ops with
  | [] => []
  | o :: t => let r := ideal_step g s o in snd r :: ideal_run g (fst r) t
  end.

(* the accumulator as a trace: at every Read, tabulate spec_acc of the prefix (no removals) *)
Fixpoint acc_run (g : geom) (acc : nat -> nat -> Q) (ops : list op) : list obs :=
  match ops with
  | [] => []
  | o :: t =>
      (match o with
       | Read => OArr (tabulate (g_rows g) (g_cols g) acc)
       | AddArray a => if shape_ok (g_rows g) (g_cols g) a then OUnit else ORaise
       | _ => OUnit
       end) :: acc_run g (acc_step g (hit_exact g) acc o) t
  end.

Definition is_removal (o : op) : bool := match o with RemoveAll | Remove _ => true | _ => false end.
Definition has_removal (ops : list op) : bool := existsb is_removal ops.

(* hypotheses of the property as bool functions (used by theorems and by the case judge) *)
Definition nonneg_matrix (a : matrix) : bool := forallb (forallb (fun x => Qle_bool 0 x)) a.
Definition op_arrays_nonneg (o : op) : bool := match o with AddArray a => nonneg_matrix a | _ => true end.
Definition inside (g : geom) (c : cluster) : bool :=
  Qle_bool 0 (c_v c) && negb (Qle_bool (inject_Z (Z.of_nat (g_rows g)) * g_ph g) (c_v c)) &&
  Qle_bool 0 (c_h c) && negb (Qle_bool (inject_Z (Z.of_nat (g_cols g)) * g_pw g) (c_h c)).
Definition wrappable (g : geom) (c : cluster) : bool :=
  match wrap (g_rows g) (pix (g_ph g) (c_v c)), wrap (g_cols g) (pix (g_pw g) (c_h c)) with
  | Some _, Some _ => true
  | _, _ => false
  end.
Definition op_clusters (P : cluster -> bool) (o : op) : bool :=
  match o with AddClusters cs => forallb P cs | _ => true end.
Definition geom_ok (g : geom) : bool := negb (Qle_bool (g_ph g) 0) && negb (Qle_bool (g_pw g) 0).

(* a removal "empties" when it turns a non-empty frame into an empty one *)
Fixpoint removal_safe (g : geom) (s : state) (ops : list op) : bool :=
  match ops with
  | [] => true
  | o :: t =>
      let s' := fst (ideal_step g s o) in
      (if is_removal o then match st_frame s, st_frame s' with _ :: _, [] => false | _, _ => true end else true)
      && removal_safe g s' t
  end.

(* the judge: what every Read must return *)
Definition spec_trace (g : geom) (ops : list op) : list obs :=
  if has_removal ops then ideal_run g (init g) ops else acc_run g (fun _ _ => 0) ops.

(* ------------------------------------------------------------------ case files *)

Fixpoint list_eqb {A} (e : A -> A -> bool) (a b : list A) : bool :=
  match a, b with
  | [], [] => true
  | x :: a', y :: b' => e x y && list_eqb e a' b'
  | _, _ => false
  end.
Definition meqb : matrix -> matrix -> bool := list_eqb (list_eqb Qeq_bool).
Definition cluster_eqb (a b : cluster) : bool :=
  Qeq_bool (c_n a) (c_n b) && Qeq_bool (c_v a) (c_v b) && Qeq_bool (c_h a) (c_h b).
Definition frame_eqb : frame_t -> frame_t -> bool :=
  list_eqb (fun p q => Z.eqb (fst p) (fst q) && cluster_eqb (snd p) (snd q)).
Definition obs_eqb (a b : obs) : bool :=
  match a, b with
  | OUnit, OUnit | ORaise, ORaise | OCorrupt, OCorrupt => true
  | OArr m, OArr n => meqb m n
  | _, _ => false
  end.

(* k_checked = the implementation ran with numba's bounds check on: an out-of-bounds access is then
   observed as OCorrupt (IndexError) and nothing is corrupted.  Otherwise (default configuration,
   isolated subprocess) whatever follows an out-of-bounds write of the model is undefined. *)
Record ccase := { k_g : geom; k_ops : list op; k_checked : bool; k_obs : list (obs * frame_t) }.

Definition has_corrupt (t : list (obs * frame_t)) : bool :=
  existsb (fun p => match fst p with OCorrupt => true | _ => false end) t.

Fixpoint trace_eqb (checked : bool) (model impl : list (obs * frame_t)) : bool :=
  match model, impl with
  | [], [] => true
  | (OCorrupt, _) :: _, (o, _) :: _ =>
      if checked then match o with OCorrupt => true | _ => false end else true
  | _ :: _, [] => negb checked && has_corrupt model   (* the isolated process died: only an out-of-bounds
                                                         write of the model explains that *)
  | (a, f) :: m', (b, f') :: i' => obs_eqb a b && frame_eqb f f' && trace_eqb checked m' i'
  | _, _ => false
  end.

Definition case_mismatch (k : ccase) : bool :=
  negb (trace_eqb (k_checked k) (run (k_g k) (Some (init (k_g k))) (k_ops k)) (k_obs k)).

(* first Read (1-based op position) whose observed value is not what the specification demands;
   a missing observation (crash of the isolated process) counts as a wrong one *)
Fixpoint first_bad (n : Z) (ops : list op) (spec : list obs) (impl : list (obs * frame_t)) : Z :=
  match ops, spec with
  | o :: ops', sp :: spec' =>
      let here := match o with Read => true | _ => false end in
      match impl with
      | (ob, _) :: impl' =>
          if here && negb (obs_eqb sp ob) then n else first_bad (n + 1)%Z ops' spec' impl'
      | [] => if here then n else first_bad (n + 1)%Z ops' spec' []
      end
  | _, _ => 0%Z
  end.

Definition judged (k : ccase) : bool := geom_ok (k_g k) && forallb op_arrays_nonneg (k_ops k).
Definition case_first_bad (k : ccase) : Z :=
  if judged k then first_bad 1 (k_ops k) (spec_trace (k_g k) (k_ops k)) (k_obs k) else 0%Z.
Definition case_violates (k : ccase) : bool := negb (case_first_bad k =? 0)%Z.

(* sanity of the judge itself: on removal-free cases the ideal container and the accumulator agree *)
Definition case_selfcheck_bad (k : ccase) : bool :=
  judged k && negb (has_removal (k_ops k)) &&
  negb (list_eqb obs_eqb (ideal_run (k_g k) (init (k_g k)) (k_ops k)) (acc_run (k_g k) (fun _ _ => 0) (k_ops k))).

Fixpoint indices_where {A} (p : A -> bool) (l : list A) (i : Z) : list Z :=
  match l with
  | [] => []
  | x :: t => if p x then i :: indices_where p t (i + 1)%Z else indices_where p t (i + 1)%Z
  end.
Definition mismatches (cs : list ccase) : list Z := indices_where case_mismatch cs 0%Z.
Definition violations (cs : list ccase) : list Z := indices_where case_violates cs 0%Z.
Definition first_bads (cs : list ccase) : list Z := map case_first_bad cs.
Definition selfcheck (cs : list ccase) : list Z := indices_where case_selfcheck_bad cs 0%Z.
