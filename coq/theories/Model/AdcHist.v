(* C16: HISTORIES of converter calls on ONE detector object.
   A detector lives through a sequence of operations: its converter settings are changed through the
   setters of detector.characteristics, its signal frame is replaced, its Image bucket is emptied, and the
   three detector-level converter models (simple_adc / sar_adc / sar_adc_with_noise, Model/Adc.v, the run_ functions) are
   called on it, in any order.  The state carries the settings AND the image the detector currently holds,
   so that "what the previous call left behind" is part of the model: every call must store the image of
   the settings in force at THAT call, whatever the bucket held before.
   No proofs here (Proofs/AdcHist.v). *)
From Coq Require Import ZArith List Bool.
From Flocq Require Import Core BinarySingleNaN.
From PyxelV Require Import Lib.B64 Model.Adc.
Import ListNotations.
Open Scope Z_scope.

(* ---------------------------------------------------------------- what a detector-level model touches
   Regenerated from the source: the parts of the detector object (first attribute after `detector`) that the
   body of the model reads and writes.  A model that reads only the settings, the signal and the geometry and
   writes only the image cannot carry anything from one call to the next through the detector. *)
Inductive det_part := PCharacteristics | PSignal | PGeometry | PImage | POtherPart | PWhole.
Record touch := { t_reads : list det_part; t_writes : list det_part }.

Definition touch_ok (t : touch) : bool :=
  forallb (fun p => match p with PCharacteristics | PSignal | PGeometry => true | _ => false end) (t_reads t)
  && match t_writes t with [PImage] => true | _ => false end.

Inductive adc_op :=
  | OSetBits (b : Z)                 (* detector.characteristics.adc_bit_resolution = b *)
  | OSetRange (lo hi : b64)          (* detector.characteristics.adc_voltage_range = (lo, hi) *)
  | OSetSignal (xs : list b64)       (* detector.signal.array = a new frame *)
  | OEmptyImage                      (* detector.image.empty()  (what Detector.empty() does to the image) *)
  | OSimple (data_type : option Z)   (* simple_adc(detector[, data_type="uint<w>"]) *)
  | OSar                             (* sar_adc(detector) *)
  | OSar0 (n m : Z)                  (* sar_adc_with_noise(detector, (0.0,)*n, (0.0,)*m) *)
  | OSarp (ps : list b64).           (* sar_adc_with_noise with len(ps) strengths/noises; ps = the drawn perturbations *)

(* None = the Image bucket is empty (detector.image._array is None) *)
Definition image_m := option (Z * list (option Z)).

Record hstate := { h_det : adc_detector; h_image : image_m }.

Definition with_bits (d : adc_detector) (b : Z) : adc_detector :=
  {| d_bits := b; d_lo := d_lo d; d_hi := d_hi d; d_signal := d_signal d; d_rows := d_rows d; d_cols := d_cols d |}.
Definition with_range (d : adc_detector) (lo hi : b64) : adc_detector :=
  {| d_bits := d_bits d; d_lo := lo; d_hi := hi; d_signal := d_signal d; d_rows := d_rows d; d_cols := d_cols d |}.
Definition with_signal (d : adc_detector) (xs : list b64) : adc_detector :=
  {| d_bits := d_bits d; d_lo := d_lo d; d_hi := d_hi d; d_signal := xs; d_rows := d_rows d; d_cols := d_cols d |}.

(* the setters' own guards: Characteristics.adc_bit_resolution refuses values outside 4..64 (ValueError),
   Signal.array refuses a frame of another shape (ValueError); the detector is left as it was *)
Definition setter_accepts (d : adc_detector) (o : adc_op) : bool :=
  match o with
  | OSetBits b => (4 <=? b) && (b <=? 64)
  | OSetSignal xs => Z.of_nat (length xs) =? d_rows d * d_cols d
  | _ => true
  end.

(* the settings after one operation: only an accepted setter changes them, and only its own attribute;
   calls and emptying the image never do *)
Definition apply_set (d : adc_detector) (o : adc_op) : adc_detector :=
  if setter_accepts d o then
    match o with
    | OSetBits b => with_bits d b
    | OSetRange lo hi => with_range d lo hi
    | OSetSignal xs => with_signal d xs
    | _ => d
    end
  else d.

Definition is_call (o : adc_op) : bool :=
  match o with OSimple _ | OSar | OSar0 _ _ | OSarp _ => true | _ => false end.

Section Wired.
Variables (ch : dtype_chain) (sw : simple_wiring) (rw : sar_wiring) (nw : sar0_wiring).

(* sar_adc_with_noise with tuples of n elements: the two length guards, then the converter *)
Definition call_sarp (d : adc_detector) (ps : list b64) : option (Z * list (option Z)) :=
  let n := Z.of_nat (length ps) in
  if (nw_guard_strengths nw && negb (n =? d_bits d)) || (nw_guard_noises nw && negb (n =? d_bits d))
  then None else run_sarp ch nw d ps.

(* what a call computes from the detector's settings: None = not a call; Some None = it raises *)
Definition call_image (d : adc_detector) (o : adc_op) : option (option (Z * list (option Z))) :=
  match o with
  | OSimple dt => Some (run_simple ch sw d dt)
  | OSar => Some (run_sar ch rw d)
  | OSar0 n m => Some (run_sar0 ch nw d n m)
  | OSarp ps => Some (call_sarp d ps)
  | _ => None
  end.

(* one operation: the new state and whether it raised.  A call that raises does so before
   detector.image.array is assigned: the bucket keeps what it held. *)
Definition hstep (s : hstate) (o : adc_op) : hstate * bool :=
  match call_image (h_det s) o with
  | Some (Some img) => ({| h_det := h_det s; h_image := Some img |}, false)
  | Some None => (s, true)
  | None =>
      match o with
      | OEmptyImage => ({| h_det := h_det s; h_image := None |}, false)
      | _ => ({| h_det := apply_set (h_det s) o; h_image := h_image s |}, negb (setter_accepts (h_det s) o))
      end
  end.

Fixpoint hrun (s : hstate) (ops : list adc_op) : hstate :=
  match ops with
  | [] => s
  | o :: t => hrun (fst (hstep s o)) t
  end.

(* after every operation: did it raise, and what does the Image bucket hold *)
Fixpoint htrace (s : hstate) (ops : list adc_op) : list (bool * image_m) :=
  match ops with
  | [] => []
  | o :: t => let r := hstep s o in (snd r, h_image (fst r)) :: htrace (fst r) t
  end.

End Wired.

(* ---------------------------------------------------------------- the specification over histories *)

(* what was observed on the implementation after one operation *)
Record hist_obs := {
  o_raised : bool;
  o_image : option (Z * list Z);   (* the Image bucket: None = empty *)
  o_sig_ok : bool                  (* before the operation the Signal bucket still held, bit for bit, the frame last put there *)
}.

Definition range_ok (d : adc_detector) : bool :=
  is_finite (d_lo d) && is_finite (d_hi d) && blt (d_lo d) (d_hi d) && is_finite (bsub (d_hi d) (d_lo d)).

(* the calls the property speaks about: an allowed converter setting (resolution 4..64, finite range
   vmin < vmax with a finite span), a NaN-free frame given in non-decreasing order, a data_type at least as
   wide as the resolution, tuples of adc_bit_resolution elements; the SAR converters with a maximum >= 0 *)
Definition call_allowed (d : adc_detector) (o : adc_op) : bool :=
  (4 <=? d_bits d) && (d_bits d <=? 64) && range_ok d && no_nan (d_signal d) && sortedB (d_signal d)
  && match o with
     | OSimple None => true
     | OSimple (Some w) => d_bits d <=? w
     | OSar => ble pzero (d_hi d)
     | OSar0 n m => (n =? d_bits d) && (m =? d_bits d) && ble pzero (d_hi d)
     | OSarp ps => Z.of_nat (length ps) =? d_bits d
     | _ => false
     end.

Definition call_spec (d : adc_detector) (o : adc_op) (w : Z) (cs : list Z) : bool :=
  match o with
  | OSimple _ => simple_spec (d_bits d) (d_lo d) (d_hi d) (d_signal d) w cs
  | OSar | OSar0 _ _ => sar_spec (d_bits d) (d_signal d) w cs
  | OSarp _ => noisy_spec (d_bits d) (d_signal d) w cs
  | _ => true
  end.

(* an allowed call on an untouched signal must not raise and must leave an image that satisfies the
   specification FOR THE SETTINGS IN FORCE AT THE CALL; nothing is demanded of the other operations *)
Definition obs_ok (d : adc_detector) (o : adc_op) (ob : hist_obs) : bool :=
  if call_allowed d o && o_sig_ok ob then
    negb (o_raised ob)
    && match o_image ob with Some (w, cs) => call_spec d o w cs | None => false end
  else true.

(* indices of the operations whose observation breaks the specification; the settings are threaded
   through the setters only (apply_set): a call never changes them *)
Fixpoint hist_judge (d : adc_detector) (ops : list adc_op) (obs : list hist_obs) (i : Z) : list Z :=
  match ops, obs with
  | o :: t, ob :: t' => (if obs_ok d o ob then [] else [i]) ++ hist_judge (apply_set d o) t t' (i + 1)
  | _, _ => []
  end.

(* the model's own observations (an image with an undefined cast counts as no image) *)
Fixpoint all_some (ms : list (option Z)) : option (list Z) :=
  match ms with
  | [] => Some []
  | Some v :: t => match all_some t with Some l => Some (v :: l) | None => None end
  | None :: _ => None
  end.

Definition defined_image (im : image_m) : option (Z * list Z) :=
  match im with
  | Some (w, ms) => match all_some ms with Some cs => Some (w, cs) | None => None end
  | None => None
  end.

Definition model_obs (tr : list (bool * image_m)) : list hist_obs :=
  map (fun r => {| o_raised := fst r; o_image := defined_image (snd r); o_sig_ok := true |}) tr.

(* ---------------------------------------------------------------- comparison helpers for case files *)

Record hist_case := {
  hc_bits : Z; hc_lo : b64; hc_hi : b64; hc_xs : list b64;    (* the detector as constructed; image empty *)
  hc_ops : list adc_op;
  hc_obs : list hist_obs
}.

Definition hist_init (c : hist_case) : hstate :=
  {| h_det := {| d_bits := hc_bits c; d_lo := hc_lo c; d_hi := hc_hi c; d_signal := hc_xs c;
                 d_rows := 1; d_cols := Z.of_nat (length (hc_xs c)) |};
     h_image := None |}.

Definition image_agree (m : image_m) (o : option (Z * list Z)) : bool :=
  match m, o with
  | None, None => true
  | Some (w, ms), Some (w', os) => (w =? w') && list_agree ms os
  | _, _ => false
  end.

Definition obs_agree (m : bool * image_m) (ob : hist_obs) : bool :=
  Bool.eqb (fst m) (o_raised ob) && o_sig_ok ob && image_agree (snd m) (o_image ob).

Fixpoint trace_agree (ms : list (bool * image_m)) (obs : list hist_obs) : bool :=
  match ms, obs with
  | [], [] => true
  | m :: ms', ob :: obs' => obs_agree m ob && trace_agree ms' obs'
  | _, _ => false
  end.

Definition hist_case_mismatch ch sw rw nw (c : hist_case) : bool :=
  negb (trace_agree (htrace ch sw rw nw (hist_init c) (hc_ops c)) (hc_obs c)).

(* first violating operation of each case, flattened as case * 1000 + operation *)
Fixpoint hist_violations_from (cs : list hist_case) (k : Z) : list Z :=
  match cs with
  | [] => []
  | c :: t =>
      match hist_judge (h_det (hist_init c)) (hc_ops c) (hc_obs c) 0 with
      | [] => hist_violations_from t (k + 1)
      | i :: _ => (k * 1000 + i) :: hist_violations_from t (k + 1)
      end
  end.

Definition hist_mismatches ch sw rw nw (cs : list hist_case) : list Z :=
  indices_where (hist_case_mismatch ch sw rw nw) cs 0.
Definition hist_violations (cs : list hist_case) : list Z := hist_violations_from cs 0.
