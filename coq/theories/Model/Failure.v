(* C09 — a failing model always fails the run, with its identity attached.

   Executable model (no proofs) of the error path of the four running modes, exactly as coded:

     ModelGroup.run            pyxel/pipelines/model_group.py     try: model(detector)
                                                                  except Exception as exc: exc.add_note(group, model); raise
     Processor.run_pipeline    pyxel/pipelines/processor.py       for group in model_group_names: group.run(...)
     run_pipeline              pyxel/exposure/exposure.py         for i, (time, step) in enumerate(...): processor.run_pipeline()
     Observation (sequential)  pyxel/observation/observation.py   [ _run_single_pipeline(el) for el in parameters ]
                                                                  except Exception as exc: add_note(header); add_note(k: v)...; raise
     Observation (dask)        pyxel/observation/observation_dask.py   first run eagerly (metadata), then one lazy cell per run
     Calibration               fitting_datatree.py fitness        except Exception as exc: add_note(fitting); log; raise
                               archipelago_datatree.py            initial population in _build, then evolve(); wait_check()

   Results live in the monad  res A := Ok A | Raise exn ; every driver also returns the list of model
   calls it made (the probes' call log).  What a model function does is external: it is the
   `behaviour` argument (run id, step, model key) -> does this call raise, and what.  *)
From Coq Require Import List String Ascii Bool Arith.
Import ListNotations.
Open Scope string_scope.

(* ------------------------------------------------------------------------------------------ *)
(* exceptions *)

Inductive ecls := ValueError | KeyError | ZeroDivisionError | RuntimeError | TypeError | ProbeError.

Definition cls_name (c : ecls) : string :=
  match c with
  | ValueError => "ValueError" | KeyError => "KeyError" | ZeroDivisionError => "ZeroDivisionError"
  | RuntimeError => "RuntimeError" | TypeError => "TypeError" | ProbeError => "ProbeError"
  end.

Record exn := mk_exn { cls : ecls; msg : string; notes : list string }.

Inductive res (A : Type) : Type := Ok (a : A) | Raise (e : exn).
Arguments Ok {A} a.
Arguments Raise {A} e.

Definition map_res {A B} (f : A -> B) (x : res A) : res B :=
  match x with Ok a => Ok (f a) | Raise e => Raise e end.

(* str(exc) of `cls(payload)`: KeyError shows the repr of its argument; the probes' custom class is
   raised with the non-string argument {"code": 7, "msg": payload} *)
Definition py_str (c : ecls) (payload : string) : string :=
  match c with
  | KeyError => "'" ++ payload ++ "'"
  | ProbeError => "{'code': 7, 'msg': '" ++ payload ++ "'}"
  | _ => payload
  end.

Definition raise_of (c : ecls) (payload : string) : exn :=
  {| cls := c; msg := py_str c payload; notes := [] |}.

(* BaseException.add_note: appends; class and message untouched *)
Definition add_note (e : exn) (n : string) : exn :=
  {| cls := cls e; msg := msg e; notes := (notes e ++ [n])%list |}.
Definition add_notes (e : exn) (ns : list string) : exn :=
  {| cls := cls e; msg := msg e; notes := (notes e ++ ns)%list |}.

(* ------------------------------------------------------------------------------------------ *)
(* pipelines, runs, call log *)

Record model := { m_name : string; m_func : string; m_enabled : bool; m_key : nat }.
Record group := { g_name : string; g_models : list model }.
(* one observation run: its identity and its parameters as (key, repr(value)) *)
Record run := { r_id : nat; r_params : list (string * string) }.

Record event := { ev_run : nat; ev_step : nat; ev_group : string; ev_model : string;
                  ev_func : string; ev_key : nat }.

Definition mk_ev (r s : nat) (g : string) (m : model) : event :=
  {| ev_run := r; ev_step := s; ev_group := g; ev_model := m_name m; ev_func := m_func m;
     ev_key := m_key m |}.

(* run id -> step -> model key -> Some (class, payload) if that call raises *)
Definition behaviour := nat -> nat -> nat -> option (ecls * string).

(* model_group.py: f"This error is raised in group '{self._name}' at model '{model.name}' ({model._func_name})." *)
Definition note_text (g m f : string) : string :=
  "This error is raised in group '" ++ g ++ "' at model '" ++ m ++ "' (" ++ f ++ ").".
Definition note_of_event (ev : event) : string := note_text (ev_group ev) (ev_model ev) (ev_func ev).

(* observation.py *)
Definition obs_header : string :=
  "This error occurred in 'Observation' mode with the following parameters:".
Definition param_note (kv : string * string) : string := "  - '" ++ fst kv ++ "': " ++ snd kv.

(* fitting_datatree.py (the object repr and the decision vector are not modelled) *)
Definition fit_note : string := "Exception raised with ModelFitting".

Section Drivers.
  Variable beh : behaviour.

  Definition call_model (r s : nat) (m : model) : res unit :=
    match beh r s (m_key m) with
    | Some (c, p) => Raise (raise_of c p)
    | None => Ok tt
    end.

  (* ModelGroup.run: `for model in self` yields the enabled models only *)
  Fixpoint group_run (r s : nat) (g : string) (ms : list model) : res unit * list event :=
    match ms with
    | [] => (Ok tt, [])
    | m :: ms' =>
        if m_enabled m then
          match call_model r s m with
          | Raise e => (Raise (add_note e (note_text g (m_name m) (m_func m))), [mk_ev r s g m])
          | Ok _ => let '(o, tr) := group_run r s g ms' in (o, mk_ev r s g m :: tr)
          end
        else group_run r s g ms'
    end.

  (* Processor.run_pipeline: no handler; the first failing group ends the loop *)
  Fixpoint processor_run (r s : nat) (gs : list group) : res unit * list event :=
    match gs with
    | [] => (Ok tt, [])
    | g :: gs' =>
        match group_run r s (g_name g) (g_models g) with
        | (Raise e, tr) => (Raise e, tr)
        | (Ok _, tr) => let '(o, tr') := processor_run r s gs' in (o, (tr ++ tr')%list)
        end
    end.

  (* exposure.run_pipeline: the result (here: the list of recorded steps) exists only if every step ran *)
  Fixpoint exposure_steps (r : nat) (pl : list group) (steps : list nat) : res (list nat) * list event :=
    match steps with
    | [] => (Ok [], [])
    | s :: ss =>
        match processor_run r s pl with
        | (Raise e, tr) => (Raise e, tr)
        | (Ok _, tr) => let '(o, tr') := exposure_steps r pl ss in (map_res (cons s) o, (tr ++ tr')%list)
        end
    end.

  Definition exposure (r : nat) (pl : list group) (nsteps : nat) := exposure_steps r pl (seq 0 nsteps).

  (* Observation, sequential: list comprehension over the runs, each wrapped by _run_single_pipeline *)
  Fixpoint obs_seq (pl : list group) (nsteps : nat) (runs : list run)
    : res (list (nat * list nat)) * list event :=
    match runs with
    | [] => (Ok [], [])
    | r :: rs =>
        match exposure (r_id r) pl nsteps with
        | (Raise e, tr) => (Raise (add_notes e (obs_header :: map param_note (r_params r))), tr)
        | (Ok d, tr) =>
            let '(o, tr') := obs_seq pl nsteps rs in (map_res (cons (r_id r, d)) o, (tr ++ tr')%list)
        end
    end.

  (* Observation with dask: the first run is executed eagerly to learn the output layout, then every
     run (the first one again) becomes one lazy cell; `.load()` hands the cells to `compute`. *)
  Inductive par_outcome :=
  | ParBuildRaise (e : exn)
  | ParLoaded (o : res (list (list nat))).

  Definition cell (pl : list group) (nsteps : nat) (r : run) : res (list nat) :=
    fst (exposure (r_id r) pl nsteps).

  Definition obs_par (compute : list (res (list nat)) -> res (list (list nat)))
             (pl : list group) (nsteps : nat) (runs : list run) : par_outcome :=
    match runs with
    | [] => ParLoaded (Ok [])
    | r0 :: _ =>
        match cell pl nsteps r0 with
        | Raise e => ParBuildRaise e
        | Ok _ => ParLoaded (compute (map (cell pl nsteps) runs))
        end
    end.

  (* Calibration: fitness of one candidate (identified by its evaluation number) *)
  Definition fitness (pl : list group) (nsteps : nat) (cand : nat) : res (list nat) :=
    match exposure cand pl nsteps with
    | (Raise e, _) => Raise (add_note e fit_note)
    | (Ok d, _) => Ok d
    end.

  (* evolutions run inside the optimiser's threads: wait_check re-raises through `transport` *)
  Fixpoint evolve (compute : list (res (list nat)) -> res (list (list nat))) (transport : exn -> exn)
           (pl : list group) (nsteps : nat) (gens : list (list nat)) : res unit :=
    match gens with
    | [] => Ok tt
    | g :: gs =>
        match compute (map (fitness pl nsteps) g) with
        | Raise e => Raise (transport e)
        | Ok _ => evolve compute transport pl nsteps gs
        end
    end.

  Definition calib compute transport (pl : list group) (nsteps : nat)
             (init : list nat) (gens : list (list nat)) : res unit :=
    match compute (map (fitness pl nsteps) init) with
    | Raise e => Raise e                       (* initial population: built in the caller's thread pool *)
    | Ok _ => evolve compute transport pl nsteps gens
    end.

  (* ---------------------------------------------------------------------------------------- *)
  (* flat specification: the schedule of calls, and the first one that faults *)

  Definition sched_group (r s : nat) (g : string) (ms : list model) : list event :=
    map (mk_ev r s g) (filter m_enabled ms).
  Definition sched_proc (r s : nat) (gs : list group) : list event :=
    flat_map (fun g => sched_group r s (g_name g) (g_models g)) gs.
  Definition sched_steps (r : nat) (pl : list group) (steps : list nat) : list event :=
    flat_map (fun s => sched_proc r s pl) steps.
  Definition sched_expo (r : nat) (pl : list group) (nsteps : nat) : list event :=
    sched_steps r pl (seq 0 nsteps).
  Definition sched_obs (pl : list group) (nsteps : nat) (runs : list run) : list event :=
    flat_map (fun r => sched_expo (r_id r) pl nsteps) runs.

  Definition ev_fault (ev : event) : option (ecls * string) := beh (ev_run ev) (ev_step ev) (ev_key ev).

  (* executor over a flat schedule *)
  Fixpoint flat_exec (evs : list event) : res unit * list event :=
    match evs with
    | [] => (Ok tt, [])
    | ev :: rest =>
        match ev_fault ev with
        | Some (c, p) => (Raise (add_note (raise_of c p) (note_of_event ev)), [ev])
        | None => let '(o, tr) := flat_exec rest in (o, ev :: tr)
        end
    end.

  (* (calls strictly before the fault, the faulting call, class, payload) *)
  Fixpoint first_fault (evs : list event) : option (list event * event * ecls * string) :=
    match evs with
    | [] => None
    | ev :: rest =>
        match ev_fault ev with
        | Some (c, p) => Some ([], ev, c, p)
        | None => match first_fault rest with
                  | Some (pre, fe, c, p) => Some (ev :: pre, fe, c, p)
                  | None => None
                  end
        end
    end.
End Drivers.

(* a concrete `compute`: force the cells left to right, stop at the first failure *)
Fixpoint compute_seq (ts : list (res (list nat))) : res (list (list nat)) :=
  match ts with
  | [] => Ok []
  | Raise e :: _ => Raise e
  | Ok d :: ts' => map_res (cons d) (compute_seq ts')
  end.

(* ------------------------------------------------------------------------------------------ *)
(* strings *)

Fixpoint prefixb (s t : string) : bool :=
  match s with
  | EmptyString => true
  | String a s' => match t with
                   | EmptyString => false
                   | String b t' => Ascii.eqb a b && prefixb s' t'
                   end
  end.

Fixpoint substrb (s t : string) : bool :=
  prefixb s t || match t with EmptyString => false | String _ t' => substrb s t' end.

(* a concrete `transport` with the shape of pygmo's message: text + traceback ending in
   "<Class>: <message>" followed by the notes, one per line *)
Definition nl : string := String (ascii_of_nat 10) EmptyString.
Definition transport_model (e : exn) : exn :=
  {| cls := RuntimeError;
     msg := "The asynchronous evolution of a pythonic island raised an error:" ++ nl
            ++ cls_name (cls e) ++ ": " ++ msg e ++ nl ++ concat nl (notes e);
     notes := [] |}.

(* ------------------------------------------------------------------------------------------ *)
(* case files: inputs, the implementation's observation, comparison and specification *)

Definition fault := (nat * nat * nat * ecls * string)%type.   (* run id, step, model key, class, payload *)

Definition beh_of (fs : list fault) : behaviour :=
  fun r s k =>
    match find (fun f => match f with (fr, fs', fk, _, _) => Nat.eqb fr r && Nat.eqb fs' s && Nat.eqb fk k end) fs with
    | Some (_, _, _, c, p) => Some (c, p)
    | None => None
    end.

Inductive mode := MExposure | MObsSeq | MObsDask | MCalib.

Inductive outcome :=
| Returned
| Raised (ocls : string) (omro : list string) (omsg : string) (onotes : list string) (ochain : nat)
| NotRun.

Record c09_case := {
  c_mode : mode;
  c_pl : list group;
  c_nsteps : nat;
  c_runs : list run;             (* exposure: one run without parameters; calibration: unused *)
  c_faults : list fault;
  c_pop : nat; c_evals : nat;    (* calibration: population size, evaluations made by all evolutions *)
  o_call : outcome;              (* what pyxel.run_mode(...) did *)
  o_load : outcome;              (* what .load() on the returned tree did (dask / calibration) *)
  o_trace : list (nat * nat * string)   (* the probes' call log: run id, step, model name *)
}.

Definition proj_ev (ev : event) : nat * nat * string := (ev_run ev, ev_step ev, ev_model ev).

Definition t3_eqb (a b : nat * nat * string) : bool :=
  match a, b with (a1, a2, a3), (b1, b2, b3) => Nat.eqb a1 b1 && Nat.eqb a2 b2 && String.eqb a3 b3 end.

Fixpoint list_eqb {A} (eqb : A -> A -> bool) (l1 l2 : list A) : bool :=
  match l1, l2 with
  | [], [] => true
  | a :: l1', b :: l2' => eqb a b && list_eqb eqb l1' l2'
  | _, _ => false
  end.

Definition is_raised (o : outcome) : bool := match o with Raised _ _ _ _ _ => true | _ => false end.
Definition is_returned (o : outcome) : bool := match o with Returned => true | _ => false end.

(* --- the specification (right-hand sides of the theorems), on the implementation's observation --- *)

(* class: the observed class is the injected one (or a subclass: the injected class is in its MRO) *)
Definition spec_class (c : ecls) (o : outcome) : bool :=
  match o with
  | Raised oc mro _ _ _ => String.eqb oc (cls_name c) || existsb (String.eqb (cls_name c)) mro
  | _ => false
  end.
(* message: the original str(exc) reaches the caller *)
Definition spec_message (c : ecls) (p : string) (o : outcome) : bool :=
  match o with Raised _ _ om _ _ => substrb (py_str c p) om | _ => false end.
(* identity: one note names the group and the model of the faulting call; a note that merely lists
   a swept parameter key (which may itself contain a group and a model name) does not count *)
Definition spec_identity (keys : list string) (ev : event) (o : outcome) : bool :=
  match o with
  | Raised _ _ _ ns _ =>
      existsb (fun n => substrb (ev_group ev) n && substrb (ev_model ev) n
                        && negb (existsb (fun k => substrb k n) keys)) ns
  | _ => false
  end.
(* parameters: every key with the value of the faulting run in one note *)
Definition spec_params (r : run) (o : outcome) : bool :=
  match o with
  | Raised _ _ _ ns _ =>
      forallb (fun kv => existsb (fun n => substrb (fst kv) n
                                           && substrb (String.append ": " (snd kv)) n) ns) (r_params r)
  | _ => false
  end.
(* optimiser threads: message, group and model must be somewhere in the message or the notes *)
Definition spec_text (s : string) (o : outcome) : bool :=
  match o with
  | Raised _ _ om ns _ => substrb s om || existsb (substrb s) ns
  | _ => false
  end.

Definition run_by_id (runs : list run) (id : nat) : run :=
  match find (fun r => Nat.eqb (r_id r) id) runs with Some r => r | None => {| r_id := id; r_params := [] |} end.

Definition all_keys (runs : list run) : list string := flat_map (fun r => map fst (r_params r)) runs.

(* violation codes: 0 none | 1 no exception (a result came back) | 2 class | 3 message | 4 group/model
   identity | 5 run parameters | 6 call log is not the prefix up to the fault | 7 dask: not surfaced
   at the latest at load | 8 calibration: not surfaced *)
Definition check_exn (keys : list string) (ev : event) (c : ecls) (p : string) (o : outcome) : nat :=
  if negb (is_raised o) then 1
  else if negb (spec_class c o) then 2
  else if negb (spec_message c p o) then 3
  else if negb (spec_identity keys ev o) then 4
  else 0.

Definition violation_code (c : c09_case) : nat :=
  let beh := beh_of (c_faults c) in
  let keys := all_keys (c_runs c) in
  match c_mode c with
  | MExposure | MObsSeq =>
      match first_fault beh (sched_obs (c_pl c) (c_nsteps c) (c_runs c)) with
      | None => 0
      | Some (pre, fe, cl, p) =>
          let k := check_exn keys fe cl p (o_call c) in
          if negb (Nat.eqb k 0) then k
          else if negb (spec_params (run_by_id (c_runs c) (ev_run fe)) (o_call c)) then 5
          else if negb (list_eqb t3_eqb (o_trace c) (map proj_ev (pre ++ [fe])%list)) then 6
          else 0
      end
  | MObsDask =>
      (* the surfaced exception must be the first fault of one of the faulting runs *)
      let faulting := flat_map (fun r => match first_fault beh (sched_expo (r_id r) (c_pl c) (c_nsteps c)) with
                                         | Some x => [x] | None => [] end) (c_runs c) in
      match faulting with
      | [] => 0
      | _ =>
          let o := if is_raised (o_call c) then o_call c else o_load c in
          if negb (is_raised o) then 7
          else
            let codes := map (fun x => match x with (_, fe, cl, p) => check_exn keys fe cl p o end) faulting in
            if existsb (Nat.eqb 0) codes then 0 else hd 7 codes
      end
  | MCalib =>
      (* c_runs lists the evaluations 0 .. ; the probes count them *)
      let faulting := flat_map (fun r => match first_fault beh (sched_expo (r_id r) (c_pl c) (c_nsteps c)) with
                                         | Some x => [x] | None => [] end) (c_runs c) in
      match faulting with
      | [] => 0
      | (_, fe, cl, p) :: _ =>
          if Nat.ltb (ev_run fe) (c_pop c) then check_exn keys fe cl p (o_call c)
          else if Nat.ltb (ev_run fe) (c_pop c + c_evals c) then
            if negb (is_raised (o_call c)) then 8
            else if negb (spec_text (py_str cl p) (o_call c)) then 3
            else if negb (spec_text (ev_group fe) (o_call c) && spec_text (ev_model fe) (o_call c)) then 4
            else 0
          else
            (* lazily recomputed champion data: at the latest at load *)
            let o := if is_raised (o_call c) then o_call c else o_load c in
            if negb (is_raised o) then 8 else
            let k := check_exn keys fe cl p o in k
      end
  end.

(* --- model vs. implementation on the property-relevant observables --- *)

Definition exn_agrees (keys : list string) (e : exn) (o : outcome) : bool :=
  match o with
  | Raised oc _ om ns _ =>
      String.eqb oc (cls_name (cls e)) && String.eqb om (msg e)
  | _ => false
  end.

Definition case_mismatch (c : c09_case) : bool :=
  let beh := beh_of (c_faults c) in
  let keys := all_keys (c_runs c) in
  match c_mode c with
  | MExposure =>
      let '(o, tr) := exposure beh 0 (c_pl c) (c_nsteps c) in
      negb (list_eqb t3_eqb (o_trace c) (map proj_ev tr))
      || match o with
         | Ok _ => negb (is_returned (o_call c))
         | Raise e => negb (exn_agrees keys e (o_call c))
         end
  | MObsSeq =>
      let '(o, tr) := obs_seq beh (c_pl c) (c_nsteps c) (c_runs c) in
      negb (list_eqb t3_eqb (o_trace c) (map proj_ev tr))
      || match o with
         | Ok _ => negb (is_returned (o_call c))
         | Raise e => negb (exn_agrees keys e (o_call c))
         end
  | MObsDask =>
      (* which run pyxel executes eagerly (the first of ITS ordering of the parameter space) is not
         property-relevant: a modelled failure must show at the call or at load, data otherwise *)
      match obs_par beh compute_seq (c_pl c) (c_nsteps c) (c_runs c) with
      | ParLoaded (Ok _) => negb (is_returned (o_call c) && is_returned (o_load c))
      | _ => negb (is_raised (o_call c) || (is_returned (o_call c) && is_raised (o_load c)))
      end
  | MCalib =>
      let init := seq 0 (c_pop c) in
      let gens := [seq (c_pop c) (c_evals c)] in
      match calib beh compute_seq transport_model (c_pl c) (c_nsteps c) init gens with
      | Ok _ => negb (is_returned (o_call c))
      | Raise _ => negb (is_raised (o_call c))
      end
  end.

Fixpoint indices_where {A} (f : A -> bool) (l : list A) (i : nat) : list nat :=
  match l with
  | [] => []
  | a :: l' => ((if f a then [i] else []) ++ indices_where f l' (S i))%list
  end.

Definition mismatches (cs : list c09_case) : list nat := indices_where case_mismatch cs 0.

(* flattened [index; code; index; code; ...] of the cases whose observation breaks the specification *)
Fixpoint violations_from (cs : list c09_case) (i : nat) : list nat :=
  match cs with
  | [] => []
  | c :: cs' => ((let k := violation_code c in if Nat.eqb k 0 then [] else [i; k]) ++ violations_from cs' (S i))%list
  end.
Definition violations (cs : list c09_case) : list nat := violations_from cs 0.

(* ------------------------------------------------------------------------------------------ *)
(* the table regenerated from the source (translator/c09.py): the `except` handlers on the path of a
   model's exception: (function, adds a note, ends in a bare `raise`) *)
Definition handler_row := (string * bool * bool)%type.
Definition handlers_reraise (t : list handler_row) : bool :=
  forallb (fun h => match h with (_, _, r) => r end) t.
Definition has_note_handler (t : list handler_row) (f : string) : bool :=
  existsb (fun h => match h with (g, a, r) => String.eqb f g && a && r end) t.
