(* C09 — a failing model always fails the run, with its identity attached.

   Executable model (no proofs) of the error path of the four running modes, exactly as coded:

     ModelGroup.run            pyxel/pipelines/model_group.py     try: model(detector)
                                                                  except Exception as exc: exc.add_note(group, model); raise
     Processor.run_pipeline    pyxel/pipelines/processor.py       for group in model_group_names: group.run(...)
     run_pipeline              pyxel/exposure/exposure.py         for i, (time, step) in enumerate(...): processor.run_pipeline()
     Observation (sequential)  pyxel/observation/observation.py   [ _run_single_pipeline(el) for el in parameters ]
                                                                  except Exception as exc: add_note(header); add_note(k: v)...; raise
     Observation (dask)        pyxel/observation/observation_dask.py   first run eagerly (metadata), then one lazy cell per run
     Calibration               fitting_datatree.py fitness        except Exception as exc: add_note(fitting); log; raise
                               archipelago_datatree.py            initial population in _build, then evolve(); wait_check()

   Round 2: the public entry points around the running modes (pyxel.run(file) with its try/finally,
   the `pyxel run` command, the deprecated pyxel.exposure_mode/observation_mode/calibration_mode, the
   methods of Exposure/Observation/Calibration) and EVERY construct that can drop an exception on
   those paths - an `except` handler that does not re-raise, a `finally` block that is left by
   return/break/continue, a context manager whose __exit__ suppresses - are modelled by `shape`,
   `through` and `through_all` below; exception classes that are not `Exception` subclasses
   (KeyboardInterrupt, SystemExit, a custom BaseException) pass the `except Exception` handlers
   without a note, exactly as in the code.

   Results live in the monad  res A := Ok A | Raise exn ; every driver also returns the list of model
   calls it made (the probes' call log).  What a model function does is external: it is the
   `behaviour` argument (run id, step, model key) -> does this call raise, and what.  *)
From Coq Require Import List String Ascii Bool Arith.
Import ListNotations.
Open Scope string_scope.

(* ------------------------------------------------------------------------------------------ *)
(* exceptions *)

Inductive ecls := ValueError | KeyError | ZeroDivisionError | RuntimeError | TypeError | ProbeError
                | StopIteration | FloatingPointError | OSError
                | KeyboardInterrupt | SystemExit | BaseProbeError.

Definition cls_name (c : ecls) : string :=
  match c with
  | ValueError => "ValueError" | KeyError => "KeyError" | ZeroDivisionError => "ZeroDivisionError"
  | RuntimeError => "RuntimeError" | TypeError => "TypeError" | ProbeError => "ProbeError"
  | StopIteration => "StopIteration" | FloatingPointError => "FloatingPointError" | OSError => "OSError"
  | KeyboardInterrupt => "KeyboardInterrupt" | SystemExit => "SystemExit" | BaseProbeError => "BaseProbeError"
  end.

(* issubclass(c, Exception): what `except Exception` catches.  KeyboardInterrupt, SystemExit and the
   probes' BaseProbeError derive from BaseException only. *)
Definition is_exception (c : ecls) : bool :=
  match c with KeyboardInterrupt | SystemExit | BaseProbeError => false | _ => true end.

Definition is_stop_iteration (c : ecls) : bool := match c with StopIteration => true | _ => false end.

Record exn := mk_exn { cls : ecls; msg : string; notes : list string }.

Inductive res (A : Type) : Type := Ok (a : A) | Raise (e : exn).
Arguments Ok {A} a.
Arguments Raise {A} e.

Definition map_res {A B} (f : A -> B) (x : res A) : res B :=
  match x with Ok a => Ok (f a) | Raise e => Raise e end.

(* str(exc) of `cls(payload)`: KeyError shows the repr of its argument; the probes' custom class is
   raised with the non-string argument {"code": 7, "msg": payload} *)
Definition py_str (c : ecls) (payload : string) : string :=
  match c with
  | KeyError => "'" ++ payload ++ "'"
  | ProbeError => "{'code': 7, 'msg': '" ++ payload ++ "'}"
  | _ => payload
  end.

Definition raise_of (c : ecls) (payload : string) : exn :=
  {| cls := c; msg := py_str c payload; notes := [] |}.

(* BaseException.add_note: appends; class and message untouched *)
Definition add_note (e : exn) (n : string) : exn :=
  {| cls := cls e; msg := msg e; notes := (notes e ++ [n])%list |}.
Definition add_notes (e : exn) (ns : list string) : exn :=
  {| cls := cls e; msg := msg e; notes := (notes e ++ ns)%list |}.

(* PEP 479: a StopIteration that escapes from the body of a generator is replaced by
   RuntimeError("generator raised StopIteration") (the original becomes its __cause__).  The islands of a
   calibration are created while a tqdm iterator - a generator - is being consumed. *)
Definition pep479 (e : exn) : exn :=
  if is_stop_iteration (cls e)
  then {| cls := RuntimeError; msg := "generator raised StopIteration"; notes := [] |}
  else e.

(* `except Exception as exc: exc.add_note(..)...; raise` - the three note-adding handlers of pyxel all
   have this form: an exception that is not an Exception subclass is not caught, hence not annotated *)
Definition annotate (e : exn) (ns : list string) : exn :=
  if is_exception (cls e) then add_notes e ns else e.

(* ------------------------------------------------------------------------------------------ *)
(* pipelines, runs, call log *)

Record model := { m_name : string; m_func : string; m_enabled : bool; m_key : nat }.
Record group := { g_name : string; g_models : list model }.
(* one observation run: its identity and its parameters as (key, repr(value)) *)
Record run := { r_id : nat; r_params : list (string * string) }.

Record event := { ev_run : nat; ev_step : nat; ev_group : string; ev_model : string;
                  ev_func : string; ev_key : nat }.

Definition mk_ev (r s : nat) (g : string) (m : model) : event :=
  {| ev_run := r; ev_step := s; ev_group := g; ev_model := m_name m; ev_func := m_func m;
     ev_key := m_key m |}.

(* run id -> step -> model key -> Some (class, payload) if that call raises *)
Definition behaviour := nat -> nat -> nat -> option (ecls * string).

(* model_group.py: f"This error is raised in group '{self._name}' at model '{model.name}' ({model._func_name})." *)
Definition note_text (g m f : string) : string :=
  "This error is raised in group '" ++ g ++ "' at model '" ++ m ++ "' (" ++ f ++ ").".
Definition note_of_event (ev : event) : string := note_text (ev_group ev) (ev_model ev) (ev_func ev).

(* observation.py *)
Definition obs_header : string :=
  "This error occurred in 'Observation' mode with the following parameters:".
Definition param_note (kv : string * string) : string := "  - '" ++ fst kv ++ "': " ++ snd kv.

(* fitting_datatree.py (the object repr and the decision vector are not modelled) *)
Definition fit_note : string := "Exception raised with ModelFitting".

Section Drivers.
  Variable beh : behaviour.

  Definition call_model (r s : nat) (m : model) : res unit :=
    match beh r s (m_key m) with
    | Some (c, p) => Raise (raise_of c p)
    | None => Ok tt
    end.

  (* ModelGroup.run: `for model in self` yields the enabled models only *)
  Fixpoint group_run (r s : nat) (g : string) (ms : list model) : res unit * list event :=
    match ms with
    | [] => (Ok tt, [])
    | m :: ms' =>
        if m_enabled m then
          match call_model r s m with
          | Raise e => (Raise (annotate e [note_text g (m_name m) (m_func m)]), [mk_ev r s g m])
          | Ok _ => let '(o, tr) := group_run r s g ms' in (o, mk_ev r s g m :: tr)
          end
        else group_run r s g ms'
    end.

  (* Processor.run_pipeline: no handler; the first failing group ends the loop *)
  Fixpoint processor_run (r s : nat) (gs : list group) : res unit * list event :=
    match gs with
    | [] => (Ok tt, [])
    | g :: gs' =>
        match group_run r s (g_name g) (g_models g) with
        | (Raise e, tr) => (Raise e, tr)
        | (Ok _, tr) => let '(o, tr') := processor_run r s gs' in (o, (tr ++ tr')%list)
        end
    end.

  (* exposure.run_pipeline: the result (here: the list of recorded steps) exists only if every step ran *)
  Fixpoint exposure_steps (r : nat) (pl : list group) (steps : list nat) : res (list nat) * list event :=
    match steps with
    | [] => (Ok [], [])
    | s :: ss =>
        match processor_run r s pl with
        | (Raise e, tr) => (Raise e, tr)
        | (Ok _, tr) => let '(o, tr') := exposure_steps r pl ss in (map_res (cons s) o, (tr ++ tr')%list)
        end
    end.

  Definition exposure (r : nat) (pl : list group) (nsteps : nat) := exposure_steps r pl (seq 0 nsteps).

  (* Observation, sequential: list comprehension over the runs, each wrapped by _run_single_pipeline *)
  Fixpoint obs_seq (pl : list group) (nsteps : nat) (runs : list run)
    : res (list (nat * list nat)) * list event :=
    match runs with
    | [] => (Ok [], [])
    | r :: rs =>
        match exposure (r_id r) pl nsteps with
        | (Raise e, tr) => (Raise (annotate e (obs_header :: map param_note (r_params r))), tr)
        | (Ok d, tr) =>
            let '(o, tr') := obs_seq pl nsteps rs in (map_res (cons (r_id r, d)) o, (tr ++ tr')%list)
        end
    end.

  (* the deprecated pyxel.observation_mode, sequential (observation/deprecated.py _run_observation_deprecated):
     one _apply_exposure_pipeline_* per run in a loop; no handler, hence no parameter notes.
     (Unrepaired code: `list(map(f, runs))`, where a StopIteration raised by f ends the map silently;
     repaired by fix-c09 to a list comprehension, which is what is modelled here.) *)
  Fixpoint obs_seq_old (pl : list group) (nsteps : nat) (runs : list run)
    : res (list (nat * list nat)) * list event :=
    match runs with
    | [] => (Ok [], [])
    | r :: rs =>
        match exposure (r_id r) pl nsteps with
        | (Raise e, tr) => (Raise e, tr)
        | (Ok d, tr) =>
            let '(o, tr') := obs_seq_old pl nsteps rs in (map_res (cons (r_id r, d)) o, (tr ++ tr')%list)
        end
    end.

  (* Observation with dask: the first run is executed eagerly to learn the output layout, then every
     run (the first one again) becomes one lazy cell; `.load()` hands the cells to `compute`. *)
  Inductive par_outcome :=
  | ParBuildRaise (e : exn)
  | ParLoaded (o : res (list (list nat))).

  Definition cell (pl : list group) (nsteps : nat) (r : run) : res (list nat) :=
    fst (exposure (r_id r) pl nsteps).

  Definition obs_par (compute : list (res (list nat)) -> res (list (list nat)))
             (pl : list group) (nsteps : nat) (runs : list run) : par_outcome :=
    match runs with
    | [] => ParLoaded (Ok [])
    | r0 :: _ =>
        match cell pl nsteps r0 with
        | Raise e => ParBuildRaise e
        | Ok _ => ParLoaded (compute (map (cell pl nsteps) runs))
        end
    end.

  (* Calibration: fitness of one candidate (identified by its evaluation number) *)
  Definition fitness (pl : list group) (nsteps : nat) (cand : nat) : res (list nat) :=
    match exposure cand pl nsteps with
    | (Raise e, _) => Raise (annotate e [fit_note])
    | (Ok d, _) => Ok d
    end.

  (* evolutions run inside the optimiser's threads: wait_check re-raises through `transport` *)
  Fixpoint evolve (compute : list (res (list nat)) -> res (list (list nat))) (transport : exn -> exn)
           (pl : list group) (nsteps : nat) (gens : list (list nat)) : res unit :=
    match gens with
    | [] => Ok tt
    | g :: gs =>
        match compute (map (fitness pl nsteps) g) with
        | Raise e => Raise (transport e)
        | Ok _ => evolve compute transport pl nsteps gs
        end
    end.

  Definition calib compute transport (pl : list group) (nsteps : nat)
             (init : list nat) (gens : list (list nat)) : res unit :=
    match compute (map (fitness pl nsteps) init) with
    | Raise e => Raise (pep479 e)              (* initial population: built in the caller's thread pool, inside `for island in tqdm(..)` *)
    | Ok _ => evolve compute transport pl nsteps gens
    end.

  (* ---------------------------------------------------------------------------------------- *)
  (* flat specification: the schedule of calls, and the first one that faults *)

  Definition sched_group (r s : nat) (g : string) (ms : list model) : list event :=
    map (mk_ev r s g) (filter m_enabled ms).
  Definition sched_proc (r s : nat) (gs : list group) : list event :=
    flat_map (fun g => sched_group r s (g_name g) (g_models g)) gs.
  Definition sched_steps (r : nat) (pl : list group) (steps : list nat) : list event :=
    flat_map (fun s => sched_proc r s pl) steps.
  Definition sched_expo (r : nat) (pl : list group) (nsteps : nat) : list event :=
    sched_steps r pl (seq 0 nsteps).
  Definition sched_obs (pl : list group) (nsteps : nat) (runs : list run) : list event :=
    flat_map (fun r => sched_expo (r_id r) pl nsteps) runs.

  Definition ev_fault (ev : event) : option (ecls * string) := beh (ev_run ev) (ev_step ev) (ev_key ev).

  (* executor over a flat schedule *)
  Fixpoint flat_exec (evs : list event) : res unit * list event :=
    match evs with
    | [] => (Ok tt, [])
    | ev :: rest =>
        match ev_fault ev with
        | Some (c, p) => (Raise (annotate (raise_of c p) [note_of_event ev]), [ev])
        | None => let '(o, tr) := flat_exec rest in (o, ev :: tr)
        end
    end.

  (* (calls strictly before the fault, the faulting call, class, payload) *)
  Fixpoint first_fault (evs : list event) : option (list event * event * ecls * string) :=
    match evs with
    | [] => None
    | ev :: rest =>
        match ev_fault ev with
        | Some (c, p) => Some ([], ev, c, p)
        | None => match first_fault rest with
                  | Some (pre, fe, c, p) => Some (ev :: pre, fe, c, p)
                  | None => None
                  end
        end
    end.
End Drivers.

(* ------------------------------------------------------------------------------------------ *)
(* Exposure with debug=True: after every model call ModelGroup.run captures the detector
   (detector.to_xarray() and the bookkeeping of the intermediate tree).  The capture is OUTSIDE the
   try statement: if it fails - a model left a bucket in a state that cannot be read - the exception
   propagates without a group/model note, and nothing runs after it.  `cap run step key = Some (class,
   payload)` iff the capture after that call raises. *)
Section Debug.
  Variable beh cap : behaviour.

  Definition call_dbg (r s : nat) (g : string) (m : model) : res unit :=
    match call_model beh r s m with
    | Raise e => Raise (annotate e [note_text g (m_name m) (m_func m)])
    | Ok _ => match cap r s (m_key m) with
              | Some (c, p) => Raise (raise_of c p)
              | None => Ok tt
              end
    end.

  Fixpoint group_run_dbg (r s : nat) (g : string) (ms : list model) : res unit * list event :=
    match ms with
    | [] => (Ok tt, [])
    | m :: ms' =>
        if m_enabled m then
          match call_dbg r s g m with
          | Raise e => (Raise e, [mk_ev r s g m])
          | Ok _ => let '(o, tr) := group_run_dbg r s g ms' in (o, mk_ev r s g m :: tr)
          end
        else group_run_dbg r s g ms'
    end.

  Fixpoint processor_run_dbg (r s : nat) (gs : list group) : res unit * list event :=
    match gs with
    | [] => (Ok tt, [])
    | g :: gs' =>
        match group_run_dbg r s (g_name g) (g_models g) with
        | (Raise e, tr) => (Raise e, tr)
        | (Ok _, tr) => let '(o, tr') := processor_run_dbg r s gs' in (o, (tr ++ tr')%list)
        end
    end.

  Fixpoint exposure_steps_dbg (r : nat) (pl : list group) (steps : list nat) : res (list nat) * list event :=
    match steps with
    | [] => (Ok [], [])
    | s :: ss =>
        match processor_run_dbg r s pl with
        | (Raise e, tr) => (Raise e, tr)
        | (Ok _, tr) => let '(o, tr') := exposure_steps_dbg r pl ss in (map_res (cons s) o, (tr ++ tr')%list)
        end
    end.

  Definition exposure_dbg (r : nat) (pl : list group) (nsteps : nat) := exposure_steps_dbg r pl (seq 0 nsteps).

  (* flat specification: what stops the run at a call - the model's exception (annotated) or, if the
     model returned, the failure of the capture (as raised) *)
  Definition ev_stop (ev : event) : option exn :=
    match ev_fault beh ev with
    | Some (c, p) => Some (annotate (raise_of c p) [note_of_event ev])
    | None => match cap (ev_run ev) (ev_step ev) (ev_key ev) with
              | Some (c, p) => Some (raise_of c p)
              | None => None
              end
    end.

  Fixpoint flat_exec_dbg (evs : list event) : res unit * list event :=
    match evs with
    | [] => (Ok tt, [])
    | ev :: rest =>
        match ev_stop ev with
        | Some e => (Raise e, [ev])
        | None => let '(o, tr) := flat_exec_dbg rest in (o, ev :: tr)
        end
    end.

  Fixpoint first_stop (evs : list event) : option (list event * event * exn) :=
    match evs with
    | [] => None
    | ev :: rest =>
        match ev_stop ev with
        | Some e => Some ([], ev, e)
        | None => match first_stop rest with
                  | Some (pre, fe, e) => Some (ev :: pre, fe, e)
                  | None => None
                  end
        end
    end.
End Debug.

Definition no_capture_failure : behaviour := fun _ _ _ => None.

(* a concrete `compute`: force the cells left to right, stop at the first failure *)
Fixpoint compute_seq (ts : list (res (list nat))) : res (list (list nat)) :=
  match ts with
  | [] => Ok []
  | Raise e :: _ => Raise e
  | Ok d :: ts' => map_res (cons d) (compute_seq ts')
  end.

(* dask.bag, as the deprecated pyxel.observation_mode uses it with dask enabled:
   db.from_sequence(runs).map(f).compute() evaluates each partition (here: each run) as list(map(f, partition));
   a StopIteration raised by f ends that map silently, so the run is DROPPED without an error; any other
   exception of a cell surfaces *)
Definition bag_drops (t : res (list nat)) : bool :=
  match t with Raise e => is_stop_iteration (cls e) | Ok _ => false end.
Definition compute_bag (ts : list (res (list nat))) : res (list (list nat)) :=
  compute_seq (filter (fun t => negb (bag_drops t)) ts).

(* ------------------------------------------------------------------------------------------ *)
(* strings *)

Fixpoint prefixb (s t : string) : bool :=
  match s with
  | EmptyString => true
  | String a s' => match t with
                   | EmptyString => false
                   | String b t' => Ascii.eqb a b && prefixb s' t'
                   end
  end.

Fixpoint substrb (s t : string) : bool :=
  prefixb s t || match t with EmptyString => false | String _ t' => substrb s t' end.

(* a concrete `transport` with the shape of pygmo's message: text + traceback ending in
   "<Class>: <message>" followed by the notes, one per line *)
Definition nl : string := String (ascii_of_nat 10) EmptyString.
Definition transport_model (e : exn) : exn :=
  {| cls := RuntimeError;
     msg := "The asynchronous evolution of a pythonic island raised an error:" ++ nl
            ++ cls_name (cls e) ++ ": " ++ msg e ++ nl ++ concat nl (notes e);
     notes := [] |}.

(* ------------------------------------------------------------------------------------------ *)
(* Round 2.  The constructs between a model's exception and the caller of an entry point *)

Open Scope list_scope.

(* the exception of the faulting call as it leaves ModelGroup.run *)
Definition exn_of_fault (ev : event) (c : ecls) (p : string) : exn :=
  annotate (raise_of c p) [note_of_event ev].

(* a result or an exception in flight together with the exceptions it replaced (its __context__
   chain, most recent first) *)
Inductive xres (A : Type) : Type := XOk (a : A) | XRaise (e : exn) (ctx : list exn).
Arguments XOk {A} a.
Arguments XRaise {A} e ctx.

Definition lift {A} (x : res A) : xres A :=
  match x with Ok a => XOk a | Raise e => XRaise e [] end.
Definition xmap {A B} (f : A -> B) (x : xres A) : xres B :=
  match x with XOk a => XOk (f a) | XRaise e ctx => XRaise e ctx end.

(* what an `except` clause names: nothing / BaseException | Exception | narrower classes *)
Inductive scope := ScAll | ScException | ScSome.

(* the shapes the translator reads from the source (translator/c09.py):
   SExcept sc adds_note reraises   try: <inner> except <sc> as exc: [exc.add_note(..)]; raise   (reraises = the handler
                                   ends in a bare `raise` and cannot be left by return/continue/break/raise X)
   SFinally leaves                 try: <inner> finally: <clean-up> ; leaves = the clean-up contains return/break/continue
   SWith suppresses                with cm: <inner> ; suppresses = cm.__exit__ may return True (contextlib.suppress, ...) *)
Inductive shape :=
| SExcept (sc : scope) (adds_note reraises : bool)
| SFinally (leaves : bool)
| SWith (suppresses : bool).

(* what happens at run time at construct number i: the clean-up code of a `finally` block / the
   __exit__ of a context manager may itself raise; the text of an added note; which classes a
   narrow `except` clause names *)
Record env := { env_cleanup : nat -> option exn; env_note : nat -> string; env_some : nat -> ecls -> bool }.

Definition catches (ev : env) (i : nat) (sc : scope) (c : ecls) : bool :=
  match sc with ScAll => true | ScException => is_exception c | ScSome => env_some ev i c end.

(* Python's semantics of the three constructs around a computation whose outcome is x.  `dflt` is
   what the enclosing function goes on with / returns once the exception is gone. *)
Definition through {A} (dflt : A) (ev : env) (i : nat) (s : shape) (x : xres A) : xres A :=
  match s with
  | SExcept sc an rr =>
      match x with
      | XOk _ => x
      | XRaise e ctx =>
          if catches ev i sc (cls e) then
            if rr then XRaise (if an then add_note e (env_note ev i) else e) ctx
            else XOk dflt                      (* handled: execution continues after the try statement *)
          else x
      end
  | SFinally leaves =>
      match env_cleanup ev i with
      | Some e' =>                             (* the clean-up raises: it replaces what was in flight, which becomes its context *)
          match x with XOk _ => XRaise e' [] | XRaise e ctx => XRaise e' (e :: ctx) end
      | None => if leaves then XOk dflt        (* return/break/continue in `finally` DISCARDS the exception in flight *)
                else x
      end
  | SWith suppresses =>
      match x with
      | XOk _ => match env_cleanup ev i with Some e' => XRaise e' [] | None => x end
      | XRaise e ctx =>
          match env_cleanup ev i with
          | Some e' => XRaise e' (e :: ctx)
          | None => if suppresses then XOk dflt else x
          end
      end
  end.

(* constructs listed innermost first *)
Fixpoint through_all {A} (dflt : A) (ev : env) (i : nat) (ss : list shape) (x : xres A) : xres A :=
  match ss with
  | [] => x
  | s :: ss' => through_all dflt ev (S i) ss' (through dflt ev i s x)
  end.

Definition shape_propagates (s : shape) : bool :=
  match s with SExcept _ _ rr => rr | SFinally leaves => negb leaves | SWith su => negb su end.

(* e is e0, possibly with more notes *)
Definition same_exc (e0 e : exn) : Prop :=
  cls e = cls e0 /\ msg e = msg e0 /\ exists extra, notes e = (notes e0 ++ extra)%list.
(* the caller still gets e0: as the exception itself, or in the chain of the exception that replaced it *)
Definition kept {A} (e0 : exn) (x : xres A) : Prop :=
  match x with
  | XOk _ => False
  | XRaise e ctx => same_exc e0 e \/ exists e1, In e1 ctx /\ same_exc e0 e1
  end.

Definition env_quiet : env :=
  {| env_cleanup := fun _ => None; env_note := fun _ => ""; env_some := fun _ _ => false |}.

(* ---- entry points ---- *)

Inductive mode := MExposure | MObsSeq | MObsDask | MCalib.
Inductive entry := ERunMode | ERunFile | ECli | EMethod | EDeprecated.

(* the functions between the caller and the model function, outermost first; names as written by the
   translator ("<Class>.<method>" or "<module>.<function>") *)
Definition path_core : list string := ["Processor.run_pipeline"; "ModelGroup.run"; "ModelFunction.__call__"].
Definition path_pipeline : list string := "exposure.run_pipeline" :: path_core.
Definition path_pipeline_old : list string := "exposure._run_exposure_pipeline_deprecated" :: path_core.

(* context managers written in pyxel itself (generator functions under @contextmanager) that a function
   of a path enters around the next call: their own try/except/finally around the `yield` count too *)
Definition cms_of (f : string) : list string :=
  if String.eqb f "exposure.run_pipeline" || String.eqb f "exposure._run_exposure_pipeline_deprecated"
  then ["randomize.set_random_seed"] else [].
Definition expand (p : list string) : list string := flat_map (fun f => f :: cms_of f) p.

Definition path_fitness : list string :=
  ["ProblemSerializable.fitness"; "ModelFittingDataTree.fitness"] ++ path_pipeline.
Definition path_fitness_old : list string :=
  ["ProblemSerializable.fitness"; "ModelFitting.fitness"] ++ path_pipeline_old.

Definition mode_paths (m : mode) : list (list string) :=
  match m with
  | MExposure => [ "Exposure.run_exposure" :: path_pipeline ]
  | MObsSeq => [ ["Observation.run_pipelines"; "Observation._run_single_pipeline"] ++ path_pipeline ]
  | MObsDask =>
      [ ["Observation.run_pipelines"; "observation_dask.run_pipelines_with_dask";
         "observation_dask._run_pipelines_array_to_datatree"] ++ path_pipeline;
        ["Observation.run_pipelines"; "observation_dask.run_pipelines_with_dask";
         "observation_dask._run_pipelines_tuple_to_array"; "observation_dask._run_pipelines_array_to_datatree"]
          ++ path_pipeline ]
  | MCalib =>
      [ ["Calibration.run_calibration"; "ArchipelagoDataTree.__init__"; "ArchipelagoDataTree._build"; "DaskBFE.__call__"]
          ++ path_fitness;
        ["Calibration.run_calibration"; "ArchipelagoDataTree.run_evolve"; "DaskIsland.run_evolve"; "AlgoSerializable.evolve"]
          ++ path_fitness;
        ["Calibration.run_calibration"; "ArchipelagoDataTree.run_evolve";
         "ModelFittingDataTree.apply_parameters_to_processors"; "ModelFittingDataTree._apply_parameters"] ++ path_pipeline ]
  end.

Definition mode_paths_old (m : mode) : list (list string) :=
  match m with
  | MExposure => [ ["run.exposure_mode"; "Exposure._run_exposure_deprecated"] ++ path_pipeline_old ]
  | MObsSeq | MObsDask =>
      map (fun f => ["run.observation_mode"; "deprecated._run_observation_deprecated"; f] ++ path_pipeline_old)
          ["deprecated._apply_exposure_pipeline_product"; "deprecated._apply_exposure_pipeline_sequential";
           "deprecated._apply_exposure_pipeline_custom"]
  | MCalib =>
      [ ["run.calibration_mode"; "Calibration._run_calibration_deprecated"; "MyArchipelago.__init__"; "MyArchipelago._build";
         "DaskBFE.__call__"] ++ path_fitness_old;
        ["run.calibration_mode"; "Calibration._run_calibration_deprecated"; "MyArchipelago.run_evolve"; "DaskIsland.run_evolve";
         "AlgoSerializable.evolve"] ++ path_fitness_old ]
  end.

Definition run_mode_wrap (m : mode) : list string :=
  match m with
  | MExposure => ["run.run_mode"; "run._run_exposure_mode"]
  | MCalib => ["run.run_mode"; "run._run_calibration_mode"]
  | _ => ["run.run_mode"]
  end.

Definition entry_paths (ep : entry) (m : mode) : list (list string) :=
  match ep with
  | EMethod => mode_paths m
  | ERunMode => map (app (run_mode_wrap m)) (mode_paths m)
  | ERunFile => map (fun p => "run.run" :: run_mode_wrap m ++ p) (mode_paths m)
  | ECli => map (fun p => "run.run_config" :: "run.run" :: run_mode_wrap m ++ p) (mode_paths m)
  | EDeprecated => mode_paths_old m
  end.

Definition all_entries : list entry := [ERunMode; ERunFile; ECli; EMethod; EDeprecated].
Definition all_modes : list mode := [MExposure; MObsSeq; MObsDask; MCalib].
Definition all_entry_paths : list (list string) :=
  flat_map (fun ep => flat_map (entry_paths ep) all_modes) all_entries.

(* call edges that go through a library (pygmo calls the problem's fitness / the island's run_evolve /
   the batch evaluator; dask calls the serialised method): not visible as a reference in the caller *)
Definition lib_edges : list (string * string) :=
  [ ("ArchipelagoDataTree._build", "DaskBFE.__call__"); ("MyArchipelago._build", "DaskBFE.__call__");
    ("DaskBFE.__call__", "ProblemSerializable.fitness");
    ("ProblemSerializable.fitness", "ModelFittingDataTree.fitness"); ("ProblemSerializable.fitness", "ModelFitting.fitness");
    ("ArchipelagoDataTree.run_evolve", "DaskIsland.run_evolve"); ("MyArchipelago.run_evolve", "DaskIsland.run_evolve");
    ("DaskIsland.run_evolve", "AlgoSerializable.evolve"); ("AlgoSerializable.evolve", "ProblemSerializable.fitness");
    ("ModelGroup.run", "ModelFunction.__call__") ].

Fixpoint lookup {B} (t : list (string * B)) (f : string) : option B :=
  match t with
  | [] => None
  | (g, b) :: t' => if String.eqb f g then Some b else lookup t' f
  end.

Definition constructs_table := list (string * list shape).
Definition refs_table := list (string * list string).

Definition fn_ok (cons : constructs_table) (f : string) : bool :=
  match lookup cons f with Some ss => forallb shape_propagates ss | None => false end.
Definition is_lib (f g : string) : bool :=
  existsb (fun fg => String.eqb f (fst fg) && String.eqb g (snd fg)) lib_edges.
Definition references (refs : refs_table) (f g : string) : bool :=
  match lookup refs f with Some gs => existsb (String.eqb g) gs | None => false end.
Fixpoint edges_ok (refs : refs_table) (p : list string) : bool :=
  match p with
  | f :: ((g :: _) as rest) => (is_lib f g || references refs f g) && edges_ok refs rest
  | _ => true
  end.
Definition path_ok (cons : constructs_table) (refs : refs_table) (p : list string) : bool :=
  forallb (fn_ok cons) (expand p) && edges_ok refs p
  && forallb (fun f => forallb (references refs f) (cms_of f)) p.
(* every function on every path from every entry point exists in the source, refers to the next one,
   and contains no construct that can drop an exception *)
Definition source_ok (cons : constructs_table) (refs : refs_table) : bool :=
  forallb (path_ok cons refs) all_entry_paths.

(* all the constructs of the functions of a path, innermost function first *)
Definition stack_of (cons : constructs_table) (p : list string) : list shape :=
  flat_map (fun f => match lookup cons f with Some ss => ss | None => [] end) (rev (expand p)).

(* the note-adding handler of a function catches every Exception and re-raises *)
Definition note_handler_ok (cons : constructs_table) (f : string) : bool :=
  match lookup cons f with
  | Some ss => existsb (fun s => match s with
                                 | SExcept ScAll true true | SExcept ScException true true => true
                                 | _ => false end) ss
  | None => false
  end.

(* ---- pyxel.run(file) and the `pyxel run` command, as coded ----
   run():      try: tree = run_mode(..); if not outputs: return None; copy config;
                    if "output" not in tree: return None; write the csv (except Exception: log; raise); return df
               finally: logging.shutdown(); if outputs and folder: outputs.save_log_file(folder)
   run_config: df = run(..); if df is None: raise RuntimeError("No output filename(s) generated. ...")  *)
Definition no_output_msg : string := "No output filename(s) generated.".

(* the constructs of run.run as they are in the unchanged tree; the regenerated table is compared
   with this in Properties/C09.v *)
Definition run_file_shapes : list shape := [SExcept ScException false true; SFinally false].

Definition run_file {A} (ev : env) (shapes : list shape) (files : bool) (x : res A) : xres (option unit) :=
  through_all None ev 0 shapes (xmap (fun _ => if files then Some tt else None) (lift x)).

Definition cli_run {A} (ev : env) (shapes : list shape) (files : bool) (x : res A) : xres unit :=
  match run_file ev shapes files x with
  | XOk None => XRaise (raise_of RuntimeError no_output_msg) []
  | XOk (Some _) => XOk tt
  | XRaise e ctx => XRaise e ctx
  end.

(* the clean-up step of run()'s finally block fails (the log file cannot be moved) *)
Definition cleanup_msg : string := "c09-cleanup-failed".
Definition env_cleanup_fails : env :=
  {| env_cleanup := fun _ => Some (raise_of OSError cleanup_msg); env_note := fun _ => "";
     env_some := fun _ _ => false |}.

(* ------------------------------------------------------------------------------------------ *)
(* case files: inputs, the implementation's observation, comparison and specification *)

Definition fault := (nat * nat * nat * ecls * string)%type.   (* run id, step, model key, class, payload *)

Definition beh_of (fs : list fault) : behaviour :=
  fun r s k =>
    match find (fun f => match f with (fr, fs', fk, _, _) => Nat.eqb fr r && Nat.eqb fs' s && Nat.eqb fk k end) fs with
    | Some (_, _, _, c, p) => Some (c, p)
    | None => None
    end.

Inductive outcome :=
| Returned
| Raised (ocls : string) (omro : list string) (omsg : string) (onotes : list string)
         (ochain : list (string * string))          (* __cause__/__context__ chain: (class, message) *)
| NotRun.

Record c09_case := {
  c_mode : mode;
  c_entry : entry;
  c_outputs : bool;              (* the running mode has an `outputs` section / object *)
  c_cleanup_fails : bool;        (* pyxel.outputs.save_log_file replaced by a function that raises OSError *)
  c_chained : bool;              (* the model raises while it handles LookupError("inner-" ++ payload) *)
  c_debug : bool;                (* exposure with debug=True *)
  c_corrupt : list (nat * nat * nat);   (* (run, step, model key): the model returns but leaves a bucket that the
                                           debug capture cannot read (used with c_debug only) *)
  c_pl : list group;
  c_nsteps : nat;
  c_runs : list run;             (* exposure: one run without parameters; calibration: unused *)
  c_faults : list fault;
  c_pop : nat; c_evals : nat;    (* calibration: initial evaluations (all islands), evaluations made by all evolutions *)
  o_call : outcome;              (* what the entry point did *)
  o_load : outcome;              (* what .load() on the returned tree did (dask / calibration) *)
  o_trace : list (nat * nat * string)   (* the probes' call log: run id, step, model name *)
}.

Definition proj_ev (ev : event) : nat * nat * string := (ev_run ev, ev_step ev, ev_model ev).

Definition t3_eqb (a b : nat * nat * string) : bool :=
  match a, b with (a1, a2, a3), (b1, b2, b3) => Nat.eqb a1 b1 && Nat.eqb a2 b2 && String.eqb a3 b3 end.

Fixpoint list_eqb {A} (eqb : A -> A -> bool) (l1 l2 : list A) : bool :=
  match l1, l2 with
  | [], [] => true
  | a :: l1', b :: l2' => eqb a b && list_eqb eqb l1' l2'
  | _, _ => false
  end.

Definition is_raised (o : outcome) : bool := match o with Raised _ _ _ _ _ => true | _ => false end.
Definition is_returned (o : outcome) : bool := match o with Returned => true | _ => false end.
Definition chain_of (o : outcome) : list (string * string) :=
  match o with Raised _ _ _ _ ch => ch | _ => [] end.

(* --- the specification (right-hand sides of the theorems), on the implementation's observation --- *)

(* class: the observed class is the injected one (or a subclass: the injected class is in its MRO) *)
Definition spec_class (c : ecls) (o : outcome) : bool :=
  match o with
  | Raised oc mro _ _ _ => String.eqb oc (cls_name c) || existsb (String.eqb (cls_name c)) mro
  | _ => false
  end.
(* message: the original str(exc) reaches the caller *)
Definition spec_message (c : ecls) (p : string) (o : outcome) : bool :=
  match o with Raised _ _ om _ _ => substrb (py_str c p) om | _ => false end.
(* identity: one note names the group and the model of the faulting call; a note that merely lists
   a swept parameter key (which may itself contain a group and a model name) does not count *)
Definition spec_identity (keys : list string) (ev : event) (o : outcome) : bool :=
  match o with
  | Raised _ _ _ ns _ =>
      existsb (fun n => substrb (ev_group ev) n && substrb (ev_model ev) n
                        && negb (existsb (fun k => substrb k n) keys)) ns
  | _ => false
  end.
(* parameters: every key with the value of the faulting run in one note *)
Definition spec_params (r : run) (o : outcome) : bool :=
  match o with
  | Raised _ _ _ ns _ =>
      forallb (fun kv => existsb (fun n => substrb (fst kv) n
                                           && substrb (String.append ": " (snd kv)) n) ns) (r_params r)
  | _ => false
  end.
(* optimiser threads: message, group and model must be somewhere in the message or the notes *)
Definition spec_text (s : string) (o : outcome) : bool :=
  match o with
  | Raised _ _ om ns _ => substrb s om || existsb (substrb s) ns
  | _ => false
  end.
(* the chain of the surfaced exception still holds the exception of class c with str(exc) *)
Definition spec_in_chain (cn : string) (m : string) (o : outcome) : bool :=
  existsb (fun cm => String.eqb (fst cm) cn && substrb m (snd cm)) (chain_of o).

Definition run_by_id (runs : list run) (id : nat) : run :=
  match find (fun r => Nat.eqb (r_id r) id) runs with Some r => r | None => {| r_id := id; r_params := [] |} end.

Definition all_keys (runs : list run) : list string := flat_map (fun r => map fst (r_params r)) runs.

(* violation codes: 0 none | 1 no exception (a result came back) | 2 class | 3 message | 4 group/model
   identity | 5 run parameters | 6 call log is not the prefix up to the fault | 7 dask: not surfaced
   at the latest at load | 8 calibration: not surfaced | 9 clean-up failure: the original exception is
   neither what surfaces nor in its chain | 10 the exception the model was handling left the chain
   | 11 debug mode: the capture after a model call failed and the run did not raise *)
(* identity is due for Exception subclasses only: KeyboardInterrupt & co. are not to be touched *)
Definition check_exn (keys : list string) (ev : event) (c : ecls) (p : string) (o : outcome) : nat :=
  if negb (is_raised o) then 1
  else if negb (spec_class c o) then 2
  else if negb (spec_message c p o) then 3
  else if is_exception c && negb (spec_identity keys ev o) then 4
  else 0.

Definition cap_of (c : c09_case) : behaviour :=
  fun r s k =>
    if c_debug c && existsb (fun x => match x with (r', s', k') => Nat.eqb r' r && Nat.eqb s' s && Nat.eqb k' k end)
                            (c_corrupt c)
    then Some (ValueError, "capture") else None.

(* sequential: exposure and observation, through any entry point *)
Definition violation_seq (c : c09_case) : nat :=
  let beh := beh_of (c_faults c) in
  let keys := all_keys (c_runs c) in
  let sched := sched_obs (c_pl c) (c_nsteps c) (c_runs c) in
  match first_stop beh (cap_of c) sched with
  | None => 0
  | Some (pre, fe, _) =>
      let o := o_call c in
      match ev_fault beh fe with
      | None =>
          (* the debug capture after this call fails: the run must raise (whatever the capture raised) and stop *)
          if negb (is_raised o) then 11
          else if negb (list_eqb t3_eqb (o_trace c) (map proj_ev (pre ++ [fe])%list)) then 6
          else 0
      | Some (cl, p) =>
      let k := check_exn keys fe cl p o in
      if c_cleanup_fails c && negb (Nat.eqb k 0) then
        (* the clean-up of pyxel.run's finally block raised on top: the original must be in the chain *)
        if negb (is_raised o) then 1
        else if spec_in_chain (cls_name cl) (py_str cl p) o then
          (if negb (list_eqb t3_eqb (o_trace c) (map proj_ev (pre ++ [fe])%list)) then 6 else 0)
        else 9
      else if negb (Nat.eqb k 0) then k
      else if is_exception cl && negb (spec_params (run_by_id (c_runs c) (ev_run fe)) o) then 5
      else if negb (list_eqb t3_eqb (o_trace c) (map proj_ev (pre ++ [fe])%list)) then 6
      else if c_chained c && negb (spec_in_chain "LookupError" (String.append "inner-" p) o) then 10
      else 0
      end
  end.

Definition violation_code (c : c09_case) : nat :=
  let beh := beh_of (c_faults c) in
  let keys := all_keys (c_runs c) in
  match c_mode c with
  | MExposure | MObsSeq => violation_seq c
  | MObsDask =>
      (* the surfaced exception must be the first fault of one of the faulting runs *)
      let faulting := flat_map (fun r => match first_fault beh (sched_expo (r_id r) (c_pl c) (c_nsteps c)) with
                                         | Some x => [x] | None => [] end) (c_runs c) in
      match faulting with
      | [] => 0
      | _ =>
          let o := if is_raised (o_call c) then o_call c else o_load c in
          if negb (is_raised o) then 7
          else
            let codes := map (fun x => match x with (_, fe, cl, p) => check_exn keys fe cl p o end) faulting in
            if existsb (Nat.eqb 0) codes then 0 else hd 7 codes
      end
  | MCalib =>
      (* c_runs lists the evaluations 0 .. ; the probes count them *)
      let faulting := flat_map (fun r => match first_fault beh (sched_expo (r_id r) (c_pl c) (c_nsteps c)) with
                                         | Some x => [x] | None => [] end) (c_runs c) in
      match faulting with
      | [] => 0
      | (_, fe, cl, p) :: _ =>
          if Nat.ltb (ev_run fe) (c_pop c) then
            let k := check_exn keys fe cl p (o_call c) in
            (* PEP 479 (see pep479): a StopIteration surfaces as RuntimeError with the original as its cause *)
            if is_stop_iteration cl && is_raised (o_call c) && spec_in_chain (cls_name cl) (py_str cl p) (o_call c)
            then 0 else k
          else if Nat.ltb (ev_run fe) (c_pop c + c_evals c) then
            if negb (is_raised (o_call c)) then 8
            else if negb (spec_text (py_str cl p) (o_call c)) then 3
            else if is_exception cl
                    && negb (spec_text (ev_group fe) (o_call c) && spec_text (ev_model fe) (o_call c)) then 4
            else 0
          else
            (* lazily recomputed champion data: at the latest at load *)
            let o := if is_raised (o_call c) then o_call c else o_load c in
            if negb (is_raised o) then 8 else
            let k := check_exn keys fe cl p o in k
      end
  end.

(* --- model vs. implementation on the property-relevant observables --- *)

Definition exn_agrees (e : exn) (o : outcome) : bool :=
  match o with
  | Raised oc _ om ns _ => String.eqb oc (cls_name (cls e)) && String.eqb om (msg e)
  | _ => false
  end.

(* what the entry point makes of the running mode's outcome x (no fault: `files` says whether
   pyxel.run finds output file names to report) *)
Definition entry_outcome {A} (c : c09_case) (x : res A) : xres unit :=
  let ev := if c_cleanup_fails c && c_outputs c then env_cleanup_fails else env_quiet in
  let files := c_outputs c && match c_mode c with MCalib => false | _ => true end in
  match c_entry c with
  | ERunFile => xmap (fun _ => tt) (run_file ev run_file_shapes files x)
  | ECli => cli_run ev run_file_shapes files x
  | _ => xmap (fun _ => tt) (lift x)
  end.

(* post-processing of pyxel.run that is outside the model (copying the configuration file, the table
   of output file names): its failure on a fault-free sequential observation with outputs is not a
   disagreement about failure propagation *)
Definition post_outside_model (c : c09_case) : bool :=
  match c_entry c, c_mode c with
  | ERunFile, MObsSeq | ECli, MObsSeq => c_outputs c
  | _, _ => false
  end.

Definition xres_agrees (c : c09_case) (x : xres unit) (o : outcome) : bool :=
  match x with
  | XOk _ => is_returned o || (post_outside_model c && is_raised o)
  | XRaise e _ => exn_agrees e o
                  || (String.eqb (msg e) no_output_msg
                      && match o with Raised oc _ om _ _ => String.eqb oc "RuntimeError" && substrb no_output_msg om
                                 | _ => false end)
  end.

Definition last_of {A} (l : list A) : list A := match rev l with [] => [] | a :: _ => [a] end.

Definition case_mismatch (c : c09_case) : bool :=
  let beh := beh_of (c_faults c) in
  match c_mode c with
  | MExposure =>
      let '(o, tr) := exposure_dbg beh (cap_of c) 0 (c_pl c) (c_nsteps c) in
      negb (list_eqb t3_eqb (o_trace c) (map proj_ev tr))
      || match o with
         | Raise _ =>
             if existsb (fun ev => match ev_fault beh ev with None => true | Some _ => false end) (last_of tr)
             then negb (is_raised (o_call c))     (* stopped by the capture: class and text are xarray's, not compared *)
             else negb (xres_agrees c (entry_outcome c o) (o_call c))
         | Ok _ => negb (xres_agrees c (entry_outcome c o) (o_call c))
         end
  | MObsSeq =>
      let '(o, tr) := match c_entry c with
                      | EDeprecated => obs_seq_old beh (c_pl c) (c_nsteps c) (c_runs c)
                      | _ => obs_seq beh (c_pl c) (c_nsteps c) (c_runs c)
                      end in
      negb (list_eqb t3_eqb (o_trace c) (map proj_ev tr))
      || negb (xres_agrees c (entry_outcome c o) (o_call c))
  | MObsDask =>
      match c_entry c with
      | EDeprecated =>
          (* dask.bag: everything is computed inside pyxel.observation_mode *)
          let cells := map (cell beh (c_pl c) (c_nsteps c)) (c_runs c) in
          if existsb bag_drops cells then
            (* a run was dropped silently (known finding): what the merge of the remaining datasets does
               is outside the model; only "the StopIteration itself surfaced" would contradict it *)
            match o_call c with Raised oc _ _ _ _ => String.eqb oc "StopIteration" | _ => false end
          else
            match compute_bag cells with
            | Ok _ => negb (is_returned (o_call c))
            | Raise _ => negb (is_raised (o_call c))
            end
      | _ =>
      (* which run pyxel executes eagerly (the first of ITS ordering of the parameter space) is not
         property-relevant: a modelled failure must show at the call or at load, data otherwise *)
      match obs_par beh compute_seq (c_pl c) (c_nsteps c) (c_runs c) with
      | ParLoaded (Ok _) =>
          match c_entry c with
          | ERunMode | EMethod => negb (is_returned (o_call c) && is_returned (o_load c))
          | _ => negb (xres_agrees c (entry_outcome c (Ok tt)) (o_call c))
          end
      | _ => negb (is_raised (o_call c) || (is_returned (o_call c) && is_raised (o_load c)))
      end
      end
  | MCalib =>
      let init := seq 0 (c_pop c) in
      let gens := [seq (c_pop c) (c_evals c)] in
      (* the evaluations after the last evolution: the champions' data, recomputed lazily (at .load()) by the
         new path, inside the call by the deprecated pyxel.calibration_mode(compute_and_save=True) *)
      let lazy := filter (fun r => Nat.leb (c_pop c + c_evals c) (r_id r)) (c_runs c) in
      match calib beh compute_seq transport_model (c_pl c) (c_nsteps c) init gens with
      | Ok _ =>
          match c_entry c, compute_seq (map (cell beh (c_pl c) (c_nsteps c)) lazy) with
          | EDeprecated, Raise _ => negb (is_raised (o_call c))
          | _, _ => negb (xres_agrees c (entry_outcome c (Ok tt)) (o_call c))
          end
      | Raise _ => negb (is_raised (o_call c))
      end
  end.

Fixpoint indices_where {A} (f : A -> bool) (l : list A) (i : nat) : list nat :=
  match l with
  | [] => []
  | a :: l' => ((if f a then [i] else []) ++ indices_where f l' (S i))%list
  end.

Definition mismatches (cs : list c09_case) : list nat := indices_where case_mismatch cs 0.

(* flattened [index; code; index; code; ...] of the cases whose observation breaks the specification *)
Fixpoint violations_from (cs : list c09_case) (i : nat) : list nat :=
  match cs with
  | [] => []
  | c :: cs' => ((let k := violation_code c in if Nat.eqb k 0 then [] else [i; k]) ++ violations_from cs' (S i))%list
  end.
Definition violations (cs : list c09_case) : list nat := violations_from cs 0.

(* ------------------------------------------------------------------------------------------ *)
(* the round-1 table regenerated from the source (translator/c09.py): the `except` handlers on the path
   of a model's exception: (function, adds a note, ends in a bare `raise`) *)
Definition handler_row := (string * bool * bool)%type.
Definition handlers_reraise (t : list handler_row) : bool :=
  forallb (fun h => match h with (_, _, r) => r end) t.
Definition has_note_handler (t : list handler_row) (f : string) : bool :=
  existsb (fun h => match h with (g, a, r) => String.eqb f g && a && r end) t.
