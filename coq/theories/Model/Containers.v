(* Executable model of the data containers (C13).
     pyxel/data_structure/array.py   ArrayBase: _validate, array setter/getter, update, empty, __iadd__, __add__, __eq__
     pyxel/data_structure/photon.py  Photon: array / array_3d setters and getters, __iadd__, __add__, __eq__, empty
     pyxel/data_structure/pixel.py   Pixel.empty (zeros), Pixel.update
     pyxel/detectors/detector.py     bucket setters (photon: dispatch to the validating Photon setters -- or, before the
                                     repair of C13-F2c, a raw `_array` copy; pixel/signal/image: through `.array`),
                                     Detector.empty(reset);  pyxel/detectors/mkid/mkid.py  MKID.empty (phase *= 0)
   The code is modelled as it is.  What is declarative in the source is a parameter (`tables`): the TYPE_LIST of
   every class, which guards the validating functions contain, what each Detector setter does, which of the two
   known shapes Photon.__iadd__/__add__ (raw store / through the setters) and ArrayBase.__eq__ / Photon.__eq__
   have, and numpy's in-place casting rule (read from the installed numpy).  The check instantiates it with
   Gen_C13.src_tables, regenerated on every run; the shapes of the code before the repairs of C13-F2a/b/c and
   C13-F3a/b/c stay representable, so that a regression yields tables for which `tables_ok` is false.
   No proofs in this file. *)
From Coq Require Import ZArith List Bool Arith.
Import ListNotations.

(* ------------------------------------------------------------------------------------------ values *)

Inductive dtype :=
  DBool | I8 | I16 | I32 | I64 | U8 | U16 | U32 | U64 | F16 | F32 | F64 | C64 | C128 | DObj | DOther.

Definition dtype_idx (d : dtype) : nat :=
  match d with
  | DBool => 0 | I8 => 1 | I16 => 2 | I32 => 3 | I64 => 4 | U8 => 5 | U16 => 6 | U32 => 7 | U64 => 8
  | F16 => 9 | F32 => 10 | F64 => 11 | C64 => 12 | C128 => 13 | DObj => 14 | DOther => 15
  end.

Definition dtype_eqb (a b : dtype) : bool := Nat.eqb (dtype_idx a) (dtype_idx b).

Definition all_dtypes : list dtype :=
  [DBool; I8; I16; I32; I64; U8; U16; U32; U64; F16; F32; F64; C64; C128; DObj; DOther].

Definition dtype_mem (d : dtype) (l : list dtype) : bool := existsb (dtype_eqb d) l.

(* one array element.  Generated values are small integers (exact in every float type, float16
   included), NaN and the two infinities ("huge"); complex values have imaginary part 0. *)
Inductive cell := Fin (z : Z) | NaN | PInf | NInf.

Definition cell_eqb (a b : cell) : bool :=            (* structural *)
  match a, b with
  | Fin x, Fin y => Z.eqb x y | NaN, NaN => true | PInf, PInf => true | NInf, NInf => true
  | _, _ => false
  end.

Definition cell_np_eq (a b : cell) : bool :=          (* numpy `==` : NaN differs from itself *)
  match a, b with NaN, _ | _, NaN => false | _, _ => cell_eqb a b end.

Definition cell_neg (c : cell) : bool :=              (* `value < 0` *)
  match c with Fin z => Z.ltb z 0 | NInf => true | _ => false end.

Definition cell_is_nan (c : cell) : bool := match c with NaN => true | _ => false end.

Definition cell_add (a b : cell) : cell :=
  match a, b with
  | NaN, _ | _, NaN => NaN
  | PInf, NInf | NInf, PInf => NaN
  | PInf, _ | _, PInf => PInf
  | NInf, _ | _, NInf => NInf
  | Fin x, Fin y => Fin (x + y)
  end.

Definition cell_clip0 (c : cell) : cell := if cell_neg c then Fin 0 else c.   (* np.clip(v, 0.0, None) *)
Definition cell_mul0 (c : cell) : cell := match c with Fin _ => Fin 0 | _ => NaN end.   (* v * 0 *)

(* integer types wrap, bool saturates (logical or); floats/complex/object: exact on the generated values *)
Definition wrapZ (d : dtype) (z : Z) : Z :=
  match d with
  | DBool => if Z.eqb z 0 then 0%Z else 1%Z
  | I8 => ((z + 2 ^ 7) mod 2 ^ 8 - 2 ^ 7)%Z
  | I16 => ((z + 2 ^ 15) mod 2 ^ 16 - 2 ^ 15)%Z
  | I32 => ((z + 2 ^ 31) mod 2 ^ 32 - 2 ^ 31)%Z
  | I64 => ((z + 2 ^ 63) mod 2 ^ 64 - 2 ^ 63)%Z
  | U8 => (z mod 2 ^ 8)%Z
  | U16 => (z mod 2 ^ 16)%Z
  | U32 => (z mod 2 ^ 32)%Z
  | U64 => (z mod 2 ^ 64)%Z
  | _ => z
  end.

Definition wrap (d : dtype) (c : cell) : cell := match c with Fin z => Fin (wrapZ d z) | _ => c end.

(* xarray.DataArray information: dimension names (0 = "wavelength", 1 = "y", 2 = "x", other numbers =
   other names) and the coordinate of the "wavelength" dimension, if it has one *)
Record xinfo := { x_dims : list nat; x_wl : option (list Z) }.

(* a numpy.ndarray (a_xr = None) or an xarray.DataArray (a_xr = Some _); data in row-major order *)
Record arr := { a_xr : option xinfo; a_shape : list nat; a_dt : dtype; a_data : list cell }.

Inductive ckind := Photon | Pixel | Signal | Image | Phase.

Definition ckind_eqb (a b : ckind) : bool :=
  match a, b with
  | Photon, Photon | Pixel, Pixel | Signal, Signal | Image, Image | Phase, Phase => true
  | _, _ => false
  end.

Definition is_photon (k : ckind) : bool := ckind_eqb k Photon.

(* a container of a detector with geometry rows x cols; content None = empty (`_array is None`) *)
Record container := { c_kind : ckind; c_rows : nat; c_cols : nat; c_content : option arr }.

Definition with_content (c : container) (x : option arr) : container :=
  {| c_kind := c_kind c; c_rows := c_rows c; c_cols := c_cols c; c_content := x |}.

Definition empty_container (k : ckind) (r c : nat) : container :=
  {| c_kind := k; c_rows := r; c_cols := c; c_content := None |}.

(* ------------------------------------------------------------------------------------------ list helpers *)

Fixpoint list_eqb {A} (eqb : A -> A -> bool) (l1 l2 : list A) : bool :=
  match l1, l2 with
  | [], [] => true
  | a :: t1, b :: t2 => eqb a b && list_eqb eqb t1 t2
  | _, _ => false
  end.

Definition shape_eqb := list_eqb Nat.eqb.
Definition zlist_eqb := list_eqb Z.eqb.

Definition opt_eqb {A} (eqb : A -> A -> bool) (a b : option A) : bool :=
  match a, b with Some x, Some y => eqb x y | None, None => true | _, _ => false end.

Definition xinfo_eqb (a b : xinfo) : bool :=
  shape_eqb (x_dims a) (x_dims b) && opt_eqb zlist_eqb (x_wl a) (x_wl b).

Definition prod_shape (s : list nat) : nat := fold_right Nat.mul 1 s.

Definition is_xr (a : arr) : bool := match a_xr a with Some _ => true | None => false end.
Definition is_none_arr (o : option arr) : bool := match o with None => true | Some _ => false end.

Definition as_numpy (a : arr) : arr :=          (* np.asarray(value) *)
  {| a_xr := None; a_shape := a_shape a; a_dt := a_dt a; a_data := a_data a |}.

Definition with_data (a : arr) (d : list cell) : arr :=
  {| a_xr := a_xr a; a_shape := a_shape a; a_dt := a_dt a; a_data := d |}.

Definition all_nonneg (l : list cell) : bool := forallb (fun c => negb (cell_neg c)) l.
Definition nan_free (l : list cell) : bool := forallb (fun c => negb (cell_is_nan c)) l.

(* structural equality of arrays (used to compare states; NaN equals NaN here) *)
Definition arr_eqb (a b : arr) : bool :=
  opt_eqb xinfo_eqb (a_xr a) (a_xr b) && shape_eqb (a_shape a) (a_shape b)
  && dtype_eqb (a_dt a) (a_dt b) && list_eqb cell_eqb (a_data a) (a_data b).

Definition state_eqb := opt_eqb arr_eqb.

(* ------------------------------------------------------------------------------------------ numpy broadcasting *)

(* `dst += src` keeps dst's shape: src's dimensions, aligned at the end, must be 1 or equal, and src
   must not have more dimensions.  Arguments are the REVERSED shapes. *)
Fixpoint bcast_ok_rev (rdst rsrc : list nat) : bool :=
  match rsrc, rdst with
  | [], _ => true
  | _ :: _, [] => false
  | s :: rs, d :: rd => (Nat.eqb s 1 || Nat.eqb s d) && bcast_ok_rev rd rs
  end.

Definition broadcastable (src dst : list nat) : bool := bcast_ok_rev (rev dst) (rev src).

(* flat (row-major) index into src of the element that is added to flat index i of dst *)
Fixpoint src_index (rdst rsrc : list nat) (i stride : nat) : nat :=
  match rdst, rsrc with
  | d :: rd, s :: rs =>
      (if Nat.eqb s 1 then 0 else Nat.modulo i d) * stride + src_index rd rs (Nat.div i d) (stride * s)
  | _, _ => 0
  end.

Definition bcast_data (dst_shape src_shape : list nat) (src : list cell) : list cell :=
  map (fun i => nth (src_index (rev dst_shape) (rev src_shape) i 1) src NaN) (seq 0 (prod_shape dst_shape)).

Fixpoint zip_add (d : dtype) (a b : list cell) : list cell :=
  match a, b with
  | x :: ta, y :: tb => wrap d (cell_add x y) :: zip_add d ta tb
  | _, _ => []
  end.

(* ------------------------------------------------------------------------------------------ source tables *)

Inductive exc := ValueError | TypeError | OtherError.

Definition exc_eqb (a b : exc) : bool :=
  match a, b with
  | ValueError, ValueError | TypeError, TypeError | OtherError, OtherError => true
  | _, _ => false
  end.

(* a guard `if <test>: raise E` of a validating function: None = the guard is not in the source *)
Definition guard := option exc.

Inductive setter_kind :=
  | SetterValidating      (* self.<bucket>.array = obj.array *)
  | SetterRaw             (* self.<bucket>._array = obj._array *)
  | SetterDispatch        (* photon:  obj._array is None -> self.photon.empty();  ndarray -> self.photon.array = obj.array;
                                       otherwise -> self.photon.array_3d = obj.array_3d *)
  | SetterNone.           (* the detector has no setter for this bucket *)

(* the tail of Photon.__iadd__ / Photon.__add__ (after the two isinstance guards) *)
Inductive iadd_kind :=
  | IAddRaw               (* if self._array is not None: self._array += other   else: self._array = other *)
  | IAddSetters.          (* empty: self.array_3d = other / self.array = other (by operand type);
                             DataArray content: self.array_3d += other;  ndarray content: self.array += other *)

(* ArrayBase.__iadd__ / __add__ on an initialised container *)
Inductive base_iadd_kind :=
  | BIInPlace             (* self.array += other          (in-place addition on the STORED array, then the setter) *)
  | BIOnCopy.             (* new = self._array.copy(); new += other; self.array = new *)

(* ArrayBase.__eq__ after the type-and-shape test *)
Inductive eq_kind :=
  | EqLeftOnly            (* if self._array is not None: np.array_equal(self.array, other.array)   else True *)
  | EqBothNone.           (* one side None -> (both None);  otherwise np.array_equal(self._array, other._array) *)

(* what `<class>.empty()` leaves in the container *)
Inductive empty_kind :=
  | EmptyNone             (* self._array = None *)
  | EmptyZeros.           (* self._array = np.zeros(shape=self._shape, dtype=float) *)

(* what `update(None)` does *)
Inductive upd_none_kind :=
  | UpdCallsEmpty         (* self.empty() *)
  | UpdNone.              (* self._array = None *)

(* Detector.empty(reset): `self.<bucket>.empty()` unconditionally / under `if reset:` / not at all *)
Inductive dempty_kind := DAlways | DIfReset | DNever.

Record tables := {
  type_list : ckind -> list dtype;
  (* numpy: does `dst += src` pass the 'same_kind' output-casting rule?  iadd_ok dst src *)
  iadd_ok : dtype -> dtype -> bool;
  (* ArrayBase._validate: isinstance ndarray, dtype in TYPE_LIST, shape == self._shape *)
  v_type : guard; v_dtype : guard; v_shape : guard;
  (* Photon.array setter *)
  p_type : guard; p_dtype : guard; p_ndim : guard; p_shape : guard; p_clip : bool;
  (* Photon.array_3d setter *)
  q_type : guard; q_dtype : guard; q_ndim : guard; q_dims : guard; q_shape : guard; q_coord : guard;
  q_clip : bool;
  det_setter : ckind -> setter_kind;
  ph_iadd : iadd_kind;                 (* Photon.__iadd__ *)
  ph_add : iadd_kind;                  (* Photon.__add__ *)
  b_iadd : base_iadd_kind;             (* ArrayBase.__iadd__ *)
  b_add : base_iadd_kind;              (* ArrayBase.__add__ *)
  base_eq : eq_kind;                   (* ArrayBase.__eq__ *)
  ph_eq_geom : bool;                   (* Photon.__eq__ compares (_num_rows, _num_cols) *)
  (* getters: `if <test>: raise E` guards before `return self._array` *)
  rd_base : guard;                     (* ArrayBase.array: not initialised *)
  rd_ph2_none : guard; rd_ph2_xr : guard;     (* Photon.array: None; a DataArray is stored *)
  rd_ph3_none : guard; rd_ph3_np : guard;     (* Photon.array_3d: None; an ndarray is stored *)
  aa_base : guard;                     (* ArrayBase.__array__: `not isinstance(self._array, np.ndarray)` *)
  aa_ph_none : guard;                  (* Photon.__array__: None (then np.asarray(self.array)) *)
  (* resets *)
  empty_of : ckind -> empty_kind;      (* <class>.empty() *)
  upd_none : ckind -> upd_none_kind;   (* <class>.update(None)   (ArrayBase classes) *)
  d_empty : ckind -> dempty_kind;      (* Detector.empty(reset) *)
  mkid_phase_zero : bool               (* MKID.empty: `if reset and ... self._phase._array is not None: self.phase.array *= 0` *)
}.

(* the first guard, in source order, that is present and whose test is true *)
Fixpoint first_fail (l : list (guard * bool)) : option exc :=
  match l with
  | [] => None
  | (Some e, true) :: _ => Some e
  | _ :: t => first_fail t
  end.

(* ------------------------------------------------------------------------------------------ operations *)

Inductive outcome :=
  | Done                       (* the statement completed *)
  | Raise (e : exc)
  | RetArr (a : arr)           (* value of a read *)
  | RetBool (b : bool)         (* value of a comparison *)
  | RetNone                    (* a read of an empty container returned (None) instead of raising *)
  | Unmodelled.                (* operand combination outside the modelled domain (see `step`) *)

Inductive op :=
  | OSet (a : arr)              (* c.array = a *)
  | OSet3D (a : arr)            (* photon.array_3d = a *)
  | OUpdate (o : option arr)    (* c.update(a) / c.update(None)      (ArrayBase classes) *)
  | OIAdd (a : arr)             (* c += a *)
  | OAdd (a : arr)              (* c + a    (mutates c exactly like +=) *)
  | OEmpty                      (* c.empty() *)
  | ORead                       (* c.array *)
  | ORead3D                     (* photon.array_3d *)
  | OEq (o : container)         (* c == o *)
  | OEqRev (o : container)      (* o == c *)
  | ODAssign (o : container)    (* detector.<bucket> = o *)
  | ODEmpty (reset : bool)      (* detector.empty(reset) *)
  | OAsArray.                   (* np.asarray(c)  (the `__array__` protocol: a read) *)

Section WithTables.
Variable tb : tables.

Definition in_type_list (k : ckind) (d : dtype) : bool := dtype_mem d (type_list tb k).

(* ArrayBase._validate *)
Definition validate_base (c : container) (a : arr) : option exc :=
  first_fail [ (v_type tb, is_xr a);
               (v_dtype tb, negb (in_type_list (c_kind c) (a_dt a)));
               (v_shape tb, negb (shape_eqb (a_shape a) [c_rows c; c_cols c])) ].

Definition base_set (c : container) (a : arr) : container * outcome :=
  match validate_base c a with
  | Some e => (c, Raise e)
  | None => (with_content c (Some a), Done)
  end.

Definition clip_arr (a : arr) : arr := with_data a (map cell_clip0 (a_data a)).

(* Photon.array setter *)
Definition photon_check2d (c : container) (a : arr) : option exc :=
  first_fail [ (p_type tb, is_xr a);
               (p_dtype tb, negb (in_type_list Photon (a_dt a)));
               (p_ndim tb, negb (Nat.eqb (length (a_shape a)) 2));
               (p_shape tb, negb (shape_eqb (a_shape a) [c_rows c; c_cols c])) ].

Definition photon_set2d (c : container) (a : arr) : container * outcome :=
  match photon_check2d c a with
  | Some e => (c, Raise e)
  | None => (with_content c (Some (if p_clip tb then clip_arr a else a)), Done)
  end.

Fixpoint index_of (n : nat) (l : list nat) : option nat :=
  match l with
  | [] => None
  | h :: t => if Nat.eqb h n then Some 0 else option_map S (index_of n t)
  end.

(* value.sizes[name] *)
Definition dim_size (a : arr) (name : nat) : option nat :=
  match a_xr a with
  | None => None
  | Some xi => match index_of name (x_dims xi) with
               | Some i => nth_error (a_shape a) i
               | None => None
               end
  end.

Definition yx_sizes_ok (c : container) (a : arr) : bool :=
  match dim_size a 1, dim_size a 2 with
  | Some y, Some x => Nat.eqb y (c_rows c) && Nat.eqb x (c_cols c)
  | _, _ => false
  end.

Definition has_wl_coord (a : arr) : bool :=
  match a_xr a with Some {| x_wl := Some _ |} => true | _ => false end.

Definition dims_wyx (a : arr) : bool :=
  match a_xr a with Some xi => shape_eqb (x_dims xi) [0; 1; 2] | None => false end.

(* Photon.array_3d setter *)
Definition photon_check3d (c : container) (a : arr) : option exc :=
  first_fail [ (q_type tb, negb (is_xr a));
               (q_dtype tb, negb (in_type_list Photon (a_dt a)));
               (q_ndim tb, negb (Nat.eqb (length (a_shape a)) 3));
               (q_dims tb, negb (dims_wyx a));
               (q_shape tb, negb (yx_sizes_ok c a));
               (q_coord tb, negb (has_wl_coord a)) ].

Definition photon_set3d (c : container) (a : arr) : container * outcome :=
  match photon_check3d c a with
  | Some e => (c, Raise e)
  | None => (with_content c (Some (if q_clip tb then clip_arr a else a)), Done)
  end.

(* numpy `cur += a` for two ndarrays: type resolution (TypeError) comes before broadcasting (ValueError) *)
Definition np_iadd (cur a : arr) : arr + exc :=
  if negb (iadd_ok tb (a_dt cur) (a_dt a)) then inr TypeError
  else if negb (broadcastable (a_shape a) (a_shape cur)) then inr ValueError
  else inl (with_data cur (zip_add (a_dt cur) (a_data cur) (bcast_data (a_shape cur) (a_shape a) (a_data a)))).

(* xarray `cur += a` for two DataArrays, `cur` a well-formed photon cube (dims (wavelength, y, x), wavelength
   coordinate).  xarray works by dimension NAME: `a` may have any subset of cur's dimensions in any order (it is
   transposed / broadcast), with or without a wavelength coordinate.  In this order:
     - `a` has a wavelength index that differs from cur's        -> MergeError (a ValueError): no re-alignment in place
     - a shared dimension has another size (no size-1 broadcasting by name) -> ValueError
     - `a` has a dimension cur does not have                      -> ValueError (dimensions cannot change in place)
     - numpy's casting rule                                       -> TypeError
   Not modelled (None): cur of another form, repeated dimension names. *)
Fixpoint nodup_nat (l : list nat) : bool :=
  match l with [] => true | h :: t => negb (existsb (Nat.eqb h) t) && nodup_nat t end.

Definition xr_sizes_compat (cur a : arr) : bool :=
  forallb (fun n => match dim_size a n, nth_error (a_shape cur) n with
                    | Some s, Some t => Nat.eqb s t
                    | _, _ => true
                    end) [0; 1; 2].

(* flat index into `a` of the element with coordinates `co` (indexed by dimension name) *)
Definition xr_src_index (dims shape co : list nat) : nat :=
  fold_left (fun acc ds => acc * snd ds + nth (fst ds) co 0) (combine dims shape) 0.

Definition xr_bcast (cur a : arr) (dims : list nat) : list cell :=
  match a_shape cur with
  | [w; r; c] =>
      map (fun i => nth (xr_src_index dims (a_shape a) [Nat.div i (r * c); Nat.modulo (Nat.div i c) r; Nat.modulo i c])
                        (a_data a) NaN)
          (seq 0 (w * r * c))
  | _ => []
  end.

Definition xr_iadd (cur a : arr) : option (arr + exc) :=
  match a_xr cur, a_xr a with
  | Some xc, Some xa =>
      if dims_wyx cur && has_wl_coord cur && Nat.eqb (length (a_shape cur)) 3
         && Nat.eqb (length (x_dims xa)) (length (a_shape a)) && nodup_nat (x_dims xa) then
        if (match x_wl xa with Some _ => negb (opt_eqb zlist_eqb (x_wl xc) (x_wl xa)) | None => false end)
        then Some (inr ValueError)
        else if negb (xr_sizes_compat cur a) then Some (inr ValueError)
        else if negb (forallb (fun n => Nat.ltb n 3) (x_dims xa)) then Some (inr ValueError)
        else if negb (iadd_ok tb (a_dt cur) (a_dt a)) then Some (inr TypeError)
        else Some (inl (with_data cur (zip_add (a_dt cur) (a_data cur) (xr_bcast cur a (x_dims xa)))))
      else None
  | _, _ => None
  end.

(* the result of `nd += a` as Python sees it: numpy adds in place into `nd` (a DataArray operand is taken by
   position); with a DataArray operand the value of the expression is a DataArray (dims/coordinates of `a`)
   wrapping the modified array *)
Definition iadd_result (cur' a : arr) : arr :=
  {| a_xr := a_xr a; a_shape := a_shape cur'; a_dt := a_dt cur'; a_data := a_data cur' |}.

(* ArrayBase.__iadd__ / __add__ :
     if self._array is not None: self.array += other      (BIInPlace: getter, numpy in-place add on the stored
                                                           object, setter on the value of the expression)
                                  new = self._array.copy(); new += other; self.array = new      (BIOnCopy)
     else:                        self.array = other *)
Definition base_iadd (k : base_iadd_kind) (c : container) (a : arr) : container * outcome :=
  match c_content c with
  | None => base_set c a
  | Some cur =>
      if is_xr cur then (c, Unmodelled)
      else match np_iadd cur (as_numpy a) with
           | inr e => (c, Raise e)
           | inl cur' =>
               match validate_base c (iadd_result cur' a) with
               | Some e =>
                   (* BIInPlace: the in-place addition has already happened on the stored object *)
                   (match k with BIInPlace => with_content c (Some cur') | BIOnCopy => c end, Raise e)
               | None => (with_content c (Some (iadd_result cur' a)), Done)
               end
           end
  end.

(* Photon.__iadd__ / __add__ :
     ndarray on a stored DataArray, DataArray on a stored ndarray -> TypeError; then the tail `k`:
     IAddRaw      if self._array is not None: self._array += other   else: self._array = other   (stored as it is)
     IAddSetters  empty: the setter chosen by the operand's type; otherwise `self.array += other` /
                  `self.array_3d += other` = getter, in-place addition on the stored object, setter (validate, clip,
                  copy) on the result *)
Definition photon_iadd (k : iadd_kind) (c : container) (a : arr) : container * outcome :=
  match c_content c with
  | None =>
      match k with
      | IAddRaw => (with_content c (Some a), Done)
      | IAddSetters => if is_xr a then photon_set3d c a else photon_set2d c a
      end
  | Some cur =>
      match a_xr cur, a_xr a with
      | Some _, None => (c, Raise TypeError)
      | None, Some _ => (c, Raise TypeError)
      | None, None =>
          match np_iadd cur a with
          | inr e => (c, Raise e)
          | inl cur' =>
              match k with
              | IAddRaw => (with_content c (Some cur'), Done)
              | IAddSetters => photon_set2d (with_content c (Some cur')) cur'
              end
          end
      | Some _, Some _ =>
          match xr_iadd cur a with
          | None => (c, Unmodelled)
          | Some (inr e) => (c, Raise e)
          | Some (inl cur') =>
              match k with
              | IAddRaw => (with_content c (Some cur'), Done)
              | IAddSetters => photon_set3d (with_content c (Some cur')) cur'
              end
          end
      end
  end.

Definition content_none (c : container) : bool := is_none_arr (c_content c).
Definition content_xr (c : container) : bool := match c_content c with Some a => is_xr a | None => false end.
Definition content_np (c : container) : bool := match c_content c with Some a => negb (is_xr a) | None => false end.

Definition ret_content (c : container) : outcome :=
  match c_content c with Some a => RetArr a | None => RetNone end.

(* `.array` : the guards of the getter in source order, then `return self._array` *)
Definition read2d (c : container) : outcome :=
  match (if is_photon (c_kind c)
         then first_fail [ (rd_ph2_none tb, content_none c); (rd_ph2_xr tb, content_xr c) ]
         else first_fail [ (rd_base tb, content_none c) ]) with
  | Some e => Raise e
  | None => ret_content c
  end.

(* photon `.array_3d` *)
Definition read3d (c : container) : outcome :=
  match first_fail [ (rd_ph3_none tb, content_none c); (rd_ph3_np tb, content_np c) ] with
  | Some e => Raise e
  | None => ret_content c
  end.

(* `np.asarray(c)`:
     ArrayBase.__array__ : `if not isinstance(self._array, np.ndarray): raise TypeError`, else the stored array;
     Photon.__array__    : `if self._array is None: raise ValueError`, else np.asarray(self.array) *)
Definition asarray_res (c : container) : outcome :=
  if is_photon (c_kind c) then
    match first_fail [ (aa_ph_none tb, content_none c) ] with
    | Some e => Raise e
    | None => read2d c
    end
  else
    match first_fail [ (aa_base tb, negb (content_np c)) ] with
    | Some e => Raise e
    | None => ret_content c
    end.

Definition zeros_f64 (r c : nat) : arr :=
  {| a_xr := None; a_shape := [r; c]; a_dt := F64; a_data := repeat (Fin 0) (r * c) |}.

(* np.array_equal(a, b): shapes and values; dtype and ndarray/DataArray-ness do not matter *)
Definition arr_np_equal (a b : arr) : bool :=
  shape_eqb (a_shape a) (a_shape b) && list_eqb cell_np_eq (a_data a) (a_data b).

Definition cell_xr_eq (a b : cell) : bool := cell_eqb a b.    (* DataArray.equals: NaN matches NaN *)

(* DataArray.equals(other): dims, coordinates, shape, values *)
Definition arr_xr_equals (a b : arr) : bool :=
  match a_xr a, a_xr b with
  | Some xa, Some xb => xinfo_eqb xa xb && shape_eqb (a_shape a) (a_shape b)
                        && list_eqb cell_xr_eq (a_data a) (a_data b)
  | _, _ => false
  end.

(* a == b, as coded in ArrayBase.__eq__ and Photon.__eq__ *)
Definition same_geom (a b : container) : bool :=
  Nat.eqb (c_rows a) (c_rows b) && Nat.eqb (c_cols a) (c_cols b).

Definition eq_res (a b : container) : outcome :=
  match c_kind a with
  | Photon =>
      if negb (ckind_eqb (c_kind b) Photon) then RetBool false
      else if ph_eq_geom tb && negb (same_geom a b) then RetBool false
      else match c_content a, c_content b with
           | None, None => RetBool true
           | None, Some _ => RetBool false
           | Some _, None => RetBool false
           | Some x, Some y => if is_xr x then RetBool (arr_xr_equals x y) else RetBool (arr_np_equal x y)
           end
  | k =>
      if negb (ckind_eqb k (c_kind b) && same_geom a b)
      then RetBool false
      else match base_eq tb with
           | EqLeftOnly =>
               match c_content a with
               | None => RetBool true
               | Some x => match c_content b with
                           | None => Raise ValueError            (* other.array on an empty container *)
                           | Some y => RetBool (arr_np_equal x y)
                           end
               end
           | EqBothNone =>
               match c_content a, c_content b with
               | None, None => RetBool true
               | Some x, Some y => RetBool (arr_np_equal x y)
               | _, _ => RetBool false
               end
           end
  end.

(* detector.<bucket> = o *)
Definition det_assign (c : container) (o : container) : container * outcome :=
  match det_setter tb (c_kind c) with
  | SetterNone => (c, Raise OtherError)          (* a property without setter: AttributeError *)
  | SetterRaw => (with_content c (c_content o), Done)
  | SetterValidating =>
      match read2d o with
      | RetArr a => if is_photon (c_kind c) then photon_set2d c a else base_set c a
      | Raise e => (c, Raise e)
      | _ => (c, Unmodelled)
      end
  | SetterDispatch =>
      if negb (is_photon (c_kind c)) then (c, Unmodelled)        (* only the photon setter has this shape *)
      else match c_content o with
           | None => (with_content c None, Done)
           | Some a =>
               if is_xr a then
                 (if is_photon (c_kind o) then photon_set3d c a else (c, Raise OtherError))   (* obj.array_3d *)
               else photon_set2d c a                                                         (* obj.array *)
           end
  end.

(* the stored array would be accepted again by the setter that stores it (what `self.array += x` relies on:
   the setter runs once more on the object that has just been modified in place) *)
Definition is_none {A} (o : option A) : bool := match o with None => true | Some _ => false end.

Definition accepted (c : container) : bool :=
  match c_content c with
  | None => true
  | Some a =>
      if is_photon (c_kind c) then
        (if is_xr a then is_none (photon_check3d c a) else is_none (photon_check2d c a))
      else is_none (validate_base c a)
  end.

(* <class>.empty() *)
Definition do_empty (c : container) : container :=
  match empty_of tb (c_kind c) with
  | EmptyNone => with_content c None
  | EmptyZeros => with_content c (Some (zeros_f64 (c_rows c) (c_cols c)))
  end.

Definition step (c : container) (o : op) : container * outcome :=
  match o with
  | OSet a => if is_photon (c_kind c) then photon_set2d c a else base_set c a
  | OSet3D a => if is_photon (c_kind c) then photon_set3d c a else (c, Unmodelled)
  | OUpdate oa =>
      if is_photon (c_kind c) then (c, Unmodelled)           (* Photon has no update() *)
      else match oa with
           | Some a => base_set c (as_numpy a)
           | None => match upd_none tb (c_kind c) with
                     | UpdCallsEmpty => (do_empty c, Done)
                     | UpdNone => (with_content c None, Done)
                     end
           end
  | OIAdd a => if is_photon (c_kind c) then photon_iadd (ph_iadd tb) c a else base_iadd (b_iadd tb) c a
  | OAdd a => if is_photon (c_kind c) then photon_iadd (ph_add tb) c a else base_iadd (b_add tb) c a
  | OEmpty => (do_empty c, Done)
  | ORead => (c, read2d c)
  | ORead3D => if is_photon (c_kind c) then (c, read3d c) else (c, Unmodelled)
  | OEq o' => (c, eq_res c o')
  | OEqRev o' => (c, eq_res o' c)
  | ODAssign o' => det_assign c o'
  | ODEmpty reset =>
      match c_kind c with
      | Phase =>                                         (* MKID.empty, after Detector.empty *)
          match c_content c with
          | Some cur =>
              if reset && mkid_phase_zero tb then
                let cur' := with_data cur (map cell_mul0 (a_data cur)) in
                match validate_base c cur' with
                | Some e => (with_content c (Some cur'), Raise e)
                | None => (with_content c (Some cur'), Done)
                end
              else (c, Done)
          | None => (c, Done)
          end
      | k =>
          match d_empty tb k with
          | DAlways => (do_empty c, Done)
          | DIfReset => if reset then (do_empty c, Done) else (c, Done)
          | DNever => (c, Done)
          end
      end
  | OAsArray => (c, asarray_res c)
  end.

Definition run (c : container) (ops : list op) : container :=
  fold_left (fun c o => fst (step c o)) ops c.

(* the states after each operation *)
Fixpoint states (c : container) (ops : list op) : list container :=
  match ops with
  | [] => []
  | o :: t => let c' := fst (step c o) in c' :: states c' t
  end.

Fixpoint trace (c : container) (ops : list op) : list (outcome * container) :=
  match ops with
  | [] => []
  | o :: t => let r := step c o in (snd r, fst r) :: trace (fst r) t
  end.

(* public attributes *)
Definition pub_shape (c : container) : list nat :=
  match c_kind c, c_content c with
  | Photon, None => []
  | Photon, Some a => a_shape a
  | _, _ => [c_rows c; c_cols c]
  end.

Definition pub_dtype (c : container) : option dtype := option_map a_dt (c_content c).   (* None: raises *)

End WithTables.

(* ------------------------------------------------------------------------------------------ specification
   (the right-hand side of the property; independent of the source tables) *)

Definition spec_allowed (k : ckind) (d : dtype) : bool :=
  match k, d with
  | Image, (U8 | U16 | U32 | U64) => true
  | Image, _ => false
  | _, (F16 | F32 | F64) => true
  | _, _ => false
  end.

(* the array is one the bucket `k` of an r x c detector may hold *)
Definition arr_ok (k : ckind) (r c : nat) (a : arr) : bool :=
  spec_allowed k (a_dt a)
  && match a_xr a with
     | None => shape_eqb (a_shape a) [r; c]
     | Some xi =>
         is_photon k && shape_eqb (x_dims xi) [0; 1; 2]
         && match x_wl xi, a_shape a with
            | Some _, [_; r'; c'] => Nat.eqb r' r && Nat.eqb c' c
            | _, _ => false
            end
     end
  && (if is_photon k then all_nonneg (a_data a) else true).

Definition inv_b (c : container) : bool :=
  match c_content c with
  | None => true
  | Some a => arr_ok (c_kind c) (c_rows c) (c_cols c) a
  end.

Definition Inv (c : container) : Prop := inv_b c = true.

(* same array: same container type, dims/coordinates, shape, values (element type is not compared) *)
Definition arr_same (a b : arr) : bool :=
  opt_eqb xinfo_eqb (a_xr a) (a_xr b) && shape_eqb (a_shape a) (a_shape b)
  && list_eqb cell_np_eq (a_data a) (a_data b).

(* "equal exactly when same kind and shape and both empty or hold equal arrays" *)
Definition eq_spec (a b : container) : bool :=
  ckind_eqb (c_kind a) (c_kind b) && Nat.eqb (c_rows a) (c_rows b) && Nat.eqb (c_cols a) (c_cols b)
  && match c_content a, c_content b with
     | None, None => true
     | Some x, Some y => arr_same x y
     | _, _ => false
     end.

Definition content_nan_free (c : container) : bool :=
  match c_content c with None => true | Some a => nan_free (a_data a) end.

(* --- assignments.  An operation that asks the container to hold a given array (or nothing):
     c.array = a, photon.array_3d = a, c.update(a), `c += a` / `c + a` on an EMPTY container,
     detector.<bucket> = other   (the content of `other`; nothing when `other` is empty) *)
Inductive asg := AsgArr (a : arr) | AsgEmpty.

Definition assignment_of (k : ckind) (o : op) (before : option arr) : option asg :=
  match o with
  | OSet a => Some (AsgArr a)
  | OSet3D a => if is_photon k then Some (AsgArr a) else None
  | OUpdate (Some a) => if is_photon k then None else Some (AsgArr (as_numpy a))      (* np.asarray(data) *)
  | OIAdd a | OAdd a => match before with None => Some (AsgArr a) | Some _ => None end
  | ODAssign o' => match c_content o' with Some a => Some (AsgArr a) | None => Some AsgEmpty end
  | _ => None
  end.

(* a legal content up to the sign of the values: element type, container type, shape, dims, coordinate
   (negative photon counts are clipped by the setters, not refused) *)
Definition arr_form_ok (k : ckind) (r c : nat) (a : arr) : bool :=
  spec_allowed k (a_dt a)
  && match a_xr a with
     | None => shape_eqb (a_shape a) [r; c]
     | Some xi =>
         is_photon k && shape_eqb (x_dims xi) [0; 1; 2]
         && match x_wl xi, a_shape a with
            | Some _, [_; r'; c'] => Nat.eqb r' r && Nat.eqb c' c
            | _, _ => false
            end
     end.

(* what the container holds after a completed assignment of `a` *)
Definition stored_form (k : ckind) (a : arr) : arr := if is_photon k then clip_arr a else a.

(* same array: container type, dims/coordinates, shape, values (NaN matches NaN; element type not compared) *)
Definition arr_same_values (a b : arr) : bool :=
  opt_eqb xinfo_eqb (a_xr a) (a_xr b) && shape_eqb (a_shape a) (a_shape b)
  && list_eqb cell_eqb (a_data a) (a_data b).

(* the source tables are what the property needs: every TYPE_LIST inside the allowed set, every
   guard of the three validating functions present, both clips present, no raw detector setter, Photon += / +
   through the setters, == of the symmetric shape *)
Definition guard_present (g : guard) : bool := match g with Some _ => true | None => false end.

Definition type_lists_ok (tb : tables) : bool :=
  forallb (fun k => forallb (spec_allowed k) (type_list tb k)) [Photon; Pixel; Signal; Image; Phase].

Definition guards_ok (tb : tables) : bool :=
  guard_present (v_type tb) && guard_present (v_dtype tb) && guard_present (v_shape tb)
  && guard_present (p_type tb) && guard_present (p_dtype tb) && guard_present (p_shape tb) && p_clip tb
  && guard_present (q_type tb) && guard_present (q_dtype tb) && guard_present (q_ndim tb)
  && guard_present (q_dims tb) && guard_present (q_shape tb) && guard_present (q_coord tb) && q_clip tb.

(* Pixel.empty() stores float64 zeros; the setter run again by += must accept them *)
Definition pixel_zeros_ok (tb : tables) : bool := dtype_mem F64 (type_list tb Pixel).

(* ... and the dispatching shape (empty / 2-D / 3-D) is the photon setter's only *)
Definition no_raw_setter (tb : tables) : bool :=
  forallb (fun k => match det_setter tb k with SetterRaw => false | SetterDispatch => is_photon k | _ => true end)
          [Photon; Pixel; Signal; Image; Phase].

(* Photon += / + go through the validating setters on every branch *)
Definition iadd_through_setters (tb : tables) : bool :=
  match ph_iadd tb, ph_add tb with IAddSetters, IAddSetters => true | _, _ => false end.

(* ArrayBase += / + never touch the stored array before the result has been validated *)
Definition base_iadd_on_copy (tb : tables) : bool :=
  match b_iadd tb, b_add tb with BIOnCopy, BIOnCopy => true | _, _ => false end.

(* == compares emptiness on both sides, and the geometry for photons too *)
Definition eq_shape_ok (tb : tables) : bool :=
  match base_eq tb with EqBothNone => ph_eq_geom tb | EqLeftOnly => false end.

(* every getter refuses to return from an empty container *)
Definition reads_guarded (tb : tables) : bool :=
  guard_present (rd_base tb) && guard_present (rd_ph2_none tb) && guard_present (rd_ph3_none tb)
  && guard_present (aa_base tb) && guard_present (aa_ph_none tb).

(* resets leave nothing behind: empty() stores None (zeros are allowed for Pixel only: float64 is not an image
   type); Detector.empty empties photon, signal and image unconditionally and pixel at least under `reset`;
   MKID.empty zeroes an initialised phase array under `reset` *)
Definition resets_ok (tb : tables) : bool :=
  forallb (fun k => match empty_of tb k with EmptyNone => true | EmptyZeros => false end) [Photon; Signal; Image; Phase]
  && forallb (fun k => match d_empty tb k with DAlways => true | _ => false end) [Photon; Signal; Image]
  && match d_empty tb Pixel with DNever => false | _ => true end
  && mkid_phase_zero tb.

Definition tables_ok (tb : tables) : bool :=
  type_lists_ok tb && guards_ok tb && pixel_zeros_ok tb && no_raw_setter tb && iadd_through_setters tb
  && eq_shape_ok tb && reads_guarded tb && resets_ok tb && base_iadd_on_copy tb.

(* ------------------------------------------------------------------------------------------ case files
   One case = a bucket of a real detector, an operation list and what the implementation showed
   after every operation. *)

Record obs := {
  o_out : outcome;                 (* what the operation itself did *)
  o_state : option arr;            (* the stored array afterwards (None = empty) *)
  o_shape : list nat;              (* public .shape afterwards *)
  o_dtype : option dtype           (* public .dtype afterwards (None = raises) *)
}.

Record ccase := { k_kind : ckind; k_rows : nat; k_cols : nat; k_ops : list op; k_obs : list obs }.

Definition outcome_eqb (a b : outcome) : bool :=
  match a, b with
  | Done, Done => true
  | Raise x, Raise y => exc_eqb x y
  | RetArr x, RetArr y => arr_eqb x y
  | RetBool x, RetBool y => Bool.eqb x y
  | RetNone, RetNone => true
  | Unmodelled, Unmodelled => true
  | _, _ => false
  end.

Definition obs_agrees (tb : tables) (m : outcome * container) (o : obs) : bool :=
  outcome_eqb (fst m) (o_out o) && state_eqb (c_content (snd m)) (o_state o)
  && shape_eqb (pub_shape (snd m)) (o_shape o) && opt_eqb dtype_eqb (pub_dtype (snd m)) (o_dtype o).

(* index of the first step where model and implementation differ; comparison stops (None) at the
   first step the model does not cover *)
Fixpoint first_diff (tb : tables) (c : container) (ops : list op) (os : list obs) (i : nat) : option nat :=
  match ops, os with
  | [], [] => None
  | o :: t, ob :: tos =>
      let r := step tb c o in
      match snd r with
      | Unmodelled => None
      | _ => if obs_agrees tb (snd r, fst r) ob then first_diff tb (fst r) t tos (S i) else Some i
      end
  | _, _ => Some i
  end.

Fixpoint hits_unmodelled (tb : tables) (c : container) (ops : list op) : bool :=
  match ops with
  | [] => false
  | o :: t => let r := step tb c o in
              match snd r with Unmodelled => true | _ => hits_unmodelled tb (fst r) t end
  end.

Definition case_start (k : ccase) : container := empty_container (k_kind k) (k_rows k) (k_cols k).

(* [case; step; case; step; ...] *)
Fixpoint mismatches_from (tb : tables) (cs : list ccase) (i : nat) : list nat :=
  match cs with
  | [] => []
  | k :: t =>
      match first_diff tb (case_start k) (k_ops k) (k_obs k) 0 with
      | Some j => i :: j :: mismatches_from tb t (S i)
      | None => mismatches_from tb t (S i)
      end
  end.

Definition mismatches (tb : tables) (cs : list ccase) : list nat := mismatches_from tb cs 0.

Fixpoint unmodelled_from (tb : tables) (cs : list ccase) (i : nat) : list nat :=
  match cs with
  | [] => []
  | k :: t => if hits_unmodelled tb (case_start k) (k_ops k) then i :: unmodelled_from tb t (S i)
              else unmodelled_from tb t (S i)
  end.

Definition unmodelled (tb : tables) (cs : list ccase) : list nat := unmodelled_from tb cs 0.

(* --- the implementation's observations judged against the specification (no model involved).
   Clause numbers:
     1 inv            the state after the step breaks the invariant although the state before met it
     2 failed_assign  the operation raised and the stored array changed
     3 read_empty     reading an empty container did not raise
     4 read_value     a successful read returned something else than the stored array, or changed it
     5 eq_spec        a comparison did not return (same kind & shape & (both empty | equal arrays))
     6 reset          empty()/update(None)/detector.empty() completed and left data behind
     7 must_reject    an assignment of an array that is no legal content (element type, container type, shape, dims,
                      coordinate) did not raise
     8 assign_stores  a completed assignment of a legal array left something else in the container than that array
                      (photons: negatives clipped); a completed assignment of an EMPTY container left data behind *)

Definition is_raise (o : outcome) : bool := match o with Raise _ => true | _ => false end.

Definition reset_ok (k : ckind) (o : op) (before after : option arr) : bool :=
  match o, k with
  | OEmpty, Pixel | ODEmpty true, Pixel | OUpdate None, Pixel =>      (* update(None) is documented as empty() *)
      match after with
      | Some a => forallb (cell_eqb (Fin 0)) (a_data a)
      | None => true
      end
  | ODEmpty false, Pixel => true
  | ODEmpty true, Phase =>
      match after with
      | Some a => forallb (fun c => cell_eqb (Fin 0) c || cell_is_nan c) (a_data a)
      | None => true
      end
  | ODEmpty false, Phase => true
  | (OEmpty | OUpdate None | ODEmpty _), _ => match after with None => true | Some _ => false end
  | _, _ => true
  end.

Definition all_zero (a : arr) : bool := forallb (cell_eqb (Fin 0)) (a_data a).

(* The judge is a little more lenient than the theorems about the model: a DataArray handed to an ArrayBase bucket
   is judged by its numpy form (an implementation that converted it with np.asarray instead of refusing it would
   store a legal array: the property text does not call that a violation). *)
Definition assignable (k : ckind) (r c : nat) (a : arr) : bool :=
  arr_form_ok k r c a || (negb (is_photon k) && arr_form_ok k r c (as_numpy a)).

Definition expected_store (k : ckind) (a : arr) : arr := if is_photon k then clip_arr a else as_numpy a.

Definition assign_violations (k : ckind) (r c : nat) (o : op) (before : option arr) (ob : obs) : list nat :=
  match assignment_of k o before with
  | Some (AsgArr a) =>
      if is_raise (o_out ob) then []
      else if negb (assignable k r c a) then [7]
      else match o_out ob, o_state ob with
           | Done, Some s => if arr_same_values (expected_store k a) s then [] else [8]
           | Done, None => [8]
           | _, _ => []
           end
  | Some AsgEmpty =>
      match o_out ob, o_state ob with
      | Done, Some s => if ckind_eqb k Pixel && all_zero s then [] else [8]      (* Pixel.empty() stores zeros *)
      | _, _ => []
      end
  | None => []
  end.

Definition step_violations (k : ckind) (r c : nat) (o : op) (before : option arr) (ob : obs) : list nat :=
  let cb := {| c_kind := k; c_rows := r; c_cols := c; c_content := before |} in
  let ca := {| c_kind := k; c_rows := r; c_cols := c; c_content := o_state ob |} in
  (if inv_b cb && negb (inv_b ca) then [1] else [])
  ++ (if is_raise (o_out ob) && negb (state_eqb before (o_state ob)) then [2] else [])
  ++ match o with
     | ORead | ORead3D | OAsArray =>
         (match before with
          | None => if is_raise (o_out ob) then [] else [3]
          | Some a => match o_out ob with
                      | RetArr a' => if arr_eqb a a' then [] else [4]
                      | _ => []
                      end
          end) ++ (if state_eqb before (o_state ob) then [] else [4])
     | OEq o' =>
         if content_nan_free cb && content_nan_free o' then
           match o_out ob with
           | RetBool b => if Bool.eqb b (eq_spec cb o') then [] else [5]
           | _ => [5]
           end
         else []
     | OEqRev o' =>
         if content_nan_free cb && content_nan_free o' then
           match o_out ob with
           | RetBool b => if Bool.eqb b (eq_spec o' cb) then [] else [5]
           | _ => [5]
           end
         else []
     | _ => []
     end
  ++ (if negb (is_raise (o_out ob)) && negb (reset_ok k o before (o_state ob)) then [6] else [])
  ++ assign_violations k r c o before ob.

(* [case; step; clause; ...] *)
Fixpoint case_violations (k : ckind) (r c : nat) (ops : list op) (os : list obs) (before : option arr)
         (ci j : nat) : list nat :=
  match ops, os with
  | o :: t, ob :: tos =>
      flat_map (fun cl => [ci; j; cl]) (step_violations k r c o before ob)
      ++ case_violations k r c t tos (o_state ob) ci (S j)
  | _, _ => []
  end.

Fixpoint violations_from (cs : list ccase) (i : nat) : list nat :=
  match cs with
  | [] => []
  | k :: t => case_violations (k_kind k) (k_rows k) (k_cols k) (k_ops k) (k_obs k) None i 0
              ++ violations_from t (S i)
  end.

Definition violations (cs : list ccase) : list nat := violations_from cs 0.

(* --- the model's own behaviour written as observations: what the judge above sees when the implementation
   behaves exactly like the model (used to state that the judge accepts the model on EVERY sequence) *)
Definition obs_of (r : container * outcome) : obs :=
  {| o_out := snd r; o_state := c_content (fst r); o_shape := pub_shape (fst r); o_dtype := pub_dtype (fst r) |}.

Fixpoint model_obs (tb : tables) (c : container) (ops : list op) : list obs :=
  match ops with
  | [] => []
  | o :: t => let r := step tb c o in obs_of r :: model_obs tb (fst r) t
  end.

(* the containers a sequence compares with are containers the invariant describes *)
Definition eq_operands_inv (ops : list op) : bool :=
  forallb (fun o => match o with OEq o' | OEqRev o' => inv_b o' | _ => true end) ops.

(* ------------------------------------------------------------------------------------------ literals
   compact constructors used by the harness-written case files *)

Definition zNaN : Z := 1000000001.  Definition zPInf : Z := 1000000002.  Definition zNInf : Z := 1000000003.

Definition cell_of_Z (z : Z) : cell :=
  if Z.eqb z zNaN then NaN else if Z.eqb z zPInf then PInf else if Z.eqb z zNInf then NInf else Fin z.

Definition mk_np (s : list nat) (d : dtype) (l : list Z) : arr :=
  {| a_xr := None; a_shape := s; a_dt := d; a_data := map cell_of_Z l |}.

Definition mk_xr (dims : list nat) (wl : option (list Z)) (s : list nat) (d : dtype) (l : list Z) : arr :=
  {| a_xr := Some {| x_dims := dims; x_wl := wl |}; a_shape := s; a_dt := d; a_data := map cell_of_Z l |}.

Definition mk_cont (k : ckind) (r c : nat) (x : option arr) : container :=
  {| c_kind := k; c_rows := r; c_cols := c; c_content := x |}.

Definition mk_obs (o : outcome) (st : option arr) (sh : list nat) (d : option dtype) : obs :=
  {| o_out := o; o_state := st; o_shape := sh; o_dtype := d |}.

Definition mk_case (k : ckind) (r c : nat) (ops : list op) (os : list obs) : ccase :=
  {| k_kind := k; k_rows := r; k_cols := c; k_ops := ops; k_obs := os |}.

