(* Executable model for C11, part 2 — the problem object WITH its mutable state made explicit:
   histories of fitness evaluations on one ModelFittingDataTree object.
     pyxel/calibration/fitting_datatree.py  ModelFittingDataTree.fitness (+ the scalar attributes it keeps)
   Definitions only (no proofs).

   `fitness` is described as a small program (`fdesc`) around the accumulation loop: scalar attributes of
   the problem (`self.<name>`, initialised with a number in __init__) are REGISTERS; guarded commands
   (`if <cond>: self.<name> = <expr> | break | continue | return [<expr>]`) may stand before the term of a
   pair is computed, after it has been added, in the `else` clause of the loop, and after the loop; the
   method returns `[<expr>]`.  The description of the tree under test is regenerated from the source on
   every run (Gen_C11.src_fdesc); for the unchanged tree it is `coded_fdesc`: no register, no command,
   the accumulator is returned. *)
From Coq Require Import ZArith QArith Qabs List Bool.
From PyxelV Require Import Model.Fitness.
Import ListNotations.
Open Scope Q_scope.

(* ---------------------------------------------------------------------- values of scalar attributes *)
Inductive ext := EFin (q : Q) | EPInf | ENInf.            (* a float: finite, math.inf, -math.inf *)

Definition ext_le (a b : ext) : bool :=
  match a, b with
  | ENInf, _ => true
  | _, EPInf => true
  | EFin x, EFin y => Qle_bool x y
  | _, _ => false
  end.
Definition ext_cmp (c : cmp) (a b : ext) : bool :=
  match c with
  | CLe => ext_le a b
  | CGe => ext_le b a
  | CLt => negb (ext_le b a)
  | CGt => negb (ext_le a b)
  | CEq => ext_le a b && ext_le b a
  | CNe => negb (ext_le a b && ext_le b a)
  end.
Definition ext_add (a b : ext) : ext :=
  match a, b with
  | EFin x, EFin y => EFin (x + y)
  | EPInf, _ | _, EPInf => EPInf          (* inf + -inf is NaN in Python: outside the model *)
  | ENInf, _ | _, ENInf => ENInf
  end.
Definition ext_min (a b : ext) : ext := if ext_le a b then a else b.
Definition ext_max (a b : ext) : ext := if ext_le a b then b else a.

(* ---------------------------------------------------------------------- the description language *)
Inductive sexpr :=
| XAcc                       (* overall_fitness, the running sum *)
| XTerm                      (* the value just added (the fitness of the current pair) *)
| XIdx                       (* processor_id *)
| XReg (r : nat)             (* self.<register r> *)
| XConst (q : Q)
| XPInf | XNInf              (* math.inf / -math.inf *)
| XAdd (a b : sexpr)
| XMin (a b : sexpr)
| XMax (a b : sexpr).

Inductive scond :=
| KTrue
| KCmp (c : cmp) (a b : sexpr)
| KNot (k : scond)
| KAnd (a b : scond)
| KOr (a b : scond).

Inductive action :=
| ASet (r : nat) (e : sexpr)        (* self.<register r> = e *)
| ABreak
| AContinue
| AReturn (e : sexpr).              (* return [e] *)

Definition gcmd := (scond * action)%type.       (* if <cond>: <action> *)

Record fdesc := {
  fd_regs : list ext;        (* the registers as __init__ leaves them *)
  fd_pre : list gcmd;        (* loop body, before the pipeline of the pair is run *)
  fd_post : list gcmd;       (* loop body, after `overall_fitness += <term>` *)
  fd_else : list gcmd;       (* `else:` clause of the loop (runs when the loop was not left by break) *)
  fd_after : list gcmd;      (* after the loop *)
  fd_ret : sexpr             (* return [<expr>] *)
}.

(* the unchanged tree: fitness keeps nothing between calls and never leaves the loop early *)
Definition coded_fdesc : fdesc :=
  {| fd_regs := []; fd_pre := []; fd_post := []; fd_else := []; fd_after := []; fd_ret := XAcc |}.

(* ---------------------------------------------------------------------- semantics *)
Record henv := { h_acc : Q; h_term : Q; h_idx : nat }.

Fixpoint seval (regs : list ext) (v : henv) (e : sexpr) : ext :=
  match e with
  | XAcc => EFin (h_acc v)
  | XTerm => EFin (h_term v)
  | XIdx => EFin (inject_Z (Z.of_nat (h_idx v)))
  | XReg r => nth r regs (EFin 0)
  | XConst q => EFin q
  | XPInf => EPInf
  | XNInf => ENInf
  | XAdd a b => ext_add (seval regs v a) (seval regs v b)
  | XMin a b => ext_min (seval regs v a) (seval regs v b)
  | XMax a b => ext_max (seval regs v a) (seval regs v b)
  end.

Fixpoint sholds (regs : list ext) (v : henv) (k : scond) : bool :=
  match k with
  | KTrue => true
  | KCmp c a b => ext_cmp c (seval regs v a) (seval regs v b)
  | KNot a => negb (sholds regs v a)
  | KAnd a b => sholds regs v a && sholds regs v b
  | KOr a b => sholds regs v a || sholds regs v b
  end.

Fixpoint upd (i : nat) (x : ext) (l : list ext) : list ext :=
  match l, i with
  | [], _ => []
  | _ :: r, O => x :: r
  | y :: r, S j => y :: upd j x r
  end.

Inductive signal := Go | Brk | Cont | Ret (x : ext).

Fixpoint exec (cmds : list gcmd) (regs : list ext) (v : henv) : list ext * signal :=
  match cmds with
  | [] => (regs, Go)
  | (k, a) :: r =>
      if sholds regs v k then
        match a with
        | ASet i e => exec r (upd i (seval regs v e) regs) v
        | ABreak => (regs, Brk)
        | AContinue => (regs, Cont)
        | AReturn e => (regs, Ret (seval regs v e))
        end
      else exec r regs v
  end.

(* the float that is returned, as the harness observes it (math.isinf covers both signs) *)
Definition fres_of_ext (x : ext) : fres := match x with EFin q => RVal q | _ => RInf end.

Definition finish (d : fdesc) (regs : list ext) (acc : Q) (k : nat) : list ext * fres :=
  let v := {| h_acc := acc; h_term := 0; h_idx := k |} in
  let '(regs1, s) := exec (fd_after d) regs v in
  match s with
  | Ret x => (regs1, fres_of_ext x)
  | _ => (regs1, fres_of_ext (seval regs1 v (fd_ret d)))
  end.

Section HLoop.
  Context {A B : Type}.
  Variable term : nat -> A -> B -> fres.
  Variable d : fdesc.

  (* for processor_id, (processor, target) in enumerate(zip(...)): <pre>; overall_fitness += term; <post>
     else: <else>
     <after>; return [<ret>]
     An exception raised by the term leaves the registers as written so far. *)
  Fixpoint hloop (k : nat) (l : list (A * B)) (acc : Q) (regs : list ext) : list ext * fres :=
    match l with
    | [] =>
        let v := {| h_acc := acc; h_term := 0; h_idx := k |} in
        let '(regs1, s) := exec (fd_else d) regs v in
        match s with
        | Ret x => (regs1, fres_of_ext x)
        | _ => finish d regs1 acc k
        end
    | (a, b) :: r =>
        let v := {| h_acc := acc; h_term := 0; h_idx := k |} in
        let '(regs1, s) := exec (fd_pre d) regs v in
        match s with
        | Brk => finish d regs1 acc k
        | Cont => hloop (S k) r acc regs1
        | Ret x => (regs1, fres_of_ext x)
        | Go =>
            match term k a b with
            | RVal t =>
                let acc' := acc + t in
                let v' := {| h_acc := acc'; h_term := t; h_idx := k |} in
                let '(regs2, s2) := exec (fd_post d) regs1 v' in
                match s2 with
                | Brk => finish d regs2 acc' k
                | Ret x => (regs2, fres_of_ext x)
                | _ => hloop (S k) r acc' regs2
                end
            | e => (regs1, e)
            end
        end
    end.
End HLoop.

(* ---------------------------------------------------------------------- the problem object with state *)

(* problem.fitness(x) on a problem whose registers are `regs`, given the simulated frame of every
   processor for x: the constructor's verdict, the slicing and the weights are those of Model.Fitness
   (model_fit); the accumulation is the described loop *)
Definition hfit (d : fdesc) (ck : checker) (cl : calls) (wc : wconf) (c : fconf)
                (regs : list ext) (sims : list frame3) : list ext * fobs :=
  match model_fit ck cl wc c sims with
  | OCtor => (regs, OCtor)
  | OUndef => (regs, OUndef)
  | _ =>
      let '(tm, tr, tc) := out_slices (fc_trng c) in
      let '(regs', r) := hloop (term_coded c (weights_kept wc c)) d 0
                               (combine sims (map (slice3 tm tr tc) (fc_tgts c))) 0 regs in
      (regs', fobs_of r)
  end.

(* operations of a history on ONE problem object.  X = decision vectors; `simulate x` = the frames the
   pipeline(s) produce for x (a function: the pipelines of this property's probe are deterministic) *)
Inductive hop (X : Type) :=
| HFit (x : X)               (* problem.fitness(x) *)
| HFitCopy (x : X)           (* copy.deepcopy(problem).fitness(x) / a pickle round trip: what pygmo and dask do *)
| HNop.                      (* get_bounds(), convert_to_parameters(x), get_name() ... *)
Arguments HFit {X} x.
Arguments HFitCopy {X} x.
Arguments HNop {X}.

Section Hist.
  Context {X : Type}.
  Variable simulate : X -> list frame3.
  Variable d : fdesc.
  Variable ck : checker.
  Variable cl : calls.
  Variable wc : wconf.
  Variable c : fconf.

  Definition hstep (regs : list ext) (o : hop X) : list ext * option fobs :=
    match o with
    | HFit x => let '(regs', ob) := hfit d ck cl wc c regs (simulate x) in (regs', Some ob)
    | HFitCopy x => (regs, Some (snd (hfit d ck cl wc c regs (simulate x))))
    | HNop => (regs, None)
    end.

  Fixpoint run_hist (regs : list ext) (ops : list (hop X)) : list ext * list (option fobs) :=
    match ops with
    | [] => (regs, [])
    | o :: r =>
        let s1 := hstep regs o in
        let s2 := run_hist (fst s1) r in
        (fst s2, snd s1 :: snd s2)
    end.

  (* the history-free value of one operation: what a freshly built problem returns *)
  Definition fresh_obs (o : hop X) : option fobs :=
    match o with
    | HFit x | HFitCopy x => Some (snd (hfit d ck cl wc c (fd_regs d) (simulate x)))
    | HNop => None
    end.

  (* ... and what the stateless model of Model.Fitness says *)
  Definition pure_obs (o : hop X) : option fobs :=
    match o with
    | HFit x | HFitCopy x => Some (model_fit ck cl wc c (simulate x))
    | HNop => None
    end.
End Hist.

(* ---------------------------------------------------------------------- syntactic conditions *)
Fixpoint reads_reg (e : sexpr) : bool :=
  match e with
  | XReg _ => true
  | XAdd a b | XMin a b | XMax a b => reads_reg a || reads_reg b
  | _ => false
  end.
Fixpoint cond_reads_reg (k : scond) : bool :=
  match k with
  | KTrue => false
  | KCmp _ a b => reads_reg a || reads_reg b
  | KNot a => cond_reads_reg a
  | KAnd a b | KOr a b => cond_reads_reg a || cond_reads_reg b
  end.

Definition is_exit (a : action) : bool := match a with ASet _ _ => false | _ => true end.

(* a command that can influence WHAT IS RETURNED does not look at a register: the condition of every
   exit and every returned expression are register-free (registers may be written, and read by the
   conditions and right-hand sides of other register writes: a call counter, a running minimum kept for
   a log line) *)
Definition cmd_blind (g : gcmd) : bool :=
  match snd g with
  | ASet _ _ => true
  | ABreak | AContinue => negb (cond_reads_reg (fst g))
  | AReturn e => negb (cond_reads_reg (fst g)) && negb (reads_reg e)
  end.
(* a guarded register write whose guard reads a register changes only registers; but a register write
   BEFORE an exit in the same block could change the exit's condition only if that condition reads a
   register, which cmd_blind excludes *)
Definition reg_blind (d : fdesc) : bool :=
  forallb cmd_blind (fd_pre d) && forallb cmd_blind (fd_post d) && forallb cmd_blind (fd_else d)
  && forallb cmd_blind (fd_after d) && negb (reads_reg (fd_ret d)).

(* the loop is never left early and the accumulator is what is returned *)
Definition cmd_stays (g : gcmd) : bool := negb (is_exit (snd g)).
Definition exits_free (d : fdesc) : bool :=
  forallb cmd_stays (fd_pre d) && forallb cmd_stays (fd_post d) && forallb cmd_stays (fd_else d)
  && forallb cmd_stays (fd_after d) && match fd_ret d with XAcc => true | _ => false end.

(* ---------------------------------------------------------------------- descriptions used as examples *)
(* self._best = inf;  in the loop, after the addition: if overall_fitness > self._best: break;
   else-clause: self._best = overall_fitness   (a "run-time optimisation": candidates worse than the
   best one seen are abandoned and carry the partial sum) *)
Definition ex_best_break : fdesc :=
  {| fd_regs := [EPInf]; fd_pre := [];
     fd_post := [(KCmp CGt XAcc (XReg 0), ABreak)];
     fd_else := [(KTrue, ASet 0 XAcc)]; fd_after := []; fd_ret := XAcc |}.
(* self._num_evaluations += 1 after the loop; self._lowest = min(self._lowest, overall_fitness) *)
Definition ex_counter : fdesc :=
  {| fd_regs := [EFin 0; EPInf]; fd_pre := []; fd_post := []; fd_else := [];
     fd_after := [(KTrue, ASet 0 (XAdd (XReg 0) (XConst 1))); (KCmp CLt XAcc (XReg 1), ASet 1 XAcc)];
     fd_ret := XAcc |}.
(* the accumulator is an attribute that is never reset: self._total += term; return [self._total] *)
Definition ex_sticky_acc : fdesc :=
  {| fd_regs := [EFin 0]; fd_pre := []; fd_post := [(KTrue, ASet 0 (XAdd (XReg 0) XTerm))];
     fd_else := []; fd_after := []; fd_ret := XReg 0 |}.

(* ---------------------------------------------------------------------- case files: histories *)
(* a decision vector of a generated history: an identifier (equal identifiers = the same vector) and
   the frames the harness computed for it *)
Definition hx := (nat * list frame3)%type.

Record hist_case := {
  hc_c : fconf;
  hc_ops : list (hop hx);
  hc_obs : list (option fobs);       (* the implementation: one entry per operation *)
  hc_same : bool                     (* target data, weights and processors compare equal before / after *)
}.

Definition oobs_agree (exact : bool) (m o : option fobs) : bool :=
  match m, o with
  | None, None => true
  | Some a, Some b => fobs_agree exact a b
  | _, _ => false
  end.

Fixpoint zip_idx {A B} (i : Z) (a : list A) (b : list B) : list (Z * A * B) :=
  match a, b with
  | x :: a', y :: b' => (i, x, y) :: zip_idx (i + 1)%Z a' b'
  | _, _ => []
  end.

(* codes: 1000 * case + step; step 999 = the lengths differ / the data changed *)
Definition code (case step : Z) : Z := (1000 * case + step)%Z.

Definition hist_mismatch_steps (d : fdesc) (ck : checker) (cl : calls) (wc : wconf) (x : hist_case) : list Z :=
  let m := snd (run_hist (@snd nat (list frame3)) d ck cl wc (hc_c x) (fd_regs d) (hc_ops x)) in
  let ex := is_exact (fc_ff (hc_c x)) in
  (if Nat.eqb (length m) (length (hc_obs x)) then [] else [999%Z])
  ++ map (fun t => fst (fst t)) (filter (fun t => negb (oobs_agree ex (snd (fst t)) (snd t))) (zip_idx 0 m (hc_obs x))).

Fixpoint flat_codes (i : Z) (l : list (list Z)) : list Z :=
  match l with
  | [] => []
  | s :: r => map (code i) s ++ flat_codes (i + 1)%Z r
  end.

Definition hist_mismatches (d : fdesc) (ck : checker) (cl : calls) (wc : wconf) (xs : list hist_case) : list Z :=
  flat_codes 0 (map (hist_mismatch_steps d ck cl wc) xs).

(* the specification of a history = the specification of each evaluation on its own (spec_fit is a
   function of the configuration and of the frames of THIS vector only), plus: the same vector is given
   the same fitness wherever it occurs in the history, and the problem's data are left as they were *)
Definition op_x (o : hop hx) : option hx := match o with HFit x | HFitCopy x => Some x | HNop => None end.

Definition fobs_same (a b : fobs) : bool :=
  match a, b with
  | OCtor, OCtor | ORaise, ORaise | OInf, OInf | OUndef, OUndef => true
  | OVal x, OVal y => Qeq_bool x y
  | _, _ => false
  end.

Definition step_spec_bad (c : fconf) (o : hop hx) (ob : option fobs) : bool :=
  match op_x o, ob with
  | Some x, Some r =>
      match spec_fit c (snd x) with
      | Some e => negb (fobs_agree (is_exact (fc_ff c)) e r)
      | None => false
      end
  | Some _, None => true
  | None, _ => false
  end.

(* an earlier evaluation of the same vector returned something else *)
Fixpoint seen_other (id : nat) (r : fobs) (earlier : list (hop hx * option fobs)) : bool :=
  match earlier with
  | [] => false
  | (o, ob) :: t =>
      (match op_x o, ob with
       | Some x, Some r' => Nat.eqb (fst x) id && negb (fobs_same r r')
       | _, _ => false
       end) || seen_other id r t
  end.

Fixpoint hist_bad_steps (c : fconf) (i : Z) (earlier : list (hop hx * option fobs))
                        (l : list (hop hx * option fobs)) : list Z :=
  match l with
  | [] => []
  | (o, ob) :: r =>
      let bad := step_spec_bad c o ob
                 || match op_x o, ob with Some x, Some v => seen_other (fst x) v earlier | _, _ => false end in
      (if bad then [i] else []) ++ hist_bad_steps c (i + 1)%Z ((o, ob) :: earlier) r
  end.

Definition hist_violation_steps (x : hist_case) : list Z :=
  (if hc_same x then [] else [999%Z]) ++ hist_bad_steps (hc_c x) 0 [] (combine (hc_ops x) (hc_obs x)).

Definition hist_violations (xs : list hist_case) : list Z := flat_codes 0 (map hist_violation_steps xs).

(* ---------------------------------------------------------------------- case files: reported individuals *)
(* an individual reported by a calibration (/champion of every evolution, /best): the fitness attached
   to it, and the fitness a freshly built problem returns for its decision vector *)
Record indiv_case := { iv_reported : Q; iv_fresh : Q }.
Definition indiv_violation (x : indiv_case) : bool := negb (Qeq_bool (iv_reported x) (iv_fresh x)).
Definition indiv_violations (xs : list indiv_case) : list Z := indices_where indiv_violation xs 0.
