(* Model/Result.v — C03: the result returned by an exposure (pyxel/exposure/exposure.py run_pipeline,
   _extract_datatree_2d; pyxel/pipelines/model_group.py debug capture; containers' to_xarray).
   Executable model only (no proofs).  Self-contained (does not depend on Model/Exposure.v).

   Abstractions (all listed in the trusted base of the check):
   * arrays = dtype tag + shape + row-major list of integer values (every generated value is a small
     integer, exactly representable in every dtype used);
   * time labels = integers in units of a fixed dyadic tick (float64 start + t is exact on that grid);
   * the accumulated dataset and the one-slice dataset of the step are CONCATENATED along `time`
     (xr.concat): the new slice is appended, nothing is aligned, filled or dropped; every variable of the
     result has ONE dtype, numpy's common type (`join`) of its slices -- a step at which the container was not
     initialised counts as float64 (NaN) --: widening changes no value; run_pipeline then casts the `image`
     variable to the dtype of the detector's CURRENT image unless it still has an unsigned integer type;
   * every variable read out of a container carries y / x labels: the index ranges when the read-out sets them
     (table `relabel`), otherwise the labels the stored 3-D photon cube carries; the model only says what the
     result is when all variables of all steps carry the same labels (nothing to align);
   * a read-out (`to_xarray`) either copies the container's buffer or not (table `copies`); a record that was
     not copied follows the container while it keeps its buffer. *)
From Coq Require Import ZArith List Bool Ascii String Lia.
Import ListNotations.
Open Scope Z_scope.

(* ------------------------------------------------------------------------------------------ data *)

Inductive dtype := U8 | U16 | U32 | U64 | F16 | F32 | F64.

Definition dtype_eqb (a b : dtype) : bool :=
  match a, b with
  | U8, U8 | U16, U16 | U32, U32 | U64, U64 | F16, F16 | F32, F32 | F64, F64 => true
  | _, _ => false
  end.

Definition is_unsigned (t : dtype) : bool :=
  match t with U8 | U16 | U32 | U64 => true | _ => false end.

Definition width (t : dtype) : Z :=
  match t with U8 => 8 | U16 => 16 | U32 => 32 | U64 => 64 | F16 => 16 | F32 => 32 | F64 => 64 end.

(* numpy's common type (np.result_type / promote_types) of two of these dtypes: the wider of two unsigned
   or of two float types; an unsigned and a float type: the narrowest float type that holds both *)
Definition join (a b : dtype) : dtype :=
  match a, b with
  | F64, _ | _, F64 => F64
  | U64, (F16 | F32) | (F16 | F32), U64 => F64
  | U32, (F16 | F32) | (F16 | F32), U32 => F64
  | U64, _ | _, U64 => U64
  | U32, _ | _, U32 => U32
  | F32, _ | _, F32 => F32
  | U16, F16 | F16, U16 => F32
  | U16, _ | _, U16 => U16
  | F16, _ | _, F16 => F16
  | U8, U8 => U8
  end.

(* a <= b in that order: converting an array of type a to type b changes no value *)
Definition dtype_le (a b : dtype) : bool := dtype_eqb (join a b) b.

Inductive bucket := Photon | Charge | Pixel | Signal | Image.

Definition bucket_eqb (a b : bucket) : bool :=
  match a, b with
  | Photon, Photon | Charge, Charge | Pixel, Pixel | Signal, Signal | Image, Image => true
  | _, _ => false
  end.

Definition all_buckets : list bucket := [Photon; Charge; Pixel; Signal; Image].

Record arr := { a_dt : dtype; a_shape : list Z; a_vals : list Z }.

(* the six kinds of container contents that have their own read-out code (`to_xarray`): a photon
   container holds either a 2-D numpy array or a 3-D (wavelength, y, x) DataArray *)
Inductive ckind := KPhoton2 | KPhoton3 | KCharge | KPixel | KSignal | KImage.

Definition all_kinds : list ckind := [KPhoton2; KPhoton3; KCharge; KPixel; KSignal; KImage].

Definition kind_of (b : bucket) (a : arr) : ckind :=
  match b with
  | Photon => if (List.length (a_shape a) =? 3)%nat then KPhoton3 else KPhoton2
  | Charge => KCharge | Pixel => KPixel | Signal => KSignal | Image => KImage
  end.

(* does the read-out of a container of this kind COPY the container's buffer?  As coded: ArrayBase.to_xarray
   and the 2-D branch of Photon.to_xarray build `np.array(self.array, ...)` (a copy), the 3-D branch
   `self._array.astype(...)` (a copy), Charge.to_xarray `self.array.copy()`. *)
Definition copies_as_coded (k : ckind) : bool := true.

Definition all_copy (copies : ckind -> bool) : bool := forallb copies all_kinds.

(* ---- the declarative part of the code, regenerated from the source on every run (translator/c03.py ->
   Gen_C03.v : src_tables, src_shape).  `tables`: what the model is parametrised by, and the theorems are
   stated about; `shape_facts`: constants of the model that are compared with the source inside Coq. ---- *)

Inductive label_src := LAbsolute | LRelative.    (* detector.absolute_time | detector.time *)

Record tables := {
  tb_copies : ckind -> bool;                (* to_xarray of each container kind: does it copy the buffer *)
  tb_relabel : ckind -> bool;               (* to_xarray: are the y / x coordinates SET to the index ranges, whatever the
                                               stored array carries (false: only added when the array has none) *)
  tb_label : label_src;                     (* _extract_datatree_2d: which time labels the slice *)
  tb_exported : list (bucket * bucket);     (* _extract_datatree_2d: variable of the step dataset <- container read *)
  tb_visible : list (bucket * bucket);      (* Detector.to_xarray (debug capture): variable <- container, in order *)
  tb_skip_zero : bucket -> bool }.          (* Detector.to_xarray leaves this variable out when it is all zero *)

Definition id_pairs : list (bucket * bucket) := map (fun b => (b, b)) all_buckets.

Definition tables_as_coded : tables :=
  {| tb_copies := copies_as_coded; tb_relabel := fun _ => true; tb_label := LAbsolute; tb_exported := id_pairs; tb_visible := id_pairs;
     tb_skip_zero := fun b => bucket_eqb b Charge |}.

Fixpoint source_of (t : list (bucket * bucket)) (v : bucket) : option bucket :=
  match t with
  | [] => None
  | (v', src) :: t' => if bucket_eqb v v' then Some src else source_of t' v
  end.

Fixpoint pairs_eqb (a b : list (bucket * bucket)) : bool :=
  match a, b with
  | [], [] => true
  | (x, y) :: a', (x', y') :: b' => bucket_eqb x x' && bucket_eqb y y' && pairs_eqb a' b'
  | _, _ => false
  end.

Definition exports_all_b (t : tables) : bool :=
  forallb (fun v => match source_of (tb_exported t) v with Some src => bucket_eqb src v | None => false end) all_buckets.

Definition visible_std_b (t : tables) : bool :=
  pairs_eqb (tb_visible t) id_pairs
  && forallb (fun b => Bool.eqb (tb_skip_zero t b) (bucket_eqb b Charge)) all_buckets.

Definition label_abs_b (t : tables) : bool := match tb_label t with LAbsolute => true | LRelative => false end.

(* everything the theorems of Properties/C03.v ask of the tables *)
Definition tables_ok (t : tables) : bool :=
  all_copy (tb_copies t) && label_abs_b t && exports_all_b t && visible_std_b t && forallb (tb_relabel t) all_kinds.

Inductive cast_kind := CastKeep | CastF64.
Inductive lguard := GAlways | GHier | GFlat | GDebug | GOutputs.

Record shape_facts := {
  sf_dims : ckind -> list string;           (* to_xarray: dimension names *)
  sf_origin : ckind -> Z * Z;               (* to_xarray: first row / column index of the y / x coordinates *)
  sf_cast : ckind -> cast_kind;             (* to_xarray: dtype kept, or converted to float64 (astype(None)) *)
  sf_time_dim : string;                     (* expand_dims / assign_coords in _extract_datatree_2d *)
  sf_concat_dim : string;                   (* xr.concat(..., dim=) in run_pipeline *)
  sf_concat_order : list string;            (* arguments of the concatenation: accumulated result, then the step *)
  sf_first_step_as_is : bool;               (* `if buckets_data_tree.is_empty: buckets_data_tree = partial` *)
  sf_step_order : list string;              (* per step: reset, run the models, read out, concatenate *)
  sf_reset_flag_negated : bool;             (* detector.empty(not detector.non_destructive_readout) *)
  sf_fix_var : string;                      (* the variable whose dtype is restored ... *)
  sf_fix_guarded : bool;                    (* ... only when the detector holds an image ... *)
  sf_fix_target : string;                   (* ... to the dtype of this container ... *)
  sf_fix_keeps_unsigned : bool;             (* ... unless the variable still has an unsigned integer type *)
  sf_layout : list (string * lguard);       (* keys of the final DataTree, in insertion order, with their guards *)
  sf_scene_forces_hier : bool;
  sf_scene_src : string; sf_data_src : string; sf_inter_src : string;
  sf_vis_ndim_filter : bool;                (* Detector.to_xarray skips uninitialised containers *)
  sf_debug_ref_before_model : bool;         (* ModelGroup.run: the reference is taken before model(detector) ... *)
  sf_debug_ref_deep : bool;                 (* ... as a deep copy *)
  sf_debug_compare : string;                (* np.allclose *)
  sf_debug_path : list string }.            (* node path: time_idx_<pipeline_count> / group / model / variable *)

Fixpoint zlist_eqb (a b : list Z) : bool :=
  match a, b with
  | [], [] => true
  | x :: a', y :: b' => (x =? y) && zlist_eqb a' b'
  | _, _ => false
  end.

Definition arr_eqb (a b : arr) : bool :=
  dtype_eqb (a_dt a) (a_dt b) && zlist_eqb (a_shape a) (a_shape b) && zlist_eqb (a_vals a) (a_vals b).

Definition oarr_eqb (a b : option arr) : bool :=
  match a, b with
  | None, None => true
  | Some x, Some y => arr_eqb x y
  | _, _ => false
  end.

(* what the detector holds in its five array containers; None = uninitialised *)
Record snapshot := {
  s_photon : option arr; s_charge : option arr; s_pixel : option arr;
  s_signal : option arr; s_image : option arr }.

Definition get (s : snapshot) (b : bucket) : option arr :=
  match b with
  | Photon => s_photon s | Charge => s_charge s | Pixel => s_pixel s
  | Signal => s_signal s | Image => s_image s
  end.

Definition set (s : snapshot) (b : bucket) (v : option arr) : snapshot :=
  match b with
  | Photon => {| s_photon := v; s_charge := s_charge s; s_pixel := s_pixel s; s_signal := s_signal s; s_image := s_image s |}
  | Charge => {| s_photon := s_photon s; s_charge := v; s_pixel := s_pixel s; s_signal := s_signal s; s_image := s_image s |}
  | Pixel => {| s_photon := s_photon s; s_charge := s_charge s; s_pixel := v; s_signal := s_signal s; s_image := s_image s |}
  | Signal => {| s_photon := s_photon s; s_charge := s_charge s; s_pixel := s_pixel s; s_signal := v; s_image := s_image s |}
  | Image => {| s_photon := s_photon s; s_charge := s_charge s; s_pixel := s_pixel s; s_signal := s_signal s; s_image := v |}
  end.

Definition snapshot_eqb (a b : snapshot) : bool :=
  forallb (fun k => oarr_eqb (get a k) (get b k)) all_buckets.

(* what _extract_datatree_2d / Detector.to_xarray read out of the detector: Photon.to_xarray converts a
   3-D photon array with astype(None), i.e. to float64 (values unchanged); everything else as held *)
Definition extract (s : snapshot) : snapshot :=
  match s_photon s with
  | Some a => if (List.length (a_shape a) =? 3)%nat
              then set s Photon (Some {| a_dt := F64; a_shape := a_shape a; a_vals := a_vals a |})
              else s
  | None => s
  end.

(* ------------------------------------------------------------------ the dtype of the image variable *)

(* DataArray.astype(t); only unsigned targets change values (wrap modulo 2^width, the value of the
   C cast where it is defined) *)
Definition cast_to (t : dtype) (a : arr) : arr :=
  if dtype_eqb (a_dt a) t then a
  else {| a_dt := t; a_shape := a_shape a;
          a_vals := if is_unsigned t then map (fun v => v mod 2 ^ width t) (a_vals a) else a_vals a |}.

(* "fix the data type of the image": the `image` variable of the concatenated dataset (which has ONE dtype, see
   `promote` below) is cast to the dtype of the image the detector holds now -- unless it still has an unsigned
   integer type (then it is the wider of the readouts' types and nothing was lost).
   cur = the image the detector holds now; nothing is done when it holds none. *)
Definition fix_image (cur : option arr) (s : snapshot) : snapshot :=
  match s_image s, cur with
  | Some a, Some c => if is_unsigned (a_dt a) then s else set s Image (Some (cast_to (a_dt c) a))
  | _, _ => s
  end.

(* ----------------------------------------------------------------------- concatenation along `time` *)

Definition slice := (Z * snapshot)%type.
Definition dataset := list slice.        (* in readout order *)

Definition fix_all (cur : option arr) (d : dataset) : dataset :=
  map (fun ls => (fst ls, fix_image cur (snd ls))) d.

(* ---- one variable, one dtype.  The dtype a slice contributes: its own, float64 (a NaN) where the container
   was not initialised at that step.  `common b d`: numpy's common type of all slices of variable b. ---- *)
Definition odt (o : option arr) : dtype := match o with Some a => a_dt a | None => F64 end.

Definition common (b : bucket) (d : dataset) : dtype :=
  fold_right (fun ls acc => join (odt (get (snd ls) b)) acc) U8 d.

(* conversion to a type that is at least as wide: no value changes *)
Definition widen (t : dtype) (a : arr) : arr := {| a_dt := t; a_shape := a_shape a; a_vals := a_vals a |}.

Definition build_snapshot (f : bucket -> option arr) : snapshot :=
  {| s_photon := f Photon; s_charge := f Charge; s_pixel := f Pixel; s_signal := f Signal; s_image := f Image |}.

Definition promote_slice (cs : bucket -> dtype) (s : snapshot) : snapshot :=
  build_snapshot (fun b => option_map (widen (cs b)) (get s b)).

Definition promote (d : dataset) : dataset :=
  map (fun ls => (fst ls, promote_slice (fun b => common b d) (snd ls))) d.

(* xr.concat([accumulated, step], dim="time") + the dtype restoration *)
Definition concat_step (d : dataset) (x : slice) : dataset :=
  fix_all (s_image (snd x)) (promote (d ++ [x])).

Fixpoint assemble_from (d : dataset) (xs : list slice) : dataset :=
  match xs with
  | [] => d
  | x :: xs' => assemble_from (concat_step d x) xs'
  end.

(* the first step's dataset is taken as it is (`buckets_data_tree.is_empty`) *)
Definition assemble (xs : list slice) : dataset :=
  match xs with
  | [] => []
  | x :: xs' => assemble_from [x] xs'
  end.

Definition bucket_slices (d : dataset) (b : bucket) : list (Z * option arr) :=
  map (fun ls => (fst ls, get (snd ls) b)) d.

(* ------------------------------------------------------------------------------- debug capture *)

Definition capture := list (bucket * arr).

Definition all_zero (a : arr) : bool := forallb (Z.eqb 0) (a_vals a).

(* Detector.to_xarray: initialised containers; charge is skipped when it is all zero *)
Definition visible (s : snapshot) : capture :=
  flat_map (fun b => match get s b with
                     | None => []
                     | Some a => if bucket_eqb b Charge && all_zero a then [] else [(b, a)]
                     end) all_buckets.

Fixpoint cap_lookup (b : bucket) (c : capture) : option arr :=
  match c with
  | [] => None
  | (b', a) :: c' => if bucket_eqb b b' then Some a else cap_lookup b c'
  end.

(* the variables stored in the model's node: those of the capture taken after the model that are absent from,
   or differ (np.allclose on exact small integers = equality of the values) from, the capture taken just
   before the model *)
Definition recorded (before : capture) (ba : bucket * arr) : bool :=
  match cap_lookup (fst ba) before with
  | None => true
  | Some a' => negb (zlist_eqb (a_vals (snd ba)) (a_vals a'))
  end.

Definition diff (before : capture) (cur : capture) : capture := filter (recorded before) cur.

Record inode := { n_step : nat; n_group : string; n_name : string; n_vars : capture }.

(* -------------------------------------------------------------------------------- the exposure *)

Inductive layout := Flat | Hier.

Fixpoint iota (v : Z) (n : nat) : list Z :=
  match n with O => [] | S n' => v :: iota (v + 1) n' end.

Definition range0 (n : Z) : list Z := iota 0 (Z.to_nat n).

Definition coords := (list Z * list Z)%type.      (* y labels, x labels *)

Definition coords_eqb (a b : coords) : bool := zlist_eqb (fst a) (fst b) && zlist_eqb (snd a) (snd b).

(* all the same -> that one; none -> the default *)
Definition agree (dflt : coords) (l : list coords) : option coords :=
  match l with
  | [] => Some dflt
  | c :: l' => if forallb (coords_eqb c) l' then Some c else None
  end.

Section Exposure.
  Context {Scene Data : Type}.
  Variable empty_scene : Scene.
  Variable scene_is_empty : Scene -> bool.
  Variable tbl : tables.                  (* the declarative part of the code (tables_as_coded / the regenerated src_tables) *)

  (* d_gen b: the identity ("generation") of the buffer that container b holds.  A model that changes a
     container IN PLACE (`+=`, `[...] =`, Charge.add_charge_array) keeps it; one that assigns a new array
     (`.array = new`) changes it.  Only equality of the generations of two CONSECUTIVE states is ever used. *)
  (* d_plab: the y / x labels the stored 3-D photon cube carries (None: the cube has no such coordinate; numpy
     buffers never have any) *)
  Record det := { d_snap : snapshot; d_gen : bucket -> nat; d_plab : option (list Z) * option (list Z);
                  d_scene : Scene; d_data : Data }.

  (* a model function: any transformer of the detector, may depend on the step index *)
  Record mdl := { m_group : string; m_name : string; m_fn : nat -> det -> det }.

  Record config := {
    c_shape : list Z;            (* rows; cols *)
    c_start : Z;                 (* start_time, ticks *)
    c_times : list Z;            (* readout times, ticks *)
    c_nondestr : bool;
    c_layout : layout;           (* with_inherited_coords: Hier = True *)
    c_debug : bool;
    c_models : list mdl }.       (* enabled models in execution order *)

  Definition zeros (shp : list Z) : arr :=
    {| a_dt := F64; a_shape := shp; a_vals := repeat 0 (Z.to_nat (fold_right Z.mul 1 shp)) |}.

  (* Detector.empty(reset): scene, photon, signal, image emptied, charge zeroed, pixel zeroed iff reset;
     `data` is left alone.  Zeroing allocates a NEW array (np.zeros / np.zeros_like), emptying drops the
     buffer: every container but a kept pixel array changes its generation. *)
  Definition reset (shp : list Z) (keep_pixel : bool) (d : det) : det :=
    {| d_snap := {| s_photon := None; s_charge := Some (zeros shp);
                    s_pixel := if keep_pixel then s_pixel (d_snap d) else Some (zeros shp);
                    s_signal := None; s_image := None |};
       d_gen := fun b => if keep_pixel && bucket_eqb b Pixel then d_gen d b else S (d_gen d b);
       d_plab := (None, None);
       d_scene := empty_scene; d_data := d_data d |}.

  Definition view (d : det) : snapshot := extract (d_snap d).

  Definition run_models (i : nat) (ms : list mdl) (d : det) : det :=
    fold_left (fun d m => m_fn m i d) ms d.

  Definition step_end (c : config) (i : nat) (d : det) : det :=
    run_models i (c_models c) (reset (c_shape c) (c_nondestr c) d).

  (* detector at the end of steps i, i+1, ..., i+n-1 *)
  Fixpoint end_states (c : config) (i n : nat) (d : det) : list det :=
    match n with
    | O => []
    | S n' => let d' := step_end c i d in d' :: end_states c (S i) n' d'
    end.

  (* ---- read-outs that do not copy: the DataArray stored in the result shares the container's buffer and
     keeps showing what the container holds for as long as the container keeps that buffer ---- *)
  Fixpoint follow (b : bucket) (g : nat) (cur : arr) (tr : list det) : arr :=
    match tr with
    | [] => cur
    | d :: tr' =>
        match get (view d) b with
        | Some a' => if Nat.eqb (d_gen d b) g then follow b g a' tr' else cur
        | None => cur
        end
    end.

  (* an array read out of container src in state d, seen after the detector went through the states `later` *)
  Definition settle_arr (d : det) (later : list det) (src : bucket) (a : arr) : arr :=
    if tb_copies tbl (kind_of src a) then a else follow src (d_gen d src) a later.

  (* _extract_datatree_2d: the variables of the step dataset, each read out of its container *)
  Definition export (s : snapshot) : snapshot :=
    build_snapshot (fun v => match source_of (tb_exported tbl) v with Some src => get s src | None => None end).

  Definition settle_export (d : det) (later : list det) (s : snapshot) : snapshot :=
    build_snapshot (fun v => match source_of (tb_exported tbl) v with
                             | Some src => option_map (settle_arr d later src) (get s src)
                             | None => None
                             end).

  (* Detector.to_xarray: the initialised containers of the table; a skip-zero variable is left out when all zero *)
  Definition visible_t (s : snapshot) : capture :=
    flat_map (fun vs => match get s (snd vs) with
                        | None => []
                        | Some a => if tb_skip_zero tbl (fst vs) && all_zero a then [] else [(fst vs, a)]
                        end) (tb_visible tbl).

  (* a variable of a debug node, read out of state d *)
  Definition settle (d : det) (later : list det) (ba : bucket * arr) : bucket * arr :=
    match source_of (tb_visible tbl) (fst ba) with
    | Some src => (fst ba, settle_arr d later src (snd ba))
    | None => ba
    end.

  Fixpoint model_states (i : nat) (ms : list mdl) (d : det) : list det :=
    match ms with
    | [] => []
    | m :: ms' => let d' := m_fn m i d in d' :: model_states i ms' d'
    end.

  (* every state the detector goes through from step i on: after the reset, after each model *)
  Fixpoint trace (c : config) (i n : nat) (d : det) : list det :=
    match n with
    | O => []
    | S n' =>
        let d0 := reset (c_shape c) (c_nondestr c) d in
        d0 :: model_states i (c_models c) d0 ++ trace c (S i) n' (run_models i (c_models c) d0)
    end.

  (* ModelGroup.run with debug: a deep copy of Detector.to_xarray() is taken just before the model, the
     detector is read out again just after it, and the variables that differ are stored in the model's node *)
  Fixpoint debug_models (i : nat) (ms : list mdl) (d : det) : list inode :=
    match ms with
    | [] => []
    | m :: ms' =>
        let before := visible_t (view d) in
        let d' := m_fn m i d in
        let cur := visible_t (view d') in
        {| n_step := i; n_group := m_group m; n_name := m_name m; n_vars := diff before cur |}
          :: debug_models i ms' d'
    end.

  (* the k-th node was read out of the k-th state; it is looked at when the run is over *)
  Fixpoint settle_nodes (ns : list inode) (sts : list det) (later : list det) : list inode :=
    match ns, sts with
    | n :: ns', d :: sts' =>
        {| n_step := n_step n; n_group := n_group n; n_name := n_name n;
           n_vars := map (settle d (sts' ++ later)) (n_vars n) |} :: settle_nodes ns' sts' later
    | _, _ => []
    end.

  Fixpoint debug_steps (c : config) (i n : nat) (d : det) : list inode :=
    match n with
    | O => []
    | S n' =>
        let d0 := reset (c_shape c) (c_nondestr c) d in
        let dend := run_models i (c_models c) d0 in
        settle_nodes (debug_models i (c_models c) d0) (model_states i (c_models c) d0) (trace c (S i) n' dend)
          ++ debug_steps c (S i) n' dend
    end.

  Record tree := {
    t_bucket_path : string;               (* node that holds the bucket variables *)
    t_children : list string;             (* children of the root, in order *)
    t_buckets : dataset;
    t_coords : option coords;             (* y / x labels of the bucket node; None: variables had to be aligned *)
    t_inter : option (list inode);
    t_scene : Scene;
    t_data : Data }.

  (* a non-empty scene forces the hierarchical layout (run_pipeline warns and sets the flag) *)
  Definition effective_layout (l : layout) (sc : Scene) : layout :=
    if scene_is_empty sc then l else Hier.

  Definition bucket_path (l : layout) : string :=
    match l with Flat => "/"%string | Hier => "/bucket"%string end.

  Definition children (l : layout) (debug : bool) : list string :=
    (match l with Flat => [] | Hier => ["bucket"%string] end)
       ++ (if debug then ["intermediate"%string] else []) ++ ["scene"%string; "data"%string].

  Definition labels (c : config) : list Z :=
    match tb_label tbl with
    | LAbsolute => map (Z.add (c_start c)) (c_times c)
    | LRelative => c_times c
    end.

  (* what the result holds of each step: the read-out of the detector at the end of the step.  The first
     step's dataset is kept AS IT IS until the concatenation at the end of the second step (which allocates
     new arrays), so a read-out that does not copy still shares the detector's buffer while the second step runs. *)
  Definition views (c : config) (ends : list det) : list snapshot :=
    match ends with
    | [] => []
    | e0 :: rest =>
        let later := match rest with
                     | [] => []
                     | _ :: _ => let d1 := reset (c_shape c) (c_nondestr c) e0 in d1 :: model_states 1 (c_models c) d1
                     end in
        settle_export e0 later (view e0) :: map (fun d => export (view d)) rest
    end.

  (* ---- the y / x labels.  A variable read out of container src carries the index ranges when its read-out
     sets them; otherwise (3-D photon cube only: numpy buffers carry no labels) what the stored cube carries.
     `dataset[key] = data_array` and xr.concat ALIGN variables whose labels differ (re-indexing, NaN-filling): the
     model only describes the result when there is nothing to align -- all variables of all steps carry the same
     labels -- and says None otherwise. ---- *)
  Definition index_coords (shp : list Z) : coords := (range0 (nth 0 shp 0), range0 (nth 1 shp 0)).

  Definition var_coords (shp : list Z) (d : det) (src : bucket) (a : arr) : coords :=
    let k := kind_of src a in
    if tb_relabel tbl k then index_coords shp
    else match k with
         | KPhoton3 => (match fst (d_plab d) with Some l => l | None => fst (index_coords shp) end,
                        match snd (d_plab d) with Some l => l | None => snd (index_coords shp) end)
         | _ => index_coords shp
         end.

  (* the labels of every variable of the step dataset read out of state d *)
  Definition step_var_coords (shp : list Z) (d : det) : list coords :=
    flat_map (fun vs => match get (view d) (snd vs) with
                        | Some a => [var_coords shp d (snd vs) a]
                        | None => []
                        end) (tb_exported tbl).

  (* no variable at all: the dataset has no y / x coordinate *)
  Definition result_coords (shp : list Z) (ends : list det) : option coords :=
    agree ([], []) (flat_map (step_var_coords shp) ends).

  Definition exposure (c : config) (d_init : det) : tree :=
    let d0 := reset (c_shape c) false d_init in
    let n := List.length (c_times c) in
    let ends := end_states c 0 n d0 in
    let final := last ends d0 in
    let l := effective_layout (c_layout c) (d_scene final) in
    {| t_bucket_path := bucket_path l;
       t_children := children l (c_debug c);
       t_buckets := assemble (combine (labels c) (views c ends));
       t_coords := result_coords (c_shape c) ends;
       t_inter := if c_debug c then Some (debug_steps c 0 n d0) else None;
       t_scene := d_scene final;
       t_data := d_data final |}.

  (* the result with the debug nodes removed *)
  Definition strip_debug (t : tree) : tree :=
    {| t_bucket_path := t_bucket_path t;
       t_children := filter (fun s => negb (String.eqb s "intermediate")) (t_children t);
       t_buckets := t_buckets t; t_coords := t_coords t; t_inter := None; t_scene := t_scene t; t_data := t_data t |}.

  Definition with_debug (c : config) (b : bool) : config :=
    {| c_shape := c_shape c; c_start := c_start c; c_times := c_times c; c_nondestr := c_nondestr c;
       c_layout := c_layout c; c_debug := b; c_models := c_models c |}.

  Definition with_layout (c : config) (l : layout) : config :=
    {| c_shape := c_shape c; c_start := c_start c; c_times := c_times c; c_nondestr := c_nondestr c;
       c_layout := l; c_debug := c_debug c; c_models := c_models c |}.
End Exposure.

Arguments det : clear implicits.
Arguments mdl : clear implicits.
Arguments config : clear implicits.
Arguments tree : clear implicits.

(* ---- the debug record the property asks for: after each model, the (visible) buckets whose values
   differ from what the detector held JUST BEFORE that model ran ---- *)
Section DebugSpec.
  Context {Scene Data : Type}.
  Variable empty_scene : Scene.

  Definition changed_by (before after : snapshot) : capture :=
    diff (visible before) (visible after).

  Fixpoint ideal_models (i : nat) (ms : list (mdl Scene Data)) (d : det Scene Data) : list inode :=
    match ms with
    | [] => []
    | m :: ms' =>
        let d' := m_fn m i d in
        {| n_step := i; n_group := m_group m; n_name := m_name m;
           n_vars := changed_by (view d) (view d') |} :: ideal_models i ms' d'
    end.

  Fixpoint ideal_steps (c : config Scene Data) (i n : nat) (d : det Scene Data) : list inode :=
    match n with
    | O => []
    | S n' =>
        let d0 := reset empty_scene (c_shape c) (c_nondestr c) d in
        ideal_models i (c_models c) d0 ++ ideal_steps c (S i) n' (run_models i (c_models c) d0)
    end.
End DebugSpec.

(* ------------------------------------------------------------------------ hypotheses of C03_slices *)

(* image initialised in no step, or in every step with an unsigned integer type -- any of them, it may differ from
   step to step -- and any values *)
Definition image_regular (snaps : list snapshot) : Prop :=
  (forall s, In s snaps -> s_image s = None) \/
  (forall s, In s snaps -> exists a, s_image s = Some a /\ is_unsigned (a_dt a) = true).

(* variable b has the same dtype at every step: initialised in no step, or in every step with one dtype *)
Definition uniform (b : bucket) (d : dataset) : Prop :=
  (forall ls, In ls d -> get (snd ls) b = None) \/
  (exists t, forall ls, In ls d -> exists a, get (snd ls) b = Some a /\ a_dt a = t).

(* ===================================================================== correspondence case files *)

(* ---- the probe programs used by the harness: a model is a list of writes ---- *)

Definition payload := list (string * list Z).      (* scene / data nodes: path -> values *)

(* WAssign: a new array replaces the container's (`.array = new`, `.array_3d = new`; charge: `empty()` then
   `add_charge_array`).  WIAdd: added to the container's buffer in place (`+=`, Charge.add_charge_array).
   WISet: the buffer is overwritten in place (`.array[...] = new`).  On an uninitialised container the two
   in-place modes can only initialise it (a new buffer). *)
Inductive wmode := WAssign | WIAdd | WISet.

Record write := {
  w_bucket : bucket;
  w_dt : dtype;
  w_dts : list dtype;            (* the dtype written at step i when the list has an i-th entry (else w_dt) *)
  w_waves : Z;                   (* photon only: 0 = 2-D array, k >= 1 = 3-D with k wavelengths *)
  w_ylab : option (list Z);      (* 3-D photon only: the y / x labels the cube handed to the container carries *)
  w_xlab : option (list Z);
  w_mode : wmode;
  w_per_step : list Z }.         (* base value at step i; the array is base + 0, base + 1, ... *)

Inductive action :=
| AWrite (w : write)
| AData (key : string) (per_step : list Z)     (* detector.data[key] = [v_i] : kept across steps *)
| AScene (key : string) (per_step : list Z)    (* detector.scene gets one source list [v_i] *)
| ANop.                                        (* recorder / no-op model *)

Definition nelems (shp : list Z) : nat := Z.to_nat (fold_right Z.mul 1 shp).

Definition add_lists (a b : list Z) : list Z := map (fun p => fst p + snd p) (combine a b).

(* -> the containers after the write, and whether the written container got a NEW buffer *)
Definition apply_write (shp : list Z) (i : nat) (w : write) (s : snapshot) : snapshot * bool :=
  let v := nth i (w_per_step w) 0 in
  let b := w_bucket w in
  let shp' := match b with
              | Photon => if w_waves w =? 0 then shp else w_waves w :: shp
              | _ => shp
              end in
  let dt := match b with Charge => F64 | _ => nth i (w_dts w) (w_dt w) end in
  let fresh := {| a_dt := dt; a_shape := shp'; a_vals := iota v (nelems shp') |} in
  if v <? 0 then (s, false)        (* a negative entry: the writer does nothing at this step *)
  else
  match w_mode w, get s b with
  | WAssign, _ | _, None => (set s b (Some fresh), true)
  | WIAdd, Some old =>
      (set s b (Some {| a_dt := a_dt old; a_shape := a_shape old;
                        a_vals := add_lists (a_vals old) (a_vals fresh) |}), false)
  | WISet, Some old =>
      (set s b (Some {| a_dt := a_dt old; a_shape := a_shape old; a_vals := a_vals fresh |}), false)
  end.

Fixpoint pl_set (k : string) (v : list Z) (p : payload) : payload :=
  match p with
  | [] => [(k, v)]
  | (k', v') :: p' => if String.eqb k k' then (k, v) :: p' else (k', v') :: pl_set k v p'
  end.

Definition pdet := det payload payload.
Definition pmdl := mdl payload payload.

Definition apply_action (shp : list Z) (a : action) (i : nat) (d : pdet) : pdet :=
  match a with
  | AWrite w =>
      let r := apply_write shp i w (d_snap d) in
      {| d_snap := fst r;
         d_gen := fun b => if snd r && bucket_eqb b (w_bucket w) then S (d_gen d b) else d_gen d b;
         (* a new photon buffer brings its own labels (a numpy array: none); an in-place change keeps the cube's *)
         d_plab := if snd r && bucket_eqb (w_bucket w) Photon
                   then (if w_waves w =? 0 then (None, None) else (w_ylab w, w_xlab w))
                   else d_plab d;
         d_scene := d_scene d; d_data := d_data d |}
  | AData k vs => {| d_snap := d_snap d; d_gen := d_gen d; d_plab := d_plab d; d_scene := d_scene d;
                     d_data := pl_set k [nth i vs 0] (d_data d) |}
  | AScene k vs => {| d_snap := d_snap d; d_gen := d_gen d; d_plab := d_plab d;
                      d_scene := pl_set k [nth i vs 0] (d_scene d); d_data := d_data d |}
  | ANop => d
  end.

Record pmodel := { pm_group : string; pm_name : string; pm_actions : list action }.

Definition mdl_of (shp : list Z) (m : pmodel) : pmdl :=
  {| m_group := pm_group m; m_name := pm_name m;
     m_fn := fun i d => fold_left (fun d a => apply_action shp a i d) (pm_actions m) d |}.

(* DataTree.is_empty looks at the variables of the root node only, not at the children *)
Fixpoint has_slash (s : string) : bool :=
  match s with
  | EmptyString => false
  | String c s' => Ascii.eqb c "/"%char || has_slash s'
  end.

Definition is_root_key (k : string) : bool :=
  match k with
  | String c rest => if Ascii.eqb c "/"%char then negb (has_slash rest) else negb (has_slash k)
  | EmptyString => true
  end.

Definition payload_is_empty (p : payload) : bool := negb (existsb (fun kv => is_root_key (fst kv)) p).

Definition blank : snapshot :=
  {| s_photon := None; s_charge := None; s_pixel := None; s_signal := None; s_image := None |}.

Definition pdet0 : pdet := {| d_snap := blank; d_gen := fun _ => O; d_plab := (None, None); d_scene := []; d_data := [] |}.

(* ---- what the driver observed ---- *)

(* one data variable of the bucket node: dtype, dimension names, shape, flat values.
   A variable that is NaN along `time` only (container never initialised) is reported with dims
   ["time"] and no values. *)
Record ovar := { ov_bucket : bucket; ov_dt : dtype; ov_dims : list string; ov_shape : list Z; ov_vals : list Z }.

Record otree := {
  o_bucket_path : string;
  o_children : list string;
  o_time : list Z;
  o_y : list Z;
  o_x : list Z;
  o_wl : list Z;                       (* labels of the `wavelength` coordinate ([] : none) *)
  o_vars : list ovar;
  o_inter : option (list inode);
  o_scene : payload;
  o_data : payload }.

(* per-model record of the writer probes: visible buckets before and after the model ran *)
Record mrec := { r_step : nat; r_group : string; r_name : string; r_before : capture; r_after : capture }.

Record case := {
  k_rows : Z; k_cols : Z;
  k_start : Z; k_times : list Z; k_nondestr : bool; k_hier : bool; k_debug : bool;
  k_models : list pmodel;
  k_result : option otree;             (* None: the run raised *)
  k_result_nodebug : option otree;     (* the same run with debug off (given when k_debug) *)
  k_snaps : list (Z * snapshot);       (* the last-running recorder: absolute_time, containers *)
  k_wl : list (list Z);                (* ... and the wavelength labels of the photon cube it held ([] : no cube) *)
  k_scene_seen : payload;              (* scene / data held by the detector at the end of the last step *)
  k_data_seen : payload;
  k_mrecs : list mrec }.

(* ---- comparing a dataset with the observed variables ---- *)

Fixpoint chunks {A} (k : nat) (n : nat) (l : list A) : list (list A) :=
  match n with O => [] | S n' => firstn k l :: chunks k n' (skipn k l) end.

Fixpoint string_list_eqb (a b : list string) : bool :=
  match a, b with
  | [], [] => true
  | x :: a', y :: b' => String.eqb x y && string_list_eqb a' b'
  | _, _ => false
  end.

Fixpoint find_var (b : bucket) (vs : list ovar) : option ovar :=
  match vs with
  | [] => None
  | v :: vs' => if bucket_eqb b (ov_bucket v) then Some v else find_var b vs'
  end.

Definition expected_dims (a : arr) : list string :=
  if (List.length (a_shape a) =? 3)%nat
  then ["time"%string; "wavelength"%string; "y"%string; "x"%string]
  else ["time"%string; "y"%string; "x"%string].

(* the driver reports NaN (and any value that is not an integer) as this number *)
Definition nan_mark : Z := -777777.

Definition is_none {A} (o : option A) : bool := match o with None => true | Some _ => false end.

Fixpoint first_some {A} (l : list (option A)) : option A :=
  match l with
  | [] => None
  | Some a :: _ => Some a
  | None :: l' => first_some l'
  end.

(* does the observed variable of bucket b consist of exactly the given slices (in order)?  A step at which the
   container was not initialised gives an all-NaN slice (and makes the variable float64: xr.concat broadcasts
   the NaN scalar of that step against the arrays of the others).
   exact = true  (model vs implementation): the slices are those of the model's result, which carry the dtype of
                 the variable;
   exact = false (specification): the slices are what the detector held (each in its own dtype): the VALUES and
                 shapes must be those; an image variable must have the image's unsigned type -- when the type
                 differs between the steps, the narrowest type that holds them all (`join`). *)
Definition var_matches (exact : bool) (n : nat) (b : bucket) (sl : list (option arr)) (vs : list ovar) : bool :=
  match find_var b vs with
  | None => false
  | Some v =>
      match first_some sl with
      | None =>
          (* never initialised: NaN along time only *)
          negb (Nat.eqb (List.length sl) 0)
          && string_list_eqb (ov_dims v) ["time"%string] && zlist_eqb (ov_shape v) [Z.of_nat n]
          && match ov_vals v with [] => true | _ => false end      (* the driver: [] = all NaN *)
      | Some a0 =>
          let k := List.length (a_vals a0) in
          let mixed := existsb is_none sl in
          string_list_eqb (ov_dims v) (expected_dims a0)
          && zlist_eqb (ov_shape v) (Z.of_nat n :: a_shape a0)
          && (List.length (ov_vals v) =? n * k)%nat
          && forallb (fun p => match fst p with
                               | None => forallb (Z.eqb nan_mark) (snd p)
                               | Some a => (negb exact || dtype_eqb (a_dt a) (ov_dt v))
                                           && (negb (bucket_eqb b Image) || mixed
                                               || dtype_eqb (ov_dt v) (fold_right (fun o acc => join (odt o) acc) U8 sl))
                                           && zlist_eqb (a_shape a) (a_shape a0)
                                           && zlist_eqb (a_vals a) (snd p)
                               end) (combine sl (chunks k n (ov_vals v)))
      end
  end.

(* what is judged: every bucket initialised in every step or in none, and the float buckets initialised in some
   steps only (an integer image that is missing at some step goes through NaN and a cast: not judged) *)
Definition judged (b : bucket) (sl : list (option arr)) : bool :=
  forallb is_none sl || forallb (fun o => negb (is_none o)) sl || negb (bucket_eqb b Image).

Definition dataset_matches (exact : bool) (yx : coords) (ds : dataset) (o : otree) : bool :=
  let n := List.length ds in
  zlist_eqb (o_time o) (map fst ds)
  && zlist_eqb (o_y o) (fst yx) && zlist_eqb (o_x o) (snd yx)
  && (List.length (o_vars o) =? 5)%nat
  && forallb (fun b => let sl := map (fun ls => get (snd ls) b) ds in
                       negb (judged b sl) || var_matches exact n b sl (o_vars o)) all_buckets.

(* an integer image initialised in SOME steps only, the last one included.  Every concatenation after a step without
   the image gives a float variable (NaN slices); the restoration of run_pipeline (#652) must bring the variable back
   to the image's unsigned type.  With one dtype in all initialised steps the variable has that dtype and the
   initialised slices are what the detector held (integers below 2^53 pass through float64 unchanged); the slices
   of the steps without an image come from casting NaN: not judged.  (Image missing at the LAST step: the variable
   stays float64 -- there is no image whose type it could keep: not judged.) *)
Definition image_restored (ds : dataset) (o : otree) : bool :=
  let sl := map (fun ls => get (snd ls) Image) ds in
  let n := List.length ds in
  if existsb is_none sl && negb (is_none (last sl None)) then
    match find_var Image (o_vars o), first_some sl with
    | Some v, Some a0 =>
        let k := List.length (a_vals a0) in
        is_unsigned (ov_dt v)
        && (negb (forallb (fun s => match s with None => true | Some a => dtype_eqb (a_dt a) (a_dt a0) end) sl)
            || (dtype_eqb (ov_dt v) (a_dt a0)
                && zlist_eqb (ov_shape v) (Z.of_nat n :: a_shape a0)
                && (List.length (ov_vals v) =? n * k)%nat
                && forallb (fun p => match fst p with
                                     | None => true
                                     | Some a => zlist_eqb (a_shape a) (a_shape a0) && zlist_eqb (a_vals a) (snd p)
                                     end) (combine sl (chunks k n (ov_vals v)))))
    | _, _ => false
    end
  else true.

Fixpoint capture_eqb (a b : capture) : bool :=
  match a, b with
  | [], [] => true
  | (x, u) :: a', (y, v) :: b' => bucket_eqb x y && arr_eqb u v && capture_eqb a' b'
  | _, _ => false
  end.

Definition inode_eqb (a b : inode) : bool :=
  Nat.eqb (n_step a) (n_step b) && String.eqb (n_group a) (n_group b)
  && String.eqb (n_name a) (n_name b) && capture_eqb (n_vars a) (n_vars b).

Fixpoint inodes_eqb (a b : list inode) : bool :=
  match a, b with
  | [], [] => true
  | x :: a', y :: b' => inode_eqb x y && inodes_eqb a' b'
  | _, _ => false
  end.

Fixpoint payload_eqb (a b : payload) : bool :=
  match a, b with
  | [], [] => true
  | (k, v) :: a', (k', v') :: b' => String.eqb k k' && zlist_eqb v v' && payload_eqb a' b'
  | _, _ => false
  end.

Definition ovar_eqb (a b : ovar) : bool :=
  bucket_eqb (ov_bucket a) (ov_bucket b) && dtype_eqb (ov_dt a) (ov_dt b)
  && string_list_eqb (ov_dims a) (ov_dims b) && zlist_eqb (ov_shape a) (ov_shape b)
  && zlist_eqb (ov_vals a) (ov_vals b).

Fixpoint ovars_eqb (a b : list ovar) : bool :=
  match a, b with
  | [], [] => true
  | x :: a', y :: b' => ovar_eqb x y && ovars_eqb a' b'
  | _, _ => false
  end.

(* ---- the constants of the model that are compared with the source (Gen_C03.src_shape) ---- *)

Definition shape_as_modelled : shape_facts :=
  {| sf_dims := fun k => match k with
                         | KPhoton3 => ["wavelength"%string; "y"%string; "x"%string]
                         | _ => ["y"%string; "x"%string]
                         end;
     sf_origin := fun _ => (0, 0);
     sf_cast := fun k => match k with KPhoton3 => CastF64 | _ => CastKeep end;
     sf_time_dim := "time"; sf_concat_dim := "time";
     sf_concat_order := ["accumulated"%string; "step"%string];
     sf_first_step_as_is := true;
     sf_step_order := ["reset"%string; "run"%string; "extract"%string; "concat"%string];
     sf_reset_flag_negated := true;
     sf_fix_var := "image"; sf_fix_guarded := true; sf_fix_target := "image"; sf_fix_keeps_unsigned := true;
     sf_layout := [("/bucket"%string, GHier); ("/"%string, GFlat); ("/intermediate"%string, GDebug);
                   ("/output"%string, GOutputs); ("/scene"%string, GAlways); ("/data"%string, GAlways)];
     sf_scene_forces_hier := true;
     sf_scene_src := "detector.scene.data"; sf_data_src := "detector.data"; sf_inter_src := "detector.intermediate";
     sf_vis_ndim_filter := true;
     sf_debug_ref_before_model := true; sf_debug_ref_deep := true; sf_debug_compare := "allclose";
     sf_debug_path := ["time_idx"%string; "group"%string; "model"%string; "name"%string] |}.

Definition cast_eqb (a b : cast_kind) : bool :=
  match a, b with CastKeep, CastKeep | CastF64, CastF64 => true | _, _ => false end.

Definition lguard_eqb (a b : lguard) : bool :=
  match a, b with
  | GAlways, GAlways | GHier, GHier | GFlat, GFlat | GDebug, GDebug | GOutputs, GOutputs => true
  | _, _ => false
  end.

Fixpoint layout_eqb (a b : list (string * lguard)) : bool :=
  match a, b with
  | [], [] => true
  | (k, g) :: a', (k', g') :: b' => String.eqb k k' && lguard_eqb g g' && layout_eqb a' b'
  | _, _ => false
  end.

Definition shape_eqb (a b : shape_facts) : bool :=
  forallb (fun k => string_list_eqb (sf_dims a k) (sf_dims b k)
                    && (fst (sf_origin a k) =? fst (sf_origin b k)) && (snd (sf_origin a k) =? snd (sf_origin b k))
                    && cast_eqb (sf_cast a k) (sf_cast b k)) all_kinds
  && String.eqb (sf_time_dim a) (sf_time_dim b) && String.eqb (sf_concat_dim a) (sf_concat_dim b)
  && string_list_eqb (sf_concat_order a) (sf_concat_order b)
  && Bool.eqb (sf_first_step_as_is a) (sf_first_step_as_is b)
  && string_list_eqb (sf_step_order a) (sf_step_order b)
  && Bool.eqb (sf_reset_flag_negated a) (sf_reset_flag_negated b)
  && String.eqb (sf_fix_var a) (sf_fix_var b) && Bool.eqb (sf_fix_guarded a) (sf_fix_guarded b)
  && String.eqb (sf_fix_target a) (sf_fix_target b)
  && Bool.eqb (sf_fix_keeps_unsigned a) (sf_fix_keeps_unsigned b)
  && layout_eqb (sf_layout a) (sf_layout b)
  && Bool.eqb (sf_scene_forces_hier a) (sf_scene_forces_hier b)
  && String.eqb (sf_scene_src a) (sf_scene_src b) && String.eqb (sf_data_src a) (sf_data_src b)
  && String.eqb (sf_inter_src a) (sf_inter_src b)
  && Bool.eqb (sf_vis_ndim_filter a) (sf_vis_ndim_filter b)
  && Bool.eqb (sf_debug_ref_before_model a) (sf_debug_ref_before_model b)
  && String.eqb (sf_debug_compare a) (sf_debug_compare b)
  && string_list_eqb (sf_debug_path a) (sf_debug_path b).

(* the keys of the final DataTree that the layout table gives for a run (outputs are never saved by the model) *)
Definition layout_keys (sf : shape_facts) (l : layout) (debug : bool) : list string :=
  map fst (filter (fun kg => match snd kg with
                             | GAlways => true
                             | GHier => match l with Hier => true | Flat => false end
                             | GFlat => match l with Flat => true | Hier => false end
                             | GDebug => debug
                             | GOutputs => false
                             end) (sf_layout sf)).

Definition strip_slash (s : string) : string :=
  match s with String c r => if Ascii.eqb c "/"%char then r else s | EmptyString => s end.

(* bucket node path, children of the root *)
Definition layout_view (sf : shape_facts) (l : layout) (debug : bool) : string * list string :=
  let ks := layout_keys sf l debug in
  (match l with Flat => "/"%string | Hier => "/bucket"%string end,
   map strip_slash (filter (fun k => negb (String.eqb k "/")) ks)).

(* ---- the model's prediction for a case ---- *)

Definition config_of (k : case) : config payload payload :=
  {| c_shape := [k_rows k; k_cols k]; c_start := k_start k; c_times := k_times k;
     c_nondestr := k_nondestr k; c_layout := if k_hier k then Hier else Flat; c_debug := k_debug k;
     c_models := map (mdl_of [k_rows k; k_cols k]) (k_models k) |}.

Definition model_tree (tbl : tables) (k : case) : option (tree payload payload) :=
  Some (exposure [] payload_is_empty tbl (config_of k) pdet0).

Definition tree_matches (k : case) (t : tree payload payload) (o : otree) : bool :=
  String.eqb (t_bucket_path t) (o_bucket_path o)
  && string_list_eqb (t_children t) (o_children o)
  && match t_coords t with
     | Some yx => dataset_matches true yx (t_buckets t) o
     | None => false                     (* variables had to be aligned: outside the model *)
     end
  && match t_inter t, o_inter o with
     | None, None => true
     | Some a, Some b => inodes_eqb a b
     | _, _ => false
     end
  && payload_eqb (t_scene t) (o_scene o) && payload_eqb (t_data t) (o_data o).

(* model <> implementation *)
Definition case_mismatch (tbl : tables) (k : case) : bool :=
  match model_tree tbl k, k_result k with
  | None, None => false
  | Some t, Some o => negb (tree_matches k t o)
  | _, _ => true
  end.

(* ---- the specification, judged on what the implementation returned and what the probes saw ---- *)

(* clause numbers: 1 run raised; 2 slices/labels/coordinates/dtypes <> per-step snapshots;
   3 node paths; 4 scene/data not passed through; 5 debug changed the result;
   6 intermediate nodes <> buckets the model changed *)

Definition changed (r : mrec) : capture :=
  filter (fun ba => match cap_lookup (fst ba) (r_before r) with
                    | None => true
                    | Some a' => negb (zlist_eqb (a_vals (snd ba)) (a_vals a'))
                    end) (r_after r).

Definition arr_same (b : bucket) (u v : arr) : bool :=
  (negb (bucket_eqb b Image) || dtype_eqb (a_dt u) (a_dt v))
  && zlist_eqb (a_shape u) (a_shape v) && zlist_eqb (a_vals u) (a_vals v).

Fixpoint capture_same (a b : capture) : bool :=
  match a, b with
  | [], [] => true
  | (x, u) :: a', (y, v) :: b' => bucket_eqb x y && arr_same x u v && capture_same a' b'
  | _, _ => false
  end.

Fixpoint inodes_same (a b : list inode) : bool :=
  match a, b with
  | [], [] => true
  | x :: a', y :: b' =>
      Nat.eqb (n_step x) (n_step y) && String.eqb (n_group x) (n_group y)
      && String.eqb (n_name x) (n_name y) && capture_same (n_vars x) (n_vars y) && inodes_same a' b'
  | _, _ => false
  end.

Definition inode_of_mrec (r : mrec) : inode :=
  {| n_step := r_step r; n_group := r_group r; n_name := r_name r; n_vars := changed r |}.

Definition same_buckets (a b : otree) : bool :=
  String.eqb (o_bucket_path a) (o_bucket_path b)
  && zlist_eqb (o_time a) (o_time b) && zlist_eqb (o_y a) (o_y b) && zlist_eqb (o_x a) (o_x b)
  && zlist_eqb (o_wl a) (o_wl b)
  && ovars_eqb (o_vars a) (o_vars b) && payload_eqb (o_scene a) (o_scene b)
  && payload_eqb (o_data a) (o_data b)
  && string_list_eqb (filter (fun s => negb (String.eqb s "intermediate")) (o_children a)) (o_children b).

(* the wavelength labels of the result are those of the cubes the detector held (judged when it held a cube with
   the same labels at the end of every step) *)
Definition wavelengths_ok (k : case) (o : otree) : bool :=
  match k_wl k with
  | [] => true
  | w :: ws => match w with
               | [] => true
               | _ => negb (forallb (zlist_eqb w) ws) || zlist_eqb (o_wl o) w
               end
  end.

Definition spec_clauses (k : case) : list Z :=
  match k_result k with
  | None => [1]
  | Some o =>
      let want_labels := map (Z.add (k_start k)) (k_times k) in
      let hier := k_hier k || negb (payload_is_empty (k_scene_seen k)) in
      (if zlist_eqb (map fst (k_snaps k)) want_labels
          && dataset_matches false (range0 (k_rows k), range0 (k_cols k)) (k_snaps k) o
          && image_restored (k_snaps k) o
          && wavelengths_ok k o then [] else [2])
      ++ (if String.eqb (o_bucket_path o) (if hier then "/bucket" else "/")
             && string_list_eqb (o_children o)
                  (children (if hier then Hier else Flat) (k_debug k)) then [] else [3])
      ++ (if payload_eqb (o_scene o) (k_scene_seen k) && payload_eqb (o_data o) (k_data_seen k)
          then [] else [4])
      ++ (if k_debug k then
            match k_result_nodebug k with
            | Some o' => if same_buckets o o' then [] else [5]
            | None => [5]
            end
          else [])
      ++ (if k_debug k then
            match o_inter o with
            | Some ns => if inodes_same ns (map inode_of_mrec (k_mrecs k)) then [] else [6]
            | None => [6]
            end
          else match o_inter o with None => [] | Some _ => [6] end)
  end.

Fixpoint indices_where {A} (f : A -> bool) (l : list A) (i : Z) : list Z :=
  match l with
  | [] => []
  | x :: l' => (if f x then [i] else []) ++ indices_where f l' (i + 1)
  end.

Definition mismatches (tbl : tables) (cs : list case) : list Z := indices_where (case_mismatch tbl) cs 0.

(* violations: flat list of  index * 10 + clause *)
Fixpoint violations_from (cs : list case) (i : Z) : list Z :=
  match cs with
  | [] => []
  | k :: cs' => map (fun c => i * 10 + c) (spec_clauses k) ++ violations_from cs' (i + 1)
  end.

Definition violations (cs : list case) : list Z := violations_from cs 0.
