(* C10, second layer: (1) a DESCRIPTION language for the four small functions that walk the calibration
   decision vector, filled in on every run by translator/c10.py from the current source

     pyxel/observation/parameter_values.py   ParameterValues.__init__ / .boundaries     -> d_pv_rows, sb_getter
     pyxel/calibration/fitting_datatree.py   ModelFittingDataTree._set_bound            -> sb_desc
                                             ModelFittingDataTree.convert_to_parameters -> cv_desc
                                             ModelFittingDataTree.update_processor      -> up_desc
                                             ModelFittingDataTree.__init__ / fitness    -> d_init_copy, d_fit_converts

   (2) generic interpreters of a description (`g_bounds_from`, `g_convert`, `g_assign`) - the loops with
   their running offset `a`, the slice arithmetic as linear forms in (a, b), the branch taken by a scalar
   ("_") and by a list of placeholders, which side gets log10 and how (rebinding or IN PLACE), which
   boundaries shape a branch accepts;
   (3) an explicit OBJECT STORE (the ParameterValues objects held by a Calibration, a heap of processors,
   the problems built so far) and the effect of every operation of a history on it: building a problem,
   get_bounds, convert_to_parameters, fitness, update_processor - any number of times, in any order, on the
   same objects;
   (4) the instance on symbolic values that the correspondence leg evaluates, and the specification of a
   history (declaration only, history-free).

   No proofs in this file (Proofs/DecisionSrc.v). *)
From Coq Require Import List Bool Arith String ZArith QArith Qabs Qround.
From PyxelV Require Import Model.Decision.
Import ListNotations.
Local Close Scope Q_scope.
Local Open Scope nat_scope.

(* ==================================================================== description language *)

(* an integer expression of the loop body, normalised: c + ca * a + cb * b *)
Record lin := mkLin { l_c : nat; l_a : nat; l_b : nat }.
Definition lin_eval (e : lin) (a b : nat) : nat := l_c e + l_a e * a + l_b e * b.
Definition lin_a : lin := mkLin 0 1 0.       (* a *)
Definition lin_ab : lin := mkLin 0 1 1.      (* a + b *)

(* the width `b` of a variable in a branch: an integer literal | len(var.values) *)
Inductive wexpr := WConst (k : nat) | WLen.

(* how a local value of _set_bound was obtained from var.boundaries *)
Inductive bsrc :=
| SUnpack (i : nat)        (* element i of `lo, hi = var.boundaries`: a number *)
| SRepeat (i : nat)        (* np.array([<element i>] * len(var.values)): a fresh array *)
| SColumn (i : nat).       (* var.boundaries[:, i]: a VIEW on the array kept by the ParameterValues *)

Inductive logfn := MathLog10 (* raises outside its domain *) | NpLog10 (* never raises *).
(* under `if var.logarithmic:`   nothing | x = log10(x) | log10(x, out=x) / x[:] = log10(x) *)
Inductive logsite := LNone | LRebind (f : logfn) | LInPlace (f : logfn).

Record side := mkSide { sd_src : bsrc; sd_log : logsite }.
Record sbranch := mkSBranch { br_low : side (* appended to lbd *); br_high : side (* appended to ubd *) }.
(* what the property `ParameterValues.boundaries` returns *)
Inductive getter := GAlias (* the array itself *) | GCopy (* a copy *).

Record sb_desc := mkSb {
  sb_scalar : sbranch;       (* var.values == "_" *)
  sb_shared : sbranch;       (* list of "_", boundaries.ndim == 1 *)
  sb_percomp : sbranch;      (* list of "_", boundaries.ndim == 2 *)
  sb_getter : getter
}.

(* one branch of the loop of convert_to_parameters, for one class of variables *)
Record cbranch := mkCBranch { cb_width : wexpr; cb_start : lin; cb_stop : lin; cb_step : lin }.
Record cv_desc := mkCv {
  cv_copy : bool;            (* parameters = np.array(decisions_vector): works on a copy *)
  cv_a0 : nat;               (* a = 0 *)
  cv_scalar : cbranch; cv_list : cbranch
}.

Inductive usel := UIndex (i : lin) (* parameter[i] *) | USlice (start stop : lin) (* parameter[start:stop] *).
Record ubranch := mkUBranch { ub_width : wexpr; ub_sel : usel; ub_step : lin }.
Record up_desc := mkUp {
  up_copy : bool;            (* new_processor = copy.deepcopy(processor); .set on the copy; the copy returned *)
  up_a0 : nat;
  up_scalar : ubranch; up_list : ubranch
}.

Record wdesc := mkDesc {
  d_pv_rows : wexpr;         (* ParameterValues.__init__: 2-D boundaries must have shape (<rows>, 2) *)
  d_sb : sb_desc;
  d_cv : cv_desc;
  d_up : up_desc;
  d_init_copy : bool;        (* __init__ keeps deepcopy(processor) (or build_processors' copies) *)
  d_fit_converts : bool      (* fitness hands convert_to_parameters(x) to update_processor *)
}.

(* what the result of a calibration reports (archipelago_datatree.py) *)
Record rp_desc := mkRp {
  rp_champion : bool;        (* champion_parameters = convert_to_parameters(champion_decision) *)
  rp_best : bool;            (* best_parameters = convert_to_parameters(best_decision) *)
  rp_final : bool;           (* the final pipeline runs (simulated outputs) get champion_parameters, not the decision *)
  rp_final_1d : bool         (* the island's row handed to update_processor stays 1-D whatever its length
                                (a bare .squeeze() turns a row of length one into a 0-d array: IndexError) *)
}.
Definition rp_ok (r : rp_desc) : bool := rp_champion r && rp_best r && rp_final r && rp_final_1d r.

(* the description of the unchanged tree (translator FALLBACK; examples) *)
Definition desc_as_coded : wdesc :=
  mkDesc WLen
    (mkSb (mkSBranch (mkSide (SUnpack 0) (LRebind MathLog10)) (mkSide (SUnpack 1) (LRebind MathLog10)))
          (mkSBranch (mkSide (SRepeat 0) (LRebind NpLog10)) (mkSide (SRepeat 1) (LRebind NpLog10)))
          (mkSBranch (mkSide (SColumn 0) (LRebind NpLog10)) (mkSide (SColumn 1) (LRebind NpLog10)))
          GAlias)
    (mkCv true 0 (mkCBranch (WConst 1) lin_a lin_ab lin_ab) (mkCBranch WLen lin_a lin_ab lin_ab))
    (mkUp true 0 (mkUBranch (WConst 1) (UIndex lin_a) lin_ab) (mkUBranch WLen (USlice lin_a lin_ab) lin_ab))
    true true.

(* ---------------------------------------------------------------- when a description is the modelled code

   Decidable, semantic where that is cheap: for a scalar the width is the constant 1, so `a + 1` and
   `a + b` are the same expression; an in-place log10 is harmless on a fresh array (shared boundaries) and
   on a view of a copy (getter = GCopy), and only there. *)

Definition lin_is (e : lin) (c ca cb : nat) : bool := (l_c e =? c) && (l_a e =? ca) && (l_b e =? cb).
(* with b = 1:  e = c + ca * a *)
Definition lin_is1 (e : lin) (c ca : nat) : bool := (l_c e + l_b e =? c) && (l_a e =? ca).

Definition scalar_width_ok (w : wexpr) : bool := match w with WConst 1 => true | WLen => true | _ => false end.
Definition list_width_ok (w : wexpr) : bool := match w with WLen => true | _ => false end.

Definition side_ok (sd : side) (src : bsrc) (inplace_ok : bool) (fn : logfn) : bool :=
  (match sd_src sd, src with
   | SUnpack i, SUnpack j | SRepeat i, SRepeat j | SColumn i, SColumn j => i =? j
   | _, _ => false
   end) &&
  (match sd_log sd, fn with
   | LRebind MathLog10, MathLog10 | LRebind NpLog10, NpLog10 => true
   | LInPlace NpLog10, NpLog10 => inplace_ok
   | _, _ => false
   end).

Definition sb_ok (d : sb_desc) : bool :=
  side_ok (br_low (sb_scalar d)) (SUnpack 0) false MathLog10 &&
  side_ok (br_high (sb_scalar d)) (SUnpack 1) false MathLog10 &&
  side_ok (br_low (sb_shared d)) (SRepeat 0) true NpLog10 &&
  side_ok (br_high (sb_shared d)) (SRepeat 1) true NpLog10 &&
  let cp := match sb_getter d with GCopy => true | GAlias => false end in
  side_ok (br_low (sb_percomp d)) (SColumn 0) cp NpLog10 &&
  side_ok (br_high (sb_percomp d)) (SColumn 1) cp NpLog10.

Definition cv_ok (d : cv_desc) : bool :=
  cv_copy d && (cv_a0 d =? 0) &&
  scalar_width_ok (cb_width (cv_scalar d)) &&
  lin_is1 (cb_start (cv_scalar d)) 0 1 && lin_is1 (cb_stop (cv_scalar d)) 1 1 && lin_is1 (cb_step (cv_scalar d)) 1 1 &&
  list_width_ok (cb_width (cv_list d)) &&
  lin_is (cb_start (cv_list d)) 0 1 0 && lin_is (cb_stop (cv_list d)) 0 1 1 && lin_is (cb_step (cv_list d)) 0 1 1.

Definition up_ok (d : up_desc) : bool :=
  up_copy d && (up_a0 d =? 0) &&
  scalar_width_ok (ub_width (up_scalar d)) &&
  (match ub_sel (up_scalar d) with UIndex i => lin_is1 i 0 1 | USlice _ _ => false end) &&
  lin_is1 (ub_step (up_scalar d)) 1 1 &&
  list_width_ok (ub_width (up_list d)) &&
  (match ub_sel (up_list d) with USlice s t => lin_is s 0 1 0 && lin_is t 0 1 1 | UIndex _ => false end) &&
  lin_is (ub_step (up_list d)) 0 1 1.

Definition desc_ok (d : wdesc) : bool :=
  list_width_ok (d_pv_rows d) && sb_ok (d_sb d) && cv_ok (d_cv d) && up_ok (d_up d) &&
  d_init_copy d && d_fit_converts d.

(* ==================================================================== generic interpreters *)

Section Generic.
  Context {A : Type}.
  Variable flog : A -> A.
  Variable fexp : A -> A.
  Variable logdom : A -> bool.

  Notation var := (@var A).
  Notation aval := (@aval A).

  Definition weval (w : wexpr) (v : var) : nat := match w with WConst k => k | WLen => width v end.

  Definition g_pv_ok (rows : wexpr) (v : var) : bool :=
    match bounds v with PerComp l => Nat.eqb (List.length l) (weval rows v) | _ => true end.

  Definition pick (i : nat) (lo hi : A) : option A :=
    match i with 0 => Some lo | 1 => Some hi | _ => None end.

  Definition column (i : nat) (l : list (A * A)) : option (list A) :=
    match i with 0 => Some (map fst l) | 1 => Some (map snd l) | _ => None end.

  Definition map_col (i : nat) (f : A -> A) (l : list (A * A)) : list (A * A) :=
    match i with
    | 0 => map (fun p => (f (fst p), snd p)) l
    | 1 => map (fun p => (fst p, f (snd p))) l
    | _ => l
    end.

  Definition read_src (v : var) (s : bsrc) : option (list A) :=
    match s, bounds v with
    | SUnpack i, Shared lo hi => option_map (fun x => [x]) (pick i lo hi)
    | SRepeat i, Shared lo hi => option_map (fun x => repeat x (width v)) (pick i lo hi)
    | SColumn i, PerComp l => column i l
    | _, _ => None
    end.

  Definition log_vals (v : var) (ls : logsite) (vals : list A) : option (list A) :=
    if islog v then
      match ls with
      | LNone => Some vals
      | LRebind MathLog10 | LInPlace MathLog10 =>
          if forallb logdom vals then Some (map flog vals) else None
      | LRebind NpLog10 | LInPlace NpLog10 => Some (map flog vals)
      end
    else Some vals.

  Definition side_vals (v : var) (sd : side) : option (list A) :=
    match read_src v (sd_src sd) with None => None | Some vals => log_vals v (sd_log sd) vals end.

  Definition set_bounds (v : var) (b : @bnd A) : var := mkVar (key v) (shape v) (islog v) b.

  (* what an in-place log10 does to the ParameterValues object: only through a view of the kept array *)
  Definition side_effect (g : getter) (v : var) (sd : side) : var :=
    match g, sd_log sd, sd_src sd, bounds v with
    | GAlias, LInPlace _, SColumn i, PerComp l =>
        if islog v then set_bounds v (PerComp (map_col i flog l)) else v
    | _, _, _, _ => v
    end.

  Definition sb_branch (d : sb_desc) (v : var) : option sbranch :=
    match shape v, bounds v with
    | _, NoB => None                                   (* assert var.boundaries is not None *)
    | None, Shared _ _ => Some (sb_scalar d)
    | None, PerComp _ => None                          (* shape (1, 2) is not (2,) *)
    | Some _, Shared _ _ => Some (sb_shared d)
    | Some _, PerComp _ => Some (sb_percomp d)
    end.

  (* one iteration of the loop of _set_bound: (what is appended | refusal, the ParameterValues afterwards).
     Reads come before the log statements in every accepted shape; an effect is recorded only when the
     iteration completes (the only raising log is math.log10, which has no in-place form). *)
  Definition g_var_step (rows : wexpr) (d : sb_desc) (v : var) : option (list A * list A) * var :=
    if g_pv_ok rows v then
      match sb_branch d v with
      | None => (None, v)
      | Some br =>
          match side_vals v (br_low br), side_vals v (br_high br) with
          | Some lo, Some hi =>
              (Some (lo, hi), side_effect (sb_getter d) (side_effect (sb_getter d) v (br_low br)) (br_high br))
          | _, _ => (None, v)
          end
      end
    else (None, v).

  Fixpoint g_bounds_from (rows : wexpr) (d : sb_desc) (lbd ubd : list A) (vs : list var)
    : option (list A * list A) * list var :=
    match vs with
    | [] => (Some (lbd, ubd), [])
    | v :: r =>
        match g_var_step rows d v with
        | (None, v') => (None, v' :: r)
        | (Some (lo, hi), v') =>
            let res := g_bounds_from rows d (lbd ++ lo) (ubd ++ hi) r in
            (fst res, v' :: snd res)
        end
    end.

  Definition g_bounds (d : wdesc) (vs : list var) := g_bounds_from (d_pv_rows d) (d_sb d) [] [] vs.

  Definition cv_branch (d : cv_desc) (v : var) : cbranch :=
    match shape v with None => cv_scalar d | Some _ => cv_list d end.

  Fixpoint g_convert_from (d : cv_desc) (a : nat) (vs : list var) (p : list A) : list A :=
    match vs with
    | [] => p
    | v :: r =>
        let br := cv_branch d v in
        let b := weval (cb_width br) v in
        g_convert_from d (lin_eval (cb_step br) a b) r
          (if islog v then map_range fexp (lin_eval (cb_start br) a b) (lin_eval (cb_stop br) a b) 0 p else p)
    end.

  Definition g_convert (d : cv_desc) (vs : list var) (x : list A) : list A := g_convert_from d (cv_a0 d) vs x.
  (* the caller's array after the call *)
  Definition g_convert_after (d : cv_desc) (vs : list var) (x : list A) : list A :=
    if cv_copy d then x else g_convert d vs x.

  Definition up_branch (d : up_desc) (v : var) : ubranch :=
    match shape v with None => up_scalar d | Some _ => up_list d end.

  Definition g_sel (s : usel) (a b : nat) (p : list A) : option aval :=
    match s with
    | UIndex i => option_map AScalar (nth_error p (lin_eval i a b))
    | USlice s t => Some (AVector (slice (lin_eval s a b) (lin_eval t a b - lin_eval s a b) p))
    end.

  Fixpoint g_assign_from (d : up_desc) (a : nat) (vs : list var) (p : list A) : option (list (string * aval)) :=
    match vs with
    | [] => Some []
    | v :: r =>
        let br := up_branch d v in
        let b := weval (ub_width br) v in
        match g_sel (ub_sel br) a b p with
        | None => None
        | Some val => option_map (cons (key v, val)) (g_assign_from d (lin_eval (ub_step br) a b) r p)
        end
    end.

  Definition g_assign (d : up_desc) (vs : list var) (p : list A) := g_assign_from d (up_a0 d) vs p.

  (* ---- what is reported for a decision vector x of an island, and what the final run of that island gets *)
  Definition g_reported (conv : bool) (d : wdesc) (vs : list var) (x : list A) : list A :=
    if conv then g_convert (d_cv d) vs x else x.
  Definition g_final_applied (r : rp_desc) (d : wdesc) (vs : list var) (x : list A) :=
    if rp_final_1d r || negb (total vs =? 1)
    then g_assign (d_up d) vs (g_reported (rp_final r) d vs x)
    else None.     (* parameter[a] / parameter[a:b] on a 0-d array *)

  (* ================================================================== object store and histories *)

  Definition config := list (string * aval).     (* the configured values of the calibrated arguments *)

  Record problem := mkPb { pb_lb : list A; pb_ub : list A; pb_proc : nat (* its processor, a heap location *) }.

  Record store := mkSt {
    st_vars : list var;          (* the ParameterValues objects (Calibration.parameters); every problem built
                                    from them keeps a reference to these same objects *)
    st_procs : list config;      (* heap of processors; location 0 is the caller's processor *)
    st_pbs : list problem        (* the problems built so far *)
  }.

  Inductive op :=
  | OBuild                                 (* ModelFittingDataTree(processor, variables, ...) *)
  | OBounds (p : nat)                      (* problem p: get_bounds() *)
  | OConvert (p : nat) (x : list A)        (* problem p: convert_to_parameters(x), x an array of the caller *)
  | OFitness (p : nat) (x : list A)        (* problem p: fitness(x) -> update_processor on its own processor *)
  | OUpdate (p : nat) (x : list A).        (* problem p: update_processor(convert_to_parameters(x), caller's processor) *)

  Inductive obs :=
  | ObRefused
  | ObBuilt (lb ub : list A)
  | ObBounds (lb ub : list A)
  | ObConv (x_after conv : list A)
  | ObApplied (x_after conv : list A) (asg : option (list (string * aval)))
  | ObNoProblem.

  (* Processor.set(key, value) on a configuration *)
  Fixpoint set_key (k : string) (val : aval) (c : config) : config :=
    match c with
    | [] => [(k, val)]
    | kv :: r => if String.eqb k (fst kv) then (k, val) :: r else kv :: set_key k val r
    end.
  Definition apply_asg (asg : list (string * aval)) (c : config) : config :=
    fold_left (fun c kv => set_key (fst kv) (snd kv) c) asg c.

  Fixpoint set_nth {B} (n : nat) (x : B) (l : list B) : list B :=
    match l, n with
    | [], _ => []
    | _ :: r, 0 => x :: r
    | y :: r, S n' => y :: set_nth n' x r
    end.

  (* update_processor(parameter, processor at `loc`) *)
  Definition do_update (d : up_desc) (st : store) (loc : nat) (asg : option (list (string * aval))) : store :=
    match asg with
    | None => st        (* IndexError; partial .set calls of a non-copying variant are not modelled *)
    | Some l =>
        let c := apply_asg l (nth loc (st_procs st) []) in
        if up_copy d then mkSt (st_vars st) (st_procs st ++ [c]) (st_pbs st)
        else mkSt (st_vars st) (set_nth loc c (st_procs st)) (st_pbs st)
    end.

  Definition step (d : wdesc) (st : store) (o : op) : store * obs :=
    match o with
    | OBuild =>
        let res := g_bounds d (st_vars st) in
        match fst res with
        | None => (mkSt (snd res) (st_procs st) (st_pbs st), ObRefused)
        | Some (lb, ub) =>
            if d_init_copy d
            then (mkSt (snd res) (st_procs st ++ [nth 0 (st_procs st) []])
                       (st_pbs st ++ [mkPb lb ub (List.length (st_procs st))]), ObBuilt lb ub)
            else (mkSt (snd res) (st_procs st) (st_pbs st ++ [mkPb lb ub 0]), ObBuilt lb ub)
        end
    | OBounds p =>
        match nth_error (st_pbs st) p with
        | None => (st, ObNoProblem)
        | Some pb => (st, ObBounds (pb_lb pb) (pb_ub pb))
        end
    | OConvert p x =>
        match nth_error (st_pbs st) p with
        | None => (st, ObNoProblem)
        | Some _ => (st, ObConv (g_convert_after (d_cv d) (st_vars st) x) (g_convert (d_cv d) (st_vars st) x))
        end
    | OFitness p x =>
        match nth_error (st_pbs st) p with
        | None => (st, ObNoProblem)
        | Some pb =>
            let conv := g_convert (d_cv d) (st_vars st) x in
            let asg := g_assign (d_up d) (st_vars st) (if d_fit_converts d then conv else x) in
            (do_update (d_up d) st (pb_proc pb) asg, ObApplied (g_convert_after (d_cv d) (st_vars st) x) conv asg)
        end
    | OUpdate p x =>
        match nth_error (st_pbs st) p with
        | None => (st, ObNoProblem)
        | Some _ =>
            let conv := g_convert (d_cv d) (st_vars st) x in
            let asg := g_assign (d_up d) (st_vars st) conv in
            (do_update (d_up d) st 0 asg, ObApplied (g_convert_after (d_cv d) (st_vars st) x) conv asg)
        end
    end.

  Fixpoint run_hist (d : wdesc) (st : store) (ops : list op) : store * list obs :=
    match ops with
    | [] => (st, [])
    | o :: r =>
        let s1 := step d st o in
        let s2 := run_hist d (fst s1) r in
        (fst s2, snd s1 :: snd s2)
    end.

  (* ---- the history-free specification of one observation: a function of the DECLARATION vs0 only *)
  Definition obs_spec (vs0 : list var) (o : op) (ob : obs) : Prop :=
    ob = ObNoProblem \/
    match o with
    | OBuild => ob = match bounds_walk flog logdom vs0 with Some (lb, ub) => ObBuilt lb ub | None => ObRefused end
    | OBounds _ => exists lb ub, bounds_walk flog logdom vs0 = Some (lb, ub) /\ ob = ObBounds lb ub
    | OConvert _ x => ob = ObConv x (convert_walk fexp vs0 x)
    | OFitness _ x | OUpdate _ x =>
        ob = ObApplied x (convert_walk fexp vs0 x) (assign_walk vs0 (convert_walk fexp vs0 x))
    end.

  (* every processor that existed keeps its location and its configured values *)
  Definition heap_extends (h h' : list config) : Prop :=
    forall l c, nth_error h l = Some c -> nth_error h' l = Some c.

  (* every problem of the store was built from the declaration the store holds now *)
  Definition store_consistent (st : store) : Prop :=
    Forall (fun pb => bounds_walk flog logdom (st_vars st) = Some (pb_lb pb, pb_ub pb)) (st_pbs st).

End Generic.

Arguments mkPb {A} pb_lb pb_ub pb_proc.
Arguments mkSt {A} st_vars st_procs st_pbs.
Arguments OBuild {A}.
Arguments OBounds {A} p.
Arguments OConvert {A} p x.
Arguments OFitness {A} p x.
Arguments OUpdate {A} p x.
Arguments ObRefused {A}.
Arguments ObBuilt {A} lb ub.
Arguments ObBounds {A} lb ub.
Arguments ObConv {A} x_after conv.
Arguments ObApplied {A} x_after conv asg.
Arguments ObNoProblem {A}.

(* ==================================================================== symbolic instance (correspondence) *)

Local Open Scope Q_scope.

Definition sg_bounds (d : wdesc) := @g_bounds sym s_log s_dom d.
Definition sg_convert (d : wdesc) := @g_convert sym s_exp (d_cv d).
Definition sg_assign (d : wdesc) := @g_assign sym (d_up d).
Definition s_step (d : wdesc) := @step sym s_log s_exp s_dom d.

(* ---- the direct (single build) cases of Model/Decision.v, now against the GENERATED description *)

Definition probe_mismatch_g (d : wdesc) (vs : list svar) (p : probe) : bool :=
  let x := map Raw (p_x p) in
  negb (match p_conv p with
        | Some c => all2 sym_match (sg_convert d vs x) c
        | None => true
        end
        &&
        match p_applied p, sg_assign d vs (sg_convert d vs x) with
        | Some a, Some m => all2 kv_match m a
        | None, _ => true
        | Some _, None => false
        end).

Definition case_mismatch_g (d : wdesc) (c : c10_case) : bool :=
  match fst (sg_bounds d (c_vars c)), c_bounds c with
  | None, None => false
  | Some (lb, ub), Some (ilb, iub) =>
      negb (all2 sym_match lb ilb && all2 sym_match ub iub) || existsb (probe_mismatch_g d (c_vars c)) (c_probes c)
  | _, _ => true
  end.

Definition mismatches_g (d : wdesc) (cs : list c10_case) : list Z := indices_where (case_mismatch_g d) cs 0%Z.

(* ---- histories *)

(* what the harness reads back after every operation *)
Record snapshot := {
  sn_vars : list (@var Q);                       (* the ParameterValues objects: key, placeholders, flag, boundaries *)
  sn_proc : list (string * @aval Q);             (* the caller's processor: configured values *)
  sn_own : list (list (string * @aval Q))        (* the processor kept by every problem built so far *)
}.

Inductive pkind := PConvert | PFitness | PUpdate.

Inductive hop :=
| HBuild (b : option (list Q * list Q))                  (* get_bounds() of the new problem | refused *)
| HBounds (pid : nat) (b : list Q * list Q)
| HProbe (pid : nat) (k : pkind) (p : probe).

Record hstep := { h_op : hop; h_snap : snapshot }.

Record c10_hist := {
  hc_vars : list svar;                           (* the declaration *)
  hc_proc : list (string * @aval Q);             (* the processor as configured by the harness *)
  hc_steps : list hstep
}.

Definition raw_aval (a : @aval Q) : @aval sym :=
  match a with AScalar q => AScalar (Raw q) | AVector l => AVector (map Raw l) end.
Definition raw_config (c : list (string * @aval Q)) : list (string * @aval sym) :=
  map (fun kv => (fst kv, raw_aval (snd kv))) c.

Definition op_of (h : hop) : @op sym :=
  match h with
  | HBuild _ => OBuild
  | HBounds pid _ => OBounds pid
  | HProbe pid PConvert p => OConvert pid (map Raw (p_x p))
  | HProbe pid PFitness p => OFitness pid (map Raw (p_x p))
  | HProbe pid PUpdate p => OUpdate pid (map Raw (p_x p))
  end.

Definition bnd_match (a : @bnd sym) (b : @bnd Q) : bool :=
  match a, b with
  | NoB, NoB => true
  | Shared lo hi, Shared l h => sym_match lo l && sym_match hi h
  | PerComp l, PerComp m => all2 (fun p q => sym_match (fst p) (fst q) && sym_match (snd p) (snd q)) l m
  | _, _ => false
  end.

Definition opt_nat_eqb (a b : option nat) : bool :=
  match a, b with None, None => true | Some x, Some y => Nat.eqb x y | _, _ => false end.

Definition var_match (a : svar) (b : @var Q) : bool :=
  String.eqb (key a) (key b) && opt_nat_eqb (shape a) (shape b) && Bool.eqb (islog a) (islog b) &&
  bnd_match (bounds a) (bounds b).

Definition config_match (m : list (string * @aval sym)) (c : list (string * @aval Q)) : bool := all2 kv_match m c.

Definition obs_match (ob : @obs sym) (h : hop) : bool :=
  match ob, h with
  | ObRefused, HBuild None => true
  | ObBuilt lb ub, HBuild (Some (ilb, iub)) => all2 sym_match lb ilb && all2 sym_match ub iub
  | ObBounds lb ub, HBounds _ (ilb, iub) => all2 sym_match lb ilb && all2 sym_match ub iub
  | ObConv xa conv, HProbe _ PConvert p =>
      all2 sym_match xa (p_x_after p) &&
      match p_conv p with Some c => all2 sym_match conv c | None => false end
  | ObApplied xa conv asg, HProbe _ _ p =>
      all2 sym_match xa (p_x_after p) &&
      match p_conv p with Some c => all2 sym_match conv c | None => true end &&
      match p_applied p, asg with
      | Some a, Some m => all2 kv_match m a
      | None, _ => true
      | Some _, None => false
      end
  | _, _ => false
  end.

Definition snap_match (st : @store sym) (sn : snapshot) : bool :=
  all2 var_match (st_vars st) (sn_vars sn) &&
  config_match (nth 0 (st_procs st) []) (sn_proc sn) &&
  all2 (fun pb c => config_match (nth (pb_proc pb) (st_procs st) []) c) (st_pbs st) (sn_own sn).

Fixpoint hist_mm (d : wdesc) (st : @store sym) (steps : list hstep) : bool :=
  match steps with
  | [] => false
  | s :: r =>
      let r1 := s_step d st (op_of (h_op s)) in
      negb (obs_match (snd r1) (h_op s)) || negb (snap_match (fst r1) (h_snap s)) || hist_mm d (fst r1) r
  end.

Definition hist_mismatch (d : wdesc) (c : c10_hist) : bool :=
  hist_mm d (mkSt (hc_vars c) [raw_config (hc_proc c)] []) (hc_steps c).

(* ---- specification of a history: every observation is what the DECLARATION alone prescribes.
   clauses 1..7 as in Model/Decision.v, judged for every problem built and every vector driven through it;
   8 the ParameterValues objects no longer hold the declaration; 9 a processor's configured values changed *)

Definition q_aval_eqb (a b : @aval Q) : bool :=
  match a, b with
  | AScalar x, AScalar y => qeq x y
  | AVector l, AVector m => all2 qeq l m
  | _, _ => false
  end.
Definition q_config_eqb (a b : list (string * @aval Q)) : bool :=
  all2 (fun x y => String.eqb (fst x) (fst y) && q_aval_eqb (snd x) (snd y)) a b.

Definition snap_clauses (vs : list svar) (proc0 : list (string * @aval Q)) (sn : snapshot) : list nat :=
  (if all2 var_match vs (sn_vars sn) then [] else [8%nat]) ++
  (if q_config_eqb proc0 (sn_proc sn) && forallb (q_config_eqb proc0) (sn_own sn) then [] else [9%nat]).

Definition bounds_clause (vs : list svar) (b : list Q * list Q) : list nat :=
  if all2 sym_match (decl_lower vs) (fst b) && all2 sym_match (decl_upper vs) (snd b) then [] else [1%nat].

Definition hop_clauses (vs : list svar) (pbs : list (list Q * list Q)) (h : hop) : list nat :=
  let acc := forallb (var_accept s_log s_dom) vs in
  match h with
  | HBuild None => if acc then [7%nat] else []
  | HBuild (Some b) => if acc then bounds_clause vs b else [7%nat]
  | HBounds _ b => bounds_clause vs b
  | HProbe pid _ p =>
      match nth_error pbs pid with
      | Some (ilb, iub) => probe_clauses vs ilb iub p
      | None => []
      end
  end.

Definition pbs_after (pbs : list (list Q * list Q)) (h : hop) : list (list Q * list Q) :=
  match h with HBuild (Some b) => pbs ++ [b] | _ => pbs end.

(* (index of the step, its clauses) for every offending step *)
Fixpoint hist_cl (vs : list svar) (proc0 : list (string * @aval Q)) (pbs : list (list Q * list Q))
         (steps : list hstep) (i : nat) : list (nat * list nat) :=
  match steps with
  | [] => []
  | s :: r =>
      let cl := hop_clauses vs pbs (h_op s) ++ snap_clauses vs proc0 (h_snap s) in
      (match cl with [] => [] | _ => [(i, cl)] end) ++ hist_cl vs proc0 (pbs_after pbs (h_op s)) r (S i)
  end.

Definition hist_clauses (c : c10_hist) : list (nat * list nat) :=
  hist_cl (hc_vars c) (hc_proc c) [] (hc_steps c) 0.

Definition hist_violates (c : c10_hist) : bool := match hist_clauses c with [] => false | _ => true end.

Definition hist_mismatches (d : wdesc) (cs : list c10_hist) : list Z := indices_where (hist_mismatch d) cs 0%Z.
Definition hist_violations (cs : list c10_hist) : list Z := indices_where hist_violates cs 0%Z.
(* flat, per violating history: index, first offending step, number of clauses of that step, the clauses *)
Definition hist_details (cs : list c10_hist) : list Z :=
  (fix go (l : list c10_hist) (i : Z) : list Z :=
     match l with
     | [] => []
     | c :: r => match hist_clauses c with
                 | [] => go r (i + 1)%Z
                 | (k, cl) :: _ => (i :: Z.of_nat k :: Z.of_nat (List.length cl) :: map Z.of_nat cl) ++ go r (i + 1)%Z
                 end
     end) cs 0%Z.
