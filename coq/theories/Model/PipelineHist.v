(* C01 — configuration histories: what happens to pipeline OBJECTS between and during runs.
   Model only; proofs are in Proofs/PipelineHist.v.

   A store is the list of the pipeline objects alive in a session (object 0 is the one that was loaded
   from YAML / built from Python objects; copies are appended).  Each object is an independent VALUE:
   that is the specification of copying in pyxel (Processor.__deepcopy__, ModelGroup.__deepcopy__,
   deepcopy of ModelFunction and of its Arguments, pickling): nothing is shared between an object and
   its copy, so an operation on one object never changes what another object's models receive.

   Operations (each one is something a user can do with the public API):
     ORun o m n          pyxel.run_mode(mode, detector, pipeline = object o) with n readout times;
                         exposure runs object o ITSELF (a growing model changes it), observation and
                         calibration run deep copies of the processor (object o is left as it was)
     OSetEnabled o g i b object_o.<g>.models[i].enabled = b          (also through Processor.set)
     OSetArg o ov        Processor(detector, object_o).set("pipeline.<g>.<model>.arguments.<key>...", v)
     OSetModels o g sel  object_o.<g>.models = [old[j] for j in sel]  (sel without repetition: reorder / drop)
     OInsert o g i m     object_o.<g>.models = old[:i] + [new ModelFunction m] + old[i:]
     OCopy o k           a new object: copy.deepcopy(object o) / deepcopy of its Processor / pickle round trip
   An operation that names an object, group or position that does not exist changes nothing (the
   harness never generates one; the theorems carry the existence as a hypothesis where it matters). *)
From Coq Require Import List String ZArith Bool Arith PeanoNat.
From PyxelV Require Import Model.Pipeline.
Import ListNotations.
Open Scope list_scope.

Inductive copy_kind := CDeep | CProcessor | CPickle.

Inductive op :=
| ORun (o : nat) (m : mode) (n : nat)
| OSetEnabled (o : nat) (g : group) (i : nat) (b : bool)
| OSetArg (o : nat) (ov : override)
| OSetModels (o : nat) (g : group) (sel : list nat)
| OInsert (o : nat) (g : group) (i : nat) (m : mfun)
| OCopy (o : nat) (k : copy_kind).

Definition store := list pipeline.

Definition upd_store (st : store) (o : nat) (f : pipeline -> pipeline) : store := upd_nth o f st.

Definition set_enabled_mfun (b : bool) (m : mfun) : mfun :=
  {| name := name m; enabled := b; grows := grows m; args := args m |}.

Definition set_enabled (g : group) (i : nat) (b : bool) (p : pipeline) : pipeline :=
  set_group p g (option_map (upd_nth i (set_enabled_mfun b)) (get p g)).

Fixpoint nodupb (l : list nat) : bool :=
  match l with
  | [] => true
  | x :: r => negb (existsb (Nat.eqb x) r) && nodupb r
  end.

Definition pick (sel : list nat) (ms : list mfun) : list mfun :=
  flat_map (fun j => match nth_error ms j with Some m => [m] | None => [] end) sel.

Definition set_models (g : group) (sel : list nat) (p : pipeline) : pipeline :=
  match get p g with
  | Some ms =>
      if nodupb sel && forallb (fun j => Nat.ltb j (List.length ms)) sel
      then set_group p g (Some (pick sel ms)) else p
  | None => p
  end.

Definition insert_model (g : group) (i : nat) (m : mfun) (p : pipeline) : pipeline :=
  match get p g with
  | Some ms => if Nat.leb i (List.length ms) then set_group p g (Some (firstn i ms ++ m :: skipn i ms)) else p
  | None => p
  end.

(* `inplace`: does a growing model's change stay in the configuration object it was run from?
   true = the code as it is (ModelFunction.__call__ passes the stored objects); false = the
   alternative reading accepted by the specification (each call gets its own copy). *)
Definition apply_op (inplace : bool) (st : store) (x : op) : store :=
  match x with
  | ORun o (Exposure _) n => if inplace then upd_store st o (age n) else st
  | ORun _ _ _ => st
  | OSetEnabled o g i b => upd_store st o (set_enabled g i b)
  | OSetArg o ov => upd_store st o (fun p => apply_override p ov)
  | OSetModels o g sel => upd_store st o (set_models g sel)
  | OInsert o g i m => upd_store st o (insert_model g i m)
  | OCopy o _ => match nth_error st o with Some p => st ++ [p] | None => st end
  end.

Definition exec_ops (inplace : bool) (st : store) (ops : list op) : store :=
  fold_left (apply_op inplace) ops st.

(* one record per run of the history: the configuration of the object AT THE TIME the run starts *)
Record run_rec := { r_obj : nat; r_cfg : pipeline; r_mode : mode; r_steps : nat }.

Definition runs_of_op (st : store) (x : op) : list run_rec :=
  match x with
  | ORun o m n => match nth_error st o with
                  | Some p => [{| r_obj := o; r_cfg := p; r_mode := m; r_steps := n |}]
                  | None => []
                  end
  | _ => []
  end.

Fixpoint hist_runs (inplace : bool) (st : store) (ops : list op) : list run_rec :=
  match ops with
  | [] => []
  | x :: r => runs_of_op st x ++ hist_runs inplace (apply_op inplace st x) r
  end.

(* does operation x write into object o ? (a copy reads its source and creates a NEW object) *)
Definition writes (inplace : bool) (x : op) (o : nat) : bool :=
  match x with
  | ORun o' (Exposure _) _ => inplace && Nat.eqb o' o
  | ORun _ _ _ => false
  | OSetEnabled o' _ _ _ | OSetArg o' _ | OSetModels o' _ _ | OInsert o' _ _ _ => Nat.eqb o' o
  | OCopy _ _ => false
  end.

(* ------------------------------------------------------------------------------------------ *)
(* correspondence *)

Inductive det_kind := DetCCD | DetCMOS | DetMKID | DetAPD.

Record hist_case := {
  h_det : det_kind;             (* the detector every run of the history uses (the model ignores it:
                                   Processor.run_pipeline has no detector-dependent branch) *)
  h_doc : doc;                  (* object 0 *)
  h_ops : list op;
  h_observed : list outcome     (* one per ORun, in order *)
}.

(* judge the runs one after the other; the debug tree lives on the one detector of the session *)
Fixpoint agrees_runs (faithful : bool) (run : bool -> pipeline -> nat -> list call * list capture)
         (prior : ntree) (rs : list run_rec) (os : list outcome) : bool :=
  match rs, os with
  | [], [] => true
  | r :: rs', o :: os' =>
      agrees_run faithful run prior (r_cfg r) (r_steps r) (r_mode r) o &&
      agrees_runs faithful run (tree_after run prior (r_cfg r) (r_steps r) (r_mode r)) rs' os'
  | _, _ => false
  end.

Definition agrees_hist (faithful inplace : bool)
           (run : bool -> pipeline -> nat -> list call * list capture) (c : hist_case) : bool :=
  match from_yaml (h_doc c) with
  | Ok p => agrees_runs faithful run [] (hist_runs inplace [p] (h_ops c)) (h_observed c)
  | Raise _ => false
  end.

(* indices where implementation <> model (the code as it is: arguments are passed by reference) *)
Definition hmismatches (src_names : list string) (cs : list hist_case) : list Z :=
  indices_where (fun c => negb (agrees_hist true true (model_run (order_of_names src_names)) c)) cs 0%Z.

(* indices where the observed history breaks the SPECIFICATION: every run makes exactly the calls of
   the configuration its object has at that time, under one of the two accepted readings of what a
   growing model may see (Model/Pipeline.v, spec_ok) *)
Definition hspec_ok (c : hist_case) : bool :=
  agrees_hist false true spec_run c ||
  agrees_hist false false (fun d p n => spec_run d (freeze p) n) c.

Definition hviolations (cs : list hist_case) : list Z :=
  indices_where (fun c => negb (hspec_ok c)) cs 0%Z.
