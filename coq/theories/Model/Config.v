(* C12 — a configuration file means what it says, and nonsense is refused.

   Executable model only (no proofs):
   1. range guards of the detector classes as DATA (regenerated from the source by translator/c12.py
      into Gen_C12.src_guards), `accepts guard x` over x : None | number | NaN | sequence-of-length-n,
      the LITERAL table of documented ranges, and a sound (incomplete) checker `check_table` that
      decides "guard = documented range for all x" by comparing half-lines;
   2. the exactly-one checks of pyxel/configuration/configuration.py as counts over key presence;
   3. document -> settings as a structural map (rename-free, ranges evaluated, defaults for absent keys).
   Correspondence helpers (`*_mismatches`, `*_violations`) are at the end. *)
From Coq Require Import QArith Qround ZArith List Bool String.
Import ListNotations.
Open Scope Z_scope.

(* ------------------------------------------------------------------------------------------ values *)

(* VNum / VNaN / VInf : carried by a python int or float (numpy.float64 is a float subclass);
   VNpNum / VNpNaN   : the same number carried by a numeric type that is NOT an instance of int | float
                       (numpy.int64, numpy.int32, numpy.float32 ... as produced by numpy.arange, a pandas
                       column or a FITS header): `isinstance(x, int | float)` is False for it, every
                       comparison, truth test and arithmetic behaves like the number;
   VInf pos          : float('inf') / float('-inf'), ordered as an extended real. *)
Inductive value := VNone | VNum (q : Q) | VNaN | VSeq (n : nat) | VInf (pos : bool) | VNpNum (q : Q) | VNpNaN.
Inductive vclass := KNum | KNaN | KSeq | KInf | KNpNum | KNpNaN.

Definition class_of (x : value) : option vclass :=
  match x with
  | VNone => None | VNum _ => Some KNum | VNaN => Some KNaN | VSeq _ => Some KSeq
  | VInf _ => Some KInf | VNpNum _ => Some KNpNum | VNpNaN => Some KNpNaN
  end.

Definition vclass_eqb (a b : vclass) : bool :=
  match a, b with
  | KNum, KNum | KNaN, KNaN | KSeq, KSeq | KInf, KInf | KNpNum, KNpNum | KNpNaN, KNpNaN => true
  | _, _ => false
  end.

Definition all_classes : list vclass := [KNum; KNaN; KSeq; KInf; KNpNum; KNpNaN].

(* is the number carried by a type outside int | float *)
Definition is_np (x : value) : bool :=
  match x with VNpNum _ | VNpNaN => true | _ => false end.

(* the number itself, whatever carries it *)
Definition core_of (x : value) : value :=
  match x with VNpNum q => VNum q | VNpNaN => VNaN | other => other end.

(* ------------------------------------------------------------------------------------------ guards *)

Inductive cmpop := OLt | OLe | OGt | OGe.                 (* x op bound *)
Record atom := Atom { a_op : cmpop; a_bound : Q }.

Definition Qlt_b (a b : Q) : bool := negb (Qle_bool b a).

Definition atom_holds (a : atom) (q : Q) : bool :=
  match a_op a with
  | OLt => Qlt_b q (a_bound a)
  | OLe => Qle_bool q (a_bound a)
  | OGt => Qlt_b (a_bound a) q
  | OGe => Qle_bool (a_bound a) q
  end.

(* +inf is above and -inf below every finite bound *)
Definition atom_holds_inf (a : atom) (pos : bool) : bool :=
  match a_op a with
  | OLt | OLe => negb pos
  | OGt | OGe => pos
  end.

(* when is the check executed at all *)
Inductive precond :=
  | PAlways                      (* if <cond>: raise *)
  | PNotNone                     (* if x is not None and <cond>: raise *)
  | PTruthy                      (* if x and <cond>: raise *)
  | PIsNumber.                   (* if isinstance(x, int | float) and <cond>: raise *)

Inductive clause :=
  | RaiseUnlessAll (ats : list atom)   (* if not (lo <= x <= hi): raise     -- a NaN is refused   *)
  | RaiseIfAny (ats : list atom)       (* if x < lo or x > hi: raise        -- a NaN slips through *)
  | RaiseUnlessLen (n : nat).          (* if len(x) != n: raise  (a non-sequence raises TypeError) *)

Record guard := Guard {
  g_pre : precond;
  g_clauses : list clause;
  g_else_reject : bool           (* `else: raise TypeError` when the precondition does not hold *)
}.

Definition unchecked : guard := Guard PAlways [] false.
(* a constructor parameter without property setter: every assignment raises AttributeError *)
Definition read_only : guard := Guard PIsNumber [RaiseUnlessLen 0] true.

Definition pre_fires (p : precond) (x : value) : bool :=
  match p, x with
  | PAlways, _ => true
  | PNotNone, VNone => false
  | PNotNone, _ => true
  | PTruthy, VNone => false
  | PTruthy, VNum q => negb (Qeq_bool q 0)
  | PTruthy, VNpNum q => negb (Qeq_bool q 0)
  | PTruthy, VNaN => true
  | PTruthy, VNpNaN => true
  | PTruthy, VInf _ => true
  | PTruthy, VSeq n => negb (Nat.eqb n 0)
  | PIsNumber, VNum _ => true
  | PIsNumber, VNaN => true
  | PIsNumber, VInf _ => true
  | PIsNumber, _ => false          (* None, sequences, and numbers carried by numpy.int64 & co. *)
  end.

(* true = this statement does not raise.  Comparing None or a list with a number is a TypeError;
   every ordering comparison with NaN is False; a numpy scalar compares like the number it carries. *)
Definition clause_ok (c : clause) (x : value) : bool :=
  match c, core_of x with
  | RaiseUnlessAll ats, VNum q => forallb (fun a => atom_holds a q) ats
  | RaiseUnlessAll ats, VNaN => forallb (fun _ => false) ats
  | RaiseUnlessAll ats, VInf p => forallb (fun a => atom_holds_inf a p) ats
  | RaiseIfAny ats, VNum q => negb (existsb (fun a => atom_holds a q) ats)
  | RaiseIfAny ats, VNaN => true
  | RaiseIfAny ats, VInf p => negb (existsb (fun a => atom_holds_inf a p) ats)
  | RaiseUnlessLen n, VSeq m => Nat.eqb n m
  | _, _ => false
  end.

Definition accepts (g : guard) (x : value) : bool :=
  if pre_fires (g_pre g) x then forallb (fun c => clause_ok c x) (g_clauses g)
  else negb (g_else_reject g).

(* ------------------------------------------------------------------------------------------ fields *)

Inductive cls := CGeometry | CCharacteristics | CEnvironment | CAPDCharacteristics.

Definition cls_eqb (a b : cls) : bool :=
  match a, b with
  | CGeometry, CGeometry | CCharacteristics, CCharacteristics | CEnvironment, CEnvironment
  | CAPDCharacteristics, CAPDCharacteristics => true
  | _, _ => false
  end.

Definition fkey := (cls * string)%type.
Definition fkey_eqb (a b : fkey) : bool := cls_eqb (fst a) (fst b) && String.eqb (snd a) (snd b).

Inductive side := SCtor | SSetter.
Definition side_eqb (a b : side) : bool :=
  match a, b with SCtor, SCtor | SSetter, SSetter => true | _, _ => false end.

(* the ways a value reaches a field *)
Inductive path := PCtor | PYaml | PAttr | PSweep
  | PFromDict.   (* <Class>.from_dict({...}): the entry point of detectors read back from a file *)
Definition side_of_path (p : path) : side :=
  match p with PCtor | PYaml | PFromDict => SCtor | PAttr | PSweep => SSetter end.

(* regenerated: field -> (constructor guard, setter guard) *)
Definition guard_table := list (fkey * (guard * guard)).

Fixpoint lookup_guards (gt : guard_table) (f : fkey) : option (guard * guard) :=
  match gt with
  | [] => None
  | (k, v) :: rest => if fkey_eqb k f then Some v else lookup_guards rest f
  end.

Definition pick (s : side) (gs : guard * guard) : guard :=
  match s with SCtor => fst gs | SSetter => snd gs end.

Definition guard_at (gt : guard_table) (f : fkey) (s : side) : option guard :=
  option_map (pick s) (lookup_guards gt f).

(* ------------------------------------------------------------------------------------------ what is stored *)

(* What the constructor / the setter keeps of an accepted value (regenerated: Gen_C12.src_stores reads the
   assignment `self._<field> = <expr>`):
     StId          self._f = f                         (also a re-packed tuple of the elements of f)
     StFloatIf p   self._f = float(f) if <p> else f    (plain float(f) is StFloatIf PAlways)
     StInt         self._f = int(f)                    truncation towards zero: NOT the written value
     StNone        nothing is stored (a constructor parameter without setter)                           *)
Inductive storeop := StId | StFloatIf (p : precond) | StInt | StNone.

(* truncation towards zero, as int() does *)
Definition q_trunc (q : Q) : Q := inject_Z (Z.quot (Qnum q) (Zpos (Qden q))).

(* float(x): None and a list raise TypeError *)
Definition float_of (x : value) : option value :=
  match x with
  | VNum q | VNpNum q => Some (VNum q)
  | VNaN | VNpNaN => Some VNaN
  | VInf p => Some (VInf p)
  | VNone | VSeq _ => None
  end.

(* int(x): int(nan) raises ValueError, int(inf) OverflowError, None / list TypeError *)
Definition int_of (x : value) : option value :=
  match x with
  | VNum q | VNpNum q => Some (VNum (q_trunc q))
  | _ => None
  end.

(* None = the store itself raises *)
Definition stored (op : storeop) (x : value) : option value :=
  match op with
  | StId => Some x
  | StFloatIf p => if pre_fires p x then float_of x else Some x
  | StInt => int_of x
  | StNone => None
  end.

Definition is_some {A} (o : option A) : bool := match o with Some _ => true | None => false end.

(* the same value, whatever carries it *)
Definition value_same (a b : value) : bool :=
  match core_of a, core_of b with
  | VNone, VNone => true
  | VNum p, VNum q => Qeq_bool p q
  | VNaN, VNaN => true
  | VSeq n, VSeq m => Nat.eqb n m
  | VInf p, VInf q => Bool.eqb p q
  | _, _ => false
  end.

(* regenerated: field -> (what the constructor stores, what the setter stores) *)
Definition store_table := list (fkey * (storeop * storeop)).

Fixpoint lookup_stores (st : store_table) (f : fkey) : option (storeop * storeop) :=
  match st with
  | [] => None
  | (k, v) :: rest => if fkey_eqb k f then Some v else lookup_stores rest f
  end.

Definition pick_store (s : side) (ops : storeop * storeop) : storeop :=
  match s with SCtor => fst ops | SSetter => snd ops end.

Definition store_at (st : store_table) (f : fkey) (s : side) : option storeop :=
  option_map (pick_store s) (lookup_stores st f).

(* a value goes in: the guard lets it through AND the store does not raise *)
Definition goes_in (g : guard) (op : storeop) (x : value) : bool :=
  accepts g x && is_some (stored op x).

(* ------------------------------------------------------------------------------------------ documented ranges *)

Record bound := Bound { b_val : Q; b_strict : bool }.
Inductive drange :=
  | DRange (lo hi : option bound)      (* a number between the bounds *)
  | DLen (n : nat).                    (* a sequence of exactly n values *)

Record docrow := DocRow { d_key : fkey; d_range : drange; d_optional : bool }.

Definition lower_ok (lo : option bound) (q : Q) : bool :=
  match lo with
  | None => true
  | Some b => if b_strict b then Qlt_b (b_val b) q else Qle_bool (b_val b) q
  end.
Definition upper_ok (hi : option bound) (q : Q) : bool :=
  match hi with
  | None => true
  | Some b => if b_strict b then Qlt_b q (b_val b) else Qle_bool q (b_val b)
  end.

(* the right-hand side of C12_same_limits: is x a value the documentation allows *)
Definition is_none {A} (o : option A) : bool := match o with None => true | Some _ => false end.

Definition in_range (d : drange) (x : value) : bool :=
  match d, core_of x with
  | DRange lo hi, VNum q => lower_ok lo q && upper_ok hi q
  | DRange lo hi, VInf true => is_none hi           (* +inf is inside exactly the intervals without upper bound *)
  | DRange lo hi, VInf false => is_none lo
  | DLen n, VSeq m => Nat.eqb n m
  | _, _ => false
  end.

(* THE STATEMENT, per value: a number carried by int / float (and NaN, +-inf, a sequence) is accepted exactly
   when it is inside the documented range; whatever carries the number, nonsense is refused (a guard may be
   strict about the type of an in-range value, it may never let an out-of-range one through). *)
Definition agrees (acc : bool) (d : drange) (x : value) : bool :=
  if is_np x then implb acc (in_range d x) else Bool.eqb acc (in_range d x).

(* the values the statement quantifies over for a field of this kind (None is treated separately:
   it means "not specified") *)
Definition well_kinded (d : drange) (x : value) : bool :=
  match d, x with
  | _, VNone => false
  | DRange _ _, VSeq _ => false
  | _, _ => true
  end.

Definition closed (lo hi : Q) : drange := DRange (Some (Bound lo false)) (Some (Bound hi false)).
Definition positive : drange := DRange (Some (Bound 0 true)) None.

(* LITERAL table, from the property text (quantum efficiency 0..1, positive temperature and array
   size, ADC resolution 4..64 bits, ...), the class docstrings and the texts of the error messages.
   It is NOT regenerated. *)
Definition documented : list docrow := [
  DocRow (CGeometry, "row"%string) positive false;
  DocRow (CGeometry, "col"%string) positive false;
  DocRow (CGeometry, "total_thickness"%string) (closed 0 10000) true;
  DocRow (CGeometry, "pixel_vert_size"%string) (closed 0 1000) true;
  DocRow (CGeometry, "pixel_horz_size"%string) (closed 0 1000) true;
  DocRow (CGeometry, "pixel_scale"%string) (closed 0 1000) true;
  DocRow (CCharacteristics, "quantum_efficiency"%string) (closed 0 1) true;
  DocRow (CCharacteristics, "charge_to_volt_conversion"%string) (closed 0 100) true;
  DocRow (CCharacteristics, "pre_amplification"%string) (closed 0 10000) true;
  DocRow (CCharacteristics, "full_well_capacity"%string) (closed 0 10000000) true;
  DocRow (CCharacteristics, "adc_bit_resolution"%string) (closed 4 64) true;
  DocRow (CCharacteristics, "adc_voltage_range"%string) (DLen 2) true;
  DocRow (CEnvironment, "temperature"%string)
         (DRange (Some (Bound 0 true)) (Some (Bound 1000 false))) true;
  DocRow (CEnvironment, "wavelength"%string) positive true;
  DocRow (CAPDCharacteristics, "quantum_efficiency"%string) (closed 0 1) true;
  DocRow (CAPDCharacteristics, "full_well_capacity"%string) (closed 0 10000000) true;
  DocRow (CAPDCharacteristics, "adc_bit_resolution"%string) (closed 4 64) true;
  DocRow (CAPDCharacteristics, "adc_voltage_range"%string) (DLen 2) true;
  DocRow (CAPDCharacteristics, "avalanche_gain"%string) (closed 1 1000) true
].

Fixpoint lookup_doc (docs : list docrow) (f : fkey) : option docrow :=
  match docs with
  | [] => None
  | r :: rest => if fkey_eqb (d_key r) f then Some r else lookup_doc rest f
  end.

(* ------------------------------------------------------------------------------------------ checker *)

(* A guard on a number is an intersection of half-lines. *)
Inductive hl := Lower (b : bound) | Upper (b : bound).

Definition hl_holds (h : hl) (q : Q) : bool :=
  match h with
  | Lower b => lower_ok (Some b) q
  | Upper b => upper_ok (Some b) q
  end.

Definition hl_must_hold (a : atom) : hl :=
  match a_op a with
  | OLt => Upper (Bound (a_bound a) true)
  | OLe => Upper (Bound (a_bound a) false)
  | OGt => Lower (Bound (a_bound a) true)
  | OGe => Lower (Bound (a_bound a) false)
  end.

Definition hl_must_fail (a : atom) : hl :=
  match a_op a with
  | OLt => Lower (Bound (a_bound a) false)
  | OLe => Lower (Bound (a_bound a) true)
  | OGt => Upper (Bound (a_bound a) false)
  | OGe => Upper (Bound (a_bound a) true)
  end.

Definition clause_hls (c : clause) : option (list hl) :=
  match c with
  | RaiseUnlessAll ats => Some (map hl_must_hold ats)
  | RaiseIfAny ats => Some (map hl_must_fail ats)
  | RaiseUnlessLen _ => None
  end.

Fixpoint clauses_hls (cs : list clause) : option (list hl) :=
  match cs with
  | [] => Some []
  | c :: rest =>
      match clause_hls c, clauses_hls rest with
      | Some a, Some b => Some (a ++ b)
      | _, _ => None
      end
  end.

Definition doc_hls (lo hi : option bound) : list hl :=
  (match lo with Some b => [Lower b] | None => [] end) ++
  (match hi with Some b => [Upper b] | None => [] end).

(* every number satisfying h1 satisfies h2 *)
Definition hl_implies (h1 h2 : hl) : bool :=
  match h1, h2 with
  | Lower b1, Lower b2 =>
      Qlt_b (b_val b2) (b_val b1) || (Qeq_bool (b_val b2) (b_val b1) && (negb (b_strict b2) || b_strict b1))
  | Upper b1, Upper b2 =>
      Qlt_b (b_val b1) (b_val b2) || (Qeq_bool (b_val b1) (b_val b2) && (negb (b_strict b2) || b_strict b1))
  | _, _ => false
  end.

(* every half-line of B is implied by some half-line of A: (intersection A) is inside (intersection B) *)
Definition hls_inside (A B : list hl) : bool :=
  forallb (fun b => existsb (fun a => hl_implies a b) A) B.

Definition is_len_clause (n : nat) (c : clause) : bool :=
  match c with RaiseUnlessLen m => Nat.eqb m n | _ => false end.
Definition any_len_clause (c : clause) : bool :=
  match c with RaiseUnlessLen _ => true | _ => false end.

(* SOUND, not complete: true -> for every well-kinded x of class k, `agrees (accepts g x) d x`. *)
Definition check_num (g : guard) (d : drange) : bool :=
  match d with
  | DRange lo hi =>
      match clauses_hls (g_clauses g) with
      | None => false
      | Some G =>
          let D := doc_hls lo hi in
          hls_inside G D && hls_inside D G &&
          match g_pre g with
          | PTruthy => in_range d (VNum 0) && negb (g_else_reject g)   (* `if x and ...` lets 0 through unchecked *)
          | _ => true
          end
      end
  | DLen _ =>
      match g_pre g with
      | PTruthy => false
      | _ => existsb any_len_clause (g_clauses g)
      end
  end.

Definition check_side (g : guard) (d : drange) (k : vclass) : bool :=
  match k with
  | KNaN => negb (accepts g VNaN)
  | KNpNaN => negb (accepts g VNpNaN)
  | KInf => Bool.eqb (accepts g (VInf true)) (in_range d (VInf true)) &&
            Bool.eqb (accepts g (VInf false)) (in_range d (VInf false))
  | KNum => check_num g d
  | KNpNum =>
      (* `isinstance(x, int | float) and ...` never looks at a numpy scalar: fine only if the else branch refuses *)
      match g_pre g with
      | PIsNumber => g_else_reject g
      | _ => check_num g d
      end
  | KSeq =>
      match d with
      | DRange _ _ => true                            (* not well-kinded: nothing to show *)
      | DLen n =>
          match g_pre g with
          | PAlways | PNotNone =>
              match g_clauses g with
              | [] => false
              | cs => forallb (is_len_clause n) cs
              end
          | _ => false
          end
      end
  end.

(* SOUND: true -> every well-kinded value that is accepted is stored with its own value *)
Definition check_store (op : storeop) (d : drange) : bool :=
  match op, d with
  | StId, _ => true
  | StFloatIf _, DRange _ _ => true
  | _, _ => false
  end.

Definition check_store_row (st : store_table) (r : docrow) : bool :=
  match lookup_stores st (d_key r) with
  | None => false
  | Some ops => check_store (fst ops) (d_range r) && check_store (snd ops) (d_range r)
  end.

Definition check_stores (docs : list docrow) (st : store_table) : bool := forallb (check_store_row st) docs.

Definition exceptions := list (fkey * side * vclass).

Definition excepted (exc : exceptions) (f : fkey) (s : side) (k : vclass) : bool :=
  existsb (fun e => match e with (f', s', k') => fkey_eqb f' f && side_eqb s' s && vclass_eqb k' k end) exc.

Definition check_row (gt : guard_table) (exc : exceptions) (r : docrow) : bool :=
  match lookup_guards gt (d_key r) with
  | None => false
  | Some gs =>
      forallb (fun s =>
        forallb (fun k => excepted exc (d_key r) s k || check_side (pick s gs) (d_range r) k)
                all_classes)
        [SCtor; SSetter]
  end.

Definition check_table (docs : list docrow) (gt : guard_table) (exc : exceptions) : bool :=
  forallb (check_row gt exc) docs.

(* a concrete disagreement between a guard and the documented range *)
Definition witness := (fkey * side * value)%type.

Definition is_discrepancy (docs : list docrow) (gt : guard_table) (w : witness) : bool :=
  match w with
  | (f, s, x) =>
      match lookup_doc docs f, guard_at gt f s with
      | Some r, Some g => well_kinded (d_range r) x && negb (agrees (accepts g x) (d_range r) x)
      | _, _ => false
      end
  end.

Definition exceptions_of (ws : list witness) : exceptions :=
  flat_map (fun w => match w with (f, s, x) =>
              match class_of x with Some k => [(f, s, k)] | None => [] end end) ws.

(* None = "not specified": the constructor takes it exactly for the optional fields *)
Definition none_ok (gt : guard_table) (r : docrow) : bool :=
  match guard_at gt (d_key r) SCtor with
  | Some g => Bool.eqb (accepts g VNone) (d_optional r)
  | None => false
  end.

(* a field whose source has a range check but which the literal table does not know *)
Definition is_read_only (g : guard) : bool :=
  match g_pre g, g_clauses g, g_else_reject g with
  | PIsNumber, [RaiseUnlessLen O], true => true
  | _, _, _ => false
  end.
Definition trivial_guard (g : guard) : bool :=
  is_read_only g || match g_clauses g with [] => negb (g_else_reject g) | _ => false end.
Definition unlisted_guards (docs : list docrow) (gt : guard_table) : list fkey :=
  map fst (filter (fun e => match e with (f, (gc, gs)) =>
                     negb (trivial_guard gc && trivial_guard gs) &&
                     match lookup_doc docs f with Some _ => false | None => true end end) gt).

(* ------------------------------------------------------------------------------------------ exactly one *)

(* what a document holds under a top-level key: nothing, `key:` (null), `key: {}`, or a filled section *)
Inductive sstate := SAbsent | SNull | SEmptyMap | SFilled.

Definition st_present (s : sstate) : bool := match s with SAbsent => false | _ => true end.
Definition st_filled (s : sstate) : bool := match s with SFilled => true | _ => false end.

(* HOW a check counts the sections (regenerated):
     CMPresent   sum(key in dct for key in keys)
     CMNotNone   sum(dct.get(key) is not None for key in keys)   /  sum(el is not None for el in <built objects>)
     CMTruthy    sum(bool(dct.get(key)) for key in keys)                                                     *)
Inductive cntmethod := CMPresent | CMNotNone | CMTruthy.

Definition counts (m : cntmethod) (s : sstate) : bool :=
  match m, s with
  | CMPresent, SAbsent => false
  | CMPresent, _ => true
  | CMNotNone, (SAbsent | SNull) => false
  | CMNotNone, _ => true
  | CMTruthy, SFilled => true
  | CMTruthy, _ => false
  end.

Inductive cntop := CNe | CLt | CGt | CEq.             (* if count <op> n: raise *)
Record presence_check := PCheck { pc_site : string; pc_keys : list string; pc_how : cntmethod; pc_op : cntop; pc_n : Z }.

Definition count_present (keys : list string) (present : string -> bool) : Z :=
  Z.of_nat (List.length (filter present keys)).

Definition count_sections (how : cntmethod) (keys : list string) (st : string -> sstate) : Z :=
  count_present keys (fun k => counts how (st k)).

Definition cnt_raises (op : cntop) (c n : Z) : bool :=
  match op with CNe => negb (c =? n) | CLt => c <? n | CGt => c >? n | CEq => c =? n end.

Definition checks_pass (checks : list presence_check) (st : string -> sstate) : bool :=
  forallb (fun c => negb (cnt_raises (pc_op c) (count_sections (pc_how c) (pc_keys c) st) (pc_n c))) checks.

(* LITERAL: the three running modes and the four detector types of the property text *)
Definition mode_keys : list string := ["exposure"; "observation"; "calibration"]%string.
Definition detector_keys : list string :=
  ["ccd_detector"; "cmos_detector"; "mkid_detector"; "apd_detector"]%string.

Definition exactly_one (keys : list string) (present : string -> bool) : Prop :=
  exists k, In k keys /\ present k = true /\ forall k', In k' keys -> present k' = true -> k' = k.

Definition exactly_one_b (keys : list string) (present : string -> bool) : bool :=
  count_present keys present =? 1.

Fixpoint list_string_eqb (a b : list string) : bool :=
  match a, b with
  | [], [] => true
  | x :: a', y :: b' => String.eqb x y && list_string_eqb a' b'
  | _, _ => false
  end.

Definition check_is (keys : list string) (c : presence_check) : bool :=
  list_string_eqb (pc_keys c) keys && match pc_op c with CNe => true | _ => false end && (pc_n c =? 1).

Definition counts_presence (c : presence_check) : bool :=
  match pc_how c with CMPresent => true | _ => false end.

(* every check is "exactly one mode" or "exactly one detector", and both occur *)
Definition checks_ok (checks : list presence_check) : bool :=
  forallb (fun c => check_is mode_keys c || check_is detector_keys c) checks &&
  existsb (check_is mode_keys) checks && existsb (check_is detector_keys) checks.

(* which section is used: the first key present, in the order of the if/elif chain *)
Fixpoint first_present (keys : list string) (present : string -> bool) : option string :=
  match keys with
  | [] => None
  | k :: rest => if present k then Some k else first_present rest present
  end.

Definition str_mem (k : string) (l : list string) : bool := existsb (String.eqb k) l.

(* THE LOADER (_build_configuration): the count checks on the document (`pre`, each with its way of counting);
   the two if/elif chains hand the FIRST key that is IN the document (`"k" in dct`, whatever it holds) to its builder
   (`mdisp`, `ddisp`: the keys in the order of the chains, regenerated); Configuration(...) then re-counts the objects
   that were built (`post`).  Some (m, d) = the sections m and d are handed to their builders; None = refused. *)
Definition built_state (m d k : string) : sstate :=
  if String.eqb k m || String.eqb k d then SFilled else SAbsent.

Definition dispatch (pre post : list presence_check) (mdisp ddisp : list string) (st : string -> sstate)
  : option (string * string) :=
  if checks_pass pre st then
    match first_present mdisp (fun k => st_present (st k)), first_present ddisp (fun k => st_present (st k)) with
    | Some m, Some d => if checks_pass post (built_state m d) then Some (m, d) else None
    | _, _ => None
    end
  else None.

(* k is the one key of `keys` the document holds *)
Definition only_present (keys : list string) (st : string -> sstate) (k : string) : Prop :=
  In k keys /\ st k <> SAbsent /\ forall k', In k' keys -> st k' <> SAbsent -> k' = k.

Definition same_keys (a b : list string) : bool :=
  forallb (fun k => str_mem k b) a && forallb (fun k => str_mem k a) b.

(* what the theorem needs of the regenerated loader: the checks on the document are the two exactly-one checks and they
   count PRESENCE (a section left empty counts); the checks on the built objects are exactly-one checks; the chains
   know exactly the mode keys / the detector keys *)
Definition loader_ok (pre post : list presence_check) (mdisp ddisp : list string) : bool :=
  checks_ok pre && forallb counts_presence pre &&
  forallb (fun c => check_is mode_keys c || check_is detector_keys c) post &&
  same_keys mdisp mode_keys && same_keys ddisp detector_keys.

(* ------------------------------------------------------------------------------------------ settings *)

(* leaves of a (flattened) configuration document *)
Inductive leaf :=
  | LNone
  | LBool (b : bool)
  | LNum (q : Q)                       (* ints and floats, compared by value *)
  | LStr (s : string)
  | LList (l : list leaf)
  | LArange (a b s : Q) (n : nat).     (* the text "numpy.arange(a, b, s)" which denotes n numbers *)

Fixpoint arange_vals (a s : Q) (n : nat) : list leaf :=
  match n with
  | O => []
  | S n' => LNum a :: arange_vals (a + s)%Q s n'
  end.

(* number of elements of numpy.arange(a, b, s) for s > 0: ceil((b - a) / s), 0 if negative *)
Definition arange_len (a b s : Q) : nat :=
  Z.to_nat (- Qfloor (- ((b - a) / s))%Q).

(* what a leaf denotes: range expressions are evaluated to the numbers they stand for *)
Definition denote (v : leaf) : leaf :=
  match v with
  | LArange a b s n => LList (arange_vals a s n)
  | LNum q => LList [LNum q]
  | other => other
  end.

(* how a key is read: as written, or through eval_range (readout times, parameter values) *)
Inductive kind := KPlain | KRange.

Definition denote_as (k : kind) (v : leaf) : leaf :=
  match k with KPlain => v | KRange => denote v end.

Definition entry := (string * leaf)%type.

Fixpoint lookup (k : string) (m : list entry) : option leaf :=
  match m with
  | [] => None
  | (k', v) :: rest => if String.eqb k' k then Some v else lookup k rest
  end.

Definition has_key (k : string) (m : list entry) : bool :=
  match lookup k m with Some _ => true | None => false end.

(* build: every written leaf arrives (range-typed keys evaluated); absent keys with a default get it *)
Definition build (kind_of : string -> kind) (defaults doc : list entry) : list entry :=
  map (fun e => (fst e, denote_as (kind_of (fst e)) (snd e))) doc ++
  filter (fun d => negb (has_key (fst d) doc)) defaults.

Fixpoint leaf_eqb (a b : leaf) {struct a} : bool :=
  match a, b with
  | LNone, LNone => true
  | LBool x, LBool y => Bool.eqb x y
  | LNum x, LNum y => Qeq_bool x y
  | LStr x, LStr y => String.eqb x y
  | LList x, LList y =>
      (fix go (l1 l2 : list leaf) {struct l1} : bool :=
         match l1, l2 with
         | [], [] => true
         | u :: l1', v :: l2' => leaf_eqb u v && go l1' l2'
         | _, _ => false
         end) x y
  | LArange a1 b1 s1 n1, LArange a2 b2 s2 n2 =>
      Qeq_bool a1 a2 && Qeq_bool b1 b2 && Qeq_bool s1 s2 && Nat.eqb n1 n2
  | _, _ => false
  end.

(* well-formed arange literal: the element count written by the harness is the one numpy.arange means *)
Fixpoint leaf_wf (v : leaf) : bool :=
  match v with
  | LArange a b s n => Qlt_b 0 s && Nat.eqb n (arange_len a b s)
  | LList l => forallb leaf_wf l
  | _ => true
  end.

(* range-typed keys: readout times and parameter values *)
Definition ends_with (suffix s : string) : bool :=
  let ls := String.length s in
  let lf := String.length suffix in
  Nat.leb lf ls && String.eqb (String.substring (ls - lf) lf s) suffix.

Definition kind_of_key (k : string) : kind :=
  if ends_with ".readout.times" k || ends_with ".values" k then KRange else KPlain.

(* ------------------------------------------------------------------------------------------ derived objects *)

(* A derived object (Readout.replace with keyword changes, the `times` setter reached by a sweep over
   'observation.readout.times', a deep copy): the settings named in `changes` get the new value, every other
   setting that the operation CARRIES keeps the value of the original.  `carried` is regenerated from the
   source of Readout.replace (Gen_C12.src_replace_carried). *)
Definition derive (carried : list string) (settings changes : list entry) : list entry :=
  flat_map (fun k => match lookup k changes with
                     | Some v => [(k, v)]
                     | None => match lookup k settings with Some v => [(k, v)] | None => [] end
                     end) carried.

(* LITERAL: the settings a readout has once it is built (`times_from_file` is another way of giving `times`) *)
Definition readout_settings : list string := ["times"; "start_time"; "non_destructive"]%string.

Definition readout_key (k : string) : string := ("mode.readout." ++ k)%string.

(* every setting of a readout is carried by replace(), and replace() passes nothing the constructor does not take *)
Definition carries_all (params carried : list string) : bool :=
  forallb (fun k => str_mem k carried) readout_settings &&
  forallb (fun k => str_mem k params) carried.

(* ------------------------------------------------------------------------------------------ what is compared *)

(* LITERAL: per class reachable from a configuration document, the constructor parameters whose loaded value the
   correspondence reads back and compares with the document (harness/props/c12.py flatten + defaults,
   harness/drivers/c12.py read_settings) ... *)
Definition compared_params : list (string * list string) := [
  ("Exposure", ["readout"; "outputs"; "result_type"; "pipeline_seed"; "working_directory"]);
  ("Readout", ["times"; "times_from_file"; "start_time"; "non_destructive"]);
  ("Observation", ["parameters"; "outputs"; "readout"; "mode"; "with_dask"; "result_type"; "pipeline_seed";
                   "working_directory"]);
  ("ParameterValues", ["key"; "values"; "boundaries"; "enabled"; "logarithmic"]);
  ("Calibration", ["target_data_path"; "fitness_function"; "algorithm"; "parameters"; "outputs"; "readout"; "mode";
                   "result_type"; "result_fit_range"; "result_input_arguments"; "target_fit_range"; "pygmo_seed";
                   "pipeline_seed"; "num_islands"; "num_evolutions"; "num_best_decisions"; "topology"; "type_islands";
                   "weights_from_file"; "weights"]);
  ("Algorithm", ["type"; "generations"; "population_size"; "variant"; "variant_adptv"; "ftol"; "xtol"; "memory"; "cr";
                 "eta_c"; "m"; "param_m"; "param_s"; "crossover"; "mutation"; "selection"; "nlopt_solver"; "maxtime";
                 "maxeval"; "xtol_rel"; "xtol_abs"; "ftol_rel"; "ftol_abs"; "stopval"; "replacement"; "nlopt_selection"]);
  ("ExposureOutputs", ["output_folder"; "custom_dir_name"; "save_data_to_file"; "save_exposure_data"]);
  ("ObservationOutputs", ["output_folder"; "custom_dir_name"; "save_data_to_file"; "save_observation_data"]);
  ("CalibrationOutputs", ["output_folder"; "custom_dir_name"; "save_data_to_file"; "save_calibration_data"]);
  ("ModelFunction", ["func"; "name"; "arguments"; "enabled"]);
  ("FitnessFunction", ["func"; "arguments"]);
  ("DetectionPipeline", ["scene_generation"; "photon_collection"; "phasing"; "charge_generation"; "charge_collection";
                         "charge_transfer"; "charge_measurement"; "signal_transfer"; "readout_electronics";
                         "data_processing"]);
  ("Geometry", ["row"; "col"; "total_thickness"; "pixel_vert_size"; "pixel_horz_size"; "pixel_scale"]);
  ("Characteristics", ["quantum_efficiency"; "charge_to_volt_conversion"; "pre_amplification"; "full_well_capacity";
                       "adc_bit_resolution"; "adc_voltage_range"]);
  ("APDCharacteristics", ["roic_gain"; "quantum_efficiency"; "full_well_capacity"; "adc_bit_resolution";
                          "adc_voltage_range"; "avalanche_gain"; "pixel_reset_voltage"; "common_voltage"]);
  ("Environment", ["temperature"; "wavelength"]);
  ("WavelengthHandling", ["cut_on"; "cut_off"; "resolution"])
]%string.

(* ... and the ones it does NOT compare, each for a stated reason: the custom observation mode (a parameter file) is not
   generated; a working directory of a calibration would move its target files; a local optimizer is a pygmo object
   that a YAML document cannot hold. *)
Definition uncompared_params : list (string * list string) := [
  ("Observation", ["from_file"; "column_range"]);
  ("Calibration", ["working_directory"]);
  ("Algorithm", ["local_optimizer"])
]%string.

Definition assoc_mem (t : list (string * list string)) (c p : string) : bool :=
  existsb (fun e => String.eqb (fst e) c && str_mem p (snd e)) t.

(* every constructor parameter of every reachable class (regenerated) is compared or explicitly excluded, and the
   literal tables name only parameters that exist *)
Definition params_covered (src compared uncompared : list (string * list string)) : bool :=
  forallb (fun e => forallb (fun p => assoc_mem compared (fst e) p || assoc_mem uncompared (fst e) p) (snd e)) src &&
  forallb (fun e => forallb (fun p => assoc_mem src (fst e) p) (snd e)) (compared ++ uncompared).

(* ------------------------------------------------------------------------------------------ correspondence *)

Fixpoint indices_where {A} (p : A -> bool) (l : list A) (i : Z) : list Z :=
  match l with
  | [] => []
  | x :: rest => if p x then i :: indices_where p rest (i + 1) else indices_where p rest (i + 1)
  end.

(* one value driven into one field along one path; observed = was it accepted, and what the field holds afterwards
   (gc_stored = None: not read back).  gc_int: the number is carried by an integer type (python int, numpy.int64 ...). *)
Record gcase := GCase { gc_key : fkey; gc_path : path; gc_x : value; gc_int : bool; gc_accepted : bool;
                        gc_stored : option value }.

(* LITERAL: the fields that give the shape of the frames.  A detector is built right after its geometry when a document
   is loaded, and numpy refuses a shape that is not made of integers (a float is refused whatever its value): on the
   YAML path a float in one of these fields may be refused downstream of the guard, so the comparison with the guard
   is one-directional there (accepted by the load => accepted by the guard). *)
Definition allocated_fields : list fkey := [(CGeometry, "row"%string); (CGeometry, "col"%string)].

Definition alloc_strict (c : gcase) : bool :=
  match gc_path c with
  | PYaml => existsb (fkey_eqb (gc_key c)) allocated_fields && negb (gc_int c)
  | _ => false
  end.

Definition gcase_mismatch (gt : guard_table) (st : store_table) (c : gcase) : bool :=
  let s := side_of_path (gc_path c) in
  match guard_at gt (gc_key c) s, store_at st (gc_key c) s with
  | Some g, Some op =>
      let m := goes_in g op (gc_x c) in
      if alloc_strict c then gc_accepted c && negb m
      else negb (Bool.eqb m (gc_accepted c)) ||
           (gc_accepted c && match gc_stored c, stored op (gc_x c) with
                             | Some y, Some y' => negb (value_same y y')
                             | _, _ => false
                             end)
  | _, _ => true
  end.

(* LITERAL: the quantities that count something (pixels, bits).  The documented range does not say that they are whole
   numbers, so a fractional value inside the range may be accepted — or refused: both are right, as long as an accepted
   value is the value the field then holds. *)
Definition integer_like : list fkey :=
  [(CGeometry, "row"%string); (CGeometry, "col"%string);
   (CCharacteristics, "adc_bit_resolution"%string); (CAPDCharacteristics, "adc_bit_resolution"%string)].

Definition q_is_whole (q : Q) : bool := Qeq_bool (q_trunc q) q.

Definition may_be_refused (c : gcase) : bool :=
  alloc_strict c ||
  (existsb (fkey_eqb (gc_key c)) integer_like &&
   match core_of (gc_x c) with VNum q => negb (q_is_whole q) | _ => false end).

(* the specification: accepted iff inside the documented range (None: iff optional, constructor only; a fractional
   value of an integer-like quantity, and a float array size in a document: refused, or accepted only if inside); and
   what the field holds after an accepted value IS that value (so it satisfies the documented limit as well) *)
Definition gcase_violates (c : gcase) : bool :=
  match lookup_doc documented (gc_key c) with
  | None => false
  | Some r =>
      match gc_x c with
      | VNone =>
          match side_of_path (gc_path c) with
          | SCtor => negb (Bool.eqb (gc_accepted c) (d_optional r))
          | SSetter => false
          end
      | x => well_kinded (d_range r) x &&
             (if may_be_refused c then gc_accepted c && negb (in_range (d_range r) x)
              else negb (agrees (gc_accepted c) (d_range r) x))
      end ||
      (gc_accepted c && match gc_stored c with
                        | Some y => negb (value_same y (gc_x c)) ||
                                    (well_kinded (d_range r) y && negb (in_range (d_range r) y))
                        | None => false
                        end)
  end.

Definition g_mismatches (gt : guard_table) (st : store_table) (cs : list gcase) : list Z :=
  indices_where (gcase_mismatch gt st) cs 0.
Definition g_violations (cs : list gcase) : list Z := indices_where gcase_violates cs 0.

(* a document: what it holds under each top-level key (keys not listed: absent); observed = did pyxel.load accept it,
   and which sections the loaded configuration has *)
Record ecase := ECase { ec_doc : list (string * sstate); ec_loaded : bool; ec_used : list string }.

Fixpoint state_of (doc : list (string * sstate)) (k : string) : sstate :=
  match doc with
  | [] => SAbsent
  | (k', s) :: rest => if String.eqb k' k then s else state_of rest k
  end.

Definition present_of (keys : list string) (k : string) : bool := existsb (String.eqb k) keys.
Definition filled_doc (keys : list string) : list (string * sstate) := map (fun k => (k, SFilled)) keys.

Definition pair_list (o : option (string * string)) : list string :=
  match o with Some (m, d) => [m; d] | None => [] end.

(* model vs implementation.  The model says which sections are handed to their builders; a builder may still refuse a
   section that is empty (to_observation(None) ...), so for an empty section only "if it loads, it is that one" is
   compared. *)
Definition ecase_mismatch (pre post : list presence_check) (mdisp ddisp : list string) (c : ecase) : bool :=
  let st := state_of (ec_doc c) in
  match dispatch pre post mdisp ddisp st with
  | None => ec_loaded c
  | Some (m, d) =>
      if st_filled (st m) && st_filled (st d)
      then negb (ec_loaded c && list_string_eqb (ec_used c) [m; d])
      else ec_loaded c && negb (list_string_eqb (ec_used c) [m; d])
  end.

Definition the_only (p : string -> bool) (keys : list string) : option string :=
  match filter p keys with [k] => Some k | _ => None end.

(* the section a document MEANS for a group of keys: the only key present; with several keys present — which the
   loader should refuse — at the very least never another one than the only FILLED section *)
Definition meant (keys : list string) (st : string -> sstate) : option string :=
  match the_only (fun k => st_present (st k)) keys with
  | Some k => Some k
  | None => match filter (fun k => st_present (st k)) keys with
            | [] => None
            | _ => the_only (fun k => st_filled (st k)) keys
            end
  end.

(* THE SPECIFICATION on a document with section states:
   - it loads only if, for the modes and for the detectors, a section is meant, and then exactly these two are used;
   - a document with exactly one filled mode section, exactly one filled detector section and no other mode /
     detector key must load. *)
Definition ecase_violates (c : ecase) : bool :=
  let st := state_of (ec_doc c) in
  if ec_loaded c then
    match meant mode_keys st, meant detector_keys st with
    | Some m, Some d => negb (list_string_eqb (ec_used c) [m; d])
    | _, _ => true
    end
  else
    match the_only (fun k => st_present (st k)) mode_keys, the_only (fun k => st_present (st k)) detector_keys with
    | Some m, Some d => st_filled (st m) && st_filled (st d)
    | _, _ => false
    end.

Definition e_mismatches (pre post : list presence_check) (mdisp ddisp : list string) (cs : list ecase) : list Z :=
  indices_where (ecase_mismatch pre post mdisp ddisp) cs 0.
Definition e_violations (cs : list ecase) : list Z := indices_where ecase_violates cs 0.

(* Configuration(pipeline=..., <objects>) called directly with the given running-mode / detector objects (building the
   same objects in Python): only the checks on the built objects (Configuration.__post_init__) stand in the way *)
Record ccase := CCase { cc_given : list string; cc_accepted : bool }.

Definition given_state (given : list string) (k : string) : sstate :=
  if present_of given k then SFilled else SAbsent.

Definition ccase_mismatch (post : list presence_check) (c : ccase) : bool :=
  negb (Bool.eqb (checks_pass post (given_state (cc_given c))) (cc_accepted c)).

Definition ccase_violates (c : ccase) : bool :=
  let p := present_of (cc_given c) in
  negb (Bool.eqb (exactly_one_b mode_keys p && exactly_one_b detector_keys p) (cc_accepted c)).

Definition c_mismatches (post : list presence_check) (cs : list ccase) : list Z := indices_where (ccase_mismatch post) cs 0.
Definition c_violations (cs : list ccase) : list Z := indices_where ccase_violates cs 0.

(* a flattened document, the defaults that apply to it, and the settings read back from the loaded objects *)
Record scase := SCase { sc_doc : list entry; sc_defaults : list entry; sc_observed : list entry }.

(* keys of `expected` whose observed value is missing or different, as indices into `expected` *)
Definition bad_settings (expected observed : list entry) : list Z :=
  indices_where (fun e => match lookup (fst e) observed with
                          | Some v => negb (leaf_eqb v (snd e))
                          | None => true
                          end) expected 0.

Definition scase_bad (c : scase) : list Z :=
  if forallb (fun e => leaf_wf (snd e)) (sc_doc c)
  then bad_settings (build kind_of_key (sc_defaults c) (sc_doc c)) (sc_observed c)
  else [(-1)%Z].

Definition s_mismatches (cs : list scase) : list Z :=
  indices_where (fun c => match scase_bad c with [] => false | _ => true end) cs 0.

(* per case: the positions (in doc ++ applicable defaults order) of the settings that differ *)
Definition s_details (cs : list scase) : list (list Z) := map scase_bad cs.

(* a derived readout: the operation, the settings of the original (read back from the loaded object), the changes
   asked for, and the settings of the derived object (None: the operation raised) *)
Inductive dop := DReplace | DSetter | DCopy
  | DSweep.   (* Processor.replace({key: value}) on the loaded detector (one point of a parameter sweep): the
                 settings are ALL the settings of the detector, each of them is carried *)
Record dcase := DCase { dc_op : dop; dc_settings : list entry; dc_changes : list entry;
                        dc_observed : option (list entry) }.

Definition dcase_bad (carried : list string) (c : dcase) : bool :=
  match dc_observed c with
  | None =>
      (* the generator only asks for new times that are valid for the start time: that must work; a raise on a
         change that leaves `times` alone is not judged here (Readout(times=<ndarray>) raises, finding C02-F18) *)
      has_key (readout_key "times") (dc_changes c) || match dc_op c with DSweep => true | _ => false end
  | Some obs =>
      let keys := match dc_op c with
                  | DSweep => map fst (dc_settings c)
                  | _ => map readout_key carried
                  end in
      match bad_settings (derive keys (dc_settings c) (dc_changes c)) obs with
      | [] => false
      | _ => true
      end
  end.

Definition is_replace (c : dcase) : bool := match dc_op c with DReplace => true | _ => false end.

(* model (regenerated carried list) vs implementation, for replace() only *)
Definition d_mismatches (carried : list string) (cs : list dcase) : list Z :=
  indices_where (fun c => is_replace c && dcase_bad carried c) cs 0.
(* the specification: every setting of the readout that was not changed is kept, the changed ones are set *)
Definition d_violations (cs : list dcase) : list Z :=
  indices_where (dcase_bad readout_settings) cs 0.
