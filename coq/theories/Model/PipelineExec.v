(* C01 — state-passing execution of a pipeline OBJECT (model only; proofs in Proofs/PipelineExec.v).

   Model/Pipeline.v gives the calls of a run in closed form (`recv step m`: what position m receives at
   step `step`) and the object after the run in closed form (`age n p`).  Here the same run is written
   the way the code works: ModelFunction.__call__ passes the argument objects STORED in the
   ModelFunction at that moment (func(detector, **self.arguments)); a model function that changes its
   container arguments in place thereby changes what is stored; the next call — next readout step,
   next run of the same object — passes what is stored then.  Proofs/PipelineExec.v proves that the two
   descriptions agree for every pipeline, order and number of steps. *)
From Coq Require Import List String ZArith Bool Arith PeanoNat.
From PyxelV Require Import Model.Pipeline.
Import ListNotations.
Open Scope list_scope.

(* the ModelFunction object after one call of its function *)
Definition touch (m : mfun) : mfun :=
  if grows m then set_args m (grow_kwargs (args m)) else m.

(* ModelGroup.run: `for model in self` (enabled only): the call receives the stored arguments *)
Fixpoint exec_models (step : nat) (g : group) (k : nat) (ms : list mfun) : list call * list mfun :=
  match ms with
  | [] => ([], [])
  | m :: rest =>
      let r := exec_models step g (S k) rest in
      if enabled m
      then ({| c_step := step; c_group := g; c_pos := k; c_name := name m; c_args := args m |} :: fst r,
            touch m :: snd r)
      else (fst r, m :: snd r)
  end.

(* Processor.run_pipeline on the object p: the calls, and the object as the calls left it *)
Fixpoint exec_groups (order : list group) (p : pipeline) (step : nat) : list call * pipeline :=
  match order with
  | [] => ([], p)
  | g :: rest =>
      match get p g with
      | None => exec_groups rest p step
      | Some ms =>
          let r1 := exec_models step g 0 ms in
          let r2 := exec_groups rest (set_group p g (Some (snd r1))) step in
          (fst r1 ++ fst r2, snd r2)
      end
  end.

Fixpoint exec_steps (order : list group) (p : pipeline) (steps : list nat) : list call * pipeline :=
  match steps with
  | [] => ([], p)
  | s :: rest =>
      let r1 := exec_groups order p s in
      let r2 := exec_steps order (snd r1) rest in
      (fst r1 ++ fst r2, snd r2)
  end.

(* exposure.run_pipeline with n readout times, on the user's own pipeline object *)
Definition exec_readouts (order : list group) (p : pipeline) (n : nat) : list call * pipeline :=
  exec_steps order p (seq 0 n).

(* every present group g aged by (f g) readout steps *)
Definition age_by (f : group -> nat) (p : pipeline) : pipeline :=
  {| p_scene_generation := option_map (map (age_mfun (f SceneGeneration))) (p_scene_generation p);
     p_photon_collection := option_map (map (age_mfun (f PhotonCollection))) (p_photon_collection p);
     p_phasing := option_map (map (age_mfun (f Phasing))) (p_phasing p);
     p_charge_generation := option_map (map (age_mfun (f ChargeGeneration))) (p_charge_generation p);
     p_charge_collection := option_map (map (age_mfun (f ChargeCollection))) (p_charge_collection p);
     p_charge_transfer := option_map (map (age_mfun (f ChargeTransfer))) (p_charge_transfer p);
     p_charge_measurement := option_map (map (age_mfun (f ChargeMeasurement))) (p_charge_measurement p);
     p_signal_transfer := option_map (map (age_mfun (f SignalTransfer))) (p_signal_transfer p);
     p_readout_electronics := option_map (map (age_mfun (f ReadoutElectronics))) (p_readout_electronics p);
     p_data_processing := option_map (map (age_mfun (f DataProcessing))) (p_data_processing p) |}.
