(* C07 — seeded blocks (save / seed / draw ... / restore) executed by several workers.
   One generator shared by threads: a schedule exists that changes the draws and leaks the seed.
   One worker, or one generator per worker (processes): always equal to the sequential outcome. *)
From Coq Require Import ZArith List Bool Lia PeanoNat.
From PyxelV Require Import Model.Parallel.
Import ListNotations.

Lemma nth_error_set_nth_eq {A} (l : list A) k v : k < length l -> nth_error (set_nth k v l) k = Some v.
Proof. revert k; induction l; destruct k; simpl; intros; try lia; auto. apply IHl; lia. Qed.

Lemma nth_error_set_nth_neq {A} (l : list A) k k' v : k <> k' -> nth_error (set_nth k v l) k' = nth_error l k'.
Proof. revert k k'; induction l; destruct k, k'; simpl; intros; try congruence; auto. Qed.

Lemma set_nth_length {A} (l : list A) k v : length (set_nth k v l) = length l.
Proof. revert k; induction l; destruct k; simpl; auto. Qed.

Lemma set_nth_set_nth {A} (l : list A) k v w : set_nth k v (set_nth k w l) = set_nth k v l.
Proof. revert k; induction l; destruct k; simpl; auto. now rewrite IHl. Qed.

Lemma set_nth_same {A} (l : list A) k v : nth_error l k = Some v -> set_nth k v l = l.
Proof. revert k; induction l; destruct k; simpl; intros H; try discriminate; [now injection H as ->|]. now rewrite IHl. Qed.

Lemma map_set_nth {A B} (h : A -> B) (l : list A) k v : map h (set_nth k v l) = set_nth k (h v) (map h l).
Proof. revert k; induction l; destruct k; simpl; auto. now rewrite IHl. Qed.

Lemma nth_error_ext_local {A} (a b : list A) : (forall k, nth_error a k = nth_error b k) -> a = b.
Proof.
  revert b; induction a as [|x a IH]; intros [|y b] H; try reflexivity; try (specialize (H 0); discriminate).
  f_equal; [specialize (H 0); now injection H|]. apply IH. intros k. apply (H (S k)).
Qed.

Section RngProofs.
  Variable G : Type.
  Variable seedf : Z -> G.
  Variable next : G -> G.
  Variable out : G -> Z.

  Notation step := (step_thread G seedf next out).
  Notation finishf := (finish_fuel G seedf next out).
  Notation fin := (finish G seedf next out).
  Notation draws := (draws_of G next out).
  Notation runS := (run_shared G seedf next out).
  Notation runP := (run_procs G seedf next out).

  (* the outcome of one seeded block run alone from generator state g: generator restored to g, the
     draws are the first n numbers of the stream of the seed *)
  Definition done_thread (g : G) (sn : Z * nat) : thread G := mkT [] (Some g) (draws (seedf (fst sn)) (snd sn)).

  Lemma finish_cons m g i r sv os :
    finishf (S m) (g, mkT (i :: r) sv os) = finishf m (exec1 G seedf next out i g (mkT r sv os)).
  Proof. reflexivity. Qed.

  Lemma finish_draws n : forall g' sv os,
    finishf (n + 1) (g', mkT (repeat IDraw n ++ [IRestore]) (Some sv) os)
    = (sv, mkT [] (Some sv) (os ++ draws g' n)).
  Proof.
    induction n as [|n IH]; intros g' sv os.
    - cbn [repeat app Nat.add]. rewrite finish_cons. cbn. now rewrite app_nil_r.
    - cbn [repeat app Nat.add]. rewrite finish_cons. cbn [exec1 prog saved outs].
      rewrite IH. cbn [draws_of]. now rewrite <- app_assoc.
  Qed.

  Lemma seeded_length s n : length (seeded s n) = n + 3.
  Proof. unfold seeded. rewrite !app_length, repeat_length. simpl. lia. Qed.

  Lemma finish_seeded g sn : fin (g, start G sn) = (g, done_thread g sn).
  Proof.
    destruct sn as [s n]. unfold finish, start. cbn [fst snd prog]. rewrite seeded_length.
    replace (n + 3) with (S (S (n + 1))) by lia.
    unfold seeded. cbn [app]. rewrite finish_cons. cbn [exec1 prog saved outs].
    rewrite finish_cons. cbn [exec1 prog saved outs].
    rewrite finish_draws. reflexivity.
  Qed.

  (* ------------------------------------------------------------------ one generator per worker *)
  Lemma step_prog g t : prog (snd (step g t)) = tl (prog t).
  Proof. unfold step_thread. destruct t as [[|i r] sv os]; simpl; [reflexivity|]. destruct i; reflexivity. Qed.

  Lemma finish_step gt : fin (step (fst gt) (snd gt)) = fin gt.
  Proof.
    unfold finish. rewrite step_prog. destruct gt as [g [[|i r] sv os]]; simpl; [reflexivity|]. reflexivity.
  Qed.

  Lemma runP_finish sched : forall ps, map fin (runP sched ps) = map fin ps.
  Proof.
    induction sched as [|k r IH]; intros ps; simpl; [reflexivity|].
    destruct (nth_error ps k) as [gt|] eqn:E; [|apply IH].
    rewrite IH, map_set_nth, finish_step. apply set_nth_same. now rewrite nth_error_map, E.
  Qed.

  Lemma fin_done gt : prog (snd gt) = [] -> fin gt = gt.
  Proof. intros H. unfold finish. now rewrite H. Qed.

  (* for EVERY interleaving of the workers' steps: once all blocks have finished, every worker's
     generator is back in its own initial state and its draws are those of the sequential run *)
  Theorem procs_equal_sequential (specs : list (G * (Z * nat))) (sched : list nat) :
    let r := runP sched (map (fun gs => (fst gs, start G (snd gs))) specs) in
    all_done G (map snd r) = true ->
    r = map (fun gs => (fst gs, done_thread (fst gs) (snd gs))) specs.
  Proof.
    intros r Hd.
    assert (E : map fin r = r).
    { unfold all_done in Hd. rewrite forallb_forall in Hd.
      clear -Hd. induction r as [|gt r IH]; [reflexivity|]. simpl. f_equal.
      - apply fin_done. specialize (Hd (snd gt) (or_introl eq_refl)). now destruct (prog (snd gt)).
      - apply IH. intros x Hx. apply Hd. now right. }
    rewrite <- E. unfold r. rewrite runP_finish, map_map. apply map_ext. intros [g sn]. simpl. apply finish_seeded.
  Qed.

  (* ------------------------------------------------------------------ one worker, shared generator *)
  Lemma runS_app a : forall b g ts, runS (a ++ b) g ts = runS b (fst (runS a g ts)) (snd (runS a g ts)).
  Proof.
    induction a as [|k a IH]; intros b g ts; simpl; [reflexivity|].
    destruct (nth_error ts k); apply IH.
  Qed.

  Lemma runS_repeat k m : forall g ts t, nth_error ts k = Some t ->
    runS (repeat k m) g ts = (fst (finishf m (g, t)), set_nth k (snd (finishf m (g, t))) ts).
  Proof.
    induction m as [|m IH]; intros g ts t Ht; simpl.
    - now rewrite set_nth_same.
    - rewrite Ht. assert (Hk : k < length ts) by (apply nth_error_Some; congruence).
      rewrite (IH _ _ (snd (step g t))) by now apply nth_error_set_nth_eq.
      rewrite set_nth_set_nth. destruct (step g t); reflexivity.
  Qed.

  Definition segment (ts0 : list (thread G)) (k : nat) : list nat :=
    match nth_error ts0 k with Some t => repeat k (length (prog t)) | None => [] end.

  Lemma serial_inv (sns : list (Z * nat)) (g : G) (order : list nat) :
    NoDup order ->
    forall ts, (forall k, In k order -> nth_error ts k = nth_error (map (start G) sns) k) ->
    let r := runS (flat_map (segment (map (start G) sns)) order) g ts in
    fst r = g /\
    forall k, nth_error (snd r) k =
              if existsb (Nat.eqb k) order then option_map (done_thread g) (nth_error sns k) else nth_error ts k.
  Proof.
    induction 1 as [|k0 rest Hnot Hnd IH]; intros ts Hinv; simpl.
    - split; reflexivity.
    - rewrite runS_app.
      assert (H0 : nth_error ts k0 = nth_error (map (start G) sns) k0) by (apply Hinv; now left).
      rewrite nth_error_map in H0.
      assert (Hrest : forall k, In k rest -> nth_error ts k = nth_error (map (start G) sns) k)
        by (intros k Hk'; apply Hinv; now right).
      destruct (nth_error sns k0) as [sn0|] eqn:E0; cbn [option_map] in H0.
      + assert (Hseg : segment (map (start G) sns) k0 = repeat k0 (length (prog (start G sn0)))).
        { unfold segment. now rewrite nth_error_map, E0. }
        rewrite Hseg. rewrite (runS_repeat _ _ _ _ _ H0).
        change (finishf (length (prog (start G sn0))) (g, start G sn0)) with (fin (g, start G sn0)).
        rewrite finish_seeded. cbn [fst snd].
        assert (Hk : k0 < length ts) by (apply nth_error_Some; congruence).
        destruct (IH (set_nth k0 (done_thread g sn0) ts)) as [Hg Hts].
        { intros k Hk'. rewrite nth_error_set_nth_neq by (intros ->; contradiction). now apply Hrest. }
        split; [exact Hg|]. intros k. rewrite Hts.
        destruct (Nat.eqb k k0) eqn:Ek; cbn [orb].
        * apply Nat.eqb_eq in Ek. subst k. rewrite E0. cbn [option_map].
          destruct (existsb (Nat.eqb k0) rest) eqn:Ex; [reflexivity|]. now apply nth_error_set_nth_eq.
        * apply Nat.eqb_neq in Ek. destruct (existsb (Nat.eqb k) rest); [reflexivity|].
          apply nth_error_set_nth_neq. congruence.
      + assert (Hseg : segment (map (start G) sns) k0 = []).
        { unfold segment. now rewrite nth_error_map, E0. }
        rewrite Hseg. cbn [run_shared fst snd].
        destruct (IH ts Hrest) as [Hg Hts].
        split; [exact Hg|]. intros k. rewrite Hts.
        destruct (Nat.eqb k k0) eqn:Ek; cbn [orb]; [|reflexivity].
        apply Nat.eqb_eq in Ek. subst k. rewrite E0. cbn [option_map].
        destruct (existsb (Nat.eqb k0) rest); [reflexivity|]. exact H0.
  Qed.

  (* one worker: the blocks run one after the other in ANY order of the threads; every block draws
     the stream of its own seed, blocks not run are untouched, the generator ends where it started *)
  Theorem one_worker_equal_sequential (sns : list (Z * nat)) (g : G) (order : list nat) :
    NoDup order ->
    let ts0 := map (start G) sns in
    let r := runS (serial_schedule G ts0 order) g ts0 in
    fst r = g /\
    forall k, nth_error (snd r) k =
              if existsb (Nat.eqb k) order then option_map (done_thread g) (nth_error sns k) else nth_error ts0 k.
  Proof.
    intros Hnd ts0 r. unfold r, serial_schedule. apply (serial_inv sns g order Hnd ts0). reflexivity.
  Qed.

  (* in particular: every thread once, in any order => all threads done with the sequential draws *)
  Corollary one_worker_all (sns : list (Z * nat)) (g : G) (order : list nat) :
    NoDup order -> (forall k, k < length sns -> In k order) ->
    let ts0 := map (start G) sns in
    let r := runS (serial_schedule G ts0 order) g ts0 in
    fst r = g /\ snd r = map (done_thread g) sns.
  Proof.
    intros Hnd Hall ts0 r. destruct (one_worker_equal_sequential sns g order Hnd) as [Hg Hts].
    split; [exact Hg|]. fold ts0 in Hts. fold r in Hts.
    apply nth_error_ext_local. intros k. rewrite Hts, nth_error_map.
    destruct (existsb (Nat.eqb k) order) eqn:Ex; [reflexivity|].
    destruct (nth_error sns k) eqn:E; [|unfold ts0; now rewrite nth_error_map, E].
    exfalso. assert (Hk : k < length sns) by (apply nth_error_Some; congruence).
    specialize (Hall _ Hk). assert (existsb (Nat.eqb k) order = true).
    { apply existsb_exists. exists k. split; [assumption|apply Nat.eqb_refl]. }
    congruence.
  Qed.
End RngProofs.
