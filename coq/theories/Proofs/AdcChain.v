(* get_dtype chain: a finite check (bits 1..64) lifted to the quantified statement. *)
From Coq Require Import ZArith List Bool Lia.
From PyxelV Require Import Lib.B64 Model.Adc.
Import ListNotations.
Open Scope Z_scope.

Definition band_ok (ch : dtype_chain) (b : Z) : bool :=
  match chain_width ch b with
  | Some w => (2 ^ b - 1 <? 2 ^ w) && (existsb (Z.eqb w) [8; 16; 32; 64])
  | None => false
  end.

Definition zrange (lo : Z) (n : nat) : list Z := map (fun k => lo + Z.of_nat k) (seq 0 n).

Lemma in_zrange lo n b : lo <= b < lo + Z.of_nat n -> In b (zrange lo n).
Proof.
  intros H. unfold zrange. apply in_map_iff. exists (Z.to_nat (b - lo)). split; [lia|].
  apply in_seq. lia.
Qed.

Definition chain_ok (ch : dtype_chain) : bool := forallb (band_ok ch) (zrange 1 64).

Lemma chain_ok_sound ch :
  chain_ok ch = true ->
  forall b, 1 <= b <= 64 ->
  exists w, chain_width ch b = Some w /\ 2 ^ b - 1 < 2 ^ w /\ In w [8; 16; 32; 64].
Proof.
  intros H b Hb. unfold chain_ok in H. rewrite forallb_forall in H.
  specialize (H b (in_zrange 1 64 b ltac:(lia))). unfold band_ok in H.
  destruct (chain_width ch b) as [w|]; [|discriminate].
  apply andb_prop in H. destruct H as [H1 H2]. exists w. split; [reflexivity|]. split.
  - apply Z.ltb_lt. exact H1.
  - apply existsb_exists in H2. destruct H2 as [x [Hin Hx]]. apply Z.eqb_eq in Hx. subst x. exact Hin.
Qed.

(* outside 1..64 the chain must refuse (get_dtype raises ValueError) *)
Definition chain_refuses (ch : dtype_chain) : bool :=
  forallb (fun '(lo, hi, _) => (1 <=? lo) && (hi <=? 64)) ch.

Lemma chain_refuses_sound ch :
  chain_refuses ch = true -> forall b, (b < 1 \/ 64 < b) -> chain_width ch b = None.
Proof.
  induction ch as [|[[lo hi] w] rest IH]; intros H b Hb; [reflexivity|].
  cbn [chain_refuses forallb] in H. apply andb_prop in H. destruct H as [H1 H2].
  cbn [chain_width]. apply andb_prop in H1. destruct H1 as [Hlo Hhi].
  apply Z.leb_le in Hlo. apply Z.leb_le in Hhi.
  destruct ((lo <=? b) && (b <=? hi)) eqn:E.
  - apply andb_prop in E. destruct E as [E1 E2]. apply Z.leb_le in E1. apply Z.leb_le in E2. lia.
  - apply IH; assumption.
Qed.

(* the width chosen for an accepted resolution holds every code: bits <= width *)
Lemma chain_fits ch :
  chain_ok ch = true ->
  forall b w, 1 <= b <= 64 -> chain_width ch b = Some w -> b <= w /\ 2 ^ b - 1 < 2 ^ w.
Proof.
  intros H b w Hb Hw. destruct (chain_ok_sound ch H b Hb) as [w' [E [Hlt Hin]]].
  rewrite Hw in E. inversion E; subst w'. split; [|exact Hlt].
  assert (0 <= w) by (simpl in Hin; lia).
  destruct (Z_lt_le_dec w b) as [L|L]; [|exact L]. exfalso.
  assert (2 ^ (w + 1) <= 2 ^ b) by (apply Z.pow_le_mono_r; lia).
  rewrite Z.pow_add_r in H1 by lia. change (2 ^ 1) with 2 in H1.
  assert (0 < 2 ^ w) by (apply Z.pow_pos_nonneg; lia). lia.
Qed.
