(* Proofs/Result.v — C03: lemmas about the merge along `time` and the assembled result. *)
From Coq Require Import ZArith List Bool String Lia Sorted.
From PyxelV Require Import Model.Result.
Import ListNotations.
Open Scope Z_scope.

(* ------------------------------------------------------------------------------ small list facts *)

Lemma map_fst_combine : forall (A B : Type) (l : list A) (m : list B),
  List.length l = List.length m -> map fst (combine l m) = l.
Proof.
  induction l; destruct m; simpl; intros; try reflexivity; try discriminate.
  f_equal. apply IHl. lia.
Qed.

Lemma ss_app_lt : forall (l1 : list Z) x l2,
  StronglySorted Z.lt (l1 ++ x :: l2) -> Forall (fun y => y < x) l1.
Proof.
  induction l1; simpl; intros; [constructor|].
  inversion H; subst. constructor.
  - rewrite Forall_forall in H3. apply H3. apply in_or_app. right. left. reflexivity.
  - eapply IHl1; eauto.
Qed.

Lemma ss_map_add : forall s l, StronglySorted Z.lt l -> StronglySorted Z.lt (map (Z.add s) l).
Proof.
  induction 1; simpl; constructor; auto.
  rewrite Forall_forall in *. intros y Hy. apply in_map_iff in Hy. destruct Hy as [z [<- Hz]].
  specialize (H0 z Hz). lia.
Qed.

Lemma dtype_eqb_eq : forall a b, dtype_eqb a b = true -> a = b.
Proof. destruct a, b; simpl; intros; try reflexivity; discriminate. Qed.

Lemma dtype_eqb_refl : forall a, dtype_eqb a a = true.
Proof. destruct a; reflexivity. Qed.

(* ---------------------------------------------------------------------------- fix_all / labels *)

Lemma fix_all_labels : forall cur d, map fst (fix_all cur d) = map fst d.
Proof. unfold fix_all. intros. rewrite map_map. apply map_ext. reflexivity. Qed.

Lemma fix_all_length : forall cur d, List.length (fix_all cur d) = List.length d.
Proof. unfold fix_all. intros. apply map_length. Qed.

Lemma fix_all_id : forall cur d,
  (forall y, In y d -> fix_image cur (snd y) = snd y) -> fix_all cur d = d.
Proof.
  unfold fix_all. intros. rewrite <- (map_id d) at 2. apply map_ext_in.
  intros [l s] Hy. pose proof (H _ Hy) as E. simpl in *. rewrite E. reflexivity.
Qed.

(* ------------------------------------------------------------------- insertion above all labels *)

Lemma insert_above : forall x d,
  Forall (fun y => y < fst x) (map fst d) -> insert x d = Some (true, d ++ [x]).
Proof.
  induction d as [|y d IH]; simpl; intros H; [reflexivity|].
  inversion H; subst.
  destruct (fst x <? fst y) eqn:E1; [lia|].
  destruct (fst x =? fst y) eqn:E2; [lia|].
  rewrite IH by assumption. reflexivity.
Qed.

Definition stable_sl (all : list slice) : Prop :=
  forall x y, In x all -> In y all -> fix_image (s_image (snd x)) (snd y) = snd y.

Lemma assemble_from_increasing : forall xs d,
  StronglySorted Z.lt (map fst (d ++ xs)) ->
  stable_sl (d ++ xs) ->
  assemble_from d xs = Some (d ++ xs).
Proof.
  induction xs as [|x xs IH]; simpl; intros d Hs Hst.
  - rewrite app_nil_r. reflexivity.
  - unfold merge_step.
    rewrite insert_above.
    2:{ rewrite map_app in Hs. simpl in Hs. eapply ss_app_lt; eauto. }
    rewrite fix_all_id.
    2:{ intros y Hy. apply Hst.
        - apply in_or_app. right. left. reflexivity.
        - apply in_app_or in Hy. apply in_or_app. destruct Hy as [Hy|Hy]; [left; exact Hy|].
          right. destruct Hy as [<-|[]]. left. reflexivity. }
    replace (d ++ x :: xs) with ((d ++ [x]) ++ xs) in * by (rewrite <- app_assoc; reflexivity).
    apply IH; assumption.
Qed.

Lemma assemble_increasing : forall xs,
  StronglySorted Z.lt (map fst xs) -> stable_sl xs -> assemble xs = Some xs.
Proof.
  destruct xs as [|x xs]; simpl; intros; [reflexivity|].
  apply (assemble_from_increasing xs [x]); assumption.
Qed.

(* ------------------------------------------------------------------ insertion into a sorted list *)

Definition sorted (d : dataset) : Prop := StronglySorted Z.lt (map fst d).

Lemma insert_spec : forall x d f d',
  sorted d -> insert x d = Some (f, d') ->
  sorted d' /\
  (forall l, In l (map fst d') <-> (l = fst x \/ In l (map fst d))) /\
  (forall z, In z d' -> z = x \/ In z d) /\
  (f = true -> ~ In (fst x) (map fst d) /\ List.length d' = S (List.length d)) /\
  (f = false -> In (fst x) (map fst d) /\ d' = d).
Proof.
  unfold sorted. induction d as [|y d IH]; simpl; intros f d' Hs H.
  - inversion H; subst. simpl.
    split; [repeat constructor|].
    split; [intros l; split; [intros [E|[]]; left; congruence|intros [E|[]]; left; congruence]|].
    split; [intros z [E|[]]; left; congruence|].
    split; [intros _; split; [intuition congruence|reflexivity]|discriminate].
  - inversion Hs as [|? ? Hs' Hall]; subst.
    destruct (fst x <? fst y) eqn:E1.
    + inversion H; subst. simpl.
      assert (Hgt : Forall (Z.lt (fst x)) (fst y :: map fst d)).
      { constructor; [lia|]. rewrite Forall_forall in *. intros z Hz. specialize (Hall z Hz). lia. }
      split; [constructor; assumption|].
      split; [intros l; intuition congruence|].
      split; [intros z [<-|Hz]; auto|].
      split; [|discriminate].
      intros _. split; [|reflexivity].
      intros Hin. rewrite Forall_forall in Hgt. specialize (Hgt _ Hin). lia.
    + destruct (fst x =? fst y) eqn:E2.
      * destruct (snapshot_eqb (snd x) (snd y)); [|discriminate].
        inversion H; subst. simpl.
        split; [assumption|].
        split; [intros l; split; [intuition congruence|]; intros [->|Hl]; [left; lia|exact Hl]|].
        split; [intros z Hz; right; exact Hz|].
        split; [discriminate|].
        intros _. split; [left; lia|reflexivity].
      * destruct (insert x d) as [[f0 d0]|] eqn:Ei; [|discriminate].
        inversion H; subst.
        destruct (IH f d0 Hs' eq_refl) as (S1 & S2 & S3 & S4 & S5).
        simpl.
        split.
        { constructor; [assumption|]. rewrite Forall_forall in *. intros l Hl.
          apply S2 in Hl. destruct Hl as [->|Hl]; [lia|]. apply Hall; assumption. }
        split.
        { intros l. rewrite S2. intuition congruence. }
        split.
        { intros z [<-|Hz]; [right; left; reflexivity|]. destruct (S3 _ Hz); auto. }
        split.
        { intros Hf. destruct (S4 Hf) as [N L]. split; [|lia].
          intros [Hy|Hin]; [lia|contradiction]. }
        { intros Hf. destruct (S5 Hf) as [I E]. split; [right; exact I|congruence]. }
Qed.

Lemma insert_none : forall x d, insert x d = None -> In (fst x) (map fst d).
Proof.
  induction d as [|y d IH]; simpl; intros H; [discriminate|].
  destruct (fst x <? fst y) eqn:E1; [discriminate|].
  destruct (fst x =? fst y) eqn:E2; [left; lia|].
  destruct (insert x d) as [[f0 d0]|]; [discriminate|]. right. apply IH. reflexivity.
Qed.

Lemma merge_step_spec : forall d x d',
  sorted d -> merge_step d x = Some d' ->
  sorted d' /\
  (forall l, In l (map fst d') <-> (l = fst x \/ In l (map fst d))) /\
  ((~ In (fst x) (map fst d) /\ List.length d' = S (List.length d)) \/
   (In (fst x) (map fst d) /\ d' = d)).
Proof.
  unfold merge_step. intros d x d' Hs H.
  destruct (insert x d) as [[f d0]|] eqn:Ei; [|discriminate].
  destruct (insert_spec _ _ _ _ Hs Ei) as (S1 & S2 & _ & S4 & S5).
  destruct f; inversion H; subst.
  - destruct (S4 eq_refl) as [N L].
    split; [unfold sorted; rewrite fix_all_labels; exact S1|].
    split; [intros l; rewrite fix_all_labels; apply S2|].
    left. split; [exact N|]. rewrite fix_all_length. exact L.
  - destruct (S5 eq_refl) as [I E]. subst d0.
    split; [exact Hs|].
    split; [intros l; split; [intuition congruence|]; intros [->|Hl]; assumption|].
    right. split; [exact I|reflexivity].
Qed.

Lemma merge_step_none : forall d x, merge_step d x = None -> In (fst x) (map fst d).
Proof.
  unfold merge_step. intros d x H.
  destruct (insert x d) as [[[|] d0]|] eqn:Ei; try discriminate.
  apply insert_none. exact Ei.
Qed.

Lemma assemble_from_spec : forall xs d r,
  sorted d -> assemble_from d xs = Some r ->
  sorted r /\
  (forall l, In l (map fst r) <-> (In l (map fst d) \/ In l (map fst xs))) /\
  (List.length r <= List.length d + List.length xs)%nat /\
  (List.length r = (List.length d + List.length xs)%nat <->
   (NoDup (map fst xs) /\ forall l, In l (map fst xs) -> ~ In l (map fst d))).
Proof.
  induction xs as [|x xs IH]; simpl; intros d r Hs H.
  - inversion H; subst. split; [exact Hs|]. split; [intros; intuition congruence|]. split; [lia|].
    split; [intros _; split; [constructor|intros ? []]|intros _; lia].
  - destruct (merge_step d x) as [d1|] eqn:Em; [|discriminate].
    destruct (merge_step_spec _ _ _ Hs Em) as (S1 & S2 & S3).
    destruct (IH d1 r S1 H) as (R1 & R2 & R3 & R4).
    split; [exact R1|].
    split.
    { intros l. rewrite R2, S2. intuition congruence. }
    destruct S3 as [[N L]|[I E]].
    + split; [lia|].
      split.
      * intros Hl. assert (Hl' : List.length r = (List.length d1 + List.length xs)%nat) by lia.
        apply R4 in Hl'. destruct Hl' as [ND DJ].
        split.
        { constructor; [|exact ND]. intros Hin. apply (DJ _ Hin). apply S2. left. reflexivity. }
        { intros l [<-|Hin]; [exact N|]. intros Hd. apply (DJ _ Hin). apply S2. right. exact Hd. }
      * intros [ND DJ]. inversion ND; subst.
        assert (Hl' : List.length r = (List.length d1 + List.length xs)%nat).
        { apply R4. split; [assumption|]. intros l Hin Hd. apply S2 in Hd. destruct Hd as [->|Hd].
          - contradiction.
          - apply (DJ l); [right; exact Hin|exact Hd]. }
        lia.
    + subst d1. split; [lia|].
      split.
      * intros Hl. lia.
      * intros [ND DJ]. exfalso. apply (DJ (fst x)); [left; reflexivity|exact I].
Qed.

Lemma assemble_from_some : forall xs d,
  sorted d -> NoDup (map fst xs) -> (forall l, In l (map fst xs) -> ~ In l (map fst d)) ->
  exists r, assemble_from d xs = Some r.
Proof.
  induction xs as [|x xs IH]; simpl; intros d Hs ND DJ; [eauto|].
  inversion ND; subst.
  destruct (merge_step d x) as [d1|] eqn:Em.
  - destruct (merge_step_spec _ _ _ Hs Em) as (S1 & S2 & _).
    apply IH; try assumption.
    intros l Hin Hd. apply S2 in Hd. destruct Hd as [->|Hd]; [contradiction|].
    apply (DJ l); [right; exact Hin|exact Hd].
  - exfalso. apply merge_step_none in Em. apply (DJ (fst x)); [left; reflexivity|exact Em].
Qed.

(* the merge along `time` loses no slice exactly when the labels are pairwise distinct *)
Theorem merge_lossless_iff_distinct_labels : forall xs : list slice,
  (exists r, assemble xs = Some r /\ List.length r = List.length xs) <-> NoDup (map fst xs).
Proof.
  destruct xs as [|x xs]; simpl.
  - split; [intros _; constructor|intros _; exists []; auto].
  - assert (Hs : sorted [x]) by (unfold sorted; simpl; repeat constructor).
    split.
    + intros [r [Ha Hl]].
      destruct (assemble_from_spec xs [x] r Hs Ha) as (_ & _ & _ & R4).
      simpl in R4. destruct (proj1 R4 Hl) as [ND DJ].
      constructor; [|exact ND]. intros Hin. apply (DJ _ Hin). left. reflexivity.
    + intros ND. inversion ND; subst.
      assert (DJ : forall l, In l (map fst xs) -> ~ In l (map fst [x])).
      { intros l Hin [<-|[]]. contradiction. }
      destruct (assemble_from_some xs [x] Hs H2 DJ) as [r Hr].
      exists r. split; [exact Hr|].
      destruct (assemble_from_spec xs [x] r Hs Hr) as (_ & _ & _ & R4).
      simpl in R4. apply R4. split; assumption.
Qed.

(* whenever the assembly succeeds, it never has MORE slices than readouts, its labels are exactly the
   readout labels, and they are strictly increasing *)
Theorem assemble_labels : forall xs r,
  assemble xs = Some r ->
  StronglySorted Z.lt (map fst r) /\ (forall l, In l (map fst r) <-> In l (map fst xs)) /\
  (List.length r <= List.length xs)%nat.
Proof.
  destruct xs as [|x xs]; simpl; intros r H.
  - inversion H; subst. simpl. split; [constructor|]. split; [intuition congruence|lia].
  - assert (Hs : sorted [x]) by (unfold sorted; simpl; repeat constructor).
    destruct (assemble_from_spec xs [x] r Hs H) as (R1 & R2 & R3 & _).
    split; [exact R1|]. split; [|simpl in R3; lia].
    intros l. rewrite R2. simpl. intuition congruence.
Qed.

(* ------------------------------------------------------------------------------- image dtype *)

Definition image_has_dtype (t : dtype) (s : snapshot) : Prop :=
  exists a, s_image s = Some a /\ a_dt a = t.

Lemma s_image_set : forall s v, s_image (set s Image v) = v.
Proof. reflexivity. Qed.

Lemma cast_to_dtype : forall t a, a_dt (cast_to t a) = t.
Proof.
  unfold cast_to. intros. destruct (dtype_eqb (a_dt a) t) eqn:E; [apply dtype_eqb_eq; exact E|reflexivity].
Qed.

Lemma fix_image_dtype : forall t c s,
  a_dt c = t -> image_has_dtype t s -> image_has_dtype t (fix_image (Some c) s).
Proof.
  unfold image_has_dtype, fix_image. intros t c s Hc [a [Ha Hd]]. rewrite Ha.
  eexists. split; [apply s_image_set|]. rewrite Hc. apply cast_to_dtype.
Qed.

Lemma assemble_from_image_dtype : forall t xs d r,
  sorted d ->
  Forall (fun ls => image_has_dtype t (snd ls)) d ->
  Forall (fun ls => image_has_dtype t (snd ls)) xs ->
  assemble_from d xs = Some r ->
  Forall (fun ls => image_has_dtype t (snd ls)) r.
Proof.
  induction xs as [|x xs IH]; simpl; intros d r Hs Hd Hx H.
  - inversion H; subst. exact Hd.
  - inversion Hx as [|? ? Hx1 Hx2]; subst.
    destruct (merge_step d x) as [d1|] eqn:Em; [|discriminate].
    destruct (merge_step_spec _ _ _ Hs Em) as (S1 & _ & _).
    apply (IH d1 r S1); try assumption.
    unfold merge_step in Em.
    destruct (insert x d) as [[f d0]|] eqn:Ei; [|discriminate].
    destruct (insert_spec _ _ _ _ Hs Ei) as (_ & _ & S3 & _ & _).
    destruct f; inversion Em; subst; [|exact Hd].
    destruct Hx1 as [c [Hc Hct]].
    unfold fix_all. rewrite Forall_forall. intros z Hz.
    apply in_map_iff in Hz. destruct Hz as [[l s] [E Hin]]. subst z. simpl.
    rewrite Hc. apply fix_image_dtype; [exact Hct|].
    destruct (S3 _ Hin) as [E|Hin'].
    + subst x. simpl in *. exists c. auto.
    + rewrite Forall_forall in Hd. apply (Hd _ Hin').
Qed.

Theorem assemble_image_dtype : forall t xs r,
  Forall (fun ls => image_has_dtype t (snd ls)) xs ->
  assemble xs = Some r ->
  Forall (fun ls => image_has_dtype t (snd ls)) r.
Proof.
  destruct xs as [|x xs]; simpl; intros r Hx H.
  - inversion H; subst. constructor.
  - inversion Hx; subst.
    apply (assemble_from_image_dtype t xs [x] r); try assumption.
    + unfold sorted; simpl; repeat constructor.
    + constructor; [assumption|constructor].
Qed.

(* ------------------------------------------------- the image round trip is exact below the bit budget *)

Lemma round_bits_small : forall p v, v < 2 ^ p -> round_bits p v = v.
Proof. unfold round_bits. intros. destruct (v <? 2 ^ p) eqn:E; [reflexivity|lia]. Qed.

Lemma map_id_in : forall (f : Z -> Z) l, (forall v, In v l -> f v = v) -> map f l = l.
Proof. intros. rewrite <- (map_id l) at 2. apply map_ext_in. assumption. Qed.

Lemma set_image_same : forall s a, s_image s = Some a -> set s Image (Some a) = s.
Proof. destruct s; simpl; intros; subst; reflexivity. Qed.

Lemma roundtrip_exact : forall t a,
  is_unsigned t = true -> a_dt a = t ->
  (forall v, In v (a_vals a) -> 0 <= v < 2 ^ exact_bits t) ->
  cast_to t (promote a) = a.
Proof.
  intros t [dt shp vals] Hu Hd Hv. simpl in *. subst dt.
  destruct t; try discriminate; unfold promote, cast_to; simpl.
  - f_equal. rewrite map_map. apply map_id_in. intros v Hin. specialize (Hv v Hin). simpl in Hv.
    rewrite round_bits_small by lia. apply Z.mod_small. lia.
  - f_equal. rewrite map_map. apply map_id_in. intros v Hin. specialize (Hv v Hin). simpl in Hv.
    rewrite round_bits_small by lia. apply Z.mod_small. lia.
  - f_equal. rewrite map_map. apply map_id_in. intros v Hin. specialize (Hv v Hin). simpl in Hv.
    rewrite round_bits_small by lia. apply Z.mod_small. lia.
  - f_equal. rewrite map_map. apply map_id_in. intros v Hin. specialize (Hv v Hin). simpl in Hv.
    rewrite round_bits_small by lia. apply Z.mod_small. lia.
Qed.

Theorem uniform_image_stable : forall snaps, image_uniform snaps -> image_stable snaps.
Proof.
  unfold image_uniform, image_stable. intros snaps [Hn|[t [Hu H]]] s s' Hs Hs'.
  - unfold fix_image. rewrite (Hn s Hs). reflexivity.
  - destruct (H s Hs) as [a [Ha [Hd Hv]]]. destruct (H s' Hs') as [c [Hc [Hcd _]]].
    unfold fix_image. rewrite Ha, Hc, Hcd.
    rewrite (roundtrip_exact t a Hu Hd Hv). apply set_image_same. exact Ha.
Qed.

(* ------------------------------------------------------------------------------- the exposure *)

Lemma extract_image : forall s, s_image (extract s) = s_image s.
Proof.
  intros s. unfold extract. destruct (s_photon s) as [a|]; [|reflexivity].
  destruct (List.length (a_shape a) =? 3)%nat; reflexivity.
Qed.

(* reading the detector out changes no value and no shape, and no dtype except a 3-D photon's *)
Lemma extract_values : forall s b,
  option_map a_vals (get (extract s) b) = option_map a_vals (get s b) /\
  option_map a_shape (get (extract s) b) = option_map a_shape (get s b) /\
  (b <> Photon -> get (extract s) b = get s b) /\
  (forall a, s_photon s = Some a -> List.length (a_shape a) <> 3%nat -> extract s = s).
Proof.
  intros s b. unfold extract. destruct (s_photon s) as [a|] eqn:E.
  - destruct (List.length (a_shape a) =? 3)%nat eqn:E3.
    + split; [destruct b; simpl; try reflexivity; rewrite E; reflexivity|].
      split; [destruct b; simpl; try reflexivity; rewrite E; reflexivity|].
      split; [intros Hb; destruct b; try reflexivity; congruence|].
      intros a' Ha Hn. inversion Ha; subst. apply Nat.eqb_eq in E3. contradiction.
    + split; [reflexivity|]. split; [reflexivity|]. split; [reflexivity|]. reflexivity.
  - split; [reflexivity|]. split; [reflexivity|]. split; [reflexivity|]. intros a Ha. discriminate.
Qed.

Section Exposure.
  Context {Scene Data : Type}.
  Variable empty_scene : Scene.
  Variable scene_is_empty : Scene -> bool.
  Variable copies : ckind -> bool.

  Notation det := (det Scene Data).
  Notation config := (config Scene Data).
  Notation tree := (tree Scene Data).
  Notation end_states := (end_states empty_scene).
  Notation exposure := (exposure empty_scene scene_is_empty copies).
  Notation reset := (reset empty_scene).
  Notation views := (views empty_scene copies).
  Notation trace := (trace empty_scene).
  Notation debug_steps := (debug_steps empty_scene copies).

  Lemma end_states_length : forall (c : config) n i d, List.length (end_states c i n d) = n.
  Proof. induction n; simpl; intros; [reflexivity|]. rewrite IHn. reflexivity. Qed.

  (* the states only depend on shape, destructive flag and models *)
  Lemma end_states_ext : forall (c c' : config) n i d,
    c_shape c = c_shape c' -> c_nondestr c = c_nondestr c' -> c_models c = c_models c' ->
    end_states c i n d = end_states c' i n d.
  Proof.
    induction n; simpl; intros i d H1 H2 H3; [reflexivity|].
    unfold step_end. rewrite H1, H2, H3. f_equal. apply IHn; assumption.
  Qed.

  Lemma trace_ext : forall (c c' : config) n i d,
    c_shape c = c_shape c' -> c_nondestr c = c_nondestr c' -> c_models c = c_models c' ->
    trace c i n d = trace c' i n d.
  Proof.
    induction n; simpl; intros i d H1 H2 H3; [reflexivity|].
    rewrite H1, H2, H3. f_equal. f_equal. apply IHn; assumption.
  Qed.

  Lemma debug_steps_ext : forall (c c' : config) n i d last,
    c_shape c = c_shape c' -> c_nondestr c = c_nondestr c' -> c_models c = c_models c' ->
    debug_steps c i n d last = debug_steps c' i n d last.
  Proof.
    induction n; simpl; intros i d last H1 H2 H3; [reflexivity|].
    rewrite H1, H2, H3. rewrite (trace_ext c c') by assumption. f_equal. apply IHn; assumption.
  Qed.

  Lemma views_ext : forall (c c' : config) ends,
    c_shape c = c_shape c' -> c_nondestr c = c_nondestr c' -> c_models c = c_models c' ->
    views c ends = views c' ends.
  Proof. intros c c' [|e0 rest] H1 H2 H3; simpl; [reflexivity|]. rewrite H1, H2, H3. reflexivity. Qed.

  (* ---- a read-out that does not copy is harmless for the slices as long as the container gets a new
     buffer at every reset: true of the charge array (Charge.empty: np.zeros_like) ---- *)
  Definition slices_safe : Prop := forall k, copies k = false -> k = KCharge.

  Lemma settle_snapshot_id : forall (d : det) later s,
    (forall b a, get s b = Some a -> snd (settle copies d later (b, a)) = a) ->
    settle_snapshot copies d later s = s.
  Proof.
    intros d later [p c x g i] H. unfold settle_snapshot. simpl.
    f_equal.
    - destruct p as [a|]; simpl; [|reflexivity]. f_equal. apply (H Photon a). reflexivity.
    - destruct c as [a|]; simpl; [|reflexivity]. f_equal. apply (H Charge a). reflexivity.
    - destruct x as [a|]; simpl; [|reflexivity]. f_equal. apply (H Pixel a). reflexivity.
    - destruct g as [a|]; simpl; [|reflexivity]. f_equal. apply (H Signal a). reflexivity.
    - destruct i as [a|]; simpl; [|reflexivity]. f_equal. apply (H Image a). reflexivity.
  Qed.

  Lemma views_exact : forall (c : config) ends,
    slices_safe -> views c ends = map view ends.
  Proof.
    intros c [|e0 rest] Hs; simpl; [reflexivity|]. f_equal.
    apply settle_snapshot_id. intros b a Hg. unfold settle. simpl.
    destruct (copies (kind_of b a)) eqn:Ec; [reflexivity|].
    apply Hs in Ec. destruct b; simpl in Ec; try discriminate.
    - destruct (List.length (a_shape a) =? 3)%nat; discriminate.
    - simpl. destruct rest as [|e1 rest]; simpl; [reflexivity|].
      rewrite andb_false_r.
      destruct (Nat.eqb (S (d_gen e0 Charge)) (d_gen e0 Charge)) eqn:E; [|reflexivity].
      apply Nat.eqb_eq in E. lia.
  Qed.

  Definition ends_of (c : config) (d_init : det) : list det :=
    end_states c 0 (List.length (c_times c)) (reset (c_shape c) false d_init).

  Lemma in_combine_snd : forall (A B : Type) (l : list A) (m : list B) x, In x (combine l m) -> In (snd x) m.
  Proof. intros A B l m [a b] H. simpl. eapply in_combine_r; eauto. Qed.

  (* C03_slices *)
  Theorem slices_faithful : forall (c : config) (d_init : det),
    slices_safe ->
    StronglySorted Z.lt (c_times c) ->
    image_stable (map view (ends_of c d_init)) ->
    exists t, exposure c d_init = Some t /\
      t_buckets t = combine (labels c) (map view (ends_of c d_init)) /\
      List.length (t_buckets t) = List.length (c_times c).
  Proof.
    intros c d_init Hsafe Hs Hst. unfold Result.exposure. fold (ends_of c d_init).
    rewrite (views_exact c _ Hsafe).
    assert (Hlen : List.length (labels c) = List.length (map view (ends_of c d_init))).
    { unfold labels, ends_of. rewrite !map_length, end_states_length. reflexivity. }
    rewrite assemble_increasing.
    - eexists. split; [reflexivity|]. simpl. split; [reflexivity|].
      etransitivity; [apply combine_length|]. rewrite <- Hlen. unfold labels. rewrite map_length. lia.
    - rewrite map_fst_combine by exact Hlen. apply ss_map_add. exact Hs.
    - intros x y Hx Hy. apply Hst; eapply in_combine_snd; eauto.
  Qed.

  Lemma bucket_slices_combine : forall (ls : list Z) (ss : list snapshot) b,
    bucket_slices (combine ls ss) b = combine ls (map (fun s => get s b) ss).
  Proof.
    unfold bucket_slices. induction ls; destruct ss; simpl; intros; try reflexivity.
    f_equal. apply IHls.
  Qed.

  (* per bucket: exactly one slice per readout, in order, labelled start + t_i, holding what the
     detector held at the end of step i *)
  Corollary slices_per_bucket : forall (c : config) (d_init : det) b,
    slices_safe ->
    StronglySorted Z.lt (c_times c) ->
    image_stable (map view (ends_of c d_init)) ->
    exists t, exposure c d_init = Some t /\
      bucket_slices (t_buckets t) b =
        combine (map (Z.add (c_start c)) (c_times c))
                (map (fun d => get (view d) b) (ends_of c d_init)).
  Proof.
    intros c d_init b Hsafe Hs Hst. destruct (slices_faithful c d_init Hsafe Hs Hst) as [t [He [Hb _]]].
    exists t. split; [exact He|]. rewrite Hb, bucket_slices_combine, map_map. reflexivity.
  Qed.

  (* C03_image_dtype: no hypothesis on the values *)
  Theorem image_dtype_kept : forall (c : config) (d_init : det) t_ tr,
    slices_safe ->
    Forall (fun d => image_has_dtype t_ (d_snap d)) (ends_of c d_init) ->
    exposure c d_init = Some tr ->
    Forall (fun ls => image_has_dtype t_ (snd ls)) (t_buckets tr).
  Proof.
    intros c d_init t_ tr Hsafe Hall He. unfold Result.exposure in He. fold (ends_of c d_init) in He.
    rewrite (views_exact c _ Hsafe) in He.
    destruct (assemble _) as [ds|] eqn:Ea; [|discriminate]. inversion He; subst. simpl.
    eapply assemble_image_dtype; [|exact Ea].
    rewrite Forall_forall in *. intros x Hx. apply in_combine_snd in Hx.
    apply in_map_iff in Hx. destruct Hx as [d [<- Hd]].
    unfold image_has_dtype, view. rewrite extract_image. apply Hall. exact Hd.
  Qed.

  (* C03_layouts_agree *)
  Theorem layouts_agree : forall (c : config) (d_init : det),
    match exposure (with_layout c Flat) d_init, exposure (with_layout c Hier) d_init with
    | Some a, Some b =>
        t_buckets a = t_buckets b /\ t_inter a = t_inter b /\ t_scene a = t_scene b /\
        t_data a = t_data b /\ t_bucket_path b = "/bucket"%string /\
        t_bucket_path a = (if scene_is_empty (t_scene a) then "/" else "/bucket")%string
    | None, None => True
    | _, _ => False
    end.
  Proof.
    intros c d_init. unfold exposure. simpl.
    rewrite (end_states_ext (with_layout c Flat) c) by reflexivity.
    rewrite (end_states_ext (with_layout c Hier) c) by reflexivity.
    unfold labels. simpl.
    destruct (assemble _) as [ds|]; [|exact I]. simpl.
    rewrite (debug_steps_ext (with_layout c Flat) c) by reflexivity.
    rewrite (debug_steps_ext (with_layout c Hier) c) by reflexivity.
    repeat split.
    - unfold effective_layout. destruct (scene_is_empty _); reflexivity.
    - unfold effective_layout. destruct (scene_is_empty _); reflexivity.
  Qed.

  (* C03_scene_data_passthrough *)
  Theorem scene_data_passthrough : forall (c : config) (d_init : det) tr,
    exposure c d_init = Some tr ->
    let final := last (ends_of c d_init) (reset (c_shape c) false d_init) in
    t_scene tr = d_scene final /\ t_data tr = d_data final.
  Proof.
    intros c d_init tr He. unfold exposure in He. fold (ends_of c d_init) in He.
    destruct (assemble _); [|discriminate]. inversion He; subst. simpl. split; reflexivity.
  Qed.

  (* data written by a model is not reset between steps (Detector.empty leaves it alone) and the scene
     is: the reset keeps d_data and replaces d_scene *)
  Lemma reset_keeps_data : forall shp k (d : det), d_data (reset shp k d) = d_data d /\ d_scene (reset shp k d) = empty_scene.
  Proof. intros. split; reflexivity. Qed.

  (* C03_debug_conservative, part 1 *)
  Lemma children_strip : forall l,
    filter (fun s => negb (String.eqb s "intermediate")) (children l true) = children l false.
  Proof. destruct l; reflexivity. Qed.

  Theorem debug_conservative : forall (c : config) (d_init : det),
    exposure (with_debug c false) d_init = option_map strip_debug (exposure (with_debug c true) d_init).
  Proof.
    intros c d_init. unfold exposure. simpl.
    rewrite (end_states_ext (with_debug c false) c) by reflexivity.
    rewrite (end_states_ext (with_debug c true) c) by reflexivity.
    unfold labels. simpl.
    destruct (assemble _) as [ds|]; [|reflexivity]. simpl.
    unfold strip_debug. simpl. rewrite children_strip. reflexivity.
  Qed.

  (* the detector states do not depend on the debug flag at all *)
  Theorem debug_does_not_touch_states : forall (c : config) (d_init : det) b,
    ends_of (with_debug c b) d_init = ends_of c d_init.
  Proof. intros. unfold ends_of. simpl. apply end_states_ext; reflexivity. Qed.

  (* C03_debug_conservative, part 2: within a step, the node of every model but the first holds exactly
     the visible buckets whose values differ from what the detector held just before that model *)
  Lemma run_models_app : forall i ms1 ms2 (d : det),
    run_models i (ms1 ++ ms2) d = run_models i ms2 (run_models i ms1 d).
  Proof. intros. unfold run_models. apply fold_left_app. Qed.

  Theorem debug_models_nth : forall ms1 m ms2 i (d : det) last,
    nth_error (fst (debug_models i (ms1 ++ m :: ms2) d last)) (List.length ms1) =
    Some {| n_step := i; n_group := m_group m; n_name := m_name m;
            n_vars := diff (match ms1 with
                            | [] => last
                            | _ => Some (visible (view (run_models i ms1 d)))
                            end)
                           (visible (view (m_fn m i (run_models i ms1 d)))) |}.
  Proof.
    induction ms1 as [|m0 ms1 IH]; intros m ms2 i d last.
    - reflexivity.
    - simpl. rewrite IH. destruct ms1; reflexivity.
  Qed.

  Corollary debug_node_is_changed_buckets : forall m0 ms1 m ms2 i (d : det) last,
    let before := run_models i (m0 :: ms1) d in
    nth_error (fst (debug_models i ((m0 :: ms1) ++ m :: ms2) d last)) (List.length (m0 :: ms1)) =
    Some {| n_step := i; n_group := m_group m; n_name := m_name m;
            n_vars := changed_by (view before) (view (m_fn m i before)) |}.
  Proof. intros. rewrite debug_models_nth. reflexivity. Qed.

  (* the first model of a step: exactly what the ideal record says, PROVIDED the previous capture is
     what the detector shows after the reset *)
  Lemma debug_models_ideal : forall ms i (d : det),
    fst (debug_models i ms d (Some (visible (view d)))) = ideal_models i ms d.
  Proof.
    induction ms as [|m ms IH]; intros i d; [reflexivity|].
    simpl. rewrite IH. reflexivity.
  Qed.
End Exposure.

(* ------------------------------------------------- what `changed_by` means, bucket by bucket *)

Definition vget (s : snapshot) (b : bucket) : option arr :=
  match get s b with
  | None => None
  | Some a => if bucket_eqb b Charge && all_zero a then None else Some a
  end.

Lemma cap_lookup_visible : forall s b, cap_lookup b (visible s) = vget s b.
Proof.
  intros [p c x g i] b. unfold visible, vget.
  destruct p as [p|], c as [c|], x as [x|], g as [g|], i as [i|], b; simpl;
    try destruct (all_zero c); reflexivity.
Qed.

Lemma in_visible : forall s b a, In (b, a) (visible s) <-> vget s b = Some a.
Proof.
  intros [p c x g i] b a. unfold visible, vget.
  destruct p as [p|], c as [c|], x as [x|], g as [g|], i as [i|], b; simpl;
    try destruct (all_zero c); simpl;
    (split; [intros H; repeat (destruct H as [H|H]; [inversion H; subst; reflexivity|]);
                      try contradiction; try discriminate
            |intros H; inversion H; subst; intuition congruence]).
Qed.

Theorem changed_by_spec : forall before after b a,
  In (b, a) (changed_by before after) <->
  (vget after b = Some a /\
   match vget before b with None => True | Some a' => zlist_eqb (a_vals a) (a_vals a') = false end).
Proof.
  intros. unfold changed_by, diff. rewrite filter_In, in_visible. unfold recorded. simpl.
  rewrite cap_lookup_visible.
  destruct (vget before b) as [a'|].
  - destruct (zlist_eqb (a_vals a) (a_vals a')); simpl; intuition congruence.
  - intuition.
Qed.
