(* Proofs/Result.v — C03: lemmas about the concatenation along `time`, the tables and the assembled result. *)
From Coq Require Import ZArith List Bool String Lia Sorted.
From PyxelV Require Import Model.Result.
Import ListNotations.
Open Scope Z_scope.

(* ------------------------------------------------------------------------------ small list facts *)

Lemma map_fst_combine : forall (A B : Type) (l : list A) (m : list B),
  List.length l = List.length m -> map fst (combine l m) = l.
Proof.
  induction l; destruct m; simpl; intros; try reflexivity; try discriminate.
  f_equal. apply IHl. lia.
Qed.

Lemma ss_app_lt : forall (l1 : list Z) x l2,
  StronglySorted Z.lt (l1 ++ x :: l2) -> Forall (fun y => y < x) l1.
Proof.
  induction l1; simpl; intros; [constructor|].
  inversion H; subst. constructor.
  - rewrite Forall_forall in H3. apply H3. apply in_or_app. right. left. reflexivity.
  - eapply IHl1; eauto.
Qed.

Lemma ss_map_add : forall s l, StronglySorted Z.lt l -> StronglySorted Z.lt (map (Z.add s) l).
Proof.
  induction 1; simpl; constructor; auto.
  rewrite Forall_forall in *. intros y Hy. apply in_map_iff in Hy. destruct Hy as [z [<- Hz]].
  specialize (H0 z Hz). lia.
Qed.

Lemma dtype_eqb_eq : forall a b, dtype_eqb a b = true -> a = b.
Proof. destruct a, b; simpl; intros; try reflexivity; discriminate. Qed.

Lemma dtype_eqb_refl : forall a, dtype_eqb a a = true.
Proof. destruct a; reflexivity. Qed.

(* ------------------------------------------------------------------------------- numpy's common type *)

Lemma join_comm : forall a b, join a b = join b a.
Proof. destruct a, b; reflexivity. Qed.

Lemma join_assoc : forall a b c, join a (join b c) = join (join a b) c.
Proof. destruct a, b, c; reflexivity. Qed.

Lemma join_idem : forall a, join a a = a.
Proof. destruct a; reflexivity. Qed.

Lemma join_U8_r : forall a, join a U8 = a.
Proof. destruct a; reflexivity. Qed.

Lemma join_U8_l : forall a, join U8 a = a.
Proof. destruct a; reflexivity. Qed.

Lemma join_F64_l : forall a, join F64 a = F64.
Proof. destruct a; reflexivity. Qed.

Lemma join_unsigned : forall a b, is_unsigned a = true -> is_unsigned b = true -> is_unsigned (join a b) = true.
Proof. destruct a, b; simpl; intros; try reflexivity; discriminate. Qed.

Lemma dtype_le_refl : forall a, dtype_le a a = true.
Proof. destruct a; reflexivity. Qed.

Lemma dtype_le_join_l : forall a b, dtype_le a (join a b) = true.
Proof. destruct a, b; reflexivity. Qed.

Lemma dtype_le_trans : forall a b c, dtype_le a b = true -> dtype_le b c = true -> dtype_le a c = true.
Proof. destruct a, b, c; simpl; intros; try reflexivity; discriminate. Qed.

(* ---------------------------------------------------------------------------- fix_all / labels *)

Lemma fix_all_labels : forall cur d, map fst (fix_all cur d) = map fst d.
Proof. unfold fix_all. intros. rewrite map_map. apply map_ext. reflexivity. Qed.

Lemma fix_all_length : forall cur d, List.length (fix_all cur d) = List.length d.
Proof. unfold fix_all. intros. apply map_length. Qed.

Lemma fix_all_id : forall cur d,
  (forall y, In y d -> fix_image cur (snd y) = snd y) -> fix_all cur d = d.
Proof.
  unfold fix_all. intros. rewrite <- (map_id d) at 2. apply map_ext_in.
  intros [l s] Hy. pose proof (H _ Hy) as E. simpl in *. rewrite E. reflexivity.
Qed.

(* ------------------------------------------------------------ one variable, one dtype: `promote` *)

Lemma build_snapshot_get : forall s, build_snapshot (fun v => get s v) = s.
Proof. destruct s; reflexivity. Qed.

Lemma build_snapshot_ext : forall f g, (forall v, f v = g v) -> build_snapshot f = build_snapshot g.
Proof. intros f g H. unfold build_snapshot. rewrite !H. reflexivity. Qed.

Lemma get_build_snapshot : forall f b, get (build_snapshot f) b = f b.
Proof. intros f b. destruct b; reflexivity. Qed.

Lemma get_promote_slice : forall cs s b, get (promote_slice cs s) b = option_map (widen (cs b)) (get s b).
Proof. intros. unfold promote_slice. apply get_build_snapshot. Qed.

Lemma promote_slice_ext : forall cs cs' s, (forall b, cs b = cs' b) -> promote_slice cs s = promote_slice cs' s.
Proof. intros. unfold promote_slice. apply build_snapshot_ext. intros b. rewrite H. reflexivity. Qed.

Lemma widen_widen : forall t t' a, widen t (widen t' a) = widen t a.
Proof. reflexivity. Qed.

Lemma widen_same : forall a, widen (a_dt a) a = a.
Proof. destruct a; reflexivity. Qed.

Lemma promote_slice_twice : forall cs cs' s, promote_slice cs (promote_slice cs' s) = promote_slice cs s.
Proof.
  intros. unfold promote_slice at 1. unfold promote_slice at 2. apply build_snapshot_ext. intros b.
  rewrite get_promote_slice. destruct (get s b); reflexivity.
Qed.

Lemma promote_labels : forall d, map fst (promote d) = map fst d.
Proof. intros. unfold promote. rewrite map_map. apply map_ext. reflexivity. Qed.

Lemma promote_length : forall d, List.length (promote d) = List.length d.
Proof. intros. unfold promote. apply map_length. Qed.

(* the dtype slice ls contributes to variable b *)
Definition sdt (b : bucket) (ls : slice) : dtype := odt (get (snd ls) b).

Lemma common_fold : forall b d, common b d = fold_right (fun ls acc => join (sdt b ls) acc) U8 d.
Proof. reflexivity. Qed.

Lemma fold_join_acc : forall (g : slice -> dtype) l z,
  fold_right (fun x acc => join (g x) acc) z l = join (fold_right (fun x acc => join (g x) acc) U8 l) z.
Proof.
  induction l as [|x l IH]; intros z; cbn [fold_right]; [rewrite join_U8_l; reflexivity|].
  rewrite IH, join_assoc. reflexivity.
Qed.

Lemma common_app : forall b a c, common b (a ++ c) = join (common b a) (common b c).
Proof. intros. rewrite !common_fold, fold_right_app. apply fold_join_acc. Qed.

(* the common type is an upper bound of every slice's type *)
Lemma common_absorbs : forall b d ls, In ls d -> join (sdt b ls) (common b d) = common b d.
Proof.
  induction d as [|x d IH]; intros ls Hin; [contradiction|]. rewrite common_fold. simpl. rewrite <- common_fold.
  destruct Hin as [->|Hin].
  - rewrite join_assoc, join_idem. reflexivity.
  - rewrite (join_comm (sdt b x)), join_assoc, (IH _ Hin). reflexivity.
Qed.

Theorem common_upper : forall b d ls a,
  In ls d -> get (snd ls) b = Some a -> dtype_le (a_dt a) (common b d) = true.
Proof.
  intros b d ls a Hin Hg. unfold dtype_le. pose proof (common_absorbs b d ls Hin) as H.
  unfold sdt in H. rewrite Hg in H. simpl in H. rewrite H. apply dtype_eqb_refl.
Qed.

Lemma fold_join_with : forall (g : slice -> dtype) T l, l <> [] ->
  fold_right (fun x acc => join (join (g x) T) acc) U8 l = join (fold_right (fun x acc => join (g x) acc) U8 l) T.
Proof.
  induction l as [|x l IH]; intros Hne; [congruence|]. simpl.
  destruct l as [|y l].
  - simpl. rewrite !join_U8_r. reflexivity.
  - rewrite IH by discriminate.
    set (R := fold_right (fun x0 acc => join (g x0) acc) U8 (y :: l)).
    rewrite <- !join_assoc. f_equal. rewrite (join_comm T), <- join_assoc, join_idem. reflexivity.
Qed.

(* after the promotion every slice of variable b contributes the common type *)
Lemma sdt_promoted : forall b d cs ls, In ls d -> cs b = common b d ->
  sdt b (fst ls, promote_slice cs (snd ls)) = join (sdt b ls) (common b d).
Proof.
  intros b d cs ls Hin Hcs. unfold sdt. simpl. rewrite get_promote_slice, Hcs.
  pose proof (common_absorbs b d ls Hin) as H. unfold sdt in H.
  destruct (get (snd ls) b) as [a|]; simpl in *.
  - symmetry. exact H.
  - reflexivity.
Qed.

Lemma fold_right_map' : forall (A B C : Type) (f : B -> C -> C) (g : A -> B) z l,
  fold_right f z (map g l) = fold_right (fun x acc => f (g x) acc) z l.
Proof. induction l; simpl; [reflexivity|]. rewrite IHl. reflexivity. Qed.

Lemma common_promote : forall b d, common b (promote d) = common b d.
Proof.
  intros b d. destruct d as [|x d]; [reflexivity|].
  set (l := x :: d). rewrite common_fold. unfold promote. rewrite fold_right_map'.
  transitivity (fold_right (fun ls acc => join (join (sdt b ls) (common b l)) acc) U8 l).
  - assert (G : forall l', (forall ls, In ls l' -> In ls l) ->
              fold_right (fun ls acc => join (sdt b (fst ls, promote_slice (fun b0 => common b0 l) (snd ls))) acc) U8 l'
              = fold_right (fun ls acc => join (join (sdt b ls) (common b l)) acc) U8 l').
    { induction l' as [|y l' IH]; intros Hsub; [reflexivity|]. cbn [fold_right].
      rewrite (sdt_promoted b l (fun b0 => common b0 l) y) by (try reflexivity; apply Hsub; left; reflexivity).
      rewrite IH by (intros ls Hls; apply Hsub; right; exact Hls). reflexivity. }
    apply G. auto.
  - rewrite fold_join_with by (unfold l; discriminate). rewrite <- common_fold. apply join_idem.
Qed.

Theorem promote_absorb : forall a c, promote (promote a ++ c) = promote (a ++ c).
Proof.
  intros a c.
  assert (C : forall b, common b (promote a ++ c) = common b (a ++ c)).
  { intros b. rewrite !common_app, common_promote. reflexivity. }
  unfold promote in *. rewrite !map_app, map_map. f_equal; apply map_ext; intros [l s]; simpl; f_equal;
    [rewrite promote_slice_twice|]; apply promote_slice_ext; exact C.
Qed.

Lemma promote_single : forall x, promote [x] = [x].
Proof.
  intros [l s]. unfold promote. simpl. f_equal. f_equal.
  transitivity (build_snapshot (fun v => get s v)); [|apply build_snapshot_get].
  unfold promote_slice. apply build_snapshot_ext. intros b. rewrite join_U8_r.
  destruct (get s b) as [a|]; simpl; [rewrite widen_same|]; reflexivity.
Qed.

(* the promotion changes no label, no value, no shape; the dtype of every slice of variable b becomes the common one *)
Theorem promote_values : forall d b,
  map (fun ls => (fst ls, option_map a_vals (get (snd ls) b), option_map a_shape (get (snd ls) b))) (promote d)
  = map (fun ls => (fst ls, option_map a_vals (get (snd ls) b), option_map a_shape (get (snd ls) b))) d.
Proof.
  intros. unfold promote. rewrite map_map. apply map_ext. intros [l s]. simpl.
  rewrite get_promote_slice. destruct (get s b); reflexivity.
Qed.

Theorem promote_dtypes : forall d b,
  map (fun ls => option_map a_dt (get (snd ls) b)) (promote d)
  = map (fun ls => option_map (fun _ => common b d) (get (snd ls) b)) d.
Proof.
  intros. unfold promote. rewrite map_map. apply map_ext. intros [l s]. simpl.
  rewrite get_promote_slice. destruct (get s b); reflexivity.
Qed.

(* every variable has the same dtype at every step: nothing is converted *)
Lemma common_uniform : forall b d t, d <> [] ->
  (forall ls, In ls d -> sdt b ls = t) -> common b d = t.
Proof.
  induction d as [|x d IH]; intros t Hne H; [congruence|]. rewrite common_fold. simpl. rewrite <- common_fold.
  rewrite (H x) by (left; reflexivity). destruct d as [|y d].
  - simpl. apply join_U8_r.
  - rewrite (IH t) by (try discriminate; intros ls Hls; apply H; right; exact Hls). apply join_idem.
Qed.

Theorem promote_uniform : forall d, (forall b, uniform b d) -> promote d = d.
Proof.
  intros d H. unfold promote. rewrite <- (map_id d) at 2. apply map_ext_in. intros [l s] Hin. simpl. f_equal.
  transitivity (build_snapshot (fun v => get s v)); [|apply build_snapshot_get].
  unfold promote_slice. apply build_snapshot_ext. intros b.
  destruct (H b) as [Hn|[t Ht]].
  - pose proof (Hn _ Hin) as E. simpl in E. rewrite E. reflexivity.
  - destruct (Ht _ Hin) as [a [Ha Hd]]. simpl in Ha. rewrite Ha. simpl. f_equal.
    rewrite (common_uniform b d t).
    + rewrite <- Hd. apply widen_same.
    + intros E. rewrite E in Hin. contradiction.
    + intros ls Hls. destruct (Ht _ Hls) as [a' [Ha' Hd']]. unfold sdt. rewrite Ha'. exact Hd'.
Qed.

(* ------------------------------------------------------- concatenation: no slice lost, none invented *)

Lemma concat_step_labels : forall d x, map fst (concat_step d x) = map fst d ++ [fst x].
Proof. intros. unfold concat_step. rewrite fix_all_labels, promote_labels, map_app. reflexivity. Qed.

Lemma assemble_from_labels : forall xs d, map fst (assemble_from d xs) = map fst d ++ map fst xs.
Proof.
  induction xs as [|x xs IH]; simpl; intros d; [rewrite app_nil_r; reflexivity|].
  rewrite IH, concat_step_labels, <- app_assoc. reflexivity.
Qed.

(* the labels of the result are the readout labels, in readout order, one slice per readout --
   for EVERY list of labels (no distinctness or ordering needed) *)
Theorem assemble_labels : forall xs,
  map fst (assemble xs) = map fst xs /\ List.length (assemble xs) = List.length xs.
Proof.
  intros xs.
  assert (H : map fst (assemble xs) = map fst xs).
  { destruct xs as [|x xs]; simpl; [reflexivity|]. rewrite assemble_from_labels. reflexivity. }
  split; [exact H|]. apply (f_equal (@List.length Z)) in H. rewrite !map_length in H. exact H.
Qed.

(* ------------------------------------------------------------------------------- image dtype *)

Definition image_has_dtype (t : dtype) (s : snapshot) : Prop :=
  exists a, s_image s = Some a /\ a_dt a = t.

Lemma s_image_set : forall s v, s_image (set s Image v) = v.
Proof. reflexivity. Qed.

Lemma cast_to_dtype : forall t a, a_dt (cast_to t a) = t.
Proof.
  unfold cast_to. intros. destruct (dtype_eqb (a_dt a) t) eqn:E; [apply dtype_eqb_eq; exact E|reflexivity].
Qed.

Lemma cast_to_same : forall a, cast_to (a_dt a) a = a.
Proof. unfold cast_to. intros. rewrite dtype_eqb_refl. reflexivity. Qed.

Lemma common_image_unsigned : forall d,
  (forall ls, In ls d -> exists a, s_image (snd ls) = Some a /\ is_unsigned (a_dt a) = true) ->
  is_unsigned (common Image d) = true.
Proof.
  induction d as [|x d IH]; intros H; [reflexivity|]. rewrite common_fold. simpl. rewrite <- common_fold.
  apply join_unsigned.
  - destruct (H x (or_introl eq_refl)) as [a [Ha Hu]]. unfold sdt. simpl. rewrite Ha. exact Hu.
  - apply IH. intros ls Hls. apply H. right. exact Hls.
Qed.

(* images of unsigned types only (or none at all): the dtype restoration has nothing to do *)
Lemma regular_fix_id : forall d cur, image_regular (map snd d) -> fix_all cur (promote d) = promote d.
Proof.
  intros d cur Hreg. apply fix_all_id. intros y Hy. unfold promote in Hy. apply in_map_iff in Hy.
  destruct Hy as [[l s] [<- Hin]]. simpl. unfold fix_image.
  change (s_image (promote_slice (fun b => common b d) s)) with (get (promote_slice (fun b => common b d) s) Image).
  rewrite get_promote_slice.
  destruct Hreg as [Hn|Hu].
  - assert (E : s_image s = None) by (apply Hn; apply in_map_iff; exists (l, s); auto).
    simpl. rewrite E. reflexivity.
  - assert (U : is_unsigned (common Image d) = true).
    { apply common_image_unsigned. intros ls Hls. apply Hu. apply in_map. exact Hls. }
    simpl. destruct (s_image s); simpl; [|reflexivity]. destruct cur; [|reflexivity]. rewrite U. reflexivity.
Qed.

Lemma regular_sub : forall (a b : list snapshot), image_regular b -> (forall s, In s a -> In s b) -> image_regular a.
Proof. intros a b [H|H] Hs; [left|right]; intros s Hin; apply H; apply Hs; exact Hin. Qed.

Lemma assemble_from_promote : forall xs d0,
  image_regular (map snd (d0 ++ xs)) -> assemble_from (promote d0) xs = promote (d0 ++ xs).
Proof.
  induction xs as [|x xs IH]; simpl; intros d0 Hreg; [rewrite app_nil_r; reflexivity|].
  unfold concat_step. rewrite promote_absorb, regular_fix_id.
  - replace (d0 ++ x :: xs) with ((d0 ++ [x]) ++ xs) in * by (rewrite <- app_assoc; reflexivity).
    apply IH. exact Hreg.
  - eapply regular_sub; [exact Hreg|]. intros s Hs. rewrite map_app in *. apply in_app_or in Hs.
    apply in_or_app. destruct Hs as [Hs|Hs]; [left; exact Hs|right]. simpl in *. destruct Hs as [Hs|[]]. left. exact Hs.
Qed.

(* the assembled result: every slice as it was, every variable converted to its common type *)
Theorem assemble_regular : forall xs, image_regular (map snd xs) -> assemble xs = promote xs.
Proof.
  destruct xs as [|x xs]; simpl; intros H; [reflexivity|].
  rewrite <- (promote_single x). apply (assemble_from_promote xs [x]). exact H.
Qed.

Theorem assemble_image_dtype : forall t xs, is_unsigned t = true ->
  Forall (fun ls => image_has_dtype t (snd ls)) xs ->
  Forall (fun ls => image_has_dtype t (snd ls)) (assemble xs).
Proof.
  intros t xs Ht Hx. rewrite Forall_forall in Hx. rewrite assemble_regular.
  - rewrite Forall_forall. intros y Hy. unfold promote in Hy. apply in_map_iff in Hy.
    destruct Hy as [[l s] [<- Hin]]. simpl. destruct (Hx _ Hin) as [a [Ha Hd]]. simpl in Ha.
    unfold image_has_dtype.
    change (s_image (promote_slice (fun b => common b xs) s)) with (get (promote_slice (fun b => common b xs) s) Image).
    rewrite get_promote_slice. simpl. rewrite Ha. simpl. eexists. split; [reflexivity|]. simpl.
    apply common_uniform.
    + intros E. rewrite E in Hin. contradiction.
    + intros ls Hls. destruct (Hx _ Hls) as [a' [Ha' Hd']]. unfold sdt. simpl. rewrite Ha'. exact Hd'.
  - right. intros s Hs. apply in_map_iff in Hs. destruct Hs as [ls [<- Hls]].
    destruct (Hx _ Hls) as [a [Ha Hd]]. exists a. split; [exact Ha|]. rewrite Hd. exact Ht.
Qed.

(* ------------------------------------------------------------------------------- the exposure *)

Lemma extract_image : forall s, s_image (extract s) = s_image s.
Proof.
  intros s. unfold extract. destruct (s_photon s) as [a|]; [|reflexivity].
  destruct (List.length (a_shape a) =? 3)%nat; reflexivity.
Qed.

(* reading the detector out changes no value and no shape, and no dtype except a 3-D photon's *)
Lemma extract_values : forall s b,
  option_map a_vals (get (extract s) b) = option_map a_vals (get s b) /\
  option_map a_shape (get (extract s) b) = option_map a_shape (get s b) /\
  (b <> Photon -> get (extract s) b = get s b) /\
  (forall a, s_photon s = Some a -> List.length (a_shape a) <> 3%nat -> extract s = s).
Proof.
  intros s b. unfold extract. destruct (s_photon s) as [a|] eqn:E.
  - destruct (List.length (a_shape a) =? 3)%nat eqn:E3.
    + split; [destruct b; simpl; try reflexivity; rewrite E; reflexivity|].
      split; [destruct b; simpl; try reflexivity; rewrite E; reflexivity|].
      split; [intros Hb; destruct b; try reflexivity; congruence|].
      intros a' Ha Hn. inversion Ha; subst. apply Nat.eqb_eq in E3. contradiction.
    + split; [reflexivity|]. split; [reflexivity|]. split; [reflexivity|]. reflexivity.
  - split; [reflexivity|]. split; [reflexivity|]. split; [reflexivity|]. intros a Ha. discriminate.
Qed.

Section Exposure.
  Context {Scene Data : Type}.
  Variable empty_scene : Scene.
  Variable scene_is_empty : Scene -> bool.
  Variable tbl : tables.

  Notation det := (det Scene Data).
  Notation config := (config Scene Data).
  Notation tree := (tree Scene Data).
  Notation end_states := (end_states empty_scene).
  Notation exposure := (exposure empty_scene scene_is_empty tbl).
  Notation reset := (reset empty_scene).
  Notation views := (views empty_scene tbl).
  Notation trace := (trace empty_scene).
  Notation debug_steps := (debug_steps empty_scene tbl).
  Notation labels := (labels tbl).
  Notation copies := (tb_copies tbl).

  Lemma end_states_length : forall (c : config) n i d, List.length (end_states c i n d) = n.
  Proof. induction n; simpl; intros; [reflexivity|]. rewrite IHn. reflexivity. Qed.

  (* the states only depend on shape, destructive flag and models *)
  Lemma end_states_ext : forall (c c' : config) n i d,
    c_shape c = c_shape c' -> c_nondestr c = c_nondestr c' -> c_models c = c_models c' ->
    end_states c i n d = end_states c' i n d.
  Proof.
    induction n; simpl; intros i d H1 H2 H3; [reflexivity|].
    unfold step_end. rewrite H1, H2, H3. f_equal. apply IHn; assumption.
  Qed.

  Lemma trace_ext : forall (c c' : config) n i d,
    c_shape c = c_shape c' -> c_nondestr c = c_nondestr c' -> c_models c = c_models c' ->
    trace c i n d = trace c' i n d.
  Proof.
    induction n; simpl; intros i d H1 H2 H3; [reflexivity|].
    rewrite H1, H2, H3. f_equal. f_equal. apply IHn; assumption.
  Qed.

  Lemma debug_steps_ext : forall (c c' : config) n i d,
    c_shape c = c_shape c' -> c_nondestr c = c_nondestr c' -> c_models c = c_models c' ->
    debug_steps c i n d = debug_steps c' i n d.
  Proof.
    induction n; simpl; intros i d H1 H2 H3; [reflexivity|].
    rewrite H1, H2, H3. rewrite (trace_ext c c') by assumption. f_equal. apply IHn; assumption.
  Qed.

  Lemma views_ext : forall (c c' : config) ends,
    c_shape c = c_shape c' -> c_nondestr c = c_nondestr c' -> c_models c = c_models c' ->
    views c ends = views c' ends.
  Proof. intros c c' [|e0 rest] H1 H2 H3; simpl; [reflexivity|]. rewrite H1, H2, H3. reflexivity. Qed.

  (* ---- a read-out that does not copy is harmless for the slices as long as the container gets a new
     buffer at every reset: true of the charge array (Charge.empty: np.zeros_like) ---- *)
  Definition slices_safe : Prop := forall k, copies k = false -> k = KCharge.

  (* every variable of the step dataset is read out of the container of the same name *)
  Definition exports_all : Prop := forall v, source_of (tb_exported tbl) v = Some v.

  Lemma export_id : exports_all -> forall s, export tbl s = s.
  Proof.
    intros H s. unfold export. transitivity (build_snapshot (fun v => get s v)); [|apply build_snapshot_get].
    apply build_snapshot_ext. intros v. rewrite H. reflexivity.
  Qed.

  Lemma settle_export_id : exports_all -> forall (d : det) later s,
    (forall b a, get s b = Some a -> settle_arr tbl d later b a = a) ->
    settle_export tbl d later s = s.
  Proof.
    intros He d later s H. unfold settle_export.
    transitivity (build_snapshot (fun v => get s v)); [|apply build_snapshot_get].
    apply build_snapshot_ext. intros v. rewrite He.
    destruct (get s v) as [a|] eqn:E; simpl; [|reflexivity]. f_equal. apply H. exact E.
  Qed.

  Lemma views_exact : forall (c : config) ends,
    slices_safe -> exports_all -> views c ends = map view ends.
  Proof.
    intros c [|e0 rest] Hs He; simpl; [reflexivity|]. f_equal.
    - apply settle_export_id; [exact He|]. intros b a Hg. unfold settle_arr.
      destruct (copies (kind_of b a)) eqn:Ec; [reflexivity|].
      apply Hs in Ec. destruct b; simpl in Ec; try discriminate.
      + destruct (List.length (a_shape a) =? 3)%nat; discriminate.
      + destruct rest as [|e1 rest]; simpl; [reflexivity|].
        rewrite andb_false_r.
        destruct (Nat.eqb (S (d_gen e0 Charge)) (d_gen e0 Charge)) eqn:E; [|reflexivity].
        apply Nat.eqb_eq in E. lia.
    - apply map_ext. intros d. apply export_id. exact He.
  Qed.

  Lemma views_length : forall (c : config) ends, List.length (views c ends) = List.length ends.
  Proof. intros c [|e0 rest]; simpl; [reflexivity|]. rewrite map_length. reflexivity. Qed.

  Lemma labels_length : forall (c : config), List.length (labels c) = List.length (c_times c).
  Proof. intros c. unfold Result.labels. destruct (tb_label tbl); [apply map_length|reflexivity]. Qed.

  Lemma labels_absolute : tb_label tbl = LAbsolute ->
    forall c : config, labels c = map (Z.add (c_start c)) (c_times c).
  Proof. intros H c. unfold Result.labels. rewrite H. reflexivity. Qed.

  Definition ends_of (c : config) (d_init : det) : list det :=
    end_states c 0 (List.length (c_times c)) (reset (c_shape c) false d_init).

  Lemma in_combine_snd : forall (A B : Type) (l : list A) (m : list B) x, In x (combine l m) -> In (snd x) m.
  Proof. intros A B l m [a b] H. simpl. eapply in_combine_r; eauto. Qed.

  Lemma labels_views_length : forall (c : config) (d_init : det),
    List.length (labels c) = List.length (map view (ends_of c d_init)).
  Proof. intros. unfold ends_of. rewrite labels_length, map_length, end_states_length. reflexivity. Qed.

  Lemma map_snd_combine_sub : forall (A B : Type) (l : list A) (m : list B) y, In y (map snd (combine l m)) -> In y m.
  Proof.
    intros A B l m y H. apply in_map_iff in H. destruct H as [x [<- Hx]]. apply (in_combine_snd _ _ l m x Hx).
  Qed.

  (* C03_slices: for EVERY schedule *)
  Theorem slices_faithful : forall (c : config) (d_init : det),
    slices_safe -> exports_all ->
    image_regular (map view (ends_of c d_init)) ->
    t_buckets (exposure c d_init) = promote (combine (labels c) (map view (ends_of c d_init))) /\
    List.length (t_buckets (exposure c d_init)) = List.length (c_times c).
  Proof.
    intros c d_init Hsafe Hexp Hst. unfold Result.exposure. cbn [t_buckets]. fold (ends_of c d_init).
    rewrite (views_exact c _ Hsafe Hexp).
    pose proof (labels_views_length c d_init) as Hlen.
    rewrite assemble_regular.
    - split; [reflexivity|]. rewrite promote_length.
      etransitivity; [apply combine_length|]. rewrite <- Hlen, labels_length. lia.
    - eapply regular_sub; [exact Hst|]. intros s Hs. apply (map_snd_combine_sub _ _ _ _ _ Hs).
  Qed.

  Lemma bucket_slices_combine : forall (ls : list Z) (ss : list snapshot) b,
    bucket_slices (combine ls ss) b = combine ls (map (fun s => get s b) ss).
  Proof.
    unfold bucket_slices. induction ls; destruct ss; simpl; intros; try reflexivity.
    f_equal. apply IHls.
  Qed.

  (* whatever the images are: one slice per readout, labelled as the table says, in readout order *)
  Theorem labels_faithful : forall (c : config) (d_init : det),
    map fst (t_buckets (exposure c d_init)) = labels c /\
    List.length (t_buckets (exposure c d_init)) = List.length (c_times c).
  Proof.
    intros c d_init. unfold Result.exposure. cbn [t_buckets]. fold (ends_of c d_init).
    destruct (assemble_labels (combine (labels c) (views c (ends_of c d_init)))) as [H1 H2].
    assert (Hlen : List.length (labels c) = List.length (views c (ends_of c d_init))).
    { rewrite views_length, labels_length. unfold ends_of. rewrite end_states_length. reflexivity. }
    split.
    - rewrite H1. apply map_fst_combine. exact Hlen.
    - rewrite H2. etransitivity; [apply combine_length|]. rewrite <- Hlen, labels_length. lia.
  Qed.

  (* C03_image_dtype: no hypothesis on the values *)
  Theorem image_dtype_kept : forall (c : config) (d_init : det) t_,
    slices_safe -> exports_all -> is_unsigned t_ = true ->
    Forall (fun d => image_has_dtype t_ (d_snap d)) (ends_of c d_init) ->
    Forall (fun ls => image_has_dtype t_ (snd ls)) (t_buckets (exposure c d_init)).
  Proof.
    intros c d_init t_ Hsafe Hexp Hu Hall. unfold Result.exposure. cbn [t_buckets]. fold (ends_of c d_init).
    rewrite (views_exact c _ Hsafe Hexp).
    apply assemble_image_dtype; [exact Hu|].
    rewrite Forall_forall in *. intros x Hx. apply in_combine_snd in Hx.
    apply in_map_iff in Hx. destruct Hx as [d [<- Hd]].
    unfold image_has_dtype, view. rewrite extract_image. apply Hall. exact Hd.
  Qed.

  (* C03_layouts_agree *)
  Theorem layouts_agree : forall (c : config) (d_init : det),
    let a := exposure (with_layout c Flat) d_init in
    let b := exposure (with_layout c Hier) d_init in
    t_buckets a = t_buckets b /\ t_inter a = t_inter b /\ t_scene a = t_scene b /\
    t_data a = t_data b /\ t_bucket_path b = "/bucket"%string /\
    t_bucket_path a = (if scene_is_empty (t_scene a) then "/" else "/bucket")%string.
  Proof.
    intros c d_init. unfold Result.exposure. simpl.
    rewrite (end_states_ext (with_layout c Flat) c) by reflexivity.
    rewrite (end_states_ext (with_layout c Hier) c) by reflexivity.
    rewrite (views_ext (with_layout c Flat) c) by reflexivity.
    rewrite (views_ext (with_layout c Hier) c) by reflexivity.
    rewrite (debug_steps_ext (with_layout c Flat) c) by reflexivity.
    rewrite (debug_steps_ext (with_layout c Hier) c) by reflexivity.
    unfold Result.labels. simpl.
    repeat split.
    - unfold effective_layout. destruct (scene_is_empty _); reflexivity.
    - unfold effective_layout. destruct (scene_is_empty _); reflexivity.
  Qed.

  (* C03_scene_data_passthrough *)
  Theorem scene_data_passthrough : forall (c : config) (d_init : det),
    let final := last (ends_of c d_init) (reset (c_shape c) false d_init) in
    t_scene (exposure c d_init) = d_scene final /\ t_data (exposure c d_init) = d_data final.
  Proof. intros c d_init. split; reflexivity. Qed.

  (* data written by a model is not reset between steps (Detector.empty leaves it alone) and the scene
     is: the reset keeps d_data and replaces d_scene *)
  Lemma reset_keeps_data : forall shp k (d : det), d_data (reset shp k d) = d_data d /\ d_scene (reset shp k d) = empty_scene.
  Proof. intros. split; reflexivity. Qed.

  (* C03_debug_conservative, part 1 *)
  Lemma children_strip : forall l,
    filter (fun s => negb (String.eqb s "intermediate")) (children l true) = children l false.
  Proof. destruct l; reflexivity. Qed.

  Theorem debug_conservative : forall (c : config) (d_init : det),
    exposure (with_debug c false) d_init = strip_debug (exposure (with_debug c true) d_init).
  Proof.
    intros c d_init. unfold Result.exposure, strip_debug. simpl.
    rewrite (end_states_ext (with_debug c false) c) by reflexivity.
    rewrite (end_states_ext (with_debug c true) c) by reflexivity.
    rewrite (views_ext (with_debug c false) c) by reflexivity.
    rewrite (views_ext (with_debug c true) c) by reflexivity.
    unfold Result.labels. simpl. rewrite children_strip. reflexivity.
  Qed.

  (* the detector states do not depend on the debug flag at all *)
  Theorem debug_does_not_touch_states : forall (c : config) (d_init : det) b,
    ends_of (with_debug c b) d_init = ends_of c d_init.
  Proof. intros. unfold ends_of. simpl. apply end_states_ext; reflexivity. Qed.

  (* ---- the debug nodes ---- *)
  Lemma run_models_app : forall i ms1 ms2 (d : det),
    run_models i (ms1 ++ ms2) d = run_models i ms2 (run_models i ms1 d).
  Proof. intros. unfold run_models. apply fold_left_app. Qed.

  (* the debug capture reads the five containers under their own names and leaves out an all-zero charge *)
  Definition visible_std : Prop := forall s, visible_t tbl s = visible s.

  (* as captured (before the end of the run): every model's node is what the ideal record says *)
  Lemma debug_models_ideal : visible_std -> forall ms i (d : det), debug_models tbl i ms d = ideal_models i ms d.
  Proof.
    intros Hv. induction ms as [|m ms IH]; intros i d; [reflexivity|]. simpl. rewrite IH, !Hv. reflexivity.
  Qed.

  Lemma debug_models_length : forall ms i (d : det),
    List.length (debug_models tbl i ms d) = List.length (model_states i ms d).
  Proof. induction ms as [|m ms IH]; intros i d; [reflexivity|]. simpl. rewrite IH. reflexivity. Qed.

  Definition every_readout_copies : Prop := forall k, copies k = true.

  Lemma settle_id : every_readout_copies -> forall (d : det) later ba, settle tbl d later ba = ba.
  Proof.
    intros H d later [b a]. unfold settle, settle_arr. simpl.
    destruct (source_of (tb_visible tbl) b); [rewrite H|]; reflexivity.
  Qed.

  Lemma settle_nodes_id : every_readout_copies -> forall ns (sts later : list det),
    List.length ns = List.length sts -> settle_nodes tbl ns sts later = ns.
  Proof.
    intros H. induction ns as [|n ns IH]; intros [|d sts] later Hl; simpl in *; try reflexivity; try discriminate.
    rewrite IH by lia. destruct n as [st g nm vs]. simpl. f_equal. f_equal.
    rewrite <- (map_id vs) at 2. apply map_ext. intros ba. apply settle_id. exact H.
  Qed.

  (* C03_debug_nodes: when every read-out copies, the nodes of the result are exactly the ideal record *)
  Theorem debug_steps_ideal : every_readout_copies -> visible_std -> forall (c : config) n i (d : det),
    debug_steps c i n d = ideal_steps empty_scene c i n d.
  Proof.
    intros H Hv c. induction n as [|n IH]; intros i d; [reflexivity|].
    simpl. rewrite settle_nodes_id by (exact H || apply debug_models_length).
    rewrite debug_models_ideal by exact Hv. rewrite IH. reflexivity.
  Qed.

  (* ---- the y / x labels ---- *)
  Definition relabels_all : Prop := forall k, tb_relabel tbl k = true.

  Lemma zlist_eqb_refl : forall l, zlist_eqb l l = true.
  Proof. induction l; simpl; [reflexivity|]. rewrite Z.eqb_refl. exact IHl. Qed.

  Lemma agree_all : forall dflt c l, l <> [] -> (forall x, In x l -> x = c) -> agree dflt l = Some c.
  Proof.
    intros dflt c [|x l] Hne H; [congruence|]. simpl.
    rewrite (H x (or_introl eq_refl)).
    replace (forallb (coords_eqb c) l) with true; [reflexivity|].
    symmetry. apply forallb_forall. intros y Hy. rewrite (H y (or_intror Hy)).
    unfold coords_eqb. rewrite !zlist_eqb_refl. reflexivity.
  Qed.

  Lemma step_var_coords_index : relabels_all -> forall shp (d : det) x,
    In x (step_var_coords tbl shp d) -> x = index_coords shp.
  Proof.
    intros H shp d x Hx. unfold step_var_coords in Hx. apply in_flat_map in Hx.
    destruct Hx as [[v src] [_ Hx]]. simpl in Hx. destruct (get (view d) src) as [a|]; [|contradiction].
    destruct Hx as [<-|[]]. unfold var_coords. rewrite H. reflexivity.
  Qed.

  (* C03_coords: when every read-out sets the y / x coordinates, the bucket node is labelled with the row and
     column indices -- whatever labels the photon cubes carry -- and no variable is ever re-aligned *)
  Theorem coords_faithful : relabels_all -> forall (c : config) (d_init : det),
    t_coords (exposure c d_init) = Some (index_coords (c_shape c)) \/
    (t_coords (exposure c d_init) = Some ([], []) /\
     forall d vs, In d (ends_of c d_init) -> In vs (tb_exported tbl) -> get (view d) (snd vs) = None).
  Proof.
    intros H c d_init. unfold Result.exposure. cbn [t_coords]. fold (ends_of c d_init). unfold result_coords.
    destruct (flat_map (step_var_coords tbl (c_shape c)) (ends_of c d_init)) as [|x l] eqn:E.
    - right. split; [reflexivity|]. intros d vs Hd Hvs.
      destruct (get (view d) (snd vs)) as [a|] eqn:G; [|reflexivity]. exfalso.
      assert (Hin : In (var_coords tbl (c_shape c) d (snd vs) a) (flat_map (step_var_coords tbl (c_shape c)) (ends_of c d_init))).
      { apply in_flat_map. exists d. split; [exact Hd|]. unfold step_var_coords. apply in_flat_map.
        exists vs. split; [exact Hvs|]. rewrite G. left. reflexivity. }
      rewrite E in Hin. contradiction.
    - left. apply agree_all; [discriminate|]. intros y Hy. rewrite <- E in Hy. apply in_flat_map in Hy.
      destruct Hy as [d [_ Hy]]. eapply step_var_coords_index; eauto.
  Qed.
End Exposure.

Lemma all_copy_every : forall copies, all_copy copies = true -> forall k, copies k = true.
Proof.
  unfold all_copy. intros copies H k. rewrite forallb_forall in H. apply H.
  destruct k; simpl; tauto.
Qed.

Lemma bucket_eqb_eq : forall a b, bucket_eqb a b = true -> a = b.
Proof. destruct a, b; simpl; intros; try reflexivity; discriminate. Qed.

Lemma pairs_eqb_eq : forall a b, pairs_eqb a b = true -> a = b.
Proof.
  induction a as [|[x y] a IH]; destruct b as [|[x' y'] b]; simpl; intros H; try reflexivity; try discriminate.
  apply andb_prop in H. destruct H as [H H3]. apply andb_prop in H. destruct H as [H1 H2].
  apply bucket_eqb_eq in H1. apply bucket_eqb_eq in H2. subst. f_equal. apply IH. exact H3.
Qed.

(* what `tables_ok` gives, as propositions *)
Theorem tables_ok_props : forall tbl, tables_ok tbl = true ->
  every_readout_copies tbl /\ slices_safe tbl /\ tb_label tbl = LAbsolute /\ exports_all tbl /\ visible_std tbl /\
  relabels_all tbl.
Proof.
  unfold tables_ok. intros tbl H.
  apply andb_prop in H. destruct H as [H Hr].
  apply andb_prop in H. destruct H as [H Hv]. apply andb_prop in H. destruct H as [H He].
  apply andb_prop in H. destruct H as [Hc Hl].
  assert (C : every_readout_copies tbl) by (intros k; apply all_copy_every; exact Hc).
  split; [exact C|]. split; [intros k Hk; rewrite C in Hk; discriminate|].
  split; [unfold label_abs_b in Hl; destruct (tb_label tbl); [reflexivity|discriminate]|].
  split.
  - unfold exports_all_b in He. rewrite forallb_forall in He. intros v.
    assert (Hin : In v all_buckets) by (destruct v; simpl; tauto).
    specialize (He v Hin). destruct (source_of (tb_exported tbl) v) as [src|]; [|discriminate].
    apply bucket_eqb_eq in He. subst. reflexivity.
  - unfold visible_std_b in Hv. apply andb_prop in Hv. destruct Hv as [Hp Hz].
    apply pairs_eqb_eq in Hp. rewrite forallb_forall in Hz.
    assert (Z : forall b, tb_skip_zero tbl b = bucket_eqb b Charge).
    { intros b. apply eqb_prop. apply Hz. destruct b; simpl; tauto. }
    split.
    + intros s. unfold visible_t, visible. rewrite Hp. unfold id_pairs, all_buckets. simpl.
      rewrite !Z. reflexivity.
    + intros k. rewrite forallb_forall in Hr. apply Hr. destruct k; simpl; tauto.
Qed.

(* ------------------------------------------------- what `changed_by` means, bucket by bucket *)

Definition vget (s : snapshot) (b : bucket) : option arr :=
  match get s b with
  | None => None
  | Some a => if bucket_eqb b Charge && all_zero a then None else Some a
  end.

Lemma cap_lookup_visible : forall s b, cap_lookup b (visible s) = vget s b.
Proof.
  intros [p c x g i] b. unfold visible, vget.
  destruct p as [p|], c as [c|], x as [x|], g as [g|], i as [i|], b; simpl;
    try destruct (all_zero c); reflexivity.
Qed.

Lemma in_visible : forall s b a, In (b, a) (visible s) <-> vget s b = Some a.
Proof.
  intros [p c x g i] b a. unfold visible, vget.
  destruct p as [p|], c as [c|], x as [x|], g as [g|], i as [i|], b; simpl;
    try destruct (all_zero c); simpl;
    (split; [intros H; repeat (destruct H as [H|H]; [inversion H; subst; reflexivity|]);
                      try contradiction; try discriminate
            |intros H; inversion H; subst; intuition congruence]).
Qed.

Theorem changed_by_spec : forall before after b a,
  In (b, a) (changed_by before after) <->
  (vget after b = Some a /\
   match vget before b with None => True | Some a' => zlist_eqb (a_vals a) (a_vals a') = false end).
Proof.
  intros. unfold changed_by, diff. rewrite filter_In, in_visible. unfold recorded. simpl.
  rewrite cap_lookup_visible.
  destruct (vget before b) as [a'|].
  - destruct (zlist_eqb (a_vals a) (a_vals a')); simpl; intuition congruence.
  - intuition.
Qed.
