(* C05 -- dimension names (observation.py _get_short_dimension_names_new, misc.py
   _get_short_name_with_model): distinct swept keys get distinct names, every key gets a name, and a
   key whose last component is not shared keeps that component as its name. *)
From Coq Require Import ZArith List Bool Arith String Ascii Lia.
From PyxelV Require Import Model.ParamSpace.
Import ListNotations.
Local Notation length := List.length (only parsing).
Local Open Scope string_scope.

(* ------------------------------------------------------------------------------------ strings *)

Fixpoint nodot (s : string) : Prop :=
  match s with
  | EmptyString => True
  | String c s' => c <> "."%char /\ nodot s'
  end.

Lemma append_nil_r' : forall s : string, s ++ "" = s.
Proof. induction s; simpl; congruence. Qed.

Lemma append_assoc' : forall a b c : string, (a ++ b) ++ c = a ++ (b ++ c).
Proof. induction a; intros; simpl; congruence. Qed.

Lemma nodot_app : forall a b, nodot a -> nodot b -> nodot (a ++ b).
Proof. induction a; simpl; intros; tauto || (destruct H; split; auto). Qed.

Lemma aux_nodot_prefix : forall a s cur, nodot a -> split_dot_aux (a ++ s) cur = split_dot_aux s (cur ++ a).
Proof.
  induction a as [|c a IH]; intros s cur H; simpl.
  - now rewrite append_nil_r'.
  - destruct H as [Hc Ha]. destruct (Ascii.eqb c ".") eqn:E.
    + apply Ascii.eqb_eq in E. contradiction.
    + rewrite IH by assumption. rewrite append_assoc'. reflexivity.
Qed.

Lemma split_dot_nodot : forall s, nodot s -> split_dot s = [s].
Proof.
  intros s H. unfold split_dot. rewrite <- (append_nil_r' s) at 1.
  rewrite aux_nodot_prefix by assumption. reflexivity.
Qed.

Lemma split_dot_two : forall m p, nodot m -> nodot p -> split_dot (m ++ "." ++ p) = [m; p].
Proof.
  intros m p Hm Hp. unfold split_dot. rewrite aux_nodot_prefix by assumption. simpl.
  change (split_dot_aux p "") with (split_dot p). now rewrite split_dot_nodot.
Qed.

Lemma aux_all_nodot : forall s cur, nodot cur -> Forall nodot (split_dot_aux s cur).
Proof.
  induction s as [|c s IH]; intros cur H; simpl.
  - constructor; auto.
  - destruct (Ascii.eqb c ".") eqn:E.
    + constructor; auto. apply IH. exact I.
    + apply IH. apply nodot_app; auto. simpl. split; auto.
      intros ->. rewrite Ascii.eqb_refl in E. discriminate.
Qed.

Lemma split_dot_all_nodot : forall s, Forall nodot (split_dot s).
Proof. intros. apply aux_all_nodot. exact I. Qed.

Lemma last_Forall : forall {A} (P : A -> Prop) l d, P d -> Forall P l -> P (last l d).
Proof.
  induction l as [|a t IH]; intros d Hd H; simpl; auto.
  inversion H; subst. destruct t; auto.
Qed.

Lemma readout_key_parts :
  split_dot "observation.readout.times" = ["observation"; "readout"; "times"].
Proof. reflexivity. Qed.

Lemma short_of_nodot : forall k, nodot (short_of k).
Proof.
  intros k. unfold short_of. destruct (String.eqb k _).
  - simpl. repeat split; discriminate.
  - apply last_Forall; [exact I | apply split_dot_all_nodot].
Qed.

(* a key without dots is its own short name *)
Lemma short_of_of_nodot : forall k, nodot k -> short_of k = k.
Proof.
  intros k H. unfold short_of. destruct (String.eqb k _) eqn:E.
  - apply String.eqb_eq in E. subst k. simpl in H. decompose [and] H. congruence.
  - rewrite split_dot_nodot by assumption. reflexivity.
Qed.

(* a key with five components: the components are dot-free and the short name is the fifth *)
Lemma five_parts : forall k a b m d p,
  split_dot k = [a; b; m; d; p] -> nodot m /\ nodot p /\ short_of k = p.
Proof.
  intros k a b m d p H.
  pose proof (split_dot_all_nodot k) as F. rewrite H in F.
  repeat match goal with F : Forall _ (_ :: _) |- _ => inversion F; subst; clear F end.
  repeat split; auto.
  unfold short_of. destruct (String.eqb k _) eqn:E.
  - apply String.eqb_eq in E. subst k. rewrite readout_key_parts in H. discriminate.
  - rewrite H. reflexivity.
Qed.

(* "<model>.<argument>" read as a key has two components and the argument as its short name *)
Lemma short_of_model_dot_arg : forall m p, nodot m -> nodot p ->
  split_dot (m ++ "." ++ p) = [m; p] /\ short_of (m ++ "." ++ p) = p.
Proof.
  intros m p Hm Hp. pose proof (split_dot_two m p Hm Hp) as S. split; auto.
  unfold short_of. destruct (String.eqb _ _) eqn:E.
  - apply String.eqb_eq in E. rewrite E in S. rewrite readout_key_parts in S. discriminate.
  - rewrite S. reflexivity.
Qed.

(* ------------------------------------------------------------------------------------ counting *)

Lemma count_ge1 : forall l j s, nth_error l j = Some s -> 1 <= count_str s l.
Proof.
  induction l as [|a t IH]; intros j s H; destruct j; simpl in *; try discriminate.
  - inversion H; subst. rewrite String.eqb_refl. lia.
  - apply IH in H. lia.
Qed.

Lemma count_ge2 : forall l i j s,
  i <> j -> nth_error l i = Some s -> nth_error l j = Some s -> 2 <= count_str s l.
Proof.
  induction l as [|a t IH]; intros i j s Hij Hi Hj; destruct i as [|i'], j as [|j']; simpl in *;
    try discriminate; try congruence.
  - inversion Hi; subst. rewrite String.eqb_refl. apply count_ge1 in Hj. lia.
  - inversion Hj; subst. rewrite String.eqb_refl. apply count_ge1 in Hi. lia.
  - assert (2 <= count_str s t) by (apply (IH i' j' s); auto). lia.
Qed.

Lemma all_some_pairs_nth : forall {A B} (g : A -> option B) keys m,
  all_some_pairs (map (fun k => (k, g k)) keys) = Some m ->
  forall i k d, nth_error m i = Some (k, d) -> nth_error keys i = Some k /\ g k = Some d.
Proof.
  intros A B g keys. induction keys as [|k0 keys IH]; intros m H i k d Hi; simpl in H.
  - inversion H; subst. destruct i; discriminate.
  - destruct (g k0) eqn:E; try discriminate.
    destruct (all_some_pairs _) eqn:E2; try discriminate. simpl in H. inversion H; subst.
    destruct i; simpl in *.
    + inversion Hi; subst; auto.
    + eapply IH; eauto.
Qed.

Lemma all_some_pairs_fst : forall {A B} (g : A -> option B) keys m,
  all_some_pairs (map (fun k => (k, g k)) keys) = Some m -> map fst m = keys.
Proof.
  intros A B g keys. induction keys as [|k0 keys IH]; intros m H; simpl in H.
  - inversion H; reflexivity.
  - destruct (g k0); try discriminate. destruct (all_some_pairs _) eqn:E; try discriminate.
    simpl in H. inversion H; subst. simpl. f_equal. apply IH. reflexivity.
Qed.

Lemma all_some_pairs_total : forall {A B} (g : A -> option B) keys,
  (forall k, In k keys -> g k <> None) ->
  exists m, all_some_pairs (map (fun k => (k, g k)) keys) = Some m.
Proof.
  intros A B g keys. induction keys as [|k0 keys IH]; intros H; simpl.
  - eauto.
  - destruct (g k0) eqn:E; [|exfalso; apply (H k0); simpl; auto].
    destruct IH as [m Hm]; [intros; apply H; simpl; auto|]. rewrite Hm. simpl. eauto.
Qed.

(* ------------------------------------------------------------------------------------ the name table *)

Lemma dim_names2_nth : forall c keys m,
  dim_names2 c keys = Some m ->
  forall i k d, nth_error m i = Some (k, d) ->
    nth_error keys i = Some k /\ name2 c (map short_of keys) k = Some d.
Proof. intros c keys m H. unfold dim_names2 in H. eapply all_some_pairs_nth; exact H. Qed.

Lemma with_model_total : forall c k, cf_name_fallback_full c = true -> with_model c k <> None.
Proof.
  intros c k H. unfold with_model. rewrite H.
  destruct (split_dot k) as [|a [|b [|m [|d [|p [|f r]]]]]]; discriminate.
Qed.

(* Every key gets a name once keys without five components keep their full key. *)
Theorem dim_names_total : forall c keys,
  cf_name_fallback_full c = true ->
  exists m, dim_names c keys = Some m /\ map fst m = keys.
Proof.
  intros c keys H. unfold dim_names.
  destruct (all_some_pairs_total (name2 c (map short_of keys)) keys) as [m Hm].
  - intros k _. unfold name2. destruct (Nat.ltb _ _); [now apply with_model_total | discriminate].
  - unfold dim_names2. rewrite Hm. simpl. eexists; split; eauto.
    pose proof (all_some_pairs_fst _ _ _ Hm) as F.
    unfold stage3. destruct (cf_name_stage3 c); auto.
    rewrite map_map. simpl. rewrite <- F. apply map_ext. reflexivity.
Qed.

Lemma dim_names_fst : forall c keys m, dim_names c keys = Some m -> map fst m = keys.
Proof.
  intros c keys m H. unfold dim_names in H. destruct (dim_names2 c keys) as [m2|] eqn:E; try discriminate.
  simpl in H. inversion H; subst. unfold dim_names2 in E. pose proof (all_some_pairs_fst _ _ _ E) as F.
  unfold stage3. destruct (cf_name_stage3 c); auto.
  rewrite map_map. simpl. rewrite <- F. apply map_ext. reflexivity.
Qed.

(* the core of injectivity: a key can only be equal to the second-stage name of ANOTHER key if that
   name is shared in the second-stage table (and is therefore replaced in the third stage) *)
Lemma key_eq_other_name : forall c keys m2 i j ki kj ni nj,
  cf_name_fallback_full c = true ->
  dim_names2 c keys = Some m2 ->
  i <> j -> ki <> kj ->
  nth_error m2 i = Some (ki, ni) -> nth_error m2 j = Some (kj, nj) ->
  ki = nj ->
  2 <= count_str nj (map snd m2).
Proof.
  intros c keys m2 i j ki kj ni nj Hf H Hij Hk Hi Hj E.
  destruct (dim_names2_nth _ _ _ H _ _ _ Hi) as [Ki Ni].
  destruct (dim_names2_nth _ _ _ H _ _ _ Hj) as [Kj Nj].
  assert (Si : nth_error (map short_of keys) i = Some (short_of ki)) by (rewrite nth_error_map, Ki; auto).
  assert (Sj : nth_error (map short_of keys) j = Some (short_of kj)) by (rewrite nth_error_map, Kj; auto).
  assert (Mi : nth_error (map snd m2) i = Some ni) by (rewrite nth_error_map, Hi; auto).
  assert (Mj : nth_error (map snd m2) j = Some nj) by (rewrite nth_error_map, Hj; auto).
  unfold name2 in Nj.
  destruct (Nat.ltb 1 (count_str (short_of kj) (map short_of keys))) eqn:Dj.
  - (* the short name of kj is shared: nj comes from _get_short_name_with_model *)
    unfold with_model in Nj.
    destruct (split_dot kj) as [|a [|b [|m [|d [|p [|f r]]]]]] eqn:Sp;
      try (rewrite Hf in Nj; inversion Nj; congruence).
    assert (Enj : nj = m ++ "." ++ p) by congruence.
    destruct (five_parts _ _ _ _ _ _ Sp) as (Hm & Hp & Hs).
    destruct (short_of_model_dot_arg m p Hm Hp) as [S2 Sh2].
    assert (Eki : ki = m ++ "." ++ p) by congruence.
    assert (Ski : short_of ki = short_of kj) by (rewrite Eki, Sh2, Hs; reflexivity).
    rewrite Ski in Si.
    assert (2 <= count_str (short_of kj) (map short_of keys)) by (eapply count_ge2; eauto).
    unfold name2 in Ni. rewrite Ski in Ni. rewrite Dj in Ni.
    unfold with_model in Ni. rewrite Eki, S2, Hf in Ni.
    assert (Eni : ni = nj) by congruence.
    rewrite Eni in Mi.
    eapply count_ge2; eauto.
  - (* the short name of kj is not shared: nj = short_of kj, so ki has no dots and the same short name *)
    inversion Nj as [Enj]. exfalso.
    assert (Hn : nodot ki) by (rewrite E, <- Enj; apply short_of_nodot).
    assert (Ski : short_of ki = short_of kj) by (rewrite short_of_of_nodot by assumption; congruence).
    rewrite Ski in Si.
    assert (2 <= count_str (short_of kj) (map short_of keys)) by (eapply count_ge2; eauto).
    apply Nat.ltb_ge in Dj. lia.
Qed.

Lemma NoDup_keys_nth : forall (keys : list string) i j ki kj,
  NoDup keys -> i <> j -> nth_error keys i = Some ki -> nth_error keys j = Some kj -> ki <> kj.
Proof.
  intros keys i j ki kj N Hij Hi Hj E. subst kj.
  apply Hij. eapply (proj1 (NoDup_nth_error keys) N); [|congruence].
  apply nth_error_Some. congruence.
Qed.

(* Distinct swept keys get distinct dimension names (repaired code: both flags set). *)
Theorem dim_names_inj : forall c keys m,
  cf_name_fallback_full c = true -> cf_name_stage3 c = true ->
  NoDup keys -> dim_names c keys = Some m -> NoDup (map snd m).
Proof.
  intros c keys m Hf H3 N H. unfold dim_names in H.
  destruct (dim_names2 c keys) as [m2|] eqn:E2; try discriminate. simpl in H. inversion H; subst m. clear H.
  unfold stage3. rewrite H3.
  apply NoDup_nth_error. intros i j Hi Hij.
  destruct (Nat.eq_dec i j) as [|Hne]; auto. exfalso.
  rewrite !nth_error_map in Hij.
  rewrite map_length, map_length in Hi.
  destruct (nth_error m2 i) as [[ki ni]|] eqn:Ei; [|apply nth_error_None in Ei; lia].
  destruct (nth_error m2 j) as [[kj nj]|] eqn:Ej; [|discriminate].
  simpl in Hij.
  destruct (dim_names2_nth _ _ _ E2 _ _ _ Ei) as [Ki _].
  destruct (dim_names2_nth _ _ _ E2 _ _ _ Ej) as [Kj _].
  assert (Hk : ki <> kj) by (eapply NoDup_keys_nth; eauto).
  assert (Mi : nth_error (map snd m2) i = Some ni) by (rewrite nth_error_map, Ei; auto).
  assert (Mj : nth_error (map snd m2) j = Some nj) by (rewrite nth_error_map, Ej; auto).
  destruct (Nat.ltb 1 (count_str ni (map snd m2))) eqn:Ri;
  destruct (Nat.ltb 1 (count_str nj (map snd m2))) eqn:Rj; inversion Hij as [E].
  - congruence.
  - (* ki = nj, nj kept *)
    assert (2 <= count_str nj (map snd m2)) by (eapply key_eq_other_name with (i := i) (j := j); eauto).
    apply Nat.ltb_ge in Rj. lia.
  - assert (2 <= count_str ni (map snd m2))
      by (eapply key_eq_other_name with (i := j) (j := i) (ki := kj) (kj := ki); eauto; congruence).
    apply Nat.ltb_ge in Ri. lia.
  - rewrite E in Mi.
    assert (2 <= count_str nj (map snd m2)) by (eapply count_ge2; eauto).
    apply Nat.ltb_ge in Rj. lia.
Qed.

(* A key whose last component is not shared keeps it as its name (existing results keep their
   coordinate names). *)
Theorem dim_names_short_kept : forall c keys m k n,
  cf_name_fallback_full c = true ->
  NoDup keys -> dim_names c keys = Some m -> In (k, n) m ->
  count_str (short_of k) (map short_of keys) = 1 -> n = short_of k.
Proof.
  intros c keys m k n Hf N H Hin Hc. unfold dim_names in H.
  destruct (dim_names2 c keys) as [m2|] eqn:E2; try discriminate. simpl in H. inversion H; subst m. clear H.
  unfold stage3 in Hin. destruct (cf_name_stage3 c) eqn:H3.
  - apply in_map_iff in Hin. destruct Hin as ([k' n'] & Heq & Hin). simpl in Heq. inversion Heq; subst k'. clear Heq.
    apply In_nth_error in Hin. destruct Hin as [i Ei].
    destruct (dim_names2_nth _ _ _ E2 _ _ _ Ei) as [Ki Ni].
    unfold name2 in Ni. rewrite Hc in Ni. simpl in Ni. inversion Ni; subst n'.
    destruct (Nat.ltb 1 (count_str (short_of k) (map snd m2))) eqn:R; auto.
    (* the short name is shared in the second-stage table: impossible *)
    exfalso. apply Nat.ltb_lt in R.
    assert (Mi : nth_error (map snd m2) i = Some (short_of k)) by (rewrite nth_error_map, Ei; auto).
    (* find another position with the same name *)
    assert (exists j kj, j <> i /\ nth_error m2 j = Some (kj, short_of k)) as (j & kj & Hji & Ej).
    { clear - R Mi. revert i Mi R. generalize (short_of k) as s. induction m2 as [|[a b] t IH]; intros s i Mi R.
      - destruct i; discriminate.
      - simpl in R. destruct i; simpl in Mi.
        + inversion Mi; subst b. rewrite String.eqb_refl in R.
          assert (1 <= count_str s (map snd t)) by lia.
          assert (exists j, nth_error (map snd t) j = Some s) as [j Hj].
          { clear - H. induction t as [|[a' b'] t IH]; simpl in *; [lia|].
            destruct (String.eqb s b') eqn:E.
            - apply String.eqb_eq in E. subst. exists 0. reflexivity.
            - destruct IH as [j Hj]; [lia|]. exists (S j). exact Hj. }
          rewrite nth_error_map in Hj. destruct (nth_error t j) as [[kj nj]|] eqn:Ej; [|discriminate].
          simpl in Hj. inversion Hj; subst nj. exists (S j), kj. split; [lia|exact Ej].
        + destruct (String.eqb s b) eqn:E.
          * apply String.eqb_eq in E. subst b. exists 0, a. split; [lia|reflexivity].
          * destruct (IH s i Mi) as (j & kj & Hji & Ej); [simpl in R; lia|].
            exists (S j), kj. split; [lia|exact Ej]. }
    destruct (dim_names2_nth _ _ _ E2 _ _ _ Ej) as [Kj Nj].
    assert (Hk : kj <> k) by (eapply NoDup_keys_nth; eauto).
    assert (Si : nth_error (map short_of keys) i = Some (short_of k)) by (rewrite nth_error_map, Ki; auto).
    assert (Sj : nth_error (map short_of keys) j = Some (short_of kj)) by (rewrite nth_error_map, Kj; auto).
    unfold name2 in Nj.
    destruct (Nat.ltb 1 (count_str (short_of kj) (map short_of keys))) eqn:Dj.
    + unfold with_model in Nj.
      destruct (split_dot kj) as [|a [|b [|mm [|d [|p [|f r]]]]]] eqn:Sp;
        try (rewrite Hf in Nj; inversion Nj as [Ekj];
             (* kj = short_of k: kj has no dots, so it is its own short name, shared with k *)
             assert (Hn : nodot kj) by (rewrite Ekj; apply short_of_nodot);
             assert (short_of kj = short_of k) by (rewrite short_of_of_nodot by assumption; exact Ekj);
             rewrite H in Sj;
             assert (2 <= count_str (short_of k) (map short_of keys)) by (eapply count_ge2; eauto); lia).
      (* five components: the name m.p contains a dot, the short name does not *)
      inversion Nj as [Enj]. destruct (five_parts _ _ _ _ _ _ Sp) as (Hm & Hp & _).
      pose proof (short_of_nodot k) as Hn. rewrite <- Enj in Hn.
      clear - Hn. induction mm; simpl in Hn; [destruct Hn as [Hn _]; congruence | destruct Hn; auto].
    + inversion Nj as [Enj]. rewrite Enj in Sj.
      assert (2 <= count_str (short_of k) (map short_of keys)) by (eapply count_ge2; eauto). lia.
  - apply In_nth_error in Hin. destruct Hin as [i Ei].
    destruct (dim_names2_nth _ _ _ E2 _ _ _ Ei) as [Ki Ni].
    unfold name2 in Ni. rewrite Hc in Ni. simpl in Ni. inversion Ni; auto.
Qed.

(* The round-1 tree (neither flag): the names of two different keys can coincide (DESIGN F19) and
   the table can be undefined; kept as executable facts about the model of the unrepaired rule. *)
Lemma round1_collision :
  option_map (map snd) (dim_names cfg_round1 ["pipeline.charge_collection.m1.arguments.a";
                                               "pipeline.charge_measurement.m1.arguments.a"])
  = Some ["m1.a"; "m1.a"].
Proof. reflexivity. Qed.

Lemma round1_undefined :
  dim_names cfg_round1 ["detector.environment.temperature";
                        "pipeline.charge_collection.m1.arguments.temperature"] = None.
Proof. reflexivity. Qed.
