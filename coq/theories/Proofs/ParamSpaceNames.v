(* C05 -- short dimension names: exactly when do two swept keys get the same name? *)
From Coq Require Import ZArith List Bool Arith String Lia.
From PyxelV Require Import Model.ParamSpace.
Import ListNotations.
Local Notation length := List.length (only parsing).

Lemma count_ge1 : forall l j s, nth_error l j = Some s -> 1 <= count_str s l.
Proof.
  induction l as [|a t IH]; intros j s H; destruct j; simpl in *; try discriminate.
  - inversion H; subst. rewrite String.eqb_refl. lia.
  - apply IH in H. lia.
Qed.

Lemma count_ge2 : forall l i j s,
  i <> j -> nth_error l i = Some s -> nth_error l j = Some s -> 2 <= count_str s l.
Proof.
  induction l as [|a t IH]; intros i j s Hij Hi Hj; destruct i as [|i'], j as [|j']; simpl in *;
    try discriminate; try congruence.
  - inversion Hi; subst. rewrite String.eqb_refl. apply count_ge1 in Hj. lia.
  - inversion Hj; subst. rewrite String.eqb_refl. apply count_ge1 in Hi. lia.
  - assert (2 <= count_str s t) by (apply (IH i' j' s); auto). lia.
Qed.

Lemma with_model_short : forall k m p, with_model k = Some (WithModel m p) -> short_of k = p.
Proof.
  intros k m p H. unfold with_model in H. unfold short_of.
  destruct (String.eqb k "observation.readout.times") eqn:E.
  - apply String.eqb_eq in E. subst k. vm_compute in H. discriminate.
  - destruct (split_dot k) as [|a [|b [|c [|d [|e [|f r]]]]]]; try discriminate.
    inversion H; subst. reflexivity.
Qed.

Lemma with_model_shape : forall k d, with_model k = Some d -> exists m p, d = WithModel m p.
Proof.
  intros k d H. unfold with_model in H.
  destruct (split_dot k) as [|a [|b [|c [|x [|e [|f r]]]]]]; try discriminate.
  inversion H; eauto.
Qed.

Lemma all_some_pairs_nth : forall {A B} (f : A -> A * option B) (g : A -> option B) keys m,
  (forall k, f k = (k, g k)) ->
  all_some_pairs (map f keys) = Some m ->
  forall i k d, nth_error m i = Some (k, d) -> nth_error keys i = Some k /\ g k = Some d.
Proof.
  intros A B f g keys. induction keys as [|k0 keys IH]; intros m Hf H i k d Hi; simpl in H.
  - inversion H; subst. destruct i; discriminate.
  - rewrite Hf in H. destruct (g k0) eqn:E; try discriminate.
    destruct (all_some_pairs (map f keys)) eqn:E2; try discriminate. simpl in H. inversion H; subst.
    destruct i; simpl in *.
    + inversion Hi; subst; auto.
    + eapply IH; eauto.
Qed.

Definition name_fn (keys : list string) (k : string) : option dname :=
  if Nat.ltb 1 (count_str (short_of k) (map short_of keys)) then with_model k
  else Some (Short (short_of k)).

Lemma dim_names_nth : forall keys m,
  dim_names keys = Some m ->
  forall i k d, nth_error m i = Some (k, d) -> nth_error keys i = Some k /\ name_fn keys k = Some d.
Proof.
  intros keys m H. unfold dim_names in H.
  eapply all_some_pairs_nth; [|exact H].
  intros k. unfold name_fn. simpl. destruct (Nat.ltb 1 _); reflexivity.
Qed.

(* Two swept keys (at different positions of the key list) receive the same dimension name exactly
   when both have five dotted components and agree on the 3rd (model name) and the 5th (argument
   name) -- whatever their model group (2nd component) is. *)
Theorem dim_names_collide_iff : forall keys m,
  dim_names keys = Some m ->
  forall i j ki kj di dj, i <> j ->
    nth_error m i = Some (ki, di) -> nth_error m j = Some (kj, dj) ->
    (di = dj <-> (with_model ki = with_model kj /\ with_model ki <> None)).
Proof.
  intros keys m H i j ki kj di dj Hij Hi Hj.
  destruct (dim_names_nth _ _ H _ _ _ Hi) as [Ki Ni].
  destruct (dim_names_nth _ _ H _ _ _ Hj) as [Kj Nj].
  assert (Si : nth_error (map short_of keys) i = Some (short_of ki)) by (rewrite nth_error_map, Ki; auto).
  assert (Sj : nth_error (map short_of keys) j = Some (short_of kj)) by (rewrite nth_error_map, Kj; auto).
  unfold name_fn in Ni, Nj.
  split.
  - intros <-.
    destruct (Nat.ltb 1 (count_str (short_of ki) _)) eqn:Ei.
    + destruct (with_model_shape _ _ Ni) as (mm & pp & ->).
      destruct (Nat.ltb 1 (count_str (short_of kj) _)) eqn:Ej; [|discriminate].
      split; congruence.
    + inversion Ni; subst.
      destruct (Nat.ltb 1 (count_str (short_of kj) _)) eqn:Ej.
      * destruct (with_model_shape _ _ Nj) as (mm & pp & ?). discriminate.
      * inversion Nj as [E]. rewrite E in Sj.
        assert (2 <= count_str (short_of ki) (map short_of keys)) by (eapply count_ge2; eauto).
        apply Nat.ltb_ge in Ei. lia.
  - intros [E Hn].
    destruct (with_model ki) as [d|] eqn:Wi; [|congruence].
    destruct (with_model_shape _ _ Wi) as (mm & pp & ->).
    assert (Hsi : short_of ki = pp) by (eapply with_model_short; eauto).
    assert (Hsj : short_of kj = pp) by (eapply with_model_short; eauto).
    rewrite Hsi in *. rewrite Hsj in *.
    assert (2 <= count_str pp (map short_of keys)) by (eapply count_ge2; eauto).
    assert (Nat.ltb 1 (count_str pp (map short_of keys)) = true) by (apply Nat.ltb_lt; lia).
    rewrite H1 in Ni, Nj. congruence.
Qed.

(* The name table is undefined (ValueError: not enough values to unpack) exactly when some key whose
   short name is shared does not have five components. *)
Theorem dim_names_defined_iff : forall keys,
  dim_names keys = None <->
  exists k, In k keys /\ 2 <= count_str (short_of k) (map short_of keys) /\ with_model k = None.
Proof.
  intros keys. unfold dim_names. generalize (map short_of keys) as shorts. intros shorts.
  induction keys as [|k keys IH]; simpl.
  - split; [discriminate|]. intros (k & [] & _).
  - destruct (Nat.ltb 1 (count_str (short_of k) shorts)) eqn:E.
    + destruct (with_model k) eqn:W.
      * destruct (all_some_pairs _) eqn:A; simpl.
        -- split; [discriminate|]. intros (k' & [<-|Hin] & Hc & Hw); [congruence|].
           destruct IH as [_ IH]. assert (X : Some l = None) by (apply IH; eauto). discriminate.
        -- split; auto. intros _. destruct IH as [IH _]. destruct (IH eq_refl) as (k' & Hin & Hr).
           exists k'. split; auto.
      * split; auto. intros _. exists k. apply Nat.ltb_lt in E. repeat split; auto.
    + destruct (all_some_pairs _) eqn:A; simpl.
      * split; [discriminate|]. intros (k' & [<-|Hin] & Hc & Hw).
        -- apply Nat.ltb_ge in E. lia.
        -- destruct IH as [_ IH]. assert (X : Some l = None) by (apply IH; eauto). discriminate.
      * split; auto. intros _. destruct IH as [IH _]. destruct (IH eq_refl) as (k' & Hin & Hr).
        exists k'. split; auto.
Qed.
