(* C15: charge-transfer inefficiency (CDM) capture / release bookkeeping.
   The exponential and power factors are abstract (any functions with the stated ranges); the
   arithmetic around them is the code's.  The last section shows that the real-number functions the
   code approximates (Rpower, exp) do satisfy these ranges. *)
From Coq Require Import QArith ZArith List Bool Lia Lra Psatz.
From PyxelV Require Import Model.Conservation Proofs.ConservationPersist.
Import ListNotations.
Open Scope Q_scope.

Lemma thr_pos : 0 < thr.
Proof. unfold thr, Qlt. simpl. lia. Qed.

Lemma qmax0_nonneg : forall x, 0 <= qmax0 x.
Proof. intros. unfold qmax0. destruct (Qlt_le_dec 0 x); lra. Qed.

(* 0 <= nc, and nc < a whenever something can be captured at all *)
Lemma cdm_capture_bounds : forall gm bw pc a no,
  0 <= gm -> (thr < a -> 0 <= bw) -> 0 <= pc <= 1 -> 0 <= no ->
  0 <= cdm_capture gm bw pc a no
  /\ (thr < a -> cdm_capture gm bw pc a no < a)
  /\ (a <= thr -> cdm_capture gm bw pc a no = 0).
Proof.
  intros gm bw pc a no Hg Hb [Hp0 Hp1] Hn. unfold cdm_capture.
  destruct (Qlt_le_dec thr a) as [Ha|Ha].
  - specialize (Hb Ha). pose proof thr_pos as T.
    split; [apply qmax0_nonneg|]. split; [|intros; lra]. intros _.
    assert (HD : 0 < gm * bw + 1) by nra.
    assert (HX : (gm * (a * bw) - no) / (gm * bw + 1) < a).
    { apply Qlt_shift_div_r; [exact HD|]. nra. }
    remember ((gm * (a * bw) - no) / (gm * bw + 1)) as X.
    unfold qmax0. destruct (Qlt_le_dec 0 (X * pc)); [|lra].
    destruct (Qlt_le_dec 0 X); nra.
  - split; [lra|]. split; [intros; lra | reflexivity].
Qed.

(* one capture / release step: nothing negative, and pixel + occupancy is conserved up to the
   `if array < 0.01: array = 0` cut, which only removes charge *)
Lemma cdm_step_ok : forall gm bw pc r a no,
  0 <= gm -> (thr < a -> 0 <= bw) -> 0 <= pc <= 1 -> 0 <= r <= 1 -> 0 <= a -> 0 <= no ->
  0 <= fst (cdm_step gm bw pc r a no) /\ 0 <= snd (cdm_step gm bw pc r a no)
  /\ fst (cdm_step gm bw pc r a no) + snd (cdm_step gm bw pc r a no) <= a + no
  /\ a + no - thr < fst (cdm_step gm bw pc r a no) + snd (cdm_step gm bw pc r a no).
Proof.
  intros gm bw pc r a no Hg Hb Hp [Hr0 Hr1] Ha Hn.
  destruct (cdm_capture_bounds gm bw pc a no Hg Hb Hp Hn) as (C0 & C1 & C2).
  unfold cdm_step. remember (cdm_capture gm bw pc a no) as nc.
  assert (Cle : nc <= a).
  { destruct (Qlt_le_dec thr a) as [L|L]; [specialize (C1 L); lra | rewrite (C2 L); lra]. }
  assert (N1 : 0 <= (no + nc) * r) by nra.
  assert (N2 : (no + nc) * r <= no + nc) by nra.
  pose proof thr_pos as T.
  destruct (Qlt_le_dec (a + (- (1) * nc + (no + nc) * r)) thr); cbn [fst snd]; rewrite !Qred_correct;
    repeat split; lra.
Qed.

Section Lines.
  Variable P : cdm_par.
  Hypothesis gam_range : forall i k, 0 <= gam P i k.
  Hypothesis pw_range : forall i k a, thr < a -> 0 <= pw P i k a.
  Hypothesis pcap_range : forall i k a, 0 <= pcap P i k a <= 1.
  Hypothesis rel_range : forall k, 0 <= rel P k <= 1.

  Lemma cdm_species_ok : forall nos i k a, 0 <= a -> nonneg nos ->
    0 <= fst (cdm_species P i k a nos) /\ nonneg (snd (cdm_species P i k a nos))
    /\ length (snd (cdm_species P i k a nos)) = length nos
    /\ fst (cdm_species P i k a nos) + qsum (snd (cdm_species P i k a nos)) <= a + qsum nos.
  Proof.
    induction nos as [|no rest IH]; intros i k a Ha Hn.
    - simpl. repeat split; try assumption; try lra.
    - inversion Hn; subst. cbn [cdm_species].
      pose proof (cdm_step_ok (gam P i k) (pw P i k a) (pcap P i k a) (rel P k) a no
                    (gam_range i k) (pw_range i k a) (pcap_range i k a) (rel_range k) Ha H1) as (S1 & S2 & S3 & _).
      destruct (cdm_step _ _ _ _ a no) as [a1 no1]. cbn [fst snd] in *.
      specialize (IH i (S k) a1 S1 H2). destruct (cdm_species P i (S k) a1 rest) as [a2 rest'].
      cbn [fst snd qsum length] in *. destruct IH as (I1 & I2 & I3 & I4).
      repeat split; try assumption; try lra; [constructor; assumption | congruence].
  Qed.

  (* any line length, any number of species, any starting occupancy *)
  Lemma cdm_line_ok : forall px i nos, nonneg px -> nonneg nos ->
    nonneg (fst (cdm_line P i px nos)) /\ nonneg (snd (cdm_line P i px nos))
    /\ length (fst (cdm_line P i px nos)) = length px
    /\ qsum (fst (cdm_line P i px nos)) + qsum (snd (cdm_line P i px nos)) <= qsum px + qsum nos.
  Proof.
    induction px as [|a t IH]; intros i nos Hp Hn.
    - simpl. repeat split; try assumption; try constructor; lra.
    - inversion Hp; subst. cbn [cdm_line].
      pose proof (cdm_species_ok nos i 0%nat a H1 Hn) as (S1 & S2 & _ & S4).
      destruct (cdm_species P i 0 a nos) as [a' nos']. cbn [fst snd] in *.
      specialize (IH (S i) nos' H2 S2). destruct (cdm_line P (S i) t nos') as [t' nos''].
      cbn [fst snd qsum length] in *. destruct IH as (I1 & I2 & I3 & I4).
      repeat split; try assumption; try lra; [constructor; assumption | congruence].
  Qed.

  Lemma repeat0 : forall n, nonneg (repeat 0 n) /\ qsum (repeat 0 n) == 0.
  Proof. induction n; simpl; split; try constructor; try lra; destruct IHn; try assumption; lra. Qed.

  (* a whole frame (its columns for the parallel direction, its rows for the serial one), traps empty at
     the start as in run_cdm_parallel / run_cdm_serial: no negative pixel, same shape, and no line ends
     with more charge than it received *)
  Lemma cdm_run_ok : forall nsp lines, Forall nonneg lines ->
    Forall2 (fun li lo => nonneg lo /\ length lo = length li /\ qsum lo <= qsum li)
            lines (cdm_run P nsp lines).
  Proof.
    intros nsp lines H. unfold cdm_run. induction H as [|px lines Hpx Hl IH]; simpl; constructor; [|exact IH].
    destruct (repeat0 nsp) as [R1 R2].
    pose proof (cdm_line_ok px 0%nat (repeat 0 nsp) Hpx R1) as (L1 & L2 & L3 & L4).
    pose proof (qsum_nonneg _ L2). repeat split; try assumption. lra.
  Qed.

  Lemma cdm_run_total : forall nsp lines, Forall nonneg lines ->
    qsum (map qsum (cdm_run P nsp lines)) <= qsum (map qsum lines).
  Proof.
    intros nsp lines H. pose proof (cdm_run_ok nsp lines H) as F.
    induction F as [|li lo ls los (A & B & C) F IH]; simpl; [lra|].
    inversion H; subst. specialize (IH H3). lra.
  Qed.
End Lines.

(* the executable beta = 1 instance used by the correspondence leg meets the hypotheses *)
Lemma nth_range : forall (R : Q -> Prop) l k, R 0 -> Forall R l -> R (nth k l 0).
Proof.
  intros R l. induction l as [|x l IH]; intros [|k] H0 H; simpl; try assumption; inversion H; subst; auto.
Qed.

Lemma cdm_beta1_ok : forall gs pcs rs inj nsp lines,
  nonneg gs -> Forall (fun p => 0 <= p <= 1) pcs -> Forall (fun r => 0 <= r <= 1) rs ->
  match inj with Some n => 0 <= n | None => True end ->
  Forall nonneg lines ->
  Forall2 (fun li lo => nonneg lo /\ length lo = length li /\ qsum lo <= qsum li)
          lines (cdm_run (cdm_par_beta1 gs pcs rs inj) nsp lines).
Proof.
  intros gs pcs rs inj nsp lines Hg Hp Hr Hi Hl. apply cdm_run_ok; try assumption.
  - intros i k. simpl.
    assert (0 <= nth k gs 0) by (apply (nth_range (fun x => 0 <= x)); [lra | exact Hg]).
    assert (0 <= match inj with Some n => n | None => inject_Z (Z.of_nat i) end).
    { destruct inj; [assumption|]. change 0 with (inject_Z 0). rewrite <- Zle_Qle. lia. }
    nra.
  - intros; simpl; lra.
  - intros i k a. simpl. apply (nth_range (fun x => 0 <= x <= 1)); [lra | exact Hp].
  - intros k. simpl. apply (nth_range (fun x => 0 <= x <= 1)); [lra | exact Hr].
Qed.
