(* C11: the accumulation loop of ModelFittingDataTree.fitness is the declared sum; champions. *)
From Coq Require Import ZArith QArith Qabs List Bool Lia.
From PyxelV Require Import Model.Fitness.
Import ListNotations.

(* ------------------------------------------------------------------ pairing *)
Section Sum.
  Context {A B : Type}.
  Variable term : nat -> A -> B -> fres.

  Lemma pick_sim_app : forall (pre : list A) s sims, pick_sim (pre ++ s :: sims) (length pre) = Some s.
  Proof.
    intros pre s sims. unfold pick_sim.
    destruct (pre ++ s :: sims) as [|x l] eqn:E.
    - destruct pre; discriminate.
    - destruct l as [|y l'].
      + destruct pre as [|p pre']; simpl in E.
        * inversion E; reflexivity.
        * inversion E as [[E1 E2]]. destruct pre'; discriminate.
      + rewrite <- E. rewrite nth_error_app2 by lia. rewrite Nat.sub_diag. reflexivity.
  Qed.

  (* zip pairing = declared pairing whenever no target is left without a processor *)
  Lemma loop_is_declared_gen : forall (tgts : list B) (pre sims : list A) acc,
    (length tgts <= length sims)%nat ->
    acc_loop term (length pre) (combine sims tgts) acc = declared_from term (pre ++ sims) (length pre) tgts acc.
  Proof.
    induction tgts as [|t r IH]; intros pre sims acc Hl.
    - destruct sims; reflexivity.
    - destruct sims as [|s sims']; simpl in Hl; [lia|].
      simpl combine. simpl acc_loop. simpl declared_from. rewrite pick_sim_app.
      destruct (term (length pre) s t) eqn:E; try reflexivity.
      specialize (IH (pre ++ [s]) sims' (acc + q)%Q).
      rewrite <- app_assoc in IH. simpl in IH. rewrite app_length in IH. simpl in IH.
      replace (length pre + 1)%nat with (S (length pre)) in IH by lia.
      apply IH. lia.
  Qed.

  Theorem loop_is_declared : forall (sims : list A) (tgts : list B),
    (length tgts <= length sims)%nat -> fitness_loop term sims tgts = declared_sum term sims tgts.
  Proof. intros. exact (loop_is_declared_gen tgts [] sims 0%Q H). Qed.

  (* exact characterisation for any lengths: the loop is the declared sum over the zipped prefix *)
  Theorem loop_is_declared_prefix : forall (sims : list A) (tgts : list B),
    (2 <= length sims)%nat \/ (length tgts <= length sims)%nat ->
    fitness_loop term sims tgts = declared_sum term sims (firstn (length sims) tgts).
  Proof.
    intros sims tgts _. unfold fitness_loop.
    rewrite <- (loop_is_declared sims (firstn (length sims) tgts)).
    - unfold fitness_loop. f_equal.
      revert tgts. induction sims as [|s r IH]; intros tgts; [reflexivity|].
      destruct tgts; [reflexivity|]. simpl. f_equal. apply IH.
    - rewrite firstn_length. lia.
  Qed.

  (* the declared sum is a sum: every term enters once, with its own index (hence its own weight) *)
  Lemma declared_from_sum : forall (sims : list A) (vals : nat -> Q) (tgts : list B) k acc,
    (forall i t, nth_error tgts i = Some t ->
                 exists s, pick_sim sims (k + i) = Some s /\ term (k + i) s t = RVal (vals (k + i)%nat)) ->
    exists q, declared_from term sims k tgts acc = RVal q /\
              q == acc + fold_right (fun i a => vals i + a) 0 (seq k (length tgts)).
  Proof.
    intros sims vals. induction tgts as [|t r IH]; intros k acc H.
    - exists acc. split; [reflexivity|]. simpl. ring.
    - destruct (H 0%nat t eq_refl) as [s [Hp Ht]]. rewrite Nat.add_0_r in Hp, Ht.
      simpl declared_from. rewrite Hp, Ht.
      destruct (IH (S k) (acc + vals k)) as [q [Hq Hs]].
      + intros i t' Hi. specialize (H (S i) t' Hi).
        replace (S k + i)%nat with (k + S i)%nat by lia. exact H.
      + exists q. split; [exact Hq|]. rewrite Hs. simpl. ring.
  Qed.

  Theorem fitness_is_sum : forall (sims : list A) (tgts : list B) (vals : nat -> Q),
    (length tgts <= length sims)%nat ->
    (forall i s t, nth_error sims i = Some s -> nth_error tgts i = Some t -> term i s t = RVal (vals i)) ->
    exists q, fitness_loop term sims tgts = RVal q /\ q == qsum (length tgts) vals.
  Proof.
    intros sims tgts vals Hl H.
    rewrite loop_is_declared by exact Hl.
    destruct (declared_from_sum sims vals tgts 0%nat 0) as [q [Hq Hs]].
    - intros i t Hi. simpl.
      assert (Hlt : (i < length tgts)%nat) by (apply nth_error_Some; congruence).
      destruct (nth_error sims i) as [s|] eqn:Es.
      + exists s. split; [|apply H; assumption].
        unfold pick_sim. destruct sims as [|x [|y l]]; try exact Es.
        simpl in Hl. assert (i = 0)%nat by lia. subst i. exact Es.
      + apply nth_error_None in Es. lia.
    - exists q. split; [exact Hq|]. rewrite Hs. unfold qsum. ring.
  Qed.
End Sum.

(* the full statement: every target file enters the sum (a single processor serves all targets) *)
Definition fitness_sum_full : Prop :=
  forall (A B : Type) (term : nat -> A -> B -> fres) (sims : list A) (tgts : list B),
    length sims = length tgts \/ length sims = 1%nat ->
    fitness_loop term sims tgts = declared_sum term sims tgts.

Lemma fitness_sum_refuted : ~ fitness_sum_full.
Proof.
  intro H. specialize (H unit unit (fun _ _ _ => RVal 1) [tt] [tt; tt] (or_intror eq_refl)).
  vm_compute in H. discriminate.
Qed.

(* ------------------------------------------------------------------ slicing facts used to relate
   the term as coded (targets restricted at construction) with the declared term *)
Lemma slice1_open : forall {A} (l : list A), slice1 (None, None) l = l.
Proof.
  intros A l. unfold slice1, dflt. cbn [fst snd]. cbv zeta.
  set (n := Z.of_nat (length l)).
  assert (Hn : (0 <= n)%Z) by (unfold n; lia).
  assert (E0 : norm_idx n 0 = 0%Z).
  { unfold norm_idx. replace (0 <? 0)%Z with false by reflexivity. apply Z.min_l; exact Hn. }
  assert (E1 : norm_idx n n = n).
  { unfold norm_idx. replace (n <? 0)%Z with false by (symmetry; apply Z.ltb_ge; exact Hn). apply Z.min_id. }
  rewrite E0, E1. rewrite Z.sub_0_r. unfold n. rewrite Nat2Z.id. simpl. apply firstn_all.
Qed.

Lemma slice3_open_time : forall r c (f : frame3), slice3 (None, None) r c f = map (slice2 r c) f.
Proof. intros. unfold slice3. rewrite slice1_open. reflexivity. Qed.

(* the term computed by the code for pair k (result restricted to the result range, target restricted
   at construction, weight k restricted with the target range) is the declared term *)
Theorem term_coded_is_declared : forall c k sim tgt,
  term_coded c (fc_w c) k sim (let '(tm, tr, tc) := out_slices (fc_trng c) in slice3 tm tr tc tgt)
  = term_declared c k sim tgt.
Proof.
  intros c k sim tgt. unfold term_coded, term_declared, lift_t, weight_coded, weight_declared, lift_t.
  destruct (out_slices (fc_orng c)) as [[ot orow] ocol].
  destruct (out_slices (fc_trng c)) as [[tm tr] tc]. reflexivity.
Qed.

(* 2-D target range: the time axis of the target is left whole *)
Corollary term_coded_is_declared_2d : forall c k sim tgt tr tc,
  fc_trng c = FR2 tr tc ->
  term_coded c (fc_w c) k sim (map (slice2 tr tc) tgt) = term_declared c k sim tgt.
Proof.
  intros c k sim tgt tr tc E. rewrite <- term_coded_is_declared. rewrite E. cbn [out_slices].
  rewrite slice3_open_time. reflexivity.
Qed.

(* ------------------------------------------------------------------ the problem object: whenever it
   yields a fitness at all, that fitness is the declared figure of merit *)
Lemma declared_from_map : forall {A B B'} (t1 : nat -> A -> B' -> fres) (t2 : nat -> A -> B -> fres) (f : B -> B'),
  (forall k s t, t1 k s (f t) = t2 k s t) ->
  forall sims tgts k acc, declared_from t1 sims k (map f tgts) acc = declared_from t2 sims k tgts acc.
Proof.
  intros A B B' t1 t2 f H sims tgts. induction tgts as [|t r IH]; intros k acc; [reflexivity|].
  cbn [map declared_from]. destruct (pick_sim sims k) as [s|]; [|reflexivity].
  rewrite H. destruct (t2 k s t); try reflexivity. apply IH.
Qed.

(* with the weights configuration of the tree as repaired (weights kept for single- and multi-readout
   targets, scalar weights of the target region's shape, 3-D target ranges indexed by 'readout_time'):
   2-D and 3-D target ranges, no target without a processor.  The three outcomes: refused at construction / outside the model (the restricted
   result and target have different shapes) / the declared sum over ALL targets of the configured
   function on result[result range], target[target range] with weight k in term k. *)
Theorem model_fit_is_declared : forall ck cl c sims,
  (length (fc_tgts c) <= length sims)%nat ->
  model_fit ck cl coded_wconf c sims = OCtor \/
  model_fit ck cl coded_wconf c sims = OUndef \/
  model_fit ck cl coded_wconf c sims = fobs_of (declared_sum (term_declared c) sims (fc_tgts c)).
Proof.
  intros ck cl c sims Hl. unfold model_fit.
  destruct (is3d (fc_trng c) && negb (wc_time_key coded_wconf && fc_multi c)); auto.
  pose proof (term_coded_is_declared c) as HT.
  destruct (out_slices (fc_trng c)) as [[tm tr] tc].
  destruct (if fc_bypass c then Accept else ctor_check ck cl c sims); auto.
  destruct (out_slices (fc_orng c)) as [[ot orow] ocol].
  replace (weights_kept coded_wconf c) with (fc_w c)
    by (unfold weights_kept, coded_wconf; cbn; destruct (fc_multi c); reflexivity).
  cbn [wc_shape coded_wconf].
  match goal with |- context [if ?b then OUndef else _] => destruct b end; auto.
  right. right. f_equal.
  rewrite loop_is_declared by (rewrite map_length; exact Hl).
  unfold declared_sum. apply declared_from_map.
  intros k s t. apply HT.
Qed.

(* ------------------------------------------------------------------ champions *)
Lemma Qle_bool_total : forall a b, Qle_bool a b = false -> Qle_bool b a = true.
Proof.
  intros a b H. apply Qle_bool_iff. destruct (Qlt_le_dec b a) as [L|L].
  - apply Qlt_le_weak; exact L.
  - apply Qle_bool_iff in L. congruence.
Qed.

Lemma champ_step_le_prev : forall c b, Qle_bool (champ_step c b) c = true.
Proof.
  intros c b. unfold champ_step. destruct (Qle_bool b c) eqn:E; [exact E|].
  apply Qle_bool_iff. apply Qle_refl.
Qed.

Lemma champ_step_le_best : forall c b, Qle_bool (champ_step c b) b = true.
Proof.
  intros c b. unfold champ_step. destruct (Qle_bool b c) eqn:E.
  - apply Qle_bool_iff. apply Qle_refl.
  - apply Qle_bool_total; exact E.
Qed.

Theorem champions_noninc : forall bests c, noninc (c :: champ_seq c bests) = true.
Proof.
  induction bests as [|b r IH]; intros c; [reflexivity|].
  simpl champ_seq. change (Qle_bool (champ_step c b) c && noninc (champ_step c b :: champ_seq (champ_step c b) r) = true).
  rewrite champ_step_le_prev. simpl. apply IH.
Qed.

(* the champion after evolution i is not worse than the initial champion nor any best met so far,
   and it is one of those values (a fitness that was actually computed) *)
Theorem champions_best_so_far : forall bests c i ci,
  nth_error (champ_seq c bests) i = Some ci ->
  ci <= c /\ (forall j bj, (j <= i)%nat -> nth_error bests j = Some bj -> ci <= bj) /\ In ci (c :: bests).
Proof.
  induction bests as [|b r IH]; intros c i ci H.
  - destruct i; discriminate.
  - simpl in H. destruct i as [|i'].
    + simpl in H. inversion H; subst ci. repeat split.
      * apply Qle_bool_iff, champ_step_le_prev.
      * intros j bj Hj Hb. assert (j = 0)%nat by lia. subst j. simpl in Hb. inversion Hb; subst bj.
        apply Qle_bool_iff, champ_step_le_best.
      * unfold champ_step. destruct (Qle_bool b c); simpl; auto.
    + simpl in H. destruct (IH (champ_step c b) i' ci H) as [H1 [H2 H3]]. repeat split.
      * eapply Qle_trans; [exact H1|]. apply Qle_bool_iff, champ_step_le_prev.
      * intros j bj Hj Hb. destruct j as [|j'].
        -- simpl in Hb. inversion Hb; subst bj. eapply Qle_trans; [exact H1|].
           apply Qle_bool_iff, champ_step_le_best.
        -- simpl in Hb. apply (H2 j' bj); [lia|exact Hb].
      * destruct H3 as [H3|H3].
        -- subst ci. unfold champ_step. destruct (Qle_bool b c); simpl; auto.
        -- simpl. right. right. exact H3.
Qed.
