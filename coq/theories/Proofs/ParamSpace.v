(* C05 -- proofs about Model/ParamSpace.v: product / sequential / custom run lists. *)
From Coq Require Import ZArith List Bool Arith String Lia.
From PyxelV Require Import Model.ParamSpace.
Import ListNotations.
Local Notation length := List.length (only parsing).

(* ------------------------------------------------------------------------------------ list facts *)

Lemma seq_add_map : forall n s, seq s n = map (fun j => s + j) (seq 0 n).
Proof.
  induction n; intros s; simpl; auto.
  f_equal; [lia|]. rewrite (IHn (S s)), (IHn 1), map_map. apply map_ext; intros; lia.
Qed.

Lemma seq_blocks : forall P d,
  seq 0 (d * P) = flat_map (fun a => map (fun j => a * P + j) (seq 0 P)) (seq 0 d).
Proof.
  intros P; induction d; [reflexivity|].
  rewrite seq_S, flat_map_app. simpl flat_map. rewrite app_nil_r, <- IHd.
  replace (S d * P) with (d * P + P) by lia. rewrite seq_app. f_equal. simpl.
  apply seq_add_map.
Qed.

Lemma map_flat_map : forall {A B C} (f : B -> C) (g : A -> list B) l,
  map f (flat_map g l) = flat_map (fun x => map f (g x)) l.
Proof. induction l; simpl; auto. rewrite map_app, IHl; auto. Qed.

Lemma flat_map_map : forall {A B C} (f : B -> list C) (g : A -> B) l,
  flat_map f (map g l) = flat_map (fun x => f (g x)) l.
Proof. induction l; simpl; auto. rewrite IHl; auto. Qed.

Lemma list_as_nth : forall {A} (l : list A) d, map (fun i => nth i l d) (seq 0 (length l)) = l.
Proof.
  induction l; intros; simpl; auto. f_equal. rewrite <- seq_shift, map_map. apply IHl.
Qed.

Lemma combine_map_r : forall {A B} (f : A -> B) l, combine l (map f l) = map (fun x => (x, f x)) l.
Proof. induction l; simpl; auto. rewrite IHl; auto. Qed.

Lemma enumerate_from_map_seq : forall {A} (f : nat -> A) n s,
  enumerate_from s (map f (seq s n)) = map (fun k => (k, f k)) (seq s n).
Proof. induction n; intros; simpl; auto. rewrite IHn; auto. Qed.

Lemma enumerate_from_fst : forall {A} (l : list A) s, map fst (enumerate_from s l) = seq s (length l).
Proof. induction l; intros; simpl; auto. rewrite IHl; auto. Qed.

Lemma enumerate_from_snd : forall {A} (l : list A) s, map snd (enumerate_from s l) = l.
Proof. induction l; intros; simpl; auto. rewrite IHl; auto. Qed.

Lemma enumerate_from_length : forall {A} (l : list A) s, length (enumerate_from s l) = length l.
Proof. induction l; intros; simpl; auto. Qed.

Lemma enumerate_from_map : forall {A B} (f : A -> B) (l : list A) s,
  enumerate_from s (map f l) = map (fun na => (fst na, f (snd na))) (enumerate_from s l).
Proof. induction l; intros; simpl; auto. rewrite IHl; auto. Qed.

Lemma nodup_app : forall {A} (a b : list A),
  NoDup a -> NoDup b -> (forall x, In x a -> ~ In x b) -> NoDup (a ++ b).
Proof.
  induction a; intros b Ha Hb Hd; simpl; auto.
  inversion Ha; subst. constructor.
  - rewrite in_app_iff. intros [H|H]; [contradiction|]. apply (Hd a); simpl; auto.
  - apply IHa; auto. intros x Hx. apply Hd; simpl; auto.
Qed.

Lemma filter_idem : forall {A} (f : A -> bool) l, filter f (filter f l) = filter f l.
Proof.
  induction l; simpl; auto. destruct (f a) eqn:E; simpl; rewrite ?E, IHl; auto.
Qed.

(* ------------------------------------------------------------------------------------ itertools.product *)

Lemma iproduct_seq_unrank : forall dims,
  iproduct (map (seq 0) dims) = map (unrank dims) (seq 0 (list_prod dims)).
Proof.
  induction dims as [|d ds IH]; [reflexivity|].
  simpl iproduct. simpl list_prod. rewrite IH, seq_blocks, map_flat_map.
  apply flat_map_ext. intros a. rewrite !map_map.
  apply map_ext_in. intros j Hj. apply in_seq in Hj. simpl.
  assert (list_prod ds <> 0) by lia.
  f_equal.
  - rewrite Nat.div_add_l by auto. rewrite Nat.div_small by lia. lia.
  - f_equal. rewrite Nat.add_comm, Nat.mod_add by auto. symmetry. apply Nat.mod_small. lia.
Qed.

Lemma iproduct_pick : forall en,
  iproduct (map piter en) = map (fun ix => pick ix en) (iproduct (map (fun p => seq 0 (plen p)) en)).
Proof.
  induction en as [|p rest IH]; [reflexivity|].
  simpl iproduct. rewrite IH, map_flat_map.
  rewrite <- (list_as_nth (piter p) Ph) at 1. rewrite flat_map_map.
  apply flat_map_ext. intros i. rewrite !map_map. reflexivity.
Qed.

Lemma in_iproduct : forall {A} (ls : list (list A)) x,
  In x (iproduct ls) <-> Forall2 (fun a l => In a l) x ls.
Proof.
  induction ls as [|l rest IH]; intros x; simpl.
  - split; [intros [<-|[]]; constructor | intros H; inversion H; auto].
  - rewrite in_flat_map. split.
    + intros (a & Ha & Hx). apply in_map_iff in Hx. destruct Hx as (y & <- & Hy).
      constructor; auto. apply IH; auto.
    + intros H. inversion H; subst. exists x0. split; auto. apply in_map. apply IH; auto.
Qed.

Lemma nodup_map_cons : forall {A} (a : A) (l : list (list A)), NoDup l -> NoDup (map (cons a) l).
Proof.
  induction l; intros H; simpl; [constructor|]. inversion H; subst. constructor; auto.
  intros Hin. apply in_map_iff in Hin. destruct Hin as (y & E & Hy). inversion E; subst. contradiction.
Qed.

Lemma iproduct_nodup : forall {A} (ls : list (list A)),
  Forall (@NoDup A) ls -> NoDup (iproduct ls).
Proof.
  induction ls as [|l rest IH]; intros H; simpl.
  - constructor; auto. constructor.
  - inversion H as [|? ? Hl Hr]; subst. specialize (IH Hr).
    induction l as [|a l IHl]; simpl; [constructor|].
    inversion Hl; subst. apply nodup_app.
    + apply nodup_map_cons; auto.
    + apply IHl; auto.
    + intros x Hx Hx'. apply in_map_iff in Hx. destruct Hx as (y & <- & _).
      apply in_flat_map in Hx'. destruct Hx' as (b & Hb & Hy).
      apply in_map_iff in Hy. destruct Hy as (z & E & _). inversion E; subst. contradiction.
Qed.

Lemma list_prod_length_iproduct : forall {A} (ls : list (list A)),
  length (iproduct ls) = list_prod (map (@List.length A) ls).
Proof.
  induction ls as [|l rest IH]; simpl; auto.
  induction l; simpl; auto. rewrite app_length, map_length, IHl, IH. lia.
Qed.

(* ------------------------------------------------------------------------------------ python dict *)

Lemma dict_set_fresh : forall {V} k (v : V) d, ~ In k (map fst d) -> dict_set k v d = d ++ [(k, v)].
Proof.
  induction d as [|[k' v'] t IH]; intros H; simpl; auto.
  destruct (String.eqb k k') eqn:E.
  - apply String.eqb_eq in E. subst. exfalso. apply H. simpl; auto.
  - rewrite IH; auto. intros Hin. apply H. simpl; auto.
Qed.

Lemma dict_fold_nodup : forall {V} (kvs acc : list (string * V)),
  NoDup (map fst acc ++ map fst kvs) ->
  fold_left (fun d kv => dict_set (fst kv) (snd kv) d) kvs acc = acc ++ kvs.
Proof.
  induction kvs as [|[k v] t IH]; intros acc H; simpl.
  - rewrite app_nil_r; auto.
  - rewrite dict_set_fresh.
    + rewrite IH; [rewrite <- app_assoc; auto|].
      rewrite map_app, <- app_assoc. exact H.
    + simpl in H. apply NoDup_remove_2 in H. intros Hin. apply H. apply in_or_app; auto.
Qed.

Lemma dict_of_nodup : forall {V} (kvs : list (string * V)), NoDup (map fst kvs) -> dict_of kvs = kvs.
Proof. intros. unfold dict_of. rewrite dict_fold_nodup; auto. Qed.

Lemma combine_fst_nodup : forall {A B} (ks : list A) (vs : list B),
  NoDup ks -> NoDup (map fst (combine ks vs)).
Proof.
  induction ks as [|k ks IH]; intros vs H; simpl; [constructor|].
  destruct vs as [|v vs]; simpl; [constructor|].
  inversion H; subst. constructor; auto.
  intros Hin. apply in_map_iff in Hin. destruct Hin as ([a b] & E & Hin). simpl in E; subst.
  apply in_combine_l in Hin. contradiction.
Qed.

Lemma dict_set_keys : forall {V} k (v : V) d x, In x (map fst (dict_set k v d)) -> x = k \/ In x (map fst d).
Proof.
  induction d as [|[k' v'] t IH]; intros x H; simpl in *.
  - destruct H as [H|[]]; auto.
  - destruct (String.eqb k k') eqn:E; simpl in H.
    + apply String.eqb_eq in E; subst. destruct H; auto.
    + destruct H as [H|H]; auto. apply IH in H. destruct H; auto.
Qed.

Lemma dict_fold_keys : forall {V} (kvs acc : list (string * V)) x,
  In x (map fst (fold_left (fun d kv => dict_set (fst kv) (snd kv) d) kvs acc)) ->
  In x (map fst acc) \/ In x (map fst kvs).
Proof.
  induction kvs as [|[k v] t IH]; intros acc x H; simpl in *; auto.
  apply IH in H. destruct H as [H|H]; auto.
  apply dict_set_keys in H. simpl in H. destruct H; auto.
Qed.

Lemma dict_of_keys : forall {V} (kvs : list (string * V)) x, In x (map fst (dict_of kvs)) -> In x (map fst kvs).
Proof. intros V kvs x H. apply dict_fold_keys in H. destruct H as [[]|H]; auto. Qed.

(* ------------------------------------------------------------------------------------ product mode *)

(* the run list as coded, in closed form (no hypothesis): run n has index tuple unrank dims n *)
Lemma product_runs_closed : forall ps,
  let en := enabled ps in
  let dims := map plen en in
  product_runs ps =
  map (fun n => mkRun n (unrank dims n) (dict_of (combine (map p_key en) (pick (unrank dims n) en))))
      (seq 0 (list_prod dims)).
Proof.
  intros ps en dims. unfold product_runs. fold en.
  rewrite iproduct_pick, combine_map_r.
  replace (map (fun p => seq 0 (plen p)) en) with (map (seq 0) dims)
    by (unfold dims; rewrite map_map; auto).
  rewrite iproduct_seq_unrank, map_map, enumerate_from_map_seq, map_map. reflexivity.
Qed.

Lemma product_runs_spec : forall ps,
  NoDup (map p_key (enabled ps)) -> product_runs ps = spec_product (enabled ps).
Proof.
  intros ps H. rewrite product_runs_closed. unfold spec_product.
  apply map_ext. intros n. f_equal. apply dict_of_nodup. apply combine_fst_nodup; auto.
Qed.

Lemma unrank_in_bounds : forall dims n, n < list_prod dims -> Forall2 lt (unrank dims n) dims.
Proof.
  intros dims n Hn.
  assert (In (unrank dims n) (iproduct (map (seq 0) dims))).
  { rewrite iproduct_seq_unrank. apply in_map. apply in_seq. lia. }
  apply in_iproduct in H. clear Hn. revert H. generalize (unrank dims n) as ix.
  induction dims; intros ix H; inversion H; subst; constructor.
  - match goal with Hs : In _ (seq _ _) |- _ => apply in_seq in Hs; lia end.
  - apply IHdims; auto.
Qed.

Lemma pick_length : forall en ix, length ix = length en -> length (pick ix en) = length en.
Proof. induction en; destruct ix; simpl; intros; auto; try discriminate. Qed.

Lemma unrank_length : forall dims n, length (unrank dims n) = length dims.
Proof. induction dims; intros; simpl; auto. Qed.

Lemma pick_nth : forall en ix k p,
  length ix = length en -> nth_error en k = Some p ->
  nth_error (pick ix en) k = Some (nth (nth k ix 0) (piter p) Ph).
Proof.
  induction en as [|q rest IH]; intros ix k p Hl Hk; destruct k; simpl in *; try discriminate;
    destruct ix as [|i is]; simpl in *; try discriminate.
  - inversion Hk; subst; auto.
  - apply IH; auto.
Qed.

Lemma dict_get_combine : forall {V} (ks : list string) (vs : list V) k j v,
  NoDup ks -> nth_error ks j = Some k -> nth_error vs j = Some v -> dict_get k (combine ks vs) = Some v.
Proof.
  induction ks as [|k0 ks IH]; intros vs k j v Hnd Hk Hv; destruct j; simpl in *; try discriminate.
  - inversion Hk; subst. destruct vs; simpl in *; try discriminate. inversion Hv; subst.
    rewrite String.eqb_refl; auto.
  - destruct vs as [|v0 vs]; simpl in *; try discriminate.
    inversion Hnd; subst.
    destruct (String.eqb k k0) eqn:E.
    + apply String.eqb_eq in E; subst. exfalso. apply H1. eapply nth_error_In; eauto.
    + eapply IH; eauto.
Qed.

Lemma forall2_lt_nth : forall ix dims k d, Forall2 lt ix dims -> nth_error dims k = Some d -> nth k ix 0 < d.
Proof.
  intros ix dims k d H. revert k. induction H; intros k Hk; destruct k; simpl in *; try discriminate.
  - inversion Hk; subst; auto.
  - apply IHForall2; auto.
Qed.

Lemma combine_fst_same_length : forall {A B} (ks : list A) (vs : list B),
  length ks = length vs -> map fst (combine ks vs) = ks.
Proof. induction ks; destruct vs; simpl; intros; try discriminate; auto. f_equal. apply IHks. lia. Qed.

Theorem product_complete : forall ps,
  let en := enabled ps in
  let dims := map plen en in
  let runs := product_runs ps in
  (* as many runs as the product of the list lengths *)
  length runs = list_prod dims /\
  (* no index tuple twice; the index tuples are exactly the in-range tuples *)
  NoDup (map r_index runs) /\
  (forall ix, In ix (map r_index runs) <-> Forall2 lt ix dims) /\
  (* run number n: row-major digits of n; carries element i_k of list k under key k *)
  (forall n, n < list_prod dims ->
     exists r, nth_error runs n = Some r /\ r_run_index r = n /\ r_index r = unrank dims n /\
               r_params r = dict_of (combine (map p_key en) (pick (r_index r) en))) /\
  (NoDup (map p_key en) ->
     forall r k p, In r runs -> nth_error en k = Some p ->
       dict_get (p_key p) (r_params r) = Some (nth (nth k (r_index r) 0) (piter p) Ph) /\
       nth k (r_index r) 0 < plen p /\
       map fst (r_params r) = map p_key en).
Proof.
  intros ps en dims runs.
  assert (Hc := product_runs_closed ps). fold en dims runs in Hc.
  assert (Hidx : map r_index runs = iproduct (map (seq 0) dims)).
  { rewrite Hc, map_map. simpl. rewrite iproduct_seq_unrank. reflexivity. }
  split; [rewrite Hc, map_length, seq_length; reflexivity|].
  split.
  { rewrite Hidx. apply iproduct_nodup. apply Forall_forall. intros l Hl.
    apply in_map_iff in Hl. destruct Hl as (d & <- & _). apply seq_NoDup. }
  split.
  { intros ix. rewrite Hidx, in_iproduct. clear. revert ix.
    induction dims as [|d ds IH]; intros ix; split; intros H; inversion H; subst; constructor;
      try (apply IH; auto);
      try (match goal with Hs : In _ (seq _ _) |- _ => apply in_seq in Hs; lia end);
      try (apply in_seq; lia). }
  split.
  { intros n Hn. rewrite Hc.
    eexists. split.
    - rewrite nth_error_map.
      rewrite nth_error_nth' with (d := 0) by (rewrite seq_length; auto).
      rewrite seq_nth by auto. simpl. reflexivity.
    - simpl. auto. }
  intros Hnd r k p Hr Hk.
  rewrite Hc in Hr. apply in_map_iff in Hr. destruct Hr as (n & <- & Hn). apply in_seq in Hn. simpl.
  assert (Hn' : n < list_prod dims) by (unfold dims in *; lia).
  assert (Hb : Forall2 lt (unrank dims n) dims) by (apply unrank_in_bounds; auto).
  assert (Hlen : length (unrank dims n) = length en)
    by (rewrite unrank_length; unfold dims; apply map_length).
  rewrite dict_of_nodup by (apply combine_fst_nodup; auto).
  split; [|split].
  - apply dict_get_combine with (j := k); auto.
    + rewrite nth_error_map, Hk; reflexivity.
    + apply pick_nth; auto.
  - assert (Hkd : nth_error dims k = Some (plen p)) by (unfold dims; rewrite nth_error_map, Hk; auto).
    eapply forall2_lt_nth; eauto.
  - apply combine_fst_same_length. rewrite map_length, pick_length; auto.
Qed.

(* ------------------------------------------------------------------------------------ sequential mode *)

Lemma unique_aux_spec : forall l seen x,
  In x (unique_aux seen l) <-> In x l /\ ~ In x seen.
Proof.
  induction l as [|a t IH]; intros seen x; simpl; [tauto|].
  destruct (existsb (String.eqb a) seen) eqn:E.
  - rewrite IH. apply existsb_exists in E. destruct E as (y & Hy & Ey). apply String.eqb_eq in Ey; subst y.
    split; [tauto|]. intros [[->|H] Hn]; [contradiction|tauto].
  - simpl. rewrite IH. simpl.
    assert (Ha : ~ In a seen).
    { intros Hin. assert (existsb (String.eqb a) seen = true).
      { apply existsb_exists. exists a. split; auto. apply String.eqb_refl. }
      congruence. }
    split.
    + intros [->|[H1 H2]]; [tauto|]. split; [tauto|]. intros H; apply H2; auto.
    + intros [[->|H1] H2]; [tauto|]. destruct (string_dec a x); [tauto|]. right. split; auto.
      intros [H|H]; [contradiction|contradiction].
Qed.

Lemma unique_aux_nodup : forall l seen, NoDup (unique_aux seen l).
Proof.
  induction l as [|a t IH]; intros seen; simpl; [constructor|].
  destruct (existsb (String.eqb a) seen); auto.
  constructor; auto. rewrite unique_aux_spec. simpl. tauto.
Qed.

Lemma unique_in : forall l x, In x (unique l) <-> In x l.
Proof. intros. unfold unique. rewrite unique_aux_spec. simpl; tauto. Qed.

Lemma unique_nodup : forall l, NoDup (unique l).
Proof. intros; apply unique_aux_nodup. Qed.

Lemma override_notin : forall d k v, ~ In k (map fst d) -> override d k v = d.
Proof.
  induction d as [|[k' v'] t IH]; intros k v H; simpl; auto.
  destruct (String.eqb k k') eqn:E.
  - apply String.eqb_eq in E; subst. exfalso; apply H; simpl; auto.
  - f_equal. apply IH. intros Hin; apply H; simpl; auto.
Qed.

Lemma dict_set_override : forall d k v,
  NoDup (map fst d) -> In k (map fst d) -> dict_set k v d = override d k v.
Proof.
  induction d as [|[k' v'] t IH]; intros k v Hnd Hin; simpl in *; [contradiction|].
  inversion Hnd; subst.
  destruct (String.eqb k k') eqn:E.
  - apply String.eqb_eq in E; subst. f_equal. symmetry. apply override_notin; auto.
  - f_equal. apply IH; auto. destruct Hin as [->|]; auto. rewrite String.eqb_refl in E; discriminate.
Qed.

Lemma override_get : forall d k v k',
  dict_get k' (override d k v) =
  if String.eqb k k' then option_map (fun _ => v) (dict_get k' d) else dict_get k' d.
Proof.
  induction d as [|[k0 v0] t IH]; intros; simpl.
  - destruct (String.eqb k k'); auto.
  - destruct (String.eqb k k0) eqn:E0; simpl.
    + apply String.eqb_eq in E0; subst k0. destruct (String.eqb k' k) eqn:E1.
      * apply String.eqb_eq in E1; subst. rewrite String.eqb_refl; auto.
      * rewrite IH; auto.
    + destruct (String.eqb k' k0) eqn:E1.
      * apply String.eqb_eq in E1; subst. rewrite E0; auto.
      * rewrite IH; auto.
Qed.

Lemma seq_defaults_keys : forall get en, map fst (seq_defaults get en) = unique (map p_key en).
Proof. intros. unfold seq_defaults. rewrite map_map. simpl. apply map_id. Qed.

Theorem sequential_correct : forall get ps,
  let en := enabled ps in
  let runs := sequential_runs get ps in
  (* one parameter at a time, in declaration order, every other swept key at its configured value *)
  map r_params runs = spec_sequential_params get en /\
  length runs = sum_nat (map plen en) /\
  map r_run_index runs = seq 0 (length runs) /\
  map r_index runs = map (fun n => [n]) (seq 0 (length runs)) /\
  (* the defaults are the configured values of the distinct enabled keys *)
  (forall k, In k (map p_key en) -> dict_get k (seq_defaults get en) = Some (get k)).
Proof.
  intros get ps en runs. unfold runs, sequential_runs. fold en.
  set (dflt := seq_defaults get en).
  assert (Hnd : NoDup (map fst dflt)) by (unfold dflt; rewrite seq_defaults_keys; apply unique_nodup).
  assert (Hin : forall p, In p en -> In (p_key p) (map fst dflt)).
  { intros p Hp. unfold dflt. rewrite seq_defaults_keys, unique_in. apply in_map; auto. }
  split.
  { rewrite map_map. simpl.
    rewrite <- (map_map snd (fun kv => dict_set (fst kv) (snd kv) dflt)), enumerate_from_snd.
    unfold spec_sequential_params, seq_changes. fold dflt.
    assert (G : forall l, incl l en ->
      map (fun kv => dict_set (fst kv) (snd kv) dflt)
          (flat_map (fun p => map (fun v => (p_key p, v)) (piter p)) l) =
      List.concat (map (fun p => map (fun v => override dflt (p_key p) v) (piter p)) l)).
    { induction l as [|p l IH]; intros Hi; simpl; auto.
      rewrite map_app, IH by (intros x Hx; apply Hi; simpl; auto). f_equal.
      rewrite map_map. apply map_ext. intros v. simpl. apply dict_set_override; auto.
      apply Hin. apply Hi; simpl; auto. }
    apply G. apply incl_refl. }
  split.
  { rewrite map_length, enumerate_from_length. unfold seq_changes.
    generalize en. intros l. induction l as [|p l IH]; simpl; auto. rewrite app_length, map_length, IH. reflexivity. }
  split.
  { rewrite map_map. simpl. rewrite <- (map_map fst (fun n => n)), map_id, enumerate_from_fst.
    rewrite map_length, enumerate_from_length. reflexivity. }
  split.
  { rewrite map_map. simpl. rewrite <- (map_map fst (fun n => [n])), enumerate_from_fst.
    rewrite map_length, enumerate_from_length. reflexivity. }
  intros k Hk. unfold dflt, seq_defaults.
  apply (unique_in (map p_key en)) in Hk. revert Hk. generalize (unique (map p_key en)).
  intros l. induction l as [|a l IH]; simpl; intros H; [contradiction|].
  destruct (String.eqb k a) eqn:E.
  - apply String.eqb_eq in E; subst; auto.
  - destruct H as [->|H]; auto. rewrite String.eqb_refl in E; discriminate.
Qed.

(* ------------------------------------------------------------------------------------ custom mode *)

Lemma count_ph_repeat : forall n, length (filter (fun v => pval_eqb v Ph) (repeat Ph n)) = n.
Proof. induction n; simpl; auto. Qed.

Lemma count_ph_widths : forall en, forallb is_placeholder en = true -> count_ph en = sum_nat (map pwidth en).
Proof.
  unfold count_ph. induction en as [|p en IH]; simpl; auto. intros H. apply andb_prop in H. destruct H as [Hp H].
  rewrite IH by auto. f_equal. unfold pwidth, plen, piter, is_placeholder in *.
  destruct (p_values p); try discriminate; simpl; auto.
  rewrite count_ph_repeat, repeat_length; auto.
Qed.

Definition custom_row_from (en : list param) (row : list Z) (i : nat) : assignment :=
  map (fun k => let p := nth k en (mkParam "" Under true) in
                (p_key p, spec_custom_value p (i + sum_nat (map pwidth (firstn k en))) row))
      (seq 0 (length en)).

Lemma custom_row_from_cons : forall p en row i,
  custom_row_from (p :: en) row i =
  (p_key p, spec_custom_value p i row) :: custom_row_from en row (i + pwidth p).
Proof.
  intros. unfold custom_row_from. simpl length. simpl seq. rewrite <- seq_shift, map_cons, map_map.
  f_equal.
  - simpl. rewrite Nat.add_0_r. reflexivity.
  - apply map_ext. intros k. simpl.
    replace (i + (pwidth p + sum_nat (map pwidth (firstn k en))))
      with (i + pwidth p + sum_nat (map pwidth (firstn k en))) by lia.
    reflexivity.
Qed.

Lemma custom_row_closed : forall en row i,
  forallb is_placeholder en = true -> custom_row en row i = Some (custom_row_from en row i).
Proof.
  induction en as [|p en IH]; intros row i H; [reflexivity|].
  simpl in H. apply andb_prop in H. destruct H as [Hp H].
  rewrite custom_row_from_cons. simpl custom_row.
  unfold is_placeholder in Hp. unfold spec_custom_value.
  destruct (p_values p) eqn:Ev; try discriminate.
  - rewrite IH by auto. simpl.
    replace (pwidth p) with 1 by (unfold pwidth, plen, piter; rewrite Ev; auto). reflexivity.
  - assert (Hw : pwidth p = n) by (unfold pwidth, plen, piter; rewrite Ev; apply repeat_length).
    rewrite IH by auto. simpl. rewrite Hw. reflexivity.
Qed.

Lemma custom_row_spec : forall en row,
  forallb is_placeholder en = true -> custom_row en row 0 = Some (spec_custom_row en row).
Proof. intros. rewrite custom_row_closed by auto. reflexivity. Qed.

Lemma all_some_map_some : forall {A B} (f : A -> B) l, all_some (map (fun x => Some (f x)) l) = Some (map f l).
Proof. induction l; simpl; auto. rewrite IHl; auto. Qed.

Theorem custom_correct : forall ncols rows ps,
  let en := enabled ps in
  let total := sum_nat (map pwidth en) in
  forallb is_placeholder en = true ->
  (* refused exactly when the widths do not add up to the number of columns (or there is none) *)
  (custom_runs ncols rows ps = None <-> (total = 0 \/ total <> ncols)) /\
  (* otherwise one run per row, in order; parameter k takes the columns [off_k, off_k + w_k) *)
  (total <> 0 -> total = ncols ->
   custom_runs ncols rows ps =
   Some (map (fun nr => mkRun (fst nr) [fst nr] (dict_of (spec_custom_row en (snd nr))))
             (enumerate_from 0 rows))).
Proof.
  intros ncols rows ps en total Hph.
  assert (Hc : count_ph en = total) by (apply count_ph_widths; auto).
  assert (Hrun : all_some (map (fun row => custom_row en row 0) rows) = Some (map (spec_custom_row en) rows)).
  { rewrite <- all_some_map_some. f_equal. apply map_ext. intros; apply custom_row_spec; auto. }
  unfold custom_runs. fold en. rewrite Hc, Hrun. simpl.
  split.
  - destruct (Nat.eqb total 0) eqn:E0; simpl.
    + apply Nat.eqb_eq in E0. tauto.
    + apply Nat.eqb_neq in E0. destruct (Nat.eqb total ncols) eqn:E1; simpl.
      * apply Nat.eqb_eq in E1. split; [discriminate|]. intros [?|?]; contradiction.
      * apply Nat.eqb_neq in E1. tauto.
  - intros H0 H1. apply Nat.eqb_neq in H0. apply Nat.eqb_eq in H1. rewrite H0, H1. simpl.
    rewrite enumerate_from_map, map_map. reflexivity.
Qed.

(* the closed form really is "columns [off, off + w) of the row" *)
Lemma spec_custom_row_nth : forall en row k p,
  nth_error en k = Some p ->
  nth_error (spec_custom_row en row) k =
  Some (p_key p, spec_custom_value p (sum_nat (map pwidth (firstn k en))) row).
Proof.
  intros en row k p Hk. unfold spec_custom_row.
  assert (Hlt : k < length en) by (apply nth_error_Some; congruence).
  rewrite nth_error_map, nth_error_nth' with (d := 0) by (rewrite seq_length; auto).
  rewrite seq_nth by auto. simpl.
  rewrite (nth_error_nth _ _ _ Hk). reflexivity.
Qed.

(* ------------------------------------------------------------------------------------ disabled parameters *)

Theorem disabled_ignored : forall ps get ncols rows,
  product_runs ps = product_runs (enabled ps) /\
  sequential_runs get ps = sequential_runs get (enabled ps) /\
  custom_runs ncols rows ps = custom_runs ncols rows (enabled ps) /\
  (* and no run assigns a key that is not the key of an enabled parameter *)
  (forall r k, In r (product_runs ps) -> In k (map fst (r_params r)) -> In k (map p_key (enabled ps))) /\
  (forall r k, In r (sequential_runs get ps) -> In k (map fst (r_params r)) -> In k (map p_key (enabled ps))).
Proof.
  intros. unfold product_runs, sequential_runs, custom_runs, enabled. rewrite !filter_idem.
  repeat split; auto.
  - intros r k Hr Hk. apply in_map_iff in Hr. destruct Hr as (x & <- & _). simpl in Hk.
    apply dict_of_keys in Hk. apply in_map_iff in Hk. destruct Hk as ([a b] & E & Hin). simpl in E; subst.
    apply in_combine_l in Hin. auto.
  - intros r k Hr Hk. apply in_map_iff in Hr. destruct Hr as ([n [k0 v0]] & <- & Hx). simpl in Hk.
    apply dict_set_keys in Hk. fold (enabled ps) in *.
    destruct Hk as [->|Hk].
    + apply (in_map snd) in Hx. rewrite enumerate_from_snd in Hx. simpl in Hx.
      unfold seq_changes in Hx. apply in_flat_map in Hx. destruct Hx as (p & Hp & Hv).
      apply in_map_iff in Hv. destruct Hv as (v & E & _). inversion E; subst. apply in_map; auto.
    + rewrite seq_defaults_keys in Hk. apply (proj1 (unique_in _ _)) in Hk. auto.
Qed.
