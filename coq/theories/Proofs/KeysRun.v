(* C08 — proofs about the readers of a model's `enabled` flag (validation of a sweep vs execution of the pipeline) and
   about keys that exist without being settings (Model/Keys.v). *)
From Coq Require Import ZArith List Bool String Lia.
From PyxelV Require Import Model.Keys Proofs.Keys.
Import ListNotations.
Open Scope string_scope.
Open Scope list_scope.

(* ------------------------------------------------------------------------------------ readers of the flag *)

Lemma flagtest_eqb_eq a b : flagtest_eqb a b = true -> a = b.
Proof. destruct a, b; simpl; congruence. Qed.

(* two readers that apply the same test agree on every value the flag can hold *)
Theorem flag_tests_agree : forall a b, flagtest_eqb a b = true -> forall v, flag_holds a v = flag_holds b v.
Proof. intros a b H v. apply flagtest_eqb_eq in H. subst. reflexivity. Qed.

(* ... and the three tests are pairwise different functions: readers that apply different tests disagree on some value *)
Theorem flag_tests_differ : forall a b, flagtest_eqb a b = false -> exists v, flag_holds a v <> flag_holds b v.
Proof.
  intros a b H. destruct a, b; simpl in H; try discriminate;
    first [ exists (VInt 2); vm_compute; discriminate | exists (VInt 1); vm_compute; discriminate ].
Qed.

(* validation of a sweep (the model: truthiness of processor.get('<pipeline.group.model>.enabled')) and the iterator of
   the group apply the same test  ==>  every model a validated sweep addresses is executed when the pipelines run *)
Theorem validated_model_executes : forall ftv fte,
  ftv = FTruthy -> flagtest_eqb ftv fte = true ->
  forall t keys key,
    validate_steps t keys = None -> In key keys -> is_pipeline_key (split_dots key) = true ->
    executes fte t (split_dots key) = true.
Proof.
  intros ftv fte -> He t keys key Hv Hin Hp. apply flagtest_eqb_eq in He. subst fte.
  destruct (validated_keys_declared_and_enabled t keys Hv key Hin) as [_ H].
  destruct (H Hp) as [v [Hg Ht]]. unfold executes. rewrite Hg. exact Ht.
Qed.

(* conversely: the model addressed by a pipeline key is not executed  ==>  validation refuses every sweep with that key *)
Theorem not_executed_is_refused : forall t keys key,
  In key keys -> is_pipeline_key (split_dots key) = true -> executes FTruthy t (split_dots key) = false ->
  exists e, validate_steps t keys = Some e.
Proof.
  intros t keys key Hin Hp Hx. destruct (validate_steps t keys) eqn:E; [eauto|].
  rewrite (validated_model_executes FTruthy FTruthy eq_refl eq_refl t keys key E Hin Hp) in Hx. discriminate.
Qed.

(* what is at stake: a processor whose model holds the flag `v` *)
Definition flag_proc (v : pyval) : tree :=
  Node (NObj true)
    (MCons "pipeline" KInst
       (Node (NObj true)
          (MCons "photon_collection" (KProp false GAny)
             (Node NGroup
                (MCons "illumination" KItem
                   (Node (NObj true)
                      (MCons "arguments" (KProp false GAny) (Node NArgs (MCons "level" KItem (Leaf (VInt 1)) MNil))
                      (MCons "enabled" KInst (Leaf v) MNil))) MNil)) MNil)) MNil).

(* as soon as the executing reader applies another test than validation, some accepted sweep addresses a model that
   never runs: the sweep is a silent no-op *)
Theorem disagreeing_reader_noop : forall fte,
  flagtest_eqb FTruthy fte = false ->
  exists t key, validate_steps t [key] = None /\ spec_step_ok t key = true /\
                is_pipeline_key (split_dots key) = true /\ executes fte t (split_dots key) = false.
Proof.
  intros fte H. exists (flag_proc (VInt 2)), "pipeline.photon_collection.illumination.arguments.level".
  destruct fte; simpl in H; try discriminate; repeat split; vm_compute; reflexivity.
Qed.

(* ------------------------------------------------------------------------------------ existing non-settings *)

(* whatever exists under a key without being an assignable setting — a method, a class constant, a read-only property,
   an object, an undeclared argument called like a method of the Mapping class — is refused, whatever has() says *)
Theorem non_setting_refused : forall t k v, targets t k = false -> exists e, set t k v = Raise e.
Proof.
  intros t k v H. destruct (set t k v) as [t'|e] eqn:E; [|eauto].
  apply frame in E. destruct E as [E _]. congruence.
Qed.

(* the last component names nothing but class-level attributes of the object: no target *)
Lemma class_only_not_target : forall k ms att,
  find is_prop att ms = None -> find is_inst att ms = None -> find is_item att ms = None ->
  tail_is_target (Node k ms) att = false.
Proof.
  intros k ms att Hp Hi Ht. destruct k as [o| | |]; simpl; rewrite ?Hp, ?Hi, ?Ht; try reflexivity.
  destruct o; reflexivity.
Qed.

(* Arguments.__setattr__ stores a declared argument and refuses every other public name, Mapping methods included *)
Lemma args_undeclared_refused : forall ms att v,
  find is_item att ms = None -> set (Node NArgs ms) [att] v = Raise AttributeError.
Proof. intros ms att v H. unfold set. simpl. rewrite H. reflexivity. Qed.

Lemma all_private : forall l, forallb private_name l = true -> forall n, In n l -> private_name n = true.
Proof. intros l H n Hin. rewrite forallb_forall in H. auto. Qed.

(* ------------------------------------------------------------------------------------ has() is sound *)

Lemma is_nil_snoc {A} (l : list A) (a : A) : is_nil (l ++ [a]) = false.
Proof. destruct l; reflexivity. Qed.

(* whatever has() confirms can be read: the whole path exists (a walk that fails ends on None, and has() answers False
   for None whatever the last component is — repaired C08-has-none) *)
Lemma has_at_get : forall body t att, has_at t body att = Ok true -> exists c, get t (body ++ [att]) = Ok c.
Proof.
  induction body as [|p body IH]; intros t att H; simpl in H.
  - inversion H as [Ht]. clear H. destruct t as [v|nk ms]; [discriminate|]. simpl.
    unfold lookup, item_first. simpl.
    destruct nk as [o| | |]; simpl in Ht |- *.
    + destruct (getattr (NObj o) att ms) as [[mk c]|]; [eauto|discriminate].
    + destruct (find is_item att ms) as [[mk c]|]; simpl; [eauto|].
      destruct (getattr NDict att ms) as [[mk c]|]; [eauto|discriminate].
    + destruct (find is_item att ms) as [[mk c]|]; simpl; [eauto|].
      destruct (getattr NArgs att ms) as [[mk c]|]; [eauto|discriminate].
    + destruct (getattr NGroup att ms) as [[mk c]|]; [eauto|discriminate].
  - destruct (step t p) as [s c| |] eqn:Es; try discriminate.
    destruct (IH c att H) as [c' Hc']. exists c'.
    destruct t as [v|nk ms]; [discriminate|].
    change ((p :: body) ++ [att]) with (p :: (body ++ [att])). cbn [get]. rewrite is_nil_snoc.
    unfold lookup, item_first. simpl in Es.
    destruct nk as [o| | |].
    + destruct (getattr (NObj o) p ms) as [[mk c0]|]; [|discriminate]. inversion Es; subst. exact Hc'.
    + destruct (find is_item p ms) as [[mk c0]|]; [|discriminate]. inversion Es; subst. simpl. exact Hc'.
    + destruct (getattr NArgs p ms) as [[mk c0]|]; [|discriminate]. inversion Es; subst. exact Hc'.
    + destruct (getattr NGroup p ms) as [[mk c0]|]; [|discriminate]. inversion Es; subst. exact Hc'.
Qed.

Theorem has_confirmed_is_readable : forall t k, has t k = Ok true -> exists v, getv t k = Ok v.
Proof.
  intros t k. unfold has. destruct (split_last k) as [[b a]|] eqn:E; [|discriminate].
  apply split_last_app in E. subst k. intros H. destruct (has_at_get _ _ _ H) as [c Hc].
  unfold getv. destruct (b ++ [a]) eqn:Ek; [destruct b; discriminate|]. rewrite Hc. eauto.
Qed.
