(* C19, part 4: the sequential (non-dask) observation flow — Outputs.save_to_file with the old to_*
   writers: never clobbers, attribution, completeness.  Parametrised over the regenerated tables; the
   hypotheses are boolean conditions on them which the property file discharges by vm_compute. *)
From Coq Require Import List Bool Arith ZArith Lia String.
From PyxelV Require Import Model.Outputs Proofs.OutputsDir Proofs.OutputsFiles.
Import ListNotations.
Open Scope string_scope.
Local Open Scope list_scope.

(* ------------------------------------------------------------------ basics *)

Lemma bucket_eqb_eq : forall a b, bucket_eqb a b = true <-> a = b.
Proof.
  intros a b. split.
  - destruct a, b; simpl; intro H; try reflexivity; discriminate H.
  - intros ->. destruct b; reflexivity.
Qed.

Lemma fmt_eqb_eq : forall a b, fmt_eqb a b = true <-> a = b.
Proof.
  intros a b. split.
  - destruct a, b; simpl; intro H; try reflexivity; discriminate H.
  - intros ->. destruct b; reflexivity.
Qed.

Lemma bucket_eqb_refl : forall b, bucket_eqb b b = true.
Proof. intro b. now apply bucket_eqb_eq. Qed.

Lemma fmt_eqb_refl : forall f, fmt_eqb f f = true.
Proof. intro f. now apply fmt_eqb_eq. Qed.

Lemma bucket_eqb_neq : forall a b, bucket_eqb a b = false <-> a <> b.
Proof.
  intros a b. split.
  - intros H E. apply bucket_eqb_eq in E. congruence.
  - intro N. destruct (bucket_eqb a b) eqn:E; [apply bucket_eqb_eq in E; contradiction | reflexivity].
Qed.

Lemma fmt_eqb_neq : forall a b, fmt_eqb a b = false <-> a <> b.
Proof.
  intros a b. split.
  - intros H E. apply fmt_eqb_eq in E. congruence.
  - intro N. destruct (fmt_eqb a b) eqn:E; [apply fmt_eqb_eq in E; contradiction | reflexivity].
Qed.

Lemma on_exists_eqb_eq : forall a b, on_exists_eqb a b = true <-> a = b.
Proof. intros a b. split; [destruct a, b; simpl; congruence | intros ->; destruct b; reflexivity]. Qed.

(* fs' extends fs: every file of fs is in fs' with the same content *)
Definition ext (fs fs' : files) : Prop := forall n c, lookup n fs = Some c -> lookup n fs' = Some c.

Lemma ext_refl : forall fs, ext fs fs.
Proof. intros fs n c H. exact H. Qed.

Lemma ext_trans : forall a b c, ext a b -> ext b c -> ext a c.
Proof. intros a b c H1 H2 n x H. auto. Qed.

(* ------------------------------------------------------------------ conditions on the tables *)

Definition safe_old (T : tables) : bool :=
  forallb (fun p => negb (on_exists_eqb (beh T (snd p)) Overwrite)) (t_old T).

Definition raise_old (T : tables) : bool :=
  forallb (fun p => on_exists_eqb (beh T (snd p)) Raise) (t_old T).

Definition raise_new (T : tables) : bool :=
  forallb (fun p => match snd p with None => true | Some w => on_exists_eqb (beh T w) Raise end) (t_new T).

(* the un-suffixed save of run_pipeline inside the sequential observation, if it is there, is harmless *)
Definition stage_ok (T : tables) : bool := negb (t_seq_new_stage T) || safe_new T.

(* the extension each to_* writer uses is the documented one of its format *)
Definition old_ext_ok (T : tables) : bool :=
  forallb (fun p => match assoc_s (snd p) (t_old_ext T) with
                    | Some e => String.eqb e (old_ext_spec (fst p))
                    | None => true
                    end) (t_old T).

Lemma safe_old_beh : forall T f w, safe_old T = true -> assoc_f f (t_old T) = Some w -> beh T w <> Overwrite.
Proof.
  intros T f w S H. apply assoc_f_In in H. destruct H as [k Hin].
  unfold safe_old in S. rewrite forallb_forall in S. specialize (S _ Hin). simpl in S.
  intro E. rewrite E in S. discriminate S.
Qed.

Lemma raise_old_beh : forall T f w, raise_old T = true -> assoc_f f (t_old T) = Some w -> beh T w = Raise.
Proof.
  intros T f w S H. apply assoc_f_In in H. destruct H as [k Hin].
  unfold raise_old in S. rewrite forallb_forall in S. specialize (S _ Hin). simpl in S.
  now apply on_exists_eqb_eq.
Qed.

Lemma raise_new_beh : forall T f w, raise_new T = true -> assoc_f f (t_new T) = Some (Some w) -> beh T w = Raise.
Proof.
  intros T f w S H. apply assoc_f_In in H. destruct H as [k Hin].
  unfold raise_new in S. rewrite forallb_forall in S. specialize (S _ Hin). simpl in S.
  now apply on_exists_eqb_eq.
Qed.

Lemma raise_old_safe : forall T, raise_old T = true -> safe_old T = true.
Proof.
  intros T H. unfold raise_old, safe_old in *. rewrite forallb_forall in *. intros p Hp.
  specialize (H p Hp). apply on_exists_eqb_eq in H. rewrite H. reflexivity.
Qed.

Lemma raise_new_safe : forall T, raise_new T = true -> safe_new T = true.
Proof.
  intros T H. unfold raise_new, safe_new in *. rewrite forallb_forall in *. intros p Hp.
  specialize (H p Hp). destruct (snd p); [|reflexivity]. apply on_exists_eqb_eq in H. rewrite H. reflexivity.
Qed.

Lemma assoc_f_In_key : forall A k (l : list (fmt * A)) a, assoc_f k l = Some a -> In (k, a) l.
Proof.
  intros A k l a. induction l as [|[m x] rest IH]; simpl; [discriminate|].
  destruct (fmt_eqb k m) eqn:E.
  - intro H. injection H as ->. apply fmt_eqb_eq in E. subst. auto.
  - auto.
Qed.

(* a raising writer writes only where nothing is *)
Lemma write_file_raise : forall fs n c fs' o,
  write_file Raise fs n c = (fs', o) ->
  (o = Raised /\ fs' = fs) \/ (o = Wrote /\ lookup n fs = None /\ fs' = set_file n c fs).
Proof.
  intros fs n c fs' o H. unfold write_file in H. destruct (lookup n fs) eqn:L.
  - injection H as <- <-. auto.
  - injection H as <- <-. auto.
Qed.

Lemma set_file_ext : forall fs n c, lookup n fs = None -> ext fs (set_file n c fs).
Proof.
  intros fs n c L m x H. rewrite lookup_set_other; [exact H|]. intros ->. congruence.
Qed.

(* ------------------------------------------------------------------ never clobbers *)

Lemma save_new_ext : forall T, safe_new T = true ->
  forall ep its s run fs rep fs' rep' e, save_new T ep its s run fs rep = (fs', rep', e) -> ext fs fs'.
Proof. intros T S ep its s run fs rep fs' rep' e H n c L. eapply save_new_preserves; eauto. Qed.

Lemma save_old_formats_ext : forall T, safe_old T = true ->
  forall ep b fl run fs part fs' part' e,
  save_old_formats T ep b fl run fs part = (fs', part', e) -> ext fs fs'.
Proof.
  intros T S ep b. induction fl as [|f rest IH]; intros run fs part fs' part' e H; simpl in H.
  - injection H as <- _ _. apply ext_refl.
  - destruct (lossy f && negb (bucket_eqb b Image))%bool; [injection H as <- _ _; apply ext_refl|].
    assert (G : forall w, assoc_f f (t_old T) = Some w ->
                match assoc_s w (t_old_ext T) with
                | None => (fs, part, Some EOther)
                | Some ext0 =>
                    match write_file (beh T w) fs (render_old b run ext0) (content ep run b f) with
                    | (fs'0, Raised) => (fs'0, part, Some EFileExists)
                    | (fs'0, _) =>
                        save_old_formats T ep b rest run fs'0
                          (filter (fun x => negb (fmt_eqb (fst x) f)) part ++ [(f, render_old b run ext0)])
                    end
                end = (fs', part', e) -> ext fs fs').
    { intros w A H0. destruct (assoc_s w (t_old_ext T)) as [x|]; [|injection H0 as <- _ _; apply ext_refl].
      destruct (write_file (beh T w) fs (render_old b run x) (content ep run b f)) as [fs1 o] eqn:W.
      assert (E1 : ext fs fs1).
      { intros n c L. eapply write_file_preserves; eauto. eapply safe_old_beh; eauto. }
      destruct o.
      - eapply ext_trans; [exact E1 | eapply IH; eauto].
      - eapply ext_trans; [exact E1 | eapply IH; eauto].
      - injection H0 as <- _ _. exact E1. }
    destruct f; try (injection H as <- _ _; apply ext_refl);
      (destruct (assoc_f _ (t_old T)) as [w|] eqn:A; [eapply G; eauto | injection H as <- _ _; apply ext_refl]).
Qed.

Lemma save_old_dict_ext : forall T, safe_old T = true ->
  forall ep dct run fs acc fs' acc' e,
  save_old_dict T ep dct run fs acc = (fs', acc', e) -> ext fs fs'.
Proof.
  intros T S ep. induction dct as [|[b fl] rest IH]; intros run fs acc fs' acc' e H; simpl in H.
  - injection H as <- _ _. apply ext_refl.
  - destruct (save_old_formats T ep b fl run fs []) as [[fs1 part] [e1|]] eqn:F.
    + injection H as <- _ _. eapply save_old_formats_ext; eauto.
    + eapply ext_trans; [eapply save_old_formats_ext; eauto | eapply IH; eauto].
Qed.

Lemma save_old_ext : forall T, safe_old T = true ->
  forall ep req run fs acc fs' acc' e,
  save_old T ep req run fs acc = (fs', acc', e) -> ext fs fs'.
Proof.
  intros T S ep. induction req as [|dct rest IH]; intros run fs acc fs' acc' e H; cbn [save_old] in H.
  - injection H as <- _ _. apply ext_refl.
  - destruct (t_old_all_items T).
    + destruct (save_old_dict T ep dct run fs acc) as [[fs1 acc1] [e1|]] eqn:D.
      * injection H as <- _ _. eapply save_old_dict_ext; eauto.
      * eapply ext_trans; [eapply save_old_dict_ext; eauto | eapply IH; eauto].
    + destruct dct as [|first more]; [injection H as <- _ _; apply ext_refl|].
      destruct (save_old_dict T ep [first] run fs acc) as [[fs1 acc1] [e1|]] eqn:D.
      * injection H as <- _ _. eapply save_old_dict_ext; eauto.
      * eapply ext_trans; [eapply save_old_dict_ext; eauto | eapply IH; eauto].
Qed.

Lemma stage_ext : forall T, stage_ok T = true ->
  forall ep req run fs fs1 r1 e1,
  (if t_seq_new_stage T then save_new T ep (items req) None run fs [] else (fs, [], None)) = (fs1, r1, e1) ->
  ext fs fs1.
Proof.
  intros T S ep req run fs fs1 r1 e1 H. unfold stage_ok in S.
  destruct (t_seq_new_stage T); simpl in S.
  - eapply save_new_ext; eauto.
  - injection H as <- _ _. apply ext_refl.
Qed.

Theorem flow_seq_from_ext : forall T, safe_old T = true -> stage_ok T = true ->
  forall ep req n run fs rep fs' rep' e,
  flow_seq_from T ep req n run fs rep = (fs', rep', e) -> ext fs fs'.
Proof.
  intros T S G ep req. induction n as [|n IH]; intros run fs rep fs' rep' e H; simpl in H.
  - injection H as <- _ _. apply ext_refl.
  - destruct (if t_seq_new_stage T then save_new T ep (items req) None run fs [] else (fs, [], None))
      as [[fs1 r1] [e1|]] eqn:St.
    + injection H as <- _ _. eapply stage_ext; eauto.
    + pose proof (stage_ext T G _ _ _ _ _ _ _ St) as E1.
      destruct req as [|d0 req0]; [injection H as <- _ _; exact E1|].
      destruct (save_old T ep (d0 :: req0) run fs1 []) as [[fs2 acc] [e2|]] eqn:So.
      * injection H as <- _ _. eapply ext_trans; [exact E1 | eapply save_old_ext; eauto].
      * eapply ext_trans; [exact E1|]. eapply ext_trans; [eapply save_old_ext; eauto | eapply IH; eauto].
Qed.

Theorem flow_seq_preserves : forall T, safe_old T = true -> stage_ok T = true ->
  forall ep req n fs fs' rep e, flow_seq T ep req n fs = (fs', rep, e) ->
  forall f x, lookup f fs = Some x -> lookup f fs' = Some x.
Proof. intros T S G ep req n fs fs' rep e H f x L. eapply flow_seq_from_ext; eauto. Qed.

(* ------------------------------------------------------------------ attribution *)

Definition attr_part (ep run : nat) (b : bucket) (part : list (fmt * string)) (fs : files) : Prop :=
  forall f n, In (f, n) part -> lookup n fs = Some (content ep run b f).

Definition attr_acc (ep run : nat) (acc : list rep_entry) (fs : files) : Prop :=
  forall b part, In (b, part) acc -> attr_part ep run b part fs.

Lemma attr_part_ext : forall ep run b part fs fs', attr_part ep run b part fs -> ext fs fs' -> attr_part ep run b part fs'.
Proof. intros ep run b part fs fs' A E f n H. apply E. eauto. Qed.

Lemma attr_acc_ext : forall ep run acc fs fs', attr_acc ep run acc fs -> ext fs fs' -> attr_acc ep run acc fs'.
Proof. intros ep run acc fs fs' A E b part H. eapply attr_part_ext; eauto. Qed.

Lemma attributed_ext : forall ep rep fs fs', attributed ep rep fs -> ext fs fs' -> attributed ep rep fs'.
Proof. intros ep rep fs fs' A E r b f n H. apply E. eauto. Qed.

Lemma save_old_formats_attr : forall T, raise_old T = true ->
  forall ep b fl run fs part fs' part' e,
  attr_part ep run b part fs ->
  save_old_formats T ep b fl run fs part = (fs', part', e) -> attr_part ep run b part' fs'.
Proof.
  intros T S ep b. induction fl as [|f rest IH]; intros run fs part fs' part' e A H; simpl in H.
  - injection H as <- <- _. exact A.
  - destruct (lossy f && negb (bucket_eqb b Image))%bool; [injection H as <- <- _; exact A|].
    assert (G : forall w, assoc_f f (t_old T) = Some w ->
                match assoc_s w (t_old_ext T) with
                | None => (fs, part, Some EOther)
                | Some ext0 =>
                    match write_file (beh T w) fs (render_old b run ext0) (content ep run b f) with
                    | (fs'0, Raised) => (fs'0, part, Some EFileExists)
                    | (fs'0, _) =>
                        save_old_formats T ep b rest run fs'0
                          (filter (fun x => negb (fmt_eqb (fst x) f)) part ++ [(f, render_old b run ext0)])
                    end
                end = (fs', part', e) -> attr_part ep run b part' fs').
    { intros w Aw H0. destruct (assoc_s w (t_old_ext T)) as [x|]; [|injection H0 as <- <- _; exact A].
      rewrite (raise_old_beh T f w S Aw) in H0.
      destruct (write_file Raise fs (render_old b run x) (content ep run b f)) as [fs1 o] eqn:W.
      apply write_file_raise in W. destruct W as [(-> & ->)|(-> & L & ->)].
      - injection H0 as <- <- _. exact A.
      - eapply IH; [|exact H0].
        intros f0 n0 Hin. apply in_app_or in Hin. destruct Hin as [Hin|[Hin|[]]].
        + apply filter_In in Hin. destruct Hin as [Hin _].
          apply set_file_ext; [exact L | eauto].
        + injection Hin as <- <-. apply lookup_set_same. }
    destruct f; try (injection H as <- <- _; exact A);
      (destruct (assoc_f _ (t_old T)) as [w|] eqn:Aw; [eapply G; eauto | injection H as <- <- _; exact A]).
Qed.

Lemma merge_part_sub : forall new old x, In x (merge_part old new) -> In x old \/ In x new.
Proof.
  unfold merge_part. induction new as [|y rest IH]; intros old x H; simpl in H; [left; exact H|].
  apply IH in H. destruct H as [H|H]; [|right; right; exact H].
  apply in_app_or in H. destruct H as [H|[<-|[]]]; [|right; left; reflexivity].
  apply filter_In in H. left. tauto.
Qed.

Lemma part_of_In : forall b acc x, In x (part_of b acc) ->
  exists b' part, In (b', part) acc /\ bucket_eqb b' b = true /\ In x part.
Proof.
  intros b acc x H. unfold part_of in H. apply in_flat_map in H. destruct H as [[b' part] [Hin Hx]].
  simpl in Hx. destruct (bucket_eqb b' b) eqn:E; [|contradiction]. eauto.
Qed.

Lemma upd_acc_attr : forall T ep run acc b part fs,
  attr_acc ep run acc fs -> attr_part ep run b part fs -> attr_acc ep run (upd_acc T acc b part) fs.
Proof.
  intros T ep run acc b part fs A P b0 part0 H. unfold upd_acc in H.
  apply in_app_or in H. destruct H as [H|[H|[]]].
  - apply filter_In in H. destruct H as [H _]. eauto.
  - injection H as <- <-. destruct (t_old_merge T); [|exact P].
    intros f n Hin. apply merge_part_sub in Hin. destruct Hin as [Hin|Hin]; [|eauto].
    apply part_of_In in Hin. destruct Hin as (b' & p' & Hacc & Eb & Hp).
    apply bucket_eqb_eq in Eb. subst b'. eapply A; eauto.
Qed.

Lemma save_old_dict_attr : forall T, raise_old T = true ->
  forall ep dct run fs acc fs' acc' e,
  attr_acc ep run acc fs ->
  save_old_dict T ep dct run fs acc = (fs', acc', e) -> attr_acc ep run acc' fs'.
Proof.
  intros T S ep. induction dct as [|[b fl] rest IH]; intros run fs acc fs' acc' e A H; simpl in H.
  - injection H as <- <- _. exact A.
  - destruct (save_old_formats T ep b fl run fs []) as [[fs1 part] [e1|]] eqn:F.
    + injection H as <- <- _. eapply attr_acc_ext; [exact A|].
      eapply save_old_formats_ext; [apply raise_old_safe; exact S | exact F].
    + eapply IH; [|exact H]. apply upd_acc_attr.
      * eapply attr_acc_ext; [exact A|]. eapply save_old_formats_ext; [apply raise_old_safe; exact S | exact F].
      * eapply save_old_formats_attr; [exact S| |exact F]. intros f n [].
Qed.

Lemma save_old_attr : forall T, raise_old T = true ->
  forall ep req run fs acc fs' acc' e,
  attr_acc ep run acc fs ->
  save_old T ep req run fs acc = (fs', acc', e) -> attr_acc ep run acc' fs'.
Proof.
  intros T S ep. induction req as [|dct rest IH]; intros run fs acc fs' acc' e A H; cbn [save_old] in H.
  - injection H as <- <- _. exact A.
  - destruct (t_old_all_items T).
    + destruct (save_old_dict T ep dct run fs acc) as [[fs1 acc1] [e1|]] eqn:D.
      * injection H as <- <- _. eapply save_old_dict_attr; eauto.
      * eapply IH; [|exact H]. eapply save_old_dict_attr; eauto.
    + destruct dct as [|first more]; [injection H as <- <- _; exact A|].
      destruct (save_old_dict T ep [first] run fs acc) as [[fs1 acc1] [e1|]] eqn:D.
      * injection H as <- <- _. eapply save_old_dict_attr; eauto.
      * eapply IH; [|exact H]. eapply save_old_dict_attr; eauto.
Qed.

Lemma entries_of_attr : forall ep run acc fs, attr_acc ep run acc fs -> attributed ep (entries_of run acc) fs.
Proof.
  intros ep run acc fs A r b f n H. unfold entries_of in H. apply in_flat_map in H.
  destruct H as [[b0 part] [Hacc Hin]]. simpl in Hin. apply in_map_iff in Hin.
  destruct Hin as [[f0 n0] [E Hp]]. simpl in E. injection E as <- <- <- <-. eapply A; eauto.
Qed.

Theorem flow_seq_from_attr : forall T, raise_old T = true -> stage_ok T = true ->
  forall ep req n run fs rep fs' rep' e,
  attributed ep rep fs ->
  flow_seq_from T ep req n run fs rep = (fs', rep', e) -> attributed ep rep' fs'.
Proof.
  intros T S G ep req. induction n as [|n IH]; intros run fs rep fs' rep' e A H; simpl in H.
  - injection H as <- <- _. exact A.
  - pose proof (raise_old_safe T S) as So.
    destruct (if t_seq_new_stage T then save_new T ep (items req) None run fs [] else (fs, [], None))
      as [[fs1 r1] [e1|]] eqn:St.
    + injection H as <- <- _. eapply attributed_ext; [exact A | eapply stage_ext; eauto].
    + pose proof (stage_ext T G _ _ _ _ _ _ _ St) as E1.
      destruct req as [|d0 req0]; [injection H as <- <- _; eapply attributed_ext; eauto|].
      destruct (save_old T ep (d0 :: req0) run fs1 []) as [[fs2 acc] [e2|]] eqn:Sv.
      * injection H as <- <- _. eapply attributed_ext; [exact A|].
        eapply ext_trans; [exact E1 | eapply save_old_ext; eauto].
      * eapply IH; [|exact H].
        pose proof (save_old_ext T So _ _ _ _ _ _ _ _ Sv) as E2.
        intros r b f nm Hin. apply in_app_or in Hin. destruct Hin as [Hin|Hin].
        -- apply E2. apply E1. eauto.
        -- eapply entries_of_attr; [|exact Hin].
           eapply save_old_attr; [exact S| |exact Sv]. intros b0 p0 [].
Qed.

Theorem flow_seq_attributed : forall T, raise_old T = true -> stage_ok T = true ->
  forall ep req n fs fs' rep e, flow_seq T ep req n fs = (fs', rep, e) -> attributed ep rep fs'.
Proof.
  intros T S G ep req n fs fs' rep e H. eapply flow_seq_from_attr; eauto. intros r b f nm [].
Qed.

(* the new-API flows with raising writers: attribution in ANY directory *)
Lemma save_new_attr_raise : forall T, raise_new T = true ->
  forall ep its s run fs rep fs' rep' e,
  attributed ep rep fs ->
  save_new T ep its s run fs rep = (fs', rep', e) -> ext fs fs' /\ attributed ep rep' fs'.
Proof.
  intros T S ep. induction its as [|[b f0] rest IH]; intros s run fs rep fs' rep' e A H; simpl in H.
  - injection H as <- <- _. split; [apply ext_refl | exact A].
  - destruct (assoc_f f0 (t_new T)) as [[w|]|] eqn:Af;
      try (injection H as <- <- _; split; [apply ext_refl | exact A]).
    rewrite (raise_new_beh T f0 w S Af) in H.
    destruct (write_file Raise fs (render_new b s f0) (content ep run b f0)) as [fs1 o] eqn:W.
    apply write_file_raise in W. destruct W as [(-> & ->)|(-> & L & ->)].
    + injection H as <- <- _. split; [apply ext_refl | exact A].
    + apply IH in H.
      * destruct H as [E A']. split; [|exact A']. eapply ext_trans; [apply set_file_ext; exact L | exact E].
      * intros r b' f' n Hin. apply in_app_or in Hin. destruct Hin as [Hin|[Hin|[]]].
        -- apply set_file_ext; [exact L | eauto].
        -- injection Hin as <- <- <- <-. apply lookup_set_same.
Qed.

Lemma flow_dask_from_attr_raise : forall T, raise_new T = true ->
  forall ep req n run fs rep fs' rep' e,
  attributed ep rep fs ->
  flow_dask_from T ep req n run fs rep = (fs', rep', e) -> attributed ep rep' fs'.
Proof.
  intros T S ep req. induction n as [|n IH]; intros run fs rep fs' rep' e A H; simpl in H.
  - injection H as <- <- _. exact A.
  - destruct (save_new T ep (items req) (Some run) run fs rep) as [[fs1 rep1] [e1|]] eqn:E.
    + injection H as <- <- _. eapply save_new_attr_raise; eauto.
    + eapply IH; [|exact H]. eapply save_new_attr_raise; eauto.
Qed.

Theorem flow_exposure_attributed_raise : forall T, raise_new T = true ->
  forall ep req fs fs' rep e, flow_exposure T ep req fs = (fs', rep, e) -> attributed ep rep fs'.
Proof.
  intros T S ep req fs fs' rep e H. eapply save_new_attr_raise; eauto. intros r b f n [].
Qed.

Theorem flow_dask_attributed_raise : forall T, raise_new T = true ->
  forall ep req n fs fs' rep e, flow_dask T ep req n fs = (fs', rep, e) -> attributed ep rep fs'.
Proof.
  intros T S ep req n fs fs' rep e H. apply flow_dask_cases in H.
  destruct H as [(_ & -> & _)|H]; [intros r b f m []|].
  eapply flow_dask_from_attr_raise; eauto. intros r b f m [].
Qed.

(* ------------------------------------------------------------------ completeness *)

Definition old_name (T : tables) (b : bucket) (run : nat) (f : fmt) : option string :=
  match assoc_f f (t_old T) with
  | Some w => match assoc_s w (t_old_ext T) with Some e => Some (render_old b run e) | None => None end
  | None => None
  end.

Lemma fmt_eq_dec : forall a b : fmt, {a = b} + {a <> b}.
Proof. decide equality. Qed.

Lemma save_old_formats_char : forall T ep b fl run fs part fs' part',
  save_old_formats T ep b fl run fs part = (fs', part', None) ->
  (forall f, In f fl -> exists n, old_name T b run f = Some n) /\
  (forall f n, In (f, n) part' <->
     (In (f, n) part /\ ~ In f fl) \/ (In f fl /\ old_name T b run f = Some n)).
Proof.
  intros T ep b. induction fl as [|f rest IH]; intros run fs part fs' part' H; simpl in H.
  - injection H as _ <-. split; [intros f []|]. intros f n. simpl. tauto.
  - destruct (lossy f && negb (bucket_eqb b Image))%bool; [discriminate H|].
    assert (G : forall w, assoc_f f (t_old T) = Some w ->
                match assoc_s w (t_old_ext T) with
                | None => (fs, part, Some EOther)
                | Some ext0 =>
                    match write_file (beh T w) fs (render_old b run ext0) (content ep run b f) with
                    | (fs'0, Raised) => (fs'0, part, Some EFileExists)
                    | (fs'0, _) =>
                        save_old_formats T ep b rest run fs'0
                          (filter (fun x => negb (fmt_eqb (fst x) f)) part ++ [(f, render_old b run ext0)])
                    end
                end = (fs', part', None) ->
                (forall g, In g (f :: rest) -> exists n, old_name T b run g = Some n) /\
                (forall g n, In (g, n) part' <->
                   (In (g, n) part /\ ~ In g (f :: rest)) \/ (In g (f :: rest) /\ old_name T b run g = Some n))).
    { intros w Aw H0. destruct (assoc_s w (t_old_ext T)) as [x|] eqn:Ax; [|discriminate H0].
      assert (Nf : old_name T b run f = Some (render_old b run x)) by (unfold old_name; now rewrite Aw, Ax).
      destruct (write_file (beh T w) fs (render_old b run x) (content ep run b f)) as [fs1 o] eqn:W.
      assert (R : save_old_formats T ep b rest run fs1
                    (filter (fun x0 => negb (fmt_eqb (fst x0) f)) part ++ [(f, render_old b run x)]) = (fs', part', None))
        by (destruct o; [exact H0 | exact H0 | discriminate H0]).
      apply IH in R. destruct R as [Ex Ch]. split.
      - intros g [<-|Hg]; [eauto | auto].
      - intros g n. rewrite Ch. rewrite in_app_iff, filter_In. simpl. split.
        + intros [[[[Hin Hne]|[E|[]]] Nr]|[Hr Hn]].
          * left. split; [exact Hin|]. intros [E|E]; [|contradiction].
            subst g. rewrite fmt_eqb_refl in Hne. discriminate Hne.
          * injection E as <- <-. right. split; [left; reflexivity | exact Nf].
          * right. split; [right; exact Hr | exact Hn].
        + intros [[Hin Nn]|[Hg Hn]].
          * left. split; [|intro X; apply Nn; right; exact X]. left. split; [exact Hin|].
            apply negb_true_iff. apply fmt_eqb_neq. intros ->. apply Nn. left. reflexivity.
          * destruct (in_dec fmt_eq_dec g rest) as [Hr|Hr]; [right; split; assumption|].
            destruct Hg as [<-|Hg]; [|contradiction].
            left. split; [|exact Hr]. right. left. rewrite Nf in Hn. injection Hn as <-. reflexivity. }
    destruct f; try discriminate H;
      (destruct (assoc_f _ (t_old T)) as [w|] eqn:Aw; [eapply G; eauto | discriminate H]).
Qed.

Definition functional (l : list (fmt * string)) : Prop :=
  forall f n n', In (f, n) l -> In (f, n') l -> n = n'.

Lemma merge_part_char : forall new old f n, functional new ->
  (In (f, n) (merge_part old new) <-> (In (f, n) old /\ ~ In f (map fst new)) \/ In (f, n) new).
Proof.
  unfold merge_part. induction new as [|[g m] rest IH]; intros old f n Fn; simpl.
  - tauto.
  - assert (Fr : functional rest) by (intros a x y H1 H2; apply (Fn a); right; assumption).
    rewrite (IH _ f n Fr). rewrite in_app_iff, filter_In. simpl. split.
    + intros [[[[Hin Hne]|[E|[]]] Nr]|Hr].
      * left. split; [exact Hin|]. intros [E|E]; [|contradiction]. subst g.
        rewrite fmt_eqb_refl in Hne. discriminate Hne.
      * right. left. exact E.
      * right. right. exact Hr.
    + intros [[Hin Nn]|[E|Hr]].
      * left. split; [|intro X; apply Nn; right; exact X]. left. split; [exact Hin|].
        apply negb_true_iff. apply fmt_eqb_neq. intros ->. apply Nn. left. reflexivity.
      * injection E as -> ->.
        destruct (in_dec fmt_eq_dec f (map fst rest)) as [Hm|Hm].
        -- apply in_map_iff in Hm. destruct Hm as [[f' n'] [E Hin]]. simpl in E. subst f'.
           assert (n' = n) by (apply (Fn f); [right; exact Hin | left; reflexivity]). subst n'.
           right. exact Hin.
        -- left. split; [right; left; reflexivity | exact Hm].
      * right. exact Hr.
Qed.

Definition flat (acc : list rep_entry) (b : bucket) (f : fmt) (n : string) : Prop :=
  exists part, In (b, part) acc /\ In (f, n) part.

Lemma part_of_char : forall b acc f n, In (f, n) (part_of b acc) <-> flat acc b f n.
Proof.
  intros b acc f n. unfold part_of, flat. rewrite in_flat_map. split.
  - intros [[b' part] [Hin Hx]]. simpl in Hx. destruct (bucket_eqb b' b) eqn:E; [|contradiction].
    apply bucket_eqb_eq in E. subst b'. eauto.
  - intros [part [Hin Hx]]. exists (b, part). split; [exact Hin|]. simpl. now rewrite bucket_eqb_refl.
Qed.

Lemma upd_acc_char : forall T acc b part b' f n, t_old_merge T = true -> functional part ->
  (flat (upd_acc T acc b part) b' f n <->
   (b' <> b /\ flat acc b' f n) \/
   (b' = b /\ ((flat acc b f n /\ ~ In f (map fst part)) \/ In (f, n) part))).
Proof.
  intros T acc b part b' f n M Fn. unfold upd_acc. rewrite M. unfold flat at 1. split.
  - intros [p [Hin Hp]]. apply in_app_or in Hin. destruct Hin as [Hin|[E|[]]].
    + apply filter_In in Hin. destruct Hin as [Hin Hne]. simpl in Hne.
      apply negb_true_iff in Hne. apply bucket_eqb_neq in Hne. left. split; [exact Hne | exists p; auto].
    + injection E as <- <-. right. split; [reflexivity|].
      apply (merge_part_char _ _ _ _ Fn) in Hp. rewrite part_of_char in Hp. exact Hp.
  - intros [[Hne [p [Hin Hp]]]|[-> H]].
    + exists p. split; [|exact Hp]. apply in_or_app. left. apply filter_In. split; [exact Hin|].
      simpl. apply negb_true_iff. now apply bucket_eqb_neq.
    + exists (merge_part (part_of b acc) part). split; [apply in_or_app; right; left; reflexivity|].
      apply (merge_part_char _ _ _ _ Fn). rewrite part_of_char. exact H.
Qed.

Definition acc_spec (T : tables) (run : nat) (acc : list rep_entry) (its : list (bucket * fmt)) : Prop :=
  (forall b f, In (b, f) its -> exists n, old_name T b run f = Some n) /\
  (forall b f n, flat acc b f n <-> In (b, f) its /\ old_name T b run f = Some n).

Definition dict_items (dct : list (bucket * list fmt)) : list (bucket * fmt) :=
  flat_map (fun bf => map (fun f => (fst bf, f)) (snd bf)) dct.

Lemma in_bucket_items : forall (b : bucket) (fl : list fmt) (b' : bucket) (f : fmt),
  In (b', f) (map (fun g => (b, g)) fl) <-> b' = b /\ In f fl.
Proof.
  intros b fl b' f. rewrite in_map_iff. split.
  - intros [g [E Hg]]. injection E as <- <-. auto.
  - intros [-> Hf]. exists f. auto.
Qed.

Lemma save_old_dict_char : forall T ep, t_old_merge T = true ->
  forall dct run fs acc its fs' acc',
  acc_spec T run acc its ->
  save_old_dict T ep dct run fs acc = (fs', acc', None) ->
  acc_spec T run acc' (its ++ dict_items dct).
Proof.
  intros T ep M. induction dct as [|[b fl] rest IH]; intros run fs acc its fs' acc' A H; simpl in H.
  - injection H as _ <-. simpl. now rewrite app_nil_r.
  - destruct (save_old_formats T ep b fl run fs []) as [[fs1 part] [e1|]] eqn:F; [discriminate H|].
    apply save_old_formats_char in F. destruct F as [Ex Ch].
    assert (Ch' : forall f n, In (f, n) part <-> In f fl /\ old_name T b run f = Some n).
    { intros f n. rewrite Ch. simpl. tauto. }
    assert (Fn : functional part).
    { intros f n n' H1 H2. apply Ch' in H1. apply Ch' in H2. destruct H1 as [_ H1], H2 as [_ H2]. congruence. }
    assert (Mp : forall f, In f (map fst part) <-> In f fl).
    { intro f. rewrite in_map_iff. split.
      - intros [[f' n] [E Hin]]. simpl in E. subst f'. apply Ch' in Hin. tauto.
      - intro Hf. destruct (Ex f Hf) as [n Hn]. exists (f, n). split; [reflexivity|]. apply Ch'. auto. }
    apply IH with (its := its ++ map (fun g => (b, g)) fl) in H.
    + simpl. rewrite app_assoc. exact H.
    + destruct A as [A1 A2]. split.
      * intros b' f Hin. apply in_app_or in Hin. destruct Hin as [Hin|Hin]; [auto|].
        apply in_bucket_items in Hin. destruct Hin as [-> Hf]. auto.
      * intros b' f n. rewrite (upd_acc_char _ _ _ _ _ _ _ M Fn). rewrite in_app_iff, in_bucket_items, Mp, Ch'.
        rewrite !A2. split.
        -- intros [[Hne [Hi Hn]]|[-> [[[Hi Hn] Nf]|[Hf Hn]]]]; auto.
        -- intros [[Hi|[-> Hf]] Hn].
           ++ destruct (bucket_eqb b' b) eqn:E.
              ** apply bucket_eqb_eq in E. subst b'. right. split; [reflexivity|].
                 destruct (in_dec fmt_eq_dec f fl) as [Hf|Hf]; [right; auto | left; auto].
              ** apply bucket_eqb_neq in E. left. auto.
           ++ right. split; [reflexivity|]. right. auto.
Qed.

Lemma save_old_char : forall T ep, t_old_all_items T = true -> t_old_merge T = true ->
  forall req run fs acc its fs' acc',
  acc_spec T run acc its ->
  save_old T ep req run fs acc = (fs', acc', None) ->
  acc_spec T run acc' (its ++ items req).
Proof.
  intros T ep Al M. induction req as [|dct rest IH]; intros run fs acc its fs' acc' A H; cbn [save_old] in H.
  - injection H as _ <-. simpl. now rewrite app_nil_r.
  - rewrite Al in H.
    destruct (save_old_dict T ep dct run fs acc) as [[fs1 acc1] [e1|]] eqn:D; [discriminate H|].
    apply (save_old_dict_char T ep M _ _ _ _ its) in D; [|exact A].
    apply IH with (its := its ++ dict_items dct) in H; [|exact D].
    unfold items. simpl. fold (dict_items dct). rewrite app_assoc. exact H.
Qed.

Lemma entries_of_char : forall run acc x b f n,
  In (x, b, f, n) (entries_of run acc) <-> x = run /\ flat acc b f n.
Proof.
  intros run acc x b f n. unfold entries_of, flat. rewrite in_flat_map. split.
  - intros [[b0 part] [Hacc Hin]]. simpl in Hin. apply in_map_iff in Hin.
    destruct Hin as [[f0 n0] [E Hp]]. simpl in E. injection E as <- <- <- <-. eauto.
  - intros [-> [part [Hacc Hp]]]. exists (b, part). split; [exact Hacc|]. simpl.
    apply in_map_iff. exists (f, n). auto.
Qed.

Lemma flow_seq_from_char : forall T ep, t_old_all_items T = true -> t_old_merge T = true ->
  forall req n run fs rep fs' rep',
  flow_seq_from T ep req n run fs rep = (fs', rep', None) ->
  (forall x b f, run <= x < run + n -> In (b, f) (items req) -> exists nm, old_name T b x f = Some nm) /\
  (forall x b f nm, In (x, b, f, nm) rep' <->
     In (x, b, f, nm) rep \/ (run <= x < run + n /\ In (b, f) (items req) /\ old_name T b x f = Some nm)).
Proof.
  intros T ep Al M req. induction n as [|n IH]; intros run fs rep fs' rep' H; simpl in H.
  - injection H as _ <-. split; [intros; lia|]. intros x b f nm. split; [auto | intros [X|[X _]]; [exact X | lia]].
  - destruct (if t_seq_new_stage T then save_new T ep (items req) None run fs [] else (fs, [], None))
      as [[fs1 r1] [e1|]] eqn:St; [discriminate H|].
    destruct req as [|d0 req0]; [discriminate H|].
    destruct (save_old T ep (d0 :: req0) run fs1 []) as [[fs2 acc] [e2|]] eqn:Sv; [discriminate H|].
    apply (save_old_char T ep Al M _ _ _ _ []) in Sv.
    2:{ split; [intros b f []|]. intros b f nm. split; [intros [p [[] _]] | intros [[] _]]. }
    simpl app in Sv. destruct Sv as [S1 S2].
    apply IH in H. destruct H as [Ex Ch]. split.
    + intros x b f Hx Hin. destruct (Nat.eq_dec x run) as [->|Nx]; [auto | apply Ex; [lia | exact Hin]].
    + intros x b f nm. rewrite Ch, in_app_iff, entries_of_char, S2. split.
      * intros [[X|[-> [Hi Hn]]]|[Hx R]]; [left; exact X | right | right].
        -- split; [lia | auto].
        -- split; [lia | exact R].
      * intros [X|[Hx [Hi Hn]]]; [left; left; exact X|].
        destruct (Nat.eq_dec x run) as [->|Nx]; [left; right; auto | right; split; [lia | auto]].
Qed.

Lemma old_name_spec : forall T b x f nm, old_ext_ok T = true ->
  old_name T b x f = Some nm -> nm = render_old b x (old_ext_spec f).
Proof.
  intros T b x f nm Ok H. unfold old_name in H.
  destruct (assoc_f f (t_old T)) as [w|] eqn:A; [|discriminate H].
  destruct (assoc_s w (t_old_ext T)) as [e|] eqn:E; [|discriminate H].
  injection H as <-. apply assoc_f_In_key in A.
  unfold old_ext_ok in Ok. rewrite forallb_forall in Ok. specialize (Ok _ A). simpl in Ok.
  rewrite E in Ok. apply String.eqb_eq in Ok. now subst e.
Qed.

(* sequential observation: when the flow returns normally, the reported entries are exactly one per
   requested (bucket, format, run), under the documented name of that combination *)
Theorem flow_seq_complete : forall T, t_old_all_items T = true -> t_old_merge T = true -> old_ext_ok T = true ->
  forall ep req n fs fs' rep, flow_seq T ep req n fs = (fs', rep, None) ->
  forall x b f nm, In (x, b, f, nm) rep <->
    x < n /\ In (b, f) (items req) /\ nm = render_old b x (old_ext_spec f).
Proof.
  intros T Al M Ok ep req n fs fs' rep H x b f nm. unfold flow_seq in H.
  apply (flow_seq_from_char T ep Al M) in H. destruct H as [Ex Ch]. rewrite Ch. simpl. split.
  - intros [[]|[Hx [Hi Hn]]]. repeat split; [lia | exact Hi | eapply old_name_spec; eauto].
  - intros (Hx & Hi & ->). right. repeat split; [lia | lia | exact Hi |].
    destruct (Ex x b f) as [nm Hn]; [lia | exact Hi|]. rewrite Hn. f_equal.
    eapply old_name_spec; eauto.
Qed.
