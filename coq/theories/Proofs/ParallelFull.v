(* C07 — round 2: the parallel path as CODED (dask_cfg), the binding of tuple values to parameter keys,
   and the end-to-end statement "parallel result = sequential result" for the three modes. *)
From Coq Require Import ZArith List Bool Lia PeanoNat Permutation.
From PyxelV Require Import Model.Parallel Proofs.ParallelParams Proofs.ParallelSched.
Import ListNotations.

(* ------------------------------------------------------------------------------ equality of values *)

Lemma zlist_eqb_eq a b : zlist_eqb a b = true <-> a = b.
Proof.
  revert b; induction a as [|x a IH]; destruct b as [|y b]; simpl; split; try discriminate; try reflexivity.
  - intros H. apply andb_true_iff in H as [H1 H2]. apply Z.eqb_eq in H1. apply IH in H2. congruence.
  - intros [= -> ->]. rewrite Z.eqb_refl. simpl. now apply IH.
Qed.

Lemma pval_eqb_eq a b : pval_eqb a b = true <-> a = b.
Proof.
  destruct a as [x|x], b as [y|y]; simpl; split; try discriminate.
  - intros H. apply Z.eqb_eq in H. congruence.
  - intros [= ->]. apply Z.eqb_refl.
  - intros H. apply zlist_eqb_eq in H. congruence.
  - intros [= ->]. now apply zlist_eqb_eq.
Qed.

Lemma pval_eqb_refl a : pval_eqb a a = true.
Proof. now apply pval_eqb_eq. Qed.

Lemma memb_In x l : memb x l = true <-> In x l.
Proof.
  induction l as [|y r IH]; simpl; [split; [discriminate|tauto]|].
  rewrite orb_true_iff, IH, pval_eqb_eq. split; intros [H|H]; auto.
Qed.

Lemma nodupb_NoDup l : nodupb l = true <-> NoDup l.
Proof.
  induction l as [|x r IH]; simpl; [split; [constructor|reflexivity]|].
  rewrite andb_true_iff, negb_true_iff, IH. split.
  - intros [H1 H2]. constructor; [|assumption]. intros Hin. apply memb_In in Hin. congruence.
  - intros H. inversion H as [|? ? Hn Hr]; subst. split; [|assumption].
    destruct (memb x r) eqn:E; [|reflexivity]. apply memb_In in E. contradiction.
Qed.

(* ------------------------------------------------------------------------------ dict.fromkeys *)

Lemma dedup_In x l : In x (dedup l) <-> In x l.
Proof.
  induction l as [|y r IH]; simpl; [tauto|].
  rewrite filter_In, IH, negb_true_iff. split.
  - intros [H|[H _]]; auto.
  - intros [H|H]; [now left|].
    destruct (pval_eqb y x) eqn:E; [left; now apply pval_eqb_eq|right; now split].
Qed.

Lemma NoDup_filter {A} (p : A -> bool) l : NoDup l -> NoDup (filter p l).
Proof.
  induction 1 as [|x r Hn Hr IH]; simpl; [constructor|].
  destruct (p x); [|assumption]. constructor; [|assumption]. rewrite filter_In. tauto.
Qed.

Lemma dedup_NoDup l : NoDup (dedup l).
Proof.
  induction l as [|x r IH]; simpl; constructor.
  - rewrite filter_In, negb_true_iff, pval_eqb_refl. intros [_ H]. discriminate.
  - now apply NoDup_filter.
Qed.

Lemma dedup_nodupb l : nodupb (dedup l) = true.
Proof. apply nodupb_NoDup, dedup_NoDup. Qed.

Lemma filter_all {A} (p : A -> bool) l : (forall x, In x l -> p x = true) -> filter p l = l.
Proof.
  induction l as [|x r IH]; simpl; intros H; [reflexivity|].
  rewrite (H x) by now left. f_equal. apply IH. intros; apply H; now right.
Qed.

(* a list without repeats is left alone *)
Lemma dedup_id l : NoDup l -> dedup l = l.
Proof.
  induction 1 as [|x r Hn Hr IH]; simpl; [reflexivity|]. rewrite IH. f_equal.
  apply filter_all. intros y Hy. apply negb_true_iff.
  destruct (pval_eqb x y) eqn:E; [|reflexivity]. apply pval_eqb_eq in E. subst. contradiction.
Qed.

(* ------------------------------------------------------------------------------ cart: sets, NoDup *)

Lemma NoDup_map_cons {A} (x : A) (l : list (list A)) : NoDup l -> NoDup (map (cons x) l).
Proof.
  induction 1 as [|t r Hn Hr IH]; simpl; constructor; [|assumption].
  rewrite in_map_iff. intros (t' & [= ->] & Hin). contradiction.
Qed.

Lemma NoDup_app_intro {A} (a b : list A) :
  NoDup a -> NoDup b -> (forall x, In x a -> ~ In x b) -> NoDup (a ++ b).
Proof.
  induction 1 as [|x r Hn Hr IH]; simpl; intros Hb Hd; [assumption|].
  constructor.
  - rewrite in_app_iff. intros [H|H]; [contradiction|]. apply (Hd x); [now left|assumption].
  - apply IH; [assumption|]. intros y Hy. apply Hd. now right.
Qed.

Lemma cart_NoDup {A} (ls : list (list A)) : Forall (@NoDup A) ls -> NoDup (cart ls).
Proof.
  induction 1 as [|l r Hl Hr IH]; simpl; [repeat constructor; intros []|].
  induction Hl as [|x l Hx Hl IHl]; simpl; [constructor|].
  apply NoDup_app_intro; [now apply NoDup_map_cons|assumption|].
  intros t Ht Hin. apply in_map_iff in Ht as (t' & <- & _).
  apply in_flat_map in Hin as (y & Hy & Ht). apply in_map_iff in Ht as (t'' & [= <- _] & _). contradiction.
Qed.

Lemma Forall2_In_ext {A} (t : list A) (ls ls' : list (list A)) :
  Forall2 (fun l l' => forall x, In x l <-> In x l') ls ls' ->
  Forall2 (fun x l => In x l) t ls <-> Forall2 (fun x l => In x l) t ls'.
Proof.
  intros H; revert t; induction H as [|l l' r r' Hl Hr IH]; intros t; split; intros Ht; inversion Ht; subst;
    constructor; try (now apply Hl); now apply IH.
Qed.

Lemma cart_same_set {A} (ls ls' : list (list A)) :
  Forall2 (fun l l' => forall x, In x l <-> In x l') ls ls' -> forall t, In t (cart ls) <-> In t (cart ls').
Proof. intros H t. rewrite !cart_In. now apply Forall2_In_ext. Qed.

(* ------------------------------------------------------------------------------ product mode, full *)

Lemma levels_same_set vs :
  Forall2 (fun l l' => forall x, In x l <-> In x l') (map sort_level (map dedup vs)) vs.
Proof.
  induction vs as [|l r IH]; simpl; constructor; [|assumption].
  intros x. rewrite <- (dedup_In x l). split; apply Permutation_in; [|apply Permutation_sym]; apply sort_level_perm.
Qed.

Lemma product_dedup_full vs :
  exists sh cells,
    dask_product_cfg LevelsDedup vs = Some (sh, cells)
    /\ (forall t, In t cells <-> In t (seq_params (Product vs)))
    /\ NoDup cells
    /\ length cells = prodn sh
    /\ (forallb nodupb vs = true -> Permutation cells (seq_params (Product vs))).
Proof.
  assert (Hok : forallb nodupb (map dedup vs) = true).
  { induction vs as [|l r IH]; simpl; [reflexivity|]. now rewrite dedup_nodupb. }
  exists (map (@length pval) (map dedup vs)), (cart (map sort_level (map dedup vs))).
  assert (E : dask_product (map dedup vs)
              = Some (map (@length pval) (map dedup vs), cart (map sort_level (map dedup vs)))).
  { unfold dask_product, dask_product_gen. now rewrite Hok. }
  destruct (product_params_agree sort_level nodupb sort_level_perm _ _ _ E) as (P & L & _).
  split; [exact E|]. unfold seq_params. rewrite seq_product_snd.
  split; [apply cart_same_set, levels_same_set|].
  split.
  { apply cart_NoDup. clear. induction vs as [|l r IH]; simpl; constructor; [|assumption].
    eapply Permutation_NoDup; [apply Permutation_sym, sort_level_perm|apply dedup_NoDup]. }
  split; [exact L|].
  intros Hn. rewrite seq_product_snd in P.
  assert (Hid : map dedup vs = vs).
  { clear -Hn. induction vs as [|l r IH]; simpl in *; [reflexivity|].
    apply andb_true_iff in Hn as [H1 H2]. rewrite dedup_id by now apply nodupb_NoDup. now rewrite IH. }
  rewrite Hid in *. exact P.
Qed.

(* ------------------------------------------------------------------------------ sequential mode, full *)

(* the runs of the (non-dask and repaired dask) enumeration: parameter k varies over its own values, every
   other parameter keeps its default; the run with flat index (values before k) + j is {defaults, k: v_kj} *)
Lemma nth_error_set_nth_same {A} k (v : A) d : k < length d -> nth_error (set_nth k v d) k = Some v.
Proof. revert k; induction d as [|x r IH]; intros [|k]; simpl; intros; try lia; auto. apply IH. lia. Qed.

Lemma nth_error_set_nth_other {A} k k' (v : A) d : k <> k' -> nth_error (set_nth k v d) k' = nth_error d k'.
Proof. revert k k'; induction d as [|x r IH]; intros [|k] [|k']; simpl; intros; try congruence; auto. Qed.

Lemma set_nth_length {A} k (v : A) d : length (set_nth k v d) = length d.
Proof. revert k; induction d as [|x r IH]; intros [|k]; simpl; auto. Qed.

Lemma seq_sequential_from_nth {A} (d : list A) vs k0 k j l v :
  nth_error vs k = Some l -> nth_error l j = Some v ->
  nth_error (seq_sequential_from k0 d vs) (list_sum (map (@length A) (firstn k vs)) + j)
  = Some (set_nth (k0 + k) v d).
Proof.
  revert k0 k; induction vs as [|l0 r IH]; intros k0 [|k]; simpl; try discriminate.
  - intros [= ->] Hj. rewrite nth_error_app1 by (rewrite map_length; apply nth_error_Some; congruence).
    rewrite nth_error_map, Hj. simpl. now rewrite Nat.add_0_r.
  - intros Hk Hj. rewrite nth_error_app2 by (rewrite map_length; lia). rewrite map_length.
    replace (length l0 + list_sum (map (@length A) (firstn k r)) + j - length l0)
      with (list_sum (map (@length A) (firstn k r)) + j) by lia.
    rewrite (IH (S k0) k Hk Hj). f_equal. f_equal. lia.
Qed.

(* ------------------------------------------------------------------------------ custom mode, full *)

Lemma custom_row_placeholder ps row : dask_custom_row_cfg ByPlaceholder ps row = seq_custom_row ps row.
Proof.
  revert row; induction ps as [|p r IH]; intros row; [reflexivity|].
  destruct p as [|w]; simpl; rewrite IH; [destruct row|]; reflexivity.
Qed.

Lemma custom_row_bylength ps row : dask_custom_row_cfg ByLength ps row = dask_custom_row ps row.
Proof. revert row; induction ps as [|p r IH]; intros row; [reflexivity|]. simpl. now rewrite IH. Qed.

(* ------------------------------------------------------------------------------ binding *)

Section BindingProofs.
  Context {V : Type}.

  Lemma assoc_combine_self (keys : list nat) (tuple : list V) :
    NoDup keys -> length tuple = length keys ->
    map (fun k => assoc k (combine keys tuple)) keys = map Some tuple.
  Proof.
    revert tuple; induction keys as [|k r IH]; intros [|v t] Hnd Hl; simpl in *; try discriminate; [reflexivity|].
    inversion Hnd as [|? ? Hn Hr]; subst. rewrite Nat.eqb_refl. f_equal.
    rewrite <- (IH t Hr) by lia. apply map_ext_in. intros k' Hin.
    destruct (Nat.eqb k' k) eqn:E; [|reflexivity]. apply Nat.eqb_eq in E. subst. contradiction.
  Qed.

  (* positional binding is right exactly when the zipped mapping iterates in the tuples' order *)
  Lemma received_sound (c : dask_cfg) (keys types_order names_order zip_order tuple_keys : list nat) (tuple : list V) :
    NoDup keys -> length tuple = length keys ->
    (cfg_types_steps_order c = true -> types_order = keys) ->
    (cfg_names_keep_order c = true -> names_order = types_order) ->
    (cfg_same_mapping c = true -> zip_order = names_order) ->
    (cfg_tuple_steps_order c = true -> tuple_keys = keys) ->
    binding_ok c = true ->
    received (cfg_bind c) zip_order tuple_keys keys tuple = map Some tuple.
  Proof.
    intros Hnd Hl H1 H2 H3 H4 Hok. unfold binding_ok in Hok. apply andb_true_iff in Hok as [Ht Hb].
    specialize (H4 Ht). subst tuple_keys. unfold received. destruct (cfg_bind c).
    - apply andb_true_iff in Hb as [Hb Hc]. apply andb_true_iff in Hb as [Ha Hb].
      rewrite (H3 Ha), (H2 Hb), (H1 Hc). now apply assoc_combine_self.
    - now apply assoc_combine_self.
  Qed.
End BindingProofs.

Lemma nth_error_ext_eq {A} (a b : list A) : (forall i, nth_error a i = nth_error b i) -> a = b.
Proof.
  revert b; induction a as [|x a IH]; destruct b as [|y b]; intros H; try reflexivity.
  - specialize (H 0). discriminate.
  - specialize (H 0). discriminate.
  - pose proof (H 0) as H0. simpl in H0. injection H0 as ->. f_equal. apply IH. intros i. exact (H (S i)).
Qed.

Lemma nth_error_seq_lt base n j : j < n -> nth_error (seq base n) j = Some (base + j).
Proof.
  revert base j; induction n as [|n IH]; intros base [|j] Hj; simpl; try lia.
  - now rewrite Nat.add_0_r.
  - rewrite IH by lia. f_equal. lia.
Qed.

Lemma assoc_combine_seq_index (order : list nat) k i base :
  NoDup order -> nth_error order i = Some k -> assoc k (combine order (seq base (length order))) = Some (base + i).
Proof.
  revert i base; induction order as [|x r IH]; intros [|i] base Hnd Hi; simpl in *; try discriminate.
  - injection Hi as ->. now rewrite Nat.eqb_refl, Nat.add_0_r.
  - inversion Hnd as [|? ? Hn Hr]; subst.
    destruct (Nat.eqb k x) eqn:E.
    + apply Nat.eqb_eq in E. subst. exfalso. apply Hn. eapply nth_error_In; eassumption.
    + rewrite (IH i (S base) Hr Hi). f_equal. lia.
Qed.

(* ... and ONLY then: if the mapping iterates in another order, the tuple (0, 1, .., n-1) is received wrongly *)
Lemma received_position_complete (keys order : list nat) :
  NoDup keys -> Permutation order keys ->
  received BindPosition order keys keys (seq 0 (length keys)) = map Some (seq 0 (length keys)) -> order = keys.
Proof.
  intros Hnd Hp H.
  assert (Hndo : NoDup order) by (eapply Permutation_NoDup; [apply Permutation_sym; exact Hp|exact Hnd]).
  assert (Hlen : length order = length keys) by now apply Permutation_length.
  apply nth_error_ext_eq. intros i.
  destruct (nth_error order i) as [k|] eqn:Ei.
  - (* key k sits at position i of order; it sits at some position j of keys; received says j = i *)
    assert (Hin : In k keys) by (eapply Permutation_in; [exact Hp|eapply nth_error_In; exact Ei]).
    apply In_nth_error in Hin as [j Ej].
    assert (Hj : nth_error (received BindPosition order keys keys (seq 0 (length keys))) j
                 = Some (assoc k (combine order (seq 0 (length keys))))).
    { unfold received. now rewrite nth_error_map, Ej. }
    rewrite H, nth_error_map in Hj.
    assert (Hjl : j < length keys) by (apply nth_error_Some; congruence).
    rewrite (nth_error_seq_lt 0 (length keys) j Hjl) in Hj. simpl in Hj.
    rewrite <- Hlen in Hj. rewrite (assoc_combine_seq_index order k i 0 Hndo Ei) in Hj.
    injection Hj as Hj. simpl in Hj. subst j. now rewrite Ej.
  - apply nth_error_None in Ei. symmetry. apply nth_error_None. lia.
Qed.

(* ------------------------------------------------------------------------------ end to end *)

Lemma zipn_elem_length {A} (ls : list (list A)) t : In t (zipn ls) -> length t = length ls.
Proof.
  revert t; induction ls as [|l r IH]; intros t; [intros []|].
  destruct r as [|l' r'].
  - simpl. rewrite in_map_iff. intros (x & <- & _). reflexivity.
  - change (zipn (l :: l' :: r')) with (map (fun p => fst p :: snd p) (combine l (zipn (l' :: r')))).
    rewrite in_map_iff. intros ((x, t') & <- & Hin). apply in_combine_r in Hin. simpl.
    f_equal. now apply IH.
Qed.

Lemma seq_sequential_from_elem_length {A} k (d : list A) vs t :
  In t (seq_sequential_from k d vs) -> length t = length d.
Proof.
  revert k; induction vs as [|l r IH]; intros k; simpl; [intros []|].
  rewrite in_app_iff, in_map_iff. intros [(v & <- & _)|H]; [apply set_nth_length|now apply (IH (S k))].
Qed.

Lemma custom_row_cfg_length ct ps row : length (dask_custom_row_cfg ct ps row) = length ps.
Proof. revert row; induction ps as [|p r IH]; intros row; simpl; [reflexivity|]. now rewrite IH. Qed.

Lemma cart_elem_length {A} (ls : list (list A)) t : In t (cart ls) -> length t = length ls.
Proof. rewrite cart_In. induction 1; simpl; congruence. Qed.

(* every cell of the parameter array has one value per parameter *)
Lemma cells_elem_length c n m sh cells :
  mode_wf n m -> dask_params_cfg c m = Some (sh, cells) -> forall t, In t cells -> length t = n.
Proof.
  destruct m as [vs|d vs|ps tb]; simpl.
  - intros Hn E t Ht.
    assert (G : forall ws, dask_product ws = Some (sh, cells) -> length t = length ws).
    { intros ws. unfold dask_product, dask_product_gen. destruct (forallb nodupb ws); [|discriminate].
      intros [= <- <-]. apply cart_elem_length in Ht. now rewrite map_length in Ht. }
    destruct (cfg_prod c); simpl in E; apply G in E; [|rewrite map_length in E]; congruence.
  - intros [Hd Hv] [= <- <-] t Ht. destruct (cfg_seq c); simpl in Ht.
    + apply zipn_elem_length in Ht. congruence.
    + apply seq_sequential_from_elem_length in Ht. congruence.
  - intros Hp [= <- <-] t Ht. apply in_map_iff in Ht as (row & <- & _). now rewrite custom_row_cfg_length.
Qed.

Section EndToEnd.
  Context {B : Type}.
  Variable f : list (option pval) -> B.

  (* whatever order the tasks complete in, slot i holds the result of the run that received cell i's values *)
  Lemma assemble_cells (c : dask_cfg) (keys types_order names_order zip_order tuple_keys : list nat)
        (cells : list (list pval)) completion :
    NoDup keys -> (forall t, In t cells -> length t = length keys) ->
    (cfg_types_steps_order c = true -> types_order = keys) ->
    (cfg_names_keep_order c = true -> names_order = types_order) ->
    (cfg_same_mapping c = true -> zip_order = names_order) ->
    (cfg_tuple_steps_order c = true -> tuple_keys = keys) ->
    binding_ok c = true ->
    Permutation completion (dask_tasks (cfg_bind c) zip_order tuple_keys keys cells) ->
    dask_result f cells completion = map (fun t => (t, Some (f (map Some t)))) cells.
  Proof.
    intros Hnd Hlen H1 H2 H3 H4 Hok Hp. unfold dask_result.
    set (recv := @received pval (cfg_bind c) zip_order tuple_keys keys) in *.
    assert (E : assemble f (length cells) completion = map (fun s => Some (f s)) (map recv cells)).
    { rewrite <- (map_length recv cells). apply island_order.
      unfold island_tasks. rewrite map_length. exact Hp. }
    rewrite E, map_map.
    assert (E2 : map (fun x => Some (f (recv x))) cells = map (fun t => Some (f (map Some t))) cells).
    { apply map_ext_in. intros t Ht. unfold recv.
      rewrite (received_sound c keys types_order names_order zip_order tuple_keys t); auto. }
    rewrite E2. clear. induction cells as [|t r IH]; simpl; [reflexivity|]. now rewrite IH.
  Qed.

  Lemma result_maps_agree (m : mode) (cells : list (list pval)) :
    (forall t, In t cells <-> In t (seq_params m)) ->
    forall t r, In (t, Some r) (map (fun t => (t, Some (f (map Some t)))) cells) <-> In (t, r) (seq_result f m).
  Proof.
    intros Hset t r. unfold seq_result. rewrite !in_map_iff. split.
    - intros (t' & [= -> <-] & Hin). exists t. split; [reflexivity|now apply Hset].
    - intros (t' & [= -> <-] & Hin). exists t. split; [reflexivity|now apply Hset].
  Qed.

  Theorem parallel_equals_sequential (c : dask_cfg) (keys types_order names_order zip_order tuple_keys : list nat)
          (m : mode) :
    cfg_seq c = SeqEnumerate -> cfg_prod c = LevelsDedup -> cfg_custom c = ByPlaceholder -> binding_ok c = true ->
    NoDup keys -> mode_wf (length keys) m ->
    (cfg_types_steps_order c = true -> types_order = keys) ->
    (cfg_names_keep_order c = true -> names_order = types_order) ->
    (cfg_same_mapping c = true -> zip_order = names_order) ->
    (cfg_tuple_steps_order c = true -> tuple_keys = keys) ->
    exists sh cells,
      dask_params_cfg c m = Some (sh, cells)
      /\ length cells = prodn sh
      /\ (forall t, In t cells <-> In t (seq_params m))
      /\ match m with
         | Product vs => NoDup cells /\ (forallb nodupb vs = true -> Permutation cells (seq_params m))
         | _ => cells = seq_params m
         end
      /\ forall completion,
           Permutation completion (dask_tasks (cfg_bind c) zip_order tuple_keys keys cells) ->
           dask_result f cells completion = map (fun t => (t, Some (f (map Some t)))) cells
           /\ forall t r, In (t, Some r) (dask_result f cells completion) <-> In (t, r) (seq_result f m).
  Proof.
    intros Hs Hp Hc Hok Hnd Hwf H1 H2 H3 H4.
    assert (X : exists sh cells, dask_params_cfg c m = Some (sh, cells) /\ length cells = prodn sh
              /\ (forall t, In t cells <-> In t (seq_params m))
              /\ match m with
                 | Product vs => NoDup cells /\ (forallb nodupb vs = true -> Permutation cells (seq_params m))
                 | _ => cells = seq_params m
                 end).
    { destruct m as [vs|d vs|ps tb]; simpl.
      - rewrite Hp. destruct (product_dedup_full vs) as (sh & cells & E & S & N & L & P).
        exists sh, cells. repeat split; try assumption; apply S.
      - rewrite Hs. simpl. eexists _, _. split; [reflexivity|]. simpl. split; [lia|]. split; [tauto|reflexivity].
      - rewrite Hc. eexists _, _. split; [reflexivity|]. simpl. split; [lia|].
        assert (E : map (dask_custom_row_cfg ByPlaceholder ps) tb = seq_custom ps tb).
        { unfold seq_custom. apply map_ext. apply custom_row_placeholder. }
        rewrite E. split; [tauto|reflexivity]. }
    destruct X as (sh & cells & E & L & S & M). exists sh, cells.
    repeat split; try assumption; try apply S.
    - eapply assemble_cells; eauto. intros t Ht. eapply cells_elem_length; eauto.
    - rewrite (assemble_cells c keys types_order names_order zip_order tuple_keys cells completion); auto.
      + now apply result_maps_agree.
      + intros t' Ht. eapply cells_elem_length; eauto.
    - rewrite (assemble_cells c keys types_order names_order zip_order tuple_keys cells completion); auto.
      + now apply result_maps_agree.
      + intros t' Ht. eapply cells_elem_length; eauto.
  Qed.
End EndToEnd.
