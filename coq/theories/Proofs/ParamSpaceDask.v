(* C05 on the dask path (with_dask=True): ProductMode/SequentialMode/CustomMode.create_params and the
   labelled array run_pipelines_with_dask fills.  Product: whatever order pandas gives the levels, the
   cells are the requested space, each labelled with exactly its values.  Custom: the cell of a row is
   the requested assignment of columns.  Sequential: only with one parameter. *)
From Coq Require Import ZArith List Bool Arith String Lia Permutation.
From PyxelV Require Import Model.ParamSpace Proofs.ParamSpace Proofs.ParamSpaceNames Proofs.ParamSpaceLabels
                           Proofs.ParamSpaceObserve.
Import ListNotations.
Local Notation length := List.length (only parsing).
Local Open Scope string_scope.

(* ------------------------------------------------------------------------------------ permutations *)

Lemma insert_sorted_perm : forall x l, Permutation (insert_sorted x l) (x :: l).
Proof.
  induction l as [|y l IH]; simpl; auto.
  destruct (pval_leb x y); auto.
  eapply perm_trans; [apply perm_skip; exact IH | apply perm_swap].
Qed.

(* sorting a level only reorders it *)
Lemma sort_level_perm : forall l, Permutation (sort_level l) l.
Proof.
  induction l as [|a l IH]; simpl; auto.
  eapply perm_trans; [apply insert_sorted_perm | apply perm_skip; exact IH].
Qed.

Lemma flat_map_perm_ext : forall {A B} (f g : A -> list B) l,
  (forall a, Permutation (f a) (g a)) -> Permutation (flat_map f l) (flat_map g l).
Proof. induction l; intros H; simpl; auto. apply Permutation_app; auto. Qed.

Lemma iproduct_perm : forall {A} (ls ls' : list (list A)),
  Forall2 (@Permutation A) ls ls' -> Permutation (iproduct ls) (iproduct ls').
Proof.
  intros A ls ls' H. induction H as [|l l' rest rest' Hl Hr IH]; simpl; auto.
  eapply perm_trans.
  - apply Permutation_flat_map. exact Hl.
  - apply flat_map_perm_ext. intros a. apply Permutation_map. exact IH.
Qed.

Lemma dask_product_cells_perm : forall norm steps,
  (forall l, Permutation (norm l) l) ->
  Permutation (dask_product_cells norm steps) (dask_product_cells (fun l => l) steps).
Proof.
  intros norm steps H. unfold dask_product_cells. apply Permutation_map. apply iproduct_perm.
  induction steps; simpl; constructor; auto.
Qed.

(* ------------------------------------------------------------------------------------ product mode *)

Lemma dask_steps_nodup : forall en,
  NoDup (map p_key en) -> dask_steps en = map (fun p => (p_key p, piter p)) en.
Proof. intros en H. unfold dask_steps. apply dict_of_nodup. rewrite map_map. exact H. Qed.

(* with the levels in declaration order the cells are literally the parameter lists of the requested space *)
Lemma dask_product_cells_spec : forall en,
  NoDup (map p_key en) ->
  dask_product_cells (fun l => l) (dask_steps en) = map r_params (spec_product en).
Proof.
  intros en N. unfold dask_product_cells. rewrite dask_steps_nodup by exact N.
  rewrite !map_map. simpl.
  replace (map (fun x => p_key x) en) with (map p_key en) by reflexivity.
  replace (map (fun x => piter x) en) with (map piter en) by reflexivity.
  rewrite iproduct_pick, map_map.
  replace (map (fun p => seq 0 (plen p)) en) with (map (seq 0) (map plen en)) by (rewrite map_map; reflexivity).
  rewrite iproduct_seq_unrank, map_map. unfold spec_product. rewrite map_map. reflexivity.
Qed.

(* Whatever order pandas gives the levels (any permutation of each value list), the cells of the dask
   parameter array are exactly the requested runs, each once. *)
Theorem dask_product_cells_are_space : forall norm en,
  (forall l, Permutation (norm l) l) -> NoDup (map p_key en) ->
  Permutation (dask_product_cells norm (dask_steps en)) (map r_params (spec_product en)).
Proof.
  intros norm en H N. rewrite <- dask_product_cells_spec by exact N. apply dask_product_cells_perm. exact H.
Qed.

Lemma dask_label_values : forall names params n v,
  In (n, LV v) (dask_product_label names params) <-> exists k, In (k, v) params /\ n = name_of names k.
Proof.
  intros names params n v. unfold dask_product_label. rewrite in_map_iff. split.
  - intros ([k v'] & E & Hin). simpl in E. inversion E; subst. exists k. auto.
  - intros (k & Hin & ->). exists (k, v). auto.
Qed.

(* equal labels of two cells over the same keys mean equal values *)
Theorem dask_product_label_inj : forall names keys v1 v2,
  NoDup (map (name_of names) keys) ->
  length v1 = length keys -> length v2 = length keys ->
  label_eqb (dask_product_label names (combine keys v1)) (dask_product_label names (combine keys v2)) = true ->
  v1 = v2.
Proof.
  intros names keys v1 v2 N L1 L2 H.
  assert (Nk : NoDup keys) by (eapply NoDup_map_inv; eauto).
  apply label_eqb_incl in H. destruct H as [H _].
  apply nth_error_ext'. intros j.
  destruct (nth_error v1 j) as [a|] eqn:Ea.
  - assert (Hj : j < length keys) by (rewrite <- L1; apply nth_error_Some; congruence).
    destruct (nth_error keys j) as [k|] eqn:Ek; [|apply nth_error_None in Ek; lia].
    assert (I1 : In (k, a) (combine keys v1)).
    { clear - Ea Ek. revert keys v1 Ea Ek. induction j; intros [|k0 keys] [|x v1] Ea Ek; simpl in *; try discriminate.
      - inversion Ea; inversion Ek; auto.
      - right. eapply IHj; eauto. }
    assert (Hin : In (name_of names k, LV a) (dask_product_label names (combine keys v2))).
    { apply H. apply dask_label_values. exists k. auto. }
    apply dask_label_values in Hin. destruct Hin as (k' & Hk' & Hn).
    assert (k' = k).
    { pose proof (in_combine_l _ _ _ _ Hk') as I'.
      apply In_nth_error in I'. destruct I' as [j' Ej'].
      assert (nth_error (map (name_of names) keys) j = Some (name_of names k)) by (rewrite nth_error_map, Ek; auto).
      assert (nth_error (map (name_of names) keys) j' = Some (name_of names k)) by (rewrite nth_error_map, Ej', Hn; auto).
      assert (j = j').
      { eapply (proj1 (NoDup_nth_error _) N); [rewrite map_length; exact Hj | congruence]. }
      subst j'. congruence. }
    subst k'.
    destruct (in_combine_nodup_fun keys v1 v2 k a a) as (j2 & A & B & C); auto.
    assert (j2 = j).
    { eapply (proj1 (NoDup_nth_error _) Nk); [apply nth_error_Some; congruence | congruence]. }
    subst j2. congruence.
  - apply nth_error_None in Ea. symmetry. apply nth_error_None. lia.
Qed.

(* the label the specification expects for a product cell is the label create_params gives it *)
Lemma spec_label_dask_product : forall names en ix vals,
  NoDup (map p_key en) -> length vals = length en ->
  spec_label_dask Product names en ix (combine (map p_key en) vals)
  = dask_product_label names (combine (map p_key en) vals).
Proof.
  intros names en ix vals N L. unfold spec_label_dask, dask_product_label.
  apply nth_error_ext'. intros j. rewrite !nth_error_map.
  destruct (nth_error en j) as [p|] eqn:Ep.
  - assert (Hj : j < length vals) by (rewrite L; apply nth_error_Some; congruence).
    destruct (nth_error vals j) as [v|] eqn:Ev; [|apply nth_error_None in Ev; lia].
    assert (Ek : nth_error (map p_key en) j = Some (p_key p)) by (rewrite nth_error_map, Ep; auto).
    assert (Ec : nth_error (combine (map p_key en) vals) j = Some (p_key p, v)).
    { clear - Ek Ev. revert vals Ev Ek. generalize (map p_key en) as ks. intros ks. revert j.
      induction ks as [|k0 ks IH]; intros j vals Ev Ek; destruct j, vals; simpl in *; try discriminate.
      - inversion Ek; inversion Ev; auto.
      - eapply IH; eauto. }
    rewrite Ec. simpl. rewrite (dict_get_combine _ _ _ _ _ N Ek Ev). reflexivity.
  - simpl. assert (X : nth_error (combine (map p_key en) vals) j = None).
    { apply nth_error_None. rewrite combine_length, map_length. apply nth_error_None in Ep. lia. }
    rewrite X. reflexivity.
Qed.

(* Product mode on the dask path, for any list of cells that has exactly the requested runs as its members
   (whatever their order and multiplicity): the merge of the cells never conflicts, every requested run is
   found under the label made of exactly its values and holds the data produced with them, and nothing
   else is stored. *)
Theorem dask_product_lookup_set : forall names slots en (cells : list assignment),
  NoDup (map p_key en) ->
  NoDup (map (name_of names) (map p_key en)) ->
  (forall c, In c cells <-> In c (map r_params (spec_product en))) ->
  exists res,
    assemble (map (fun c => (dask_product_label names c, data_of slots c)) cells) = Some res /\
    (forall r, In r (spec_product en) ->
       lookup (spec_label_dask Product names en (r_index r) (r_params r)) res
       = Some (data_of slots (r_params r))) /\
    (forall l d, In (l, d) res ->
       exists r, In r (spec_product en) /\ l = spec_label_dask Product names en (r_index r) (r_params r)
                 /\ d = data_of slots (r_params r)) /\
    labels_nodup (map fst res) = true.
Proof.
  intros names slots en cells N NN P.
  assert (Shape : forall c, In c cells -> exists r, In r (spec_product en) /\ c = r_params r).
  { intros c Hc. apply P in Hc. apply in_map_iff in Hc. destruct Hc as (r & <- & Hr). eauto. }
  destruct (assemble_runs cells (dask_product_label names) (data_of slots)) as (res & A & F & S & Nd).
  { intros a b Ha Hb He.
    destruct (Shape _ Ha) as (ra & Hra & ->). destruct (Shape _ Hb) as (rb & Hrb & ->).
    destruct (spec_product_shape _ _ Hra) as (ia & _ & Lia & Epa & Lpa).
    destruct (spec_product_shape _ _ Hrb) as (ib & _ & Lib & Epb & Lpb).
    rewrite Epa, Epb in He |- *.
    assert (pick ia en = pick ib en).
    { eapply dask_product_label_inj with (keys := map p_key en); eauto; rewrite map_length; auto. }
    congruence. }
  exists res. split; [exact A|]. repeat split; auto.
  - intros r Hr. destruct (spec_product_shape _ _ Hr) as (ix & _ & Lix & Ep & Lp).
    rewrite Ep at 1. rewrite spec_label_dask_product by auto. rewrite <- Ep.
    apply F. apply P. apply in_map. exact Hr.
  - intros l d Hin. destruct (S _ _ Hin) as (c & Hc & -> & ->).
    destruct (Shape _ Hc) as (r & Hr & ->). exists r. split; auto.
    destruct (spec_product_shape _ _ Hr) as (ix & _ & Lix & Ep & Lp).
    split; auto. rewrite Ep at 2. rewrite spec_label_dask_product by auto. rewrite <- Ep. reflexivity.
Qed.

(* ... in particular for ANY order `norm` of the levels that is a permutation.  (A label attached to the data
   of another run -- labels from sorted levels over data in declaration order -- is thereby excluded.) *)
Theorem dask_product_lookup : forall norm names slots en,
  (forall l, Permutation (norm l) l) ->
  NoDup (map p_key en) ->
  NoDup (map (name_of names) (map p_key en)) ->
  let cells := dask_product_cells norm (dask_steps en) in
  exists res,
    assemble (map (fun c => (dask_product_label names c, data_of slots c)) cells) = Some res /\
    (forall r, In r (spec_product en) ->
       lookup (spec_label_dask Product names en (r_index r) (r_params r)) res
       = Some (data_of slots (r_params r))) /\
    (forall l d, In (l, d) res ->
       exists r, In r (spec_product en) /\ l = spec_label_dask Product names en (r_index r) (r_params r)
                 /\ d = data_of slots (r_params r)) /\
    labels_nodup (map fst res) = true.
Proof.
  intros norm names slots en Hp N NN cells. apply dask_product_lookup_set; auto.
  pose proof (dask_product_cells_are_space norm en Hp N) as P. fold cells in P.
  intros c. split; intros H; [apply (Permutation_in _ P) | apply (Permutation_in _ (Permutation_sym P))]; exact H.
Qed.

(* ------------------------------------------------------------------------------------ de-duplicated levels *)

Lemma dedup_aux_in : forall l seen x,
  In x (dedup_pvals_aux seen l) <-> (In x l /\ ~ In x seen).
Proof.
  induction l as [|a l IH]; intros seen x; simpl; [tauto|].
  destruct (existsb (pval_eqb a) seen) eqn:E.
  - rewrite IH. apply existsb_exists in E. destruct E as (y & Hy & Ey). apply pval_eqb_eq in Ey. subst y.
    split; [tauto|]. intros [[->|H] Hn]; [contradiction | auto].
  - simpl. rewrite IH. split.
    + intros [->|[H Hn]]; [|simpl in Hn; tauto]. split; auto. intros Hs.
      assert (existsb (pval_eqb x) seen = true) by (apply existsb_exists; exists x; split; auto; apply pval_eqb_eq; auto).
      congruence.
    + intros [[->|H] Hn]; auto.
      destruct (pval_eqb a x) eqn:Eq.
      * apply pval_eqb_eq in Eq. auto.
      * right. split; auto. simpl. intros [->|Hs]; [|contradiction].
        assert (pval_eqb x x = true) by (apply pval_eqb_eq; auto). congruence.
Qed.

Lemma dedup_in : forall l x, In x (dedup_pvals l) <-> In x l.
Proof. intros. unfold dedup_pvals. rewrite dedup_aux_in. simpl. tauto. Qed.

Lemma dedup_aux_nodup : forall l seen, pvals_nodup (dedup_pvals_aux seen l) = true.
Proof.
  induction l as [|a l IH]; intros seen; simpl; auto.
  destruct (existsb (pval_eqb a) seen) eqn:E; auto. simpl. rewrite IH, andb_true_r.
  apply negb_true_iff. destruct (existsb (pval_eqb a) (dedup_pvals_aux (a :: seen) l)) eqn:X; auto.
  apply existsb_exists in X. destruct X as (y & Hy & Ey). apply pval_eqb_eq in Ey. subst y.
  apply dedup_aux_in in Hy. simpl in Hy. tauto.
Qed.

Lemma dedup_nodup : forall l, pvals_nodup (dedup_pvals l) = true.
Proof. intros. apply dedup_aux_nodup. Qed.

Lemma dedup_aux_length : forall l seen, length (dedup_pvals_aux seen l) <= length l.
Proof. induction l; intros; simpl; auto. destruct (existsb _ _); simpl; [rewrite IHl; lia | specialize (IHl (a :: seen)); lia]. Qed.

(* cells over levels with the same members have the same members *)
Lemma dask_cells_same_set : forall norm steps c,
  (forall l x, In x (norm l) <-> In x l) ->
  (In c (dask_product_cells norm steps) <-> In c (dask_product_cells (fun l => l) steps)).
Proof.
  intros norm steps c H. unfold dask_product_cells. rewrite !in_map_iff.
  assert (G : forall vs, In vs (iproduct (map (fun s => norm (snd s)) steps)) <->
                         In vs (iproduct (map (fun s => snd s) steps))).
  { intros vs. rewrite !in_iproduct. revert vs. induction steps as [|s steps IH]; intros vs; simpl.
    - tauto.
    - split; intros F; inversion F; subst; constructor; try (apply IH; assumption); apply H; assumption. }
  split; intros (vs & E & Hin); exists vs; split; auto; apply G; auto.
Qed.

Lemma list_prod_le : forall a b, Forall2 le a b -> list_prod a <= list_prod b.
Proof. intros a b H. induction H; simpl; auto. apply Nat.mul_le_mono; auto. Qed.

Lemma dask_product_steps_cells : forall cf norm steps,
  dask_product_cells norm (dask_product_steps cf steps)
  = dask_product_cells (fun l => norm (if cf_dask_product_dedup cf then dedup_pvals l else l)) steps.
Proof.
  intros cf norm steps. unfold dask_product_steps, dask_product_cells.
  destruct (cf_dask_product_dedup cf); auto. rewrite !map_map. simpl. reflexivity.
Qed.

(* the only thing that stops the coded dask path when the levels are not de-duplicated: a value twice in a
   list (pandas refuses a non-unique MultiIndex) *)
Lemma observe_dask_product_refuses_duplicates : forall cf ps slots table range,
  cf_dask_product_dedup cf = false ->
  forallb (fun s => pvals_nodup (snd s)) (dask_steps (enabled ps)) = false ->
  observe_dask cf Product ps slots table range = None.
Proof.
  intros cf ps slots table range Hf H. unfold observe_dask, dask_product_steps. rewrite Hf, H.
  destruct (existsb has_ph (enabled ps)); auto.
  destruct (dim_names cf (unique (map p_key (enabled ps)))); auto.
  rewrite andb_false_r. reflexivity.
Qed.

(* ------------------------------------------------------------------------------------ custom mode *)

Lemma dask_custom_row_from : forall cf en row i,
  cf_dask_custom_scalar_is_placeholder cf = true ->
  dask_custom_row cf en row i = custom_row_from en row i.
Proof.
  intros cf en row i H. revert i. induction en as [|p en IH]; intros i; [reflexivity|].
  rewrite custom_row_from_cons. simpl. rewrite IH. f_equal. f_equal.
  unfold dask_scalar, spec_custom_value, pwidth. rewrite H. destruct (p_values p); reflexivity.
Qed.

(* Custom mode on the dask path (repaired convert_custom_data): the cell of a row assigns to every
   parameter the columns [off_k, off_k + w_k) -- the same assignment as the sequential path and the
   specification. *)
Theorem dask_custom_row_spec : forall cf en row,
  cf_dask_custom_scalar_is_placeholder cf = true ->
  dask_custom_row cf en row 0 = spec_custom_row en row.
Proof. intros. rewrite dask_custom_row_from by assumption. reflexivity. Qed.

(* ------------------------------------------------------------------------------------ sequential mode *)

(* one enabled parameter: the zipped cells are the requested runs *)
Theorem dask_sequential_one : forall get p,
  dask_sequential_cells (dask_steps [p]) = spec_sequential_params get [p].
Proof.
  intros get p. unfold dask_sequential_cells, dask_steps, spec_sequential_params. simpl.
  rewrite app_nil_r, !map_map. apply map_ext. intros v. simpl.
  rewrite String.eqb_refl. reflexivity.
Qed.

(* rows built from get_parameters_item (repaired create_params) are the requested runs, for any parameters *)
Lemma dask_seq_cells_rows : forall cf get ps,
  cf_dask_sequential_rows cf = true -> dask_seq_cells cf get ps = spec_sequential_params get (enabled ps).
Proof.
  intros cf get ps H. unfold dask_seq_cells. rewrite H.
  destruct (sequential_correct get ps) as (E & _). exact E.
Qed.

(* with one enabled parameter the rows are the requested runs whichever way they are built *)
Theorem dask_seq_cells_one : forall cf get ps p,
  enabled ps = [p] -> dask_seq_cells cf get ps = spec_sequential_params get [p].
Proof.
  intros cf get ps p E. unfold dask_seq_cells. destruct (cf_dask_sequential_rows cf).
  - destruct (sequential_correct get ps) as (H & _). rewrite H, E. reflexivity.
  - rewrite E. apply dask_sequential_one.
Qed.

(* the zipped rows are not the requested runs in general *)
Lemma dask_seq_cells_zip_witness : forall cf,
  cf_dask_sequential_rows cf = false ->
  dask_seq_cells cf (fun _ => Sc 0)
    [mkParam "k.a" (Lit [Sc 8; Sc 16; Sc 24]) true; mkParam "k.b" (Lit [Sc 80; Sc 96]) true]
  <> spec_sequential_params (fun _ => Sc 0)
       (enabled [mkParam "k.a" (Lit [Sc 8; Sc 16; Sc 24]) true; mkParam "k.b" (Lit [Sc 80; Sc 96]) true]).
Proof. intros cf H. unfold dask_seq_cells. rewrite H. vm_compute. discriminate. Qed.

(* ------------------------------------------------------------------------------------ the whole dask observation *)

(* Product mode through observe_dask (levels sorted as pandas does, de-duplicated first if the source does
   that): distinct keys, distinct names that do not clash with the array dimensions, and -- unless the levels
   are de-duplicated -- no value twice in a list.  The observation runs; exactly the requested runs are
   executed (never more executions than requested runs); every requested run is found under its value-labels
   with its own data; nothing else is stored. *)
Theorem dask_product_observe : forall cf ps slots table range names,
  let en := enabled ps in
  let keys := map p_key en in
  NoDup keys ->
  existsb has_ph en = false ->
  dim_names cf keys = Some names ->
  NoDup (map snd names) ->
  str_nodup (map (name_of names) keys ++ reserved_dims) = true ->
  cf_dask_product_dedup cf = true \/ forallb (fun s => pvals_nodup (snd s)) (dask_steps en) = true ->
  exists oc, observe_dask cf Product ps slots table range = Some oc /\
    (forall x, In x (oc_runs oc) <-> In x (map (fun r => received slots (r_params r)) (spec_product en))) /\
    length (oc_runs oc) <= length (spec_product en) /\
    (forall r, In r (spec_product en) ->
       lookup (spec_label_dask Product names en (r_index r) (r_params r)) (oc_result oc)
       = Some (data_of slots (r_params r))) /\
    (forall l d, In (l, d) (oc_result oc) ->
       exists r, In r (spec_product en) /\ l = spec_label_dask Product names en (r_index r) (r_params r)
                 /\ d = data_of slots (r_params r)) /\
    labels_nodup (map fst (oc_result oc)) = true.
Proof.
  intros cf ps slots table range names en keys Nk Hph Hn Nn Hres Hdup.
  pose proof (names_nodup _ _ _ Nk Hn Nn) as NN.
  set (cells := dask_product_cells sort_level (dask_product_steps cf (dask_steps en))).
  set (nrm := fun l => sort_level (if cf_dask_product_dedup cf then dedup_pvals l else l)).
  assert (Ec : cells = dask_product_cells nrm (dask_steps en)) by (apply dask_product_steps_cells).
  assert (Hmem : forall l x, In x (nrm l) <-> In x l).
  { intros l x. unfold nrm. split; intros H.
    - apply (Permutation_in _ (sort_level_perm _)) in H. destruct (cf_dask_product_dedup cf); auto. apply dedup_in; auto.
    - apply (Permutation_in _ (Permutation_sym (sort_level_perm _))).
      destruct (cf_dask_product_dedup cf); auto. apply dedup_in; auto. }
  assert (P : forall c, In c cells <-> In c (map r_params (spec_product en))).
  { intros c. rewrite Ec, dask_cells_same_set by exact Hmem. rewrite dask_product_cells_spec by exact Nk. tauto. }
  destruct (dask_product_lookup_set names slots en cells Nk NN P) as (res & A & F & S & Nd).
  assert (Hnd : forallb (fun s => pvals_nodup (snd s)) (dask_product_steps cf (dask_steps en)) = true).
  { unfold dask_product_steps. destruct (cf_dask_product_dedup cf) eqn:Ed.
    - apply forallb_forall. intros s Hs. apply in_map_iff in Hs. destruct Hs as (s0 & <- & _). simpl. apply dedup_nodup.
    - destruct Hdup as [?|?]; [discriminate | assumption]. }
  exists (mkOutcome (map (fun c => received slots c) cells) res). split; [|simpl; repeat split; auto].
  - unfold observe_dask. fold en. rewrite Hph.
    replace (unique (map p_key en)) with keys by (symmetry; apply unique_nodup_id; exact Nk).
    rewrite Hn, Hres, Hnd. simpl. fold cells. unfold dask_outcome. rewrite !map_map. simpl.
    rewrite A. reflexivity.
  - intros H. apply in_map_iff in H. destruct H as (c & <- & Hc). apply P in Hc.
    apply in_map_iff in Hc. destruct Hc as (r & <- & Hr). apply in_map_iff. exists r. auto.
  - intros H. apply in_map_iff in H. destruct H as (r & <- & Hr). apply in_map_iff. exists (r_params r). split; auto.
    apply P. apply in_map. exact Hr.
  - rewrite map_length. unfold cells, dask_product_cells. rewrite map_length, list_prod_length_iproduct.
    unfold spec_product. rewrite map_length, seq_length. rewrite dask_steps_nodup by exact Nk.
    apply list_prod_le. unfold dask_product_steps.
    generalize en. intros l. induction l as [|p l IH]; simpl.
    + destruct (cf_dask_product_dedup cf); constructor.
    + destruct (cf_dask_product_dedup cf) eqn:Ed; simpl in *; constructor; auto.
      * unfold plen, dedup_pvals. rewrite (Permutation_length (sort_level_perm _)). apply dedup_aux_length.
      * unfold plen. rewrite (Permutation_length (sort_level_perm _)). lia.
Qed.

(* without de-duplication a value twice in a list is refused although the request is well-formed *)
Lemma dask_product_duplicates_witness : forall cf,
  cf_dask_product_dedup cf = false ->
  observe_dask cf Product [mkParam "pipeline.charge_collection.m1.arguments.a" (Lit [Sc 8; Sc 8]) true] [] [] None
  = None.
Proof. intros cf H. apply observe_dask_product_refuses_duplicates; auto. Qed.

(* ------------------------------------------------------------------------------------ for a source configuration
   with the repaired naming rule: the statements instantiated by Properties/C05.v *)

Theorem dask_product_observe_cfg : forall cf,
  cf_name_fallback_full cf = true -> cf_name_stage3 cf = true ->
  forall ps slots table range names,
  let en := enabled ps in
  let keys := map p_key en in
  NoDup keys ->
  existsb has_ph en = false ->
  dim_names cf keys = Some names ->
  str_nodup (map (name_of names) keys ++ reserved_dims) = true ->
  cf_dask_product_dedup cf = true \/ forallb (fun s => pvals_nodup (snd s)) (dask_steps en) = true ->
  exists oc, observe_dask cf Product ps slots table range = Some oc /\
    (forall x, In x (oc_runs oc) <-> In x (map (fun r => received slots (r_params r)) (spec_product en))) /\
    length (oc_runs oc) <= length (spec_product en) /\
    (forall r, In r (spec_product en) ->
       lookup (spec_label_dask Product names en (r_index r) (r_params r)) (oc_result oc)
       = Some (data_of slots (r_params r))) /\
    (forall l d, In (l, d) (oc_result oc) ->
       exists r, In r (spec_product en) /\ l = spec_label_dask Product names en (r_index r) (r_params r)
                 /\ d = data_of slots (r_params r)) /\
    labels_nodup (map fst (oc_result oc)) = true.
Proof.
  intros cf Hf H3 ps slots table range names en keys Nk Hph Hn Hres Hdup.
  apply dask_product_observe; auto.
  exact (dim_names_inj cf keys names Hf H3 Nk Hn).
Qed.

(* every well-formed product request is run on the dask path *)
Definition dask_product_accepts_full (cf : cfg) : Prop :=
  forall ps slots table range names,
    let en := enabled ps in
    NoDup (map p_key en) -> existsb has_ph en = false ->
    dim_names cf (map p_key en) = Some names ->
    str_nodup (map (name_of names) (map p_key en) ++ reserved_dims) = true ->
    observe_dask cf Product ps slots table range <> None.

(* ... holds iff the value lists are de-duplicated *)
Theorem dask_product_accepts_decided : forall cf,
  cf_name_fallback_full cf = true -> cf_name_stage3 cf = true ->
  if cf_dask_product_dedup cf then dask_product_accepts_full cf else ~ dask_product_accepts_full cf.
Proof.
  intros cf Hf H3. destruct (cf_dask_product_dedup cf) eqn:E.
  - intros ps slots table range names en Nk Hph Hn Hres.
    destruct (dask_product_observe_cfg cf Hf H3 ps slots table range names Nk Hph Hn Hres (or_introl E)) as (oc & H & _).
    rewrite H. discriminate.
  - intros H.
    assert (Hn : dim_names cf (map p_key (enabled [mkParam "pipeline.charge_collection.m1.arguments.a" (Lit [Sc 8; Sc 8]) true]))
                 = Some [("pipeline.charge_collection.m1.arguments.a", "a")]).
    { unfold dim_names, dim_names2. simpl. unfold stage3. destruct (cf_name_stage3 cf); reflexivity. }
    specialize (H [mkParam "pipeline.charge_collection.m1.arguments.a" (Lit [Sc 8; Sc 8]) true] [] [] None
                  [("pipeline.charge_collection.m1.arguments.a", "a")]
                  ltac:(repeat constructor; simpl; intuition) eq_refl Hn eq_refl).
    apply H. apply dask_product_duplicates_witness. exact E.
Qed.

(* the rows of SequentialMode.create_params are the requested runs *)
Definition dask_sequential_full (cf : cfg) : Prop :=
  forall get ps, dask_seq_cells cf get ps = spec_sequential_params get (enabled ps).

(* ... holds iff the rows are built from get_parameters_item *)
Theorem dask_sequential_decided : forall cf,
  if cf_dask_sequential_rows cf then dask_sequential_full cf else ~ dask_sequential_full cf.
Proof.
  intros cf. destruct (cf_dask_sequential_rows cf) eqn:E.
  - intros get ps. apply dask_seq_cells_rows. exact E.
  - intros H. exact (dask_seq_cells_zip_witness cf E (H _ _)).
Qed.
