(* C02 — <Container>.empty() as a program over the pieces of state a container holds (Model/Exposure.v,
   [run_cprog]): the bool check [cprog_ok], which runs the program on the 2^7 SHAPES of a detector state,
   decides what the program does on EVERY state: all pieces of the container end re-initialised, nothing else
   is touched.  Used by Proofs/Exposure.v to characterise Detector.empty(reset) from the regenerated table. *)
From Coq Require Import ZArith List Bool.
From PyxelV Require Import Model.Exposure.
Import ListNotations.

Section Empty.
  Variable A : Type.
  Variable zero : A.

  Notation det := (det A).
  Notation cleared := (cleared A zero).
  Notation holds := (@holds A).

  (* the state a shape denotes over the state [d0] empty() was called on *)
  Definition concr (d0 : det) (s : sdet) : det :=
    {| scene := match s_scene s with SReset => cleared PScene | _ => scene d0 end;
       photon := match s_photon s with SReset => cleared PPhoton | _ => photon d0 end;
       charge := match s_carr s with SReset => cleared PChargeArr | _ => charge d0 end;
       cframe := match s_cframe s with SReset => cleared PChargeFrame | _ => cframe d0 end;
       pixel := match s_pixel s with SReset => cleared PPixel | _ => pixel d0 end;
       signal := match s_signal s with SReset => cleared PSignal | _ => signal d0 end;
       image := match s_image s with SReset => cleared PImage | _ => image d0 end |}.

  (* the shape says the truth about what [d0] held *)
  Definition consistent (d0 : det) (s : sdet) : Prop :=
    forall p, match sget p s with
              | SSome => holds p d0 = true
              | SNone => holds p d0 = false
              | SReset => True
              end.

  Definition of_bool (b : bool) : sym := if b then SSome else SNone.
  Definition init_of (d : det) : sdet :=
    {| s_scene := of_bool (holds PScene d); s_photon := of_bool (holds PPhoton d);
       s_carr := of_bool (holds PChargeArr d); s_cframe := of_bool (holds PChargeFrame d);
       s_pixel := of_bool (holds PPixel d); s_signal := of_bool (holds PSignal d);
       s_image := of_bool (holds PImage d) |}.

  Lemma concr_init : forall d, concr d (init_of d) = d.
  Proof.
    intros [sc ph ch cf px sg im]. unfold concr, init_of, Exposure.holds. simpl.
    destruct sc, ph, ch, cf, px, sg, im; reflexivity.
  Qed.

  Lemma consistent_init : forall d, consistent d (init_of d).
  Proof.
    intros d p. destruct p; simpl; unfold of_bool;
      match goal with |- context [if ?b then _ else _] => destruct b eqn:E end; try reflexivity; exact E.
  Qed.

  Lemma getp_concr : forall d0 s p,
    getp p (concr d0 s) = match sget p s with SReset => cleared p | _ => getp p d0 end.
  Proof. intros d0 s p. destruct p; reflexivity. Qed.

  Lemma holds_concr : forall d0 s p, consistent d0 s ->
    holds p (concr d0 s) = sym_holds p (sget p s).
  Proof.
    intros d0 s p Hc. unfold Exposure.holds at 1. rewrite getp_concr. specialize (Hc p).
    destruct (sget p s) eqn:E; simpl.
    - unfold Exposure.holds in Hc. exact Hc.
    - unfold Exposure.holds in Hc. exact Hc.
    - destruct p; reflexivity.
  Qed.

  Lemma cond_concr : forall d0 s c, consistent d0 s -> cond_holds A c (concr d0 s) = scond c s.
  Proof.
    intros d0 s c Hc. destruct c as [|p|p]; simpl; [reflexivity| |]; rewrite holds_concr by exact Hc; reflexivity.
  Qed.

  Lemma setp_concr : forall d0 s p, setp p (cleared p) (concr d0 s) = concr d0 (sset p SReset s).
  Proof. intros d0 s p. destruct p; reflexivity. Qed.

  Lemma consistent_sset : forall d0 s p, consistent d0 s -> consistent d0 (sset p SReset s).
  Proof.
    intros d0 s p Hc q. specialize (Hc q). destruct p, q; simpl in *; try exact Hc; exact I.
  Qed.

  Lemma reset_concr : forall ps d0 s, consistent d0 s ->
    reset_pieces A zero ps (concr d0 s) = concr d0 (sreset_pieces ps s) /\ consistent d0 (sreset_pieces ps s).
  Proof.
    unfold reset_pieces, sreset_pieces.
    induction ps as [|p ps IH]; intros d0 s Hc; [split; [reflexivity|exact Hc]|].
    simpl. rewrite setp_concr. apply IH. apply consistent_sset. exact Hc.
  Qed.

  Lemma chain_concr : forall ch d0 s, consistent d0 s ->
    run_chain A zero ch (concr d0 s) = concr d0 (srun_chain ch s) /\ consistent d0 (srun_chain ch s).
  Proof.
    induction ch as [|[c ps] ch IH]; intros d0 s Hc; [split; [reflexivity|exact Hc]|].
    simpl. rewrite cond_concr by exact Hc. destruct (scond c s).
    - apply reset_concr. exact Hc.
    - apply IH. exact Hc.
  Qed.

  Lemma cprog_concr : forall pr d0 s, consistent d0 s ->
    run_cprog A zero pr (concr d0 s) = concr d0 (srun pr s) /\ consistent d0 (srun pr s).
  Proof.
    unfold run_cprog, srun.
    induction pr as [|ch pr IH]; intros d0 s Hc; [split; [reflexivity|exact Hc]|].
    simpl. destruct (chain_concr ch d0 s Hc) as [H1 H2]. rewrite H1. apply IH. exact H2.
  Qed.

  Lemma forallb_two : forall f, forallb f two = true -> forall b, f (of_bool b) = true.
  Proof.
    intros f H b. unfold two in H. simpl in H. apply andb_true_iff in H as [H1 H2].
    apply andb_true_iff in H2 as [H2 _]. destruct b; assumption.
  Qed.

  Lemma cprog_ok_init : forall b pr, cprog_ok b pr = true ->
    forall d, final_ok b (init_of d) (srun pr (init_of d)) = true.
  Proof.
    intros b pr H d. unfold cprog_ok in H.
    pose proof (forallb_two _ H (holds PScene d)) as H1. cbv beta in H1.
    pose proof (forallb_two _ H1 (holds PPhoton d)) as H2. cbv beta in H2.
    pose proof (forallb_two _ H2 (holds PChargeArr d)) as H3. cbv beta in H3.
    pose proof (forallb_two _ H3 (holds PChargeFrame d)) as H4. cbv beta in H4.
    pose proof (forallb_two _ H4 (holds PPixel d)) as H5. cbv beta in H5.
    pose proof (forallb_two _ H5 (holds PSignal d)) as H6. cbv beta in H6.
    pose proof (forallb_two _ H6 (holds PImage d)) as H7. cbv beta zeta in H7.
    exact H7.
  Qed.

  Lemma init_not_reset : forall d p, sget p (init_of d) <> SReset.
  Proof. intros d p. destruct p; simpl; unfold of_bool; destruct (holds _ d); discriminate. Qed.

  Lemma sym_eqb_eq : forall a b, sym_eqb a b = true -> a = b.
  Proof. destruct a, b; simpl; congruence. Qed.

  (* <Container>.empty() of a container whose program passes the check, on ANY state: every piece of the
     container is re-initialised, every other piece is what it was *)
  Theorem run_cprog_ok : forall b pr, cprog_ok b pr = true ->
    forall d p, getp p (run_cprog A zero pr d) = if bucket_eqb (owner p) b then cleared p else getp p d.
  Proof.
    intros b pr H d p.
    pose proof (cprog_ok_init b pr H d) as Hf.
    destruct (cprog_concr pr d (init_of d) (consistent_init d)) as [Hr Hc].
    rewrite concr_init in Hr. rewrite Hr, getp_concr.
    unfold final_ok in Hf. rewrite forallb_forall in Hf.
    assert (Hin : In p all_pieces) by (destruct p; simpl; tauto).
    specialize (Hf p Hin). specialize (Hc p).
    destruct (bucket_eqb (owner p) b).
    - destruct (sget p (srun pr (init_of d))) eqn:E; [|discriminate|reflexivity].
      unfold Exposure.holds in Hc. destruct p; try discriminate; simpl in *;
        match goal with |- ?x = None => destruct x; [discriminate|reflexivity] end.
    - apply sym_eqb_eq in Hf. pose proof (init_not_reset d p) as Hn. rewrite <- Hf in Hn.
      destruct (sget p (srun pr (init_of d))); [reflexivity|reflexivity|contradiction].
  Qed.

  Lemma det_ext : forall d d' : det, (forall p, getp p d = getp p d') -> d = d'.
  Proof.
    intros [a1 a2 a3 a4 a5 a6 a7] [b1 b2 b3 b4 b5 b6 b7] H.
    pose proof (H PScene). pose proof (H PPhoton). pose proof (H PChargeArr). pose proof (H PChargeFrame).
    pose proof (H PPixel). pose proof (H PSignal). pose proof (H PImage). simpl in *. congruence.
  Qed.
End Empty.
