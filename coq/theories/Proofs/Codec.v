(* C18 — proofs about Model/Codec.v.  Everything is parametrised over the key tables, so the property
   file only has to evaluate the decidable condition `codec_ok` on the regenerated tables. *)
From Coq Require Import ZArith List Bool String Ascii Lia.
From PyxelV Require Import Model.Codec.
Import ListNotations.
Open Scope string_scope.

(* ---------------------------------------------------------------- small reflection facts *)
Lemma dkind_eqb_eq a b : dkind_eqb a b = true -> a = b.
Proof. destruct a, b; simpl; intros; congruence. Qed.
Lemma field_eqb_eq a b : field_eqb a b = true -> a = b.
Proof. destruct a, b; simpl; intros; congruence. Qed.
Lemma field_eqb_refl a : field_eqb a a = true.
Proof. destruct a; reflexivity. Qed.
Lemma pfield_eqb_eq a b : pfield_eqb a b = true -> a = b.
Proof. destruct a, b; simpl; intros; congruence. Qed.

Lemma esc_is_eq e a b : esc_is e a b = true -> e = Some (a, b).
Proof.
  destruct e as [[x y]|]; simpl; [|discriminate].
  intros H. apply andb_true_iff in H. destruct H as [H1 H2].
  apply Ascii.eqb_eq in H1. apply Ascii.eqb_eq in H2. subst. reflexivity.
Qed.

(* ---------------------------------------------------------------- key escaping *)
(* replace(a,b) followed by replace(b,a) is the identity exactly on strings without b *)
Lemma replace_inv a b s : has_char b s = false -> replace_char b a (replace_char a b s) = s.
Proof.
  induction s as [|c r IH]; simpl; intros H; [reflexivity|].
  apply orb_false_iff in H. destruct H as [Hc Hr]. rewrite (IH Hr).
  destruct (Ascii.eqb c a) eqn:E.
  - apply Ascii.eqb_eq in E. subst. rewrite Ascii.eqb_refl. reflexivity.
  - rewrite Hc. reflexivity.
Qed.

(* ... and it is NOT the identity on any string that contains b (when a <> b): the restriction is sharp *)
Lemma replace_not_inv a b s : a <> b -> has_char b s = true -> replace_char b a (replace_char a b s) <> s.
Proof.
  intros Hab. induction s as [|c r IH]; simpl; intros H; [discriminate|].
  destruct (Ascii.eqb c b) eqn:Ecb.
  - apply Ascii.eqb_eq in Ecb. subst c.
    destruct (Ascii.eqb b a) eqn:Eba.
    + apply Ascii.eqb_eq in Eba. congruence.
    + rewrite Ascii.eqb_refl. intros Q. inversion Q. congruence.
  - simpl in H. specialize (IH H). intros Q. inversion Q. contradiction.
Qed.

Lemma escape_injective a b s1 s2 :
  has_char b s1 = false -> has_char b s2 = false ->
  replace_char a b s1 = replace_char a b s2 -> s1 = s2.
Proof.
  intros H1 H2 E. rewrite <- (replace_inv a b s1 H1), <- (replace_inv a b s2 H2), E. reflexivity.
Qed.

Lemma map_keys_inv (m : keyed) :
  keys_nohash m = true ->
  map_keys (apply_esc (Some (hash, slash))) (map_keys (apply_esc (Some (slash, hash))) m) = m.
Proof.
  induction m as [|[k v] r IH]; intros H; [reflexivity|].
  unfold keys_nohash in *. cbn [forallb fst] in H.
  apply andb_true_iff in H. destruct H as [Hk Hr]. specialize (IH Hr).
  apply negb_true_iff in Hk.
  unfold map_keys in *. cbn [map fst snd]. rewrite IH.
  unfold apply_esc. rewrite (replace_inv slash hash k Hk). reflexivity.
Qed.

Lemma map_keys_nil_inv {A} f (m : list (string * A)) : map_keys f m = [] -> m = [].
Proof. destruct m; simpl; [reflexivity|discriminate]. Qed.

(* ---------------------------------------------------------------- lookups through map *)
Lemma lookup_written tb d k l :
  lookup_last k (map (fun w : wentry => match w with (k, f, e) => (k, enc tb f e (d_cont d f)) end) l) =
  match wlast k l with Some (_, f, e) => Some (enc tb f e (d_cont d f)) | None => None end.
Proof.
  induction l as [|[[k' f] e] r IH]; simpl; [reflexivity|].
  rewrite IH. destruct (wlast k r) as [[[? ?] ?]|]; [reflexivity|].
  destruct (String.eqb k k'); reflexivity.
Qed.

Lemma lookup_via {A B} (g : A -> B) k (l : list (string * A)) :
  lookup_last k (map (fun kv => (fst kv, g (snd kv))) l) = option_map g (lookup_last k l).
Proof.
  induction l as [|[k' v] r IH]; simpl; [reflexivity|].
  rewrite IH. destruct (lookup_last k r); simpl; [reflexivity|].
  destruct (String.eqb k k'); reflexivity.
Qed.

Lemma lookup_props d k l :
  lookup_last k (map (fun e : string * pfield => (fst e, d_props d (snd e))) l) =
  option_map (d_props d) (pwlast k l).
Proof.
  induction l as [|[k' pf] r IH]; simpl; [reflexivity|].
  rewrite IH. destruct (pwlast k r); simpl; [reflexivity|].
  destruct (String.eqb k k'); reflexivity.
Qed.

(* ---------------------------------------------------------------- values as nested lists *)
Lemma list_eqb_Z_eq x y : list_eqb Z.eqb x y = true -> x = y.
Proof.
  revert y. induction x as [|a x IH]; destruct y as [|b y]; simpl; try discriminate; [reflexivity|].
  intros H. apply andb_true_iff in H. destruct H as [H1 H2].
  apply Z.eqb_eq in H1. rewrite (IH y H2). congruence.
Qed.

Lemma arr_eqb_eq x y : arr_eqb x y = true -> x = y.
Proof.
  destruct x, y. unfold arr_eqb. simpl. intros H.
  apply andb_true_iff in H. destruct H as [H H3]. apply andb_true_iff in H. destruct H as [H1 H2].
  apply String.eqb_eq in H1. apply list_eqb_Z_eq in H2. apply list_eqb_Z_eq in H3. congruence.
Qed.

Lemma arr_stable_eq a : arr_stable a = true -> listify_arr a = a /\ String.eqb (a_dt a) unreadable = false.
Proof.
  unfold arr_stable. intros H. apply andb_true_iff in H. destruct H as [H1 H2].
  split; [apply arr_eqb_eq; exact H1 | apply negb_true_iff; exact H2].
Qed.

Lemma items_stable_eq it : items_stable it = true -> listify_items it = it.
Proof.
  induction it as [|[l a] r IH]; simpl; intros H; [reflexivity|].
  apply andb_true_iff in H. destruct H as [H1 H2].
  unfold listify_items in *. cbn [map fst snd]. rewrite (IH H2).
  destruct (arr_stable_eq a H1) as [E _]. rewrite E. reflexivity.
Qed.

Lemma keyed_stable_eq m : keyed_stable m = true -> listify_keyed m = m.
Proof.
  induction m as [|[k it] r IH]; simpl; intros H; [reflexivity|].
  apply andb_true_iff in H. destruct H as [H1 H2].
  unfold listify_keyed in *. cbn [map fst snd]. rewrite (IH H2), (items_stable_eq it H1). reflexivity.
Qed.

Lemma items_stable_readable it :
  items_stable it = true -> forallb (fun la : string * arr => negb (String.eqb (a_dt (snd la)) unreadable)) it = true.
Proof.
  induction it as [|[l a] r IH]; simpl; intros H; [reflexivity|].
  apply andb_true_iff in H. destruct H as [H1 H2]. rewrite (IH H2).
  destruct (arr_stable_eq a H1) as [_ E]. rewrite E. reflexivity.
Qed.

Lemma keyed_stable_readable m : keyed_stable m = true -> keyed_readable m = true.
Proof.
  induction m as [|[k it] r IH]; simpl; intros H; [reflexivity|].
  apply andb_true_iff in H. destruct H as [H1 H2].
  unfold keyed_readable in *. cbn [forallb snd]. rewrite (IH H2), (items_stable_readable it H1). reflexivity.
Qed.

Lemma keyed_readable_map_keys f m : keyed_readable (map_keys f m) = keyed_readable m.
Proof.
  unfold keyed_readable, map_keys. induction m as [|[k it] r IH]; simpl; [reflexivity|]. rewrite IH. reflexivity.
Qed.

(* a tree's own flattening already contains every ancestor: DataTree.from_dict has nothing to add *)
Lemma close_paths_closed m : paths_closed m = true -> close_paths m = m.
Proof.
  unfold paths_closed, close_paths. destruct (missing_groups m); [|discriminate].
  intros _. simpl. apply app_nil_r.
Qed.

(* ---------------------------------------------------------------- group structure of a tree
   Whatever the dtypes: every group of the tree (also one without any data variable: coordinates only, attributes
   only, nothing at all) comes back, under its own path, with every entry it had, the same shapes and the same values. *)
Lemma listify_items_skeleton it :
  map (fun la : string * arr => (fst la, a_sh (snd la), a_v (snd la))) (listify_items it) =
  map (fun la : string * arr => (fst la, a_sh (snd la), a_v (snd la))) it.
Proof.
  unfold listify_items. rewrite map_map. apply map_ext. intros [l a]. simpl.
  unfold listify_arr. destruct (has_zero (a_sh a)); [|reflexivity].
  destruct (list_eqb Z.eqb (upto_zero (a_sh a)) (a_sh a)); reflexivity.
Qed.

Lemma keyed_skeleton_listify m : keyed_skeleton (listify_keyed m) = keyed_skeleton m.
Proof.
  unfold keyed_skeleton, listify_keyed. rewrite map_map. apply map_ext. intros [k it]. simpl.
  rewrite listify_items_skeleton. reflexivity.
Qed.

Lemma listify_map_keys f m : listify_keyed (map_keys f m) = map_keys f (listify_keyed m).
Proof. unfold listify_keyed, map_keys. rewrite !map_map. reflexivity. Qed.

Lemma map_keys_inv_gen a b (m : keyed) :
  forallb (fun kv => negb (has_char b (fst kv))) m = true ->
  map_keys (replace_char b a) (map_keys (replace_char a b) m) = m.
Proof.
  induction m as [|[k v] r IH]; intros H; [reflexivity|].
  cbn [forallb fst] in H. apply andb_true_iff in H. destruct H as [Hk Hr]. specialize (IH Hr).
  apply negb_true_iff in Hk.
  unfold map_keys in *. cbn [map fst snd]. rewrite IH, (replace_inv a b k Hk). reflexivity.
Qed.

Lemma existsb_map_fst {A} (g : string -> bool) (m : list (string * A)) :
  existsb (fun kv => g (fst kv)) m = existsb g (map fst m).
Proof. induction m as [|x r IH]; simpl; [reflexivity|]. rewrite IH. reflexivity. Qed.

Lemma missing_groups_keys (m m' : keyed) : map fst m = map fst m' -> missing_groups m = missing_groups m'.
Proof.
  intros E. unfold missing_groups. f_equal.
  assert (F : flat_map (fun kv : string * items => ancestors (fst kv)) m =
              flat_map (fun kv : string * items => ancestors (fst kv)) m').
  { rewrite !flat_map_concat_map. f_equal.
    rewrite <- (map_map fst ancestors m), <- (map_map fst ancestors m'), E. reflexivity. }
  rewrite F. apply filter_ext. intros a. f_equal.
  unfold has_key.
  rewrite (existsb_map_fst (String.eqb a) m), (existsb_map_fst (String.eqb a) m'), E.
  reflexivity.
Qed.

Lemma listify_keys m : map fst (listify_keyed m) = map fst m.
Proof. unfold listify_keyed. rewrite map_map. reflexivity. Qed.

Theorem tree_trip_skeleton a b (m : keyed) :
  forallb (fun kv => negb (has_char b (fst kv))) m = true -> paths_closed m = true ->
  keyed_skeleton (tree_trip a b m) = keyed_skeleton m.
Proof.
  intros Hn Hc. unfold tree_trip.
  rewrite listify_map_keys.
  assert (Hn' : forallb (fun kv : string * items => negb (has_char b (fst kv))) (listify_keyed m) = true).
  { clear Hc. induction m as [|[k it] r IH]; [reflexivity|]. cbn [forallb fst listify_keyed map] in *.
    apply andb_true_iff in Hn. destruct Hn as [H1 H2]. simpl. rewrite H1. apply IH; exact H2. }
  rewrite (map_keys_inv_gen a b _ Hn').
  assert (Hc' : paths_closed (listify_keyed m) = true).
  { unfold paths_closed in *. rewrite (missing_groups_keys (listify_keyed m) m (listify_keys m)). exact Hc. }
  rewrite (close_paths_closed _ Hc'). apply keyed_skeleton_listify.
Qed.

(* ... and it is exactly what from_dict gets for the processed data *)
Lemma dec_enc_data_is_tree_trip tb m :
  m <> [] ->
  dec tb FData (Some (hash, slash)) (backend_conv (enc tb FData (Some (slash, hash)) (Some (PKeyed m)))) =
  Some (PKeyed (tree_trip slash hash m)).
Proof.
  intros Hne. simpl. unfold tree_trip. unfold apply_esc.
  destruct (listify_keyed (map_keys (replace_char slash hash) m)) eqn:Q.
  - unfold listify_keyed, map_keys in Q. destruct m; [contradiction|discriminate].
  - reflexivity.
Qed.

(* ---------------------------------------------------------------- per-container payload round-trips *)
Definition esc_cond (f : field) (ew er : esc) : bool :=
  match f with FData | FScene => esc_is ew slash hash && esc_is er hash slash | _ => true end.

Lemma photon_keys tb T :
  header_ok tb T = true ->
  fst (t_photon_w tb) = fst (t_photon_r tb) /\ snd (t_photon_w tb) = snd (t_photon_r tb) /\
  String.eqb (fst (t_photon_r tb)) (snd (t_photon_w tb)) = false /\
  t_photon_esc_w tb = Some (slash, hash) /\ t_photon_esc_r tb = Some (hash, slash).
Proof.
  unfold header_ok. intros H.
  repeat (apply andb_true_iff in H; destruct H as [H ?]).
  repeat split.
  - apply String.eqb_eq; assumption.
  - apply String.eqb_eq; assumption.
  - apply negb_true_iff; assumption.
  - apply esc_is_eq; assumption.
  - apply esc_is_eq; assumption.
Qed.

(* what from_dict reads back from what to_dict + the backend's Dataset conversion wrote, per container *)
Lemma dec_enc_dict tb T f ew er o :
  header_ok tb T = true -> esc_cond f ew er = true ->
  wf_shape T f o -> restr_dict f o ->
  dec tb f er (backend_conv (enc tb f ew o)) = o.
Proof.
  intros Hh He Hs Hr.
  destruct (photon_keys tb T Hh) as (K1 & K2 & K3 & K4 & K5).
  destruct o as [p|].
  - destruct Hs as [_ Hs].
    destruct f, p; simpl in Hs; try contradiction; simpl.
    + (* photon 2-D *) rewrite K1, String.eqb_refl. reflexivity.
    + (* photon 3-D *) rewrite K3. rewrite K2, String.eqb_refl. rewrite K4, K5.
      simpl in Hr. destruct Hr as [Hn Hst]. rewrite (keyed_stable_eq m Hst), (map_keys_inv m Hn). reflexivity.
    + reflexivity. + reflexivity. + reflexivity. + reflexivity.
    + (* data *) simpl in He. apply andb_true_iff in He. destruct He as [E1 E2].
      apply esc_is_eq in E1. apply esc_is_eq in E2. subst ew er. simpl in Hr. destruct Hr as [Hn Hst].
      destruct Hs as [Hne Hcl].
      assert (Q : listify_keyed (map_keys (apply_esc (Some (slash, hash))) m) =
                  map_keys (apply_esc (Some (slash, hash))) (listify_keyed m)).
      { unfold listify_keyed, map_keys. rewrite !map_map. reflexivity. }
      rewrite Q, (keyed_stable_eq m Hst).
      destruct (map_keys (apply_esc (Some (slash, hash))) m) eqn:Q2.
      * apply map_keys_nil_inv in Q2. contradiction.
      * rewrite <- Q2. rewrite (map_keys_inv m Hn), (close_paths_closed m Hcl). reflexivity.
    + reflexivity.
    + (* frame *) destruct idx; [contradiction|reflexivity].
    + (* scene *) simpl in He. apply andb_true_iff in He. destruct He as [E1 E2].
      apply esc_is_eq in E1. apply esc_is_eq in E2. subst ew er. simpl in Hr. destruct Hr as [Hn Hst].
      destruct Hs as [Hne Hcl].
      rewrite (keyed_stable_eq m Hst).
      assert (Q : listify_keyed (map_keys (apply_esc (Some (slash, hash))) m) =
                  map_keys (apply_esc (Some (slash, hash))) (listify_keyed m)).
      { unfold listify_keyed, map_keys. rewrite !map_map. reflexivity. }
      rewrite Q, (keyed_stable_eq m Hst).
      destruct (map_keys (apply_esc (Some (slash, hash))) m) eqn:Q2.
      * apply map_keys_nil_inv in Q2. contradiction.
      * rewrite <- Q2. rewrite (map_keys_inv m Hn), (close_paths_closed m Hcl). reflexivity.
  - destruct f; simpl; reflexivity.
Qed.

Lemma file_conv_enc_not_frame tb f ew o :
  f <> FChargeFrame -> file_conv tb (enc tb f ew o) = backend_conv (enc tb f ew o).
Proof.
  intros Hf. destruct f; try congruence; destruct o as [[?|?|? ?]|]; reflexivity.
Qed.

Lemma dec_enc_file tb T f ew er o :
  header_ok tb T = true -> esc_cond f ew er = true ->
  wf_shape T f o -> restr_file tb f o ->
  dec tb f er (file_conv tb (enc tb f ew o)) = o.
Proof.
  intros Hh He Hs [Hr Hi].
  destruct f;
    try (rewrite file_conv_enc_not_frame by discriminate; eapply dec_enc_dict; eassumption).
  (* the cluster table *)
  destruct o as [p|]; [|simpl; destruct (t_frame_index_kept tb); reflexivity].
  destruct Hs as [_ Hs]. destruct p; simpl in Hs; try contradiction.
  simpl. destruct Hi as [Hi|Hi].
  - rewrite Hi. destruct idx; [contradiction|reflexivity].
  - rewrite <- Hi. destruct (t_frame_index_kept tb); (destruct idx; [contradiction|reflexivity]).
Qed.

(* nothing that was written is unreadable (Dataset.from_dict does not raise) *)
Lemma enc_readable_dict tb T f ew o :
  wf_shape T f o -> restr_dict f o -> dval_readable (backend_conv (enc tb f ew o)) = true.
Proof.
  intros Hs Hr. destruct o as [p|].
  - destruct Hs as [_ Hs].
    destruct f, p; simpl in Hs; try contradiction; simpl; try reflexivity.
    + (* photon 3-D *) destruct Hr as [_ Hst].
      rewrite keyed_readable_map_keys, (keyed_stable_eq m Hst), (keyed_stable_readable m Hst). reflexivity.
    + (* data *) destruct Hr as [_ Hst].
      assert (Q : listify_keyed (map_keys (apply_esc ew) m) = map_keys (apply_esc ew) (listify_keyed m)).
      { unfold listify_keyed, map_keys. rewrite !map_map. reflexivity. }
      rewrite Q, keyed_readable_map_keys, (keyed_stable_eq m Hst). apply keyed_stable_readable; exact Hst.
    + (* scene *) destruct Hr as [_ Hst].
      assert (Q : listify_keyed (map_keys (apply_esc ew) (listify_keyed m)) =
                  map_keys (apply_esc ew) (listify_keyed (listify_keyed m))).
      { unfold listify_keyed, map_keys. rewrite !map_map. reflexivity. }
      rewrite Q, keyed_readable_map_keys, !(keyed_stable_eq m Hst). apply keyed_stable_readable; exact Hst.
  - destruct f; reflexivity.
Qed.

Lemma enc_readable_file tb T f ew o :
  wf_shape T f o -> restr_dict f o -> dval_readable (file_conv tb (enc tb f ew o)) = true.
Proof.
  intros Hs Hr. destruct f;
    try (rewrite file_conv_enc_not_frame by discriminate; eapply enc_readable_dict; eassumption).
  destruct o as [[?|?|? ?]|]; reflexivity.
Qed.

(* ---------------------------------------------------------------- the reduction lemma *)
Theorem codec_sound_gen tb conv (P : dkind -> field -> option payload -> Prop) T fs :
  (forall f ew er o, applicable T f = true -> P T f o -> esc_cond f ew er = true ->
                     dec tb f er (conv (enc tb f ew o)) = o) ->
  (forall f ew o, P T f o -> dval_readable (conv (enc tb f ew o)) = true) ->
  (forall f o, applicable T f = false -> P T f o -> o = None) ->
  codec_ok tb T fs = true ->
  roundtrip_on (via conv) P tb T fs.
Proof.
  intros Hdec Hread Hna Hok d Hk HP.
  unfold codec_ok in Hok. apply andb_true_iff in Hok. destruct Hok as [Hh Hf].
  pose proof Hh as Hh0.
  unfold header_ok in Hh.
  repeat (apply andb_true_iff in Hh; destruct Hh as [Hh ?]).
  unfold from_dict. simpl p_type. rewrite Hk.
  destruct (lookup_last (t_tag_written tb T) (t_dispatch tb)) as [T'|] eqn:Hd; [|discriminate].
  apply dkind_eqb_eq in Hh. subst T'.
  match goal with H : String.eqb (t_tag_written tb T) (t_tag_guard tb T) = true |- _ => rewrite H end.
  assert (R : forallb (fun kv : string * dval => dval_readable (snd kv)) (p_data (via conv (to_dict tb d))) = true).
  { simpl. rewrite Hk. apply forallb_forall. intros [k v] Hin.
    apply in_map_iff in Hin. destruct Hin as [[k0 v0] [E Hin]]. simpl in E. inversion E; subst k v; clear E.
    apply in_map_iff in Hin. destruct Hin as [[[k1 f1] e1] [E Hin]]. inversion E; subst k0 v0; clear E.
    simpl. apply Hread. apply HP. }
  rewrite R. simpl andb.
  eexists. split; [reflexivity|].
  unfold same_detector_on. simpl d_kind. split; [symmetry; exact Hk|]. split.
  - (* properties *)
    intros pf. simpl.
    assert (Hp : pfield_ok tb T pf = true).
    { match goal with H : forallb (pfield_ok tb T) all_pfields = true |- _ =>
        rewrite forallb_forall in H; apply H end. destruct pf; simpl; auto. }
    unfold pfield_ok in Hp.
    destruct (pwfind pf (t_pwritten tb T)) as [k|]; [|discriminate].
    destruct (plast pf (t_pread tb T)) as [k'|]; [|discriminate].
    apply andb_true_iff in Hp. destruct Hp as [E1 E2]. apply String.eqb_eq in E1. subst k'.
    rewrite Hk. rewrite lookup_props.
    destruct (pwlast k (t_pwritten tb T)) as [pf'|]; [|discriminate].
    apply pfield_eqb_eq in E2. subst pf'. reflexivity.
  - (* containers *)
    intros f Hin. simpl.
    rewrite forallb_forall in Hf. specialize (Hf f Hin).
    unfold field_ok in Hf. destruct (applicable T f) eqn:A.
    + destruct (wfind f (t_written tb T)) as [[[k ?] ?]|]; [|discriminate].
      destruct (rlast f (t_read tb T)) as [[[? k'] er]|]; [|discriminate].
      apply andb_true_iff in Hf. destruct Hf as [E1 E2]. apply String.eqb_eq in E1. subst k'.
      rewrite lookup_via. rewrite Hk. rewrite lookup_written.
      destruct (wlast k (t_written tb T)) as [[[? f'] ew']|]; [|discriminate].
      apply andb_true_iff in E2. destruct E2 as [E2 E3]. apply field_eqb_eq in E2. subst f'.
      simpl. apply Hdec; auto.
    + destruct (rlast f (t_read tb T)); [discriminate|].
      symmetry. eapply Hna; eauto.
Qed.

Definition strict_dict (T : dkind) (f : field) (o : option payload) : Prop := wf_shape T f o /\ restr_dict f o.
Definition strict_file (tb : tables) (T : dkind) (f : field) (o : option payload) : Prop :=
  wf_shape T f o /\ restr_file tb f o.

Lemma wf_shape_not_applicable T f o : applicable T f = false -> wf_shape T f o -> o = None.
Proof. destruct o; simpl; [|reflexivity]. intros A [B _]. congruence. Qed.

(* dictionary route: from_dict (to_dict d) = d on the containers `fs` *)
Theorem codec_sound_dict tb T fs :
  codec_ok tb T fs = true -> roundtrip_on via_dict strict_dict tb T fs.
Proof.
  intros Hok. apply codec_sound_gen; auto.
  - intros f ew er o A [Hs Hr] He.
    apply andb_true_iff in Hok. destruct Hok as [Hh _].
    eapply dec_enc_dict; eauto.
  - intros f ew o [Hs Hr]. eapply enc_readable_dict; eauto.
  - intros f o A [Hs _]. eapply wf_shape_not_applicable; eauto.
Qed.

(* file route: from_dict (from_asdf (to_asdf (to_dict d))) = d on the containers `fs` *)
Theorem codec_sound_file tb T fs :
  codec_ok tb T fs = true -> roundtrip_on (via_file tb) (strict_file tb) tb T fs.
Proof.
  intros Hok. apply codec_sound_gen; auto.
  - intros f ew er o A [Hs Hr] He.
    apply andb_true_iff in Hok. destruct Hok as [Hh _].
    eapply dec_enc_file; eauto.
  - intros f ew o [Hs [Hr _]]. eapply enc_readable_file; eauto.
  - intros f o A [Hs _]. eapply wf_shape_not_applicable; eauto.
Qed.

(* every subset of initialised containers is covered: the hypothesis of roundtrip_on is satisfied by the
   detector with NO container initialised and is independent for each container *)
Lemma strict_none tb T f : strict_file tb T f None.
Proof. repeat split. Qed.

(* once the backend keeps the row labels, the file route needs nothing beyond the dictionary route *)
Theorem codec_sound_file_kept tb T fs :
  t_frame_index_kept tb = true ->
  codec_ok tb T fs = true -> roundtrip_on (via_file tb) strict_dict tb T fs.
Proof.
  intros Hk Hok d Hd HP.
  apply (codec_sound_file tb T fs Hok d Hd).
  intros f. destruct (HP f) as [Hs Hr]. split; [exact Hs|]. split; [exact Hr|].
  destruct (d_cont d f) as [[?|?|? ?]|]; auto.
Qed.

(* save_detector; ...; load_detector: the later models see the saved containers *)
Theorem load_sees_saved tb T fs :
  t_frame_index_kept tb = true -> codec_ok tb T fs = true ->
  (forall f, existsb (field_eqb f) (t_load_assigned tb) = true) ->
  forall d running, d_kind d = T -> (forall f, strict_dict T f (d_cont d f)) ->
  exists loaded, from_dict tb (via_file tb (to_dict tb d)) = Some loaded /\
                 forall f, In f fs -> d_cont (load_detector_effect tb running loaded) f = d_cont d f.
Proof.
  intros Hk Hok Hall d running Hd HP.
  destruct (codec_sound_file_kept tb T fs Hk Hok d Hd HP) as [l [E [_ [_ Q]]]].
  exists l. split; [exact E|]. intros f Hin. simpl. rewrite (Hall f). apply Q; exact Hin.
Qed.

Theorem load_sees_saved_all tb T :
  t_frame_index_kept tb = true -> codec_ok tb T all_fields = true ->
  forallb (fun f => existsb (field_eqb f) (t_load_assigned tb)) all_fields = true ->
  forall d running, d_kind d = T -> (forall f, strict_dict T f (d_cont d f)) ->
  exists loaded, from_dict tb (via_file tb (to_dict tb d)) = Some loaded /\
                 forall f, d_cont (load_detector_effect tb running loaded) f = d_cont d f.
Proof.
  intros Hk Hok Hall d running Hd HP.
  assert (Hall' : forall f, existsb (field_eqb f) (t_load_assigned tb) = true).
  { intros f. rewrite forallb_forall in Hall. apply Hall. destruct f; simpl; auto 10. }
  destruct (load_sees_saved tb T all_fields Hk Hok Hall' d running Hd HP) as [l [E Q]].
  exists l. split; [exact E|]. intros f. apply Q. destruct f; simpl; auto 10.
Qed.

(* ---------------------------------------------------------------- load_detector *)
Theorem load_replaces_iff tb :
  load_replaces tb <-> forallb (fun f => existsb (field_eqb f) (t_load_assigned tb)) all_fields = true.
Proof.
  unfold load_replaces. split.
  - intros H. apply forallb_forall. intros f _.
    destruct (existsb (field_eqb f) (t_load_assigned tb)) eqn:E; [reflexivity|].
    (* running has nothing, the file has a pixel array in f: they must agree, contradiction *)
    specialize (H (mk_det CCD (fun _ => []) (fun _ => None))
                  (mk_det CCD (fun _ => []) (fun _ => Some (PArr (mk_arr "" [] [])))) f).
    simpl in H. rewrite E in H. discriminate.
  - intros H running file f. simpl.
    rewrite forallb_forall in H.
    rewrite (H f); [reflexivity|]. destruct f; simpl; auto 10.
Qed.

(* with no assignment into the passed detector the model is a no-op on it *)
Theorem load_noop tb :
  t_load_assigned tb = [] -> forall running file f,
  d_cont (load_detector_effect tb running file) f = d_cont running f.
Proof. intros H running file f. simpl. rewrite H. reflexivity. Qed.
