(* C08 — eval_entry round trip for literal texts WITH sequences: quoted strings, lists and tuples (nested to any depth)
   of integers, decimals, booleans, None and quoted strings, written the way Python prints them. *)
From Coq Require Import Decimal DecimalString DecimalPos DecimalFacts.
From Coq Require Import ZArith List Bool String Ascii Lia.
From PyxelV Require Import Model.Keys Proofs.KeysLit.
Import ListNotations.
Open Scope string_scope.
Open Scope list_scope.

(* ------------------------------------------------------------------------------------ induction on lval *)

Section lval_induction.
  Variable P : lval -> Prop.
  Hypothesis HS : forall x, P (LS x).
  Hypothesis HQ : forall s, P (LQ s).
  Hypothesis HL : forall l, Forall P l -> P (LL l).
  Hypothesis HT : forall l, Forall P l -> P (LT l).
  Fixpoint lval_rect' (v : lval) : P v :=
    match v with
    | LS x => HS x
    | LQ s => HQ s
    | LL l => HL l ((fix go (l : list lval) : Forall P l :=
                       match l with [] => Forall_nil P | x :: r => Forall_cons x (lval_rect' x) (go r) end) l)
    | LT l => HT l ((fix go (l : list lval) : Forall P l :=
                       match l with [] => Forall_nil P | x :: r => Forall_cons x (lval_rect' x) (go r) end) l)
    end.
End lval_induction.

(* ------------------------------------------------------------------------------------ scanning (split_top) *)

(* a text that split_top walks over without changing its state: depth and quote are the same before and after, and no
   comma of the text is a top-level comma *)
Definition closed (e : lstr) : Prop :=
  forall rest d cur acc, split_top (e ++ rest) d None cur acc = split_top rest d None (rev e ++ cur) acc.

(* the same below a bracket (depth >= 1), where a comma is an ordinary character *)
Definition closed_in (e : lstr) : Prop :=
  forall rest d cur acc, split_top (e ++ rest) (S d) None cur acc = split_top rest (S d) None (rev e ++ cur) acc.

Lemma closed_closed_in e : closed e -> closed_in e.
Proof. intros H rest d cur acc. apply H. Qed.

Lemma closed_nil : closed [].
Proof. intros rest d cur acc. reflexivity. Qed.

Lemma closed_app a b : closed a -> closed b -> closed (a ++ b).
Proof.
  intros Ha Hb rest d cur acc. rewrite <- app_assoc, Ha, Hb, rev_app_distr, app_assoc. reflexivity.
Qed.

Lemma closed_in_app a b : closed_in a -> closed_in b -> closed_in (a ++ b).
Proof.
  intros Ha Hb rest d cur acc. rewrite <- app_assoc, Ha, Hb, rev_app_distr, app_assoc. reflexivity.
Qed.

Definition plain_char (c : ascii) : bool :=
  negb (aeq c ("'"%char)) && negb (aeq c """"%char) && negb (aeq c ("["%char)) && negb (aeq c ("("%char))
  && negb (aeq c ("]"%char)) && negb (aeq c (")"%char)) && negb (aeq c (","%char)).

Lemma plain_step c r d cur acc :
  plain_char c = true -> split_top (c :: r) d None cur acc = split_top r d None (c :: cur) acc.
Proof.
  unfold plain_char. cbn [ch]. intros H.
  repeat (apply andb_true_iff in H; destruct H as [H ?]).
  repeat match goal with H : negb _ = true |- _ => apply negb_true_iff in H end.
  cbn [split_top]. cbn [ch].
  repeat match goal with H : aeq c _ = false |- _ => rewrite H end.
  reflexivity.
Qed.

Lemma closed_plain e : forallb plain_char e = true -> closed e.
Proof.
  induction e as [|c e IH]; [intros _; apply closed_nil|].
  simpl. intros H. apply andb_true_iff in H. destruct H as [Hc He].
  intros rest d cur acc. simpl app. rewrite (plain_step c _ d cur acc Hc).
  rewrite (IH He). simpl. rewrite <- app_assoc. reflexivity.
Qed.

(* inside a bracket the comma and the blank of ", " are ordinary characters *)
Lemma comma_in r d cur acc :
  split_top (","%char :: r) (S d) None cur acc = split_top r (S d) None (","%char :: cur) acc.
Proof. reflexivity. Qed.

Lemma closed_in_sep : closed_in [","%char; " "%char].
Proof. intros rest d cur acc. reflexivity. Qed.

Lemma closed_in_comma : closed_in [","%char].
Proof. intros rest d cur acc. reflexivity. Qed.

(* a quoted text *)
Lemma scan_quoted s : no_char ("'"%char) s = true ->
  forall rest d cur acc,
    split_top (s ++ "'"%char :: rest) d (Some ("'"%char)) cur acc = split_top rest d None ("'"%char :: rev s ++ cur) acc.
Proof.
  induction s as [|c s IH]; intros H rest d cur acc.
  - reflexivity.
  - cbn [no_char] in H. apply andb_true_iff in H. destruct H as [Hc Hs]. apply negb_true_iff in Hc.
    cbn [app split_top]. cbn [ch]. rewrite Hc. rewrite (IH Hs). cbn [rev]. rewrite <- !app_assoc. reflexivity.
Qed.

Lemma closed_quoted s : no_char "'"%char s = true -> closed ("'"%char :: s ++ ["'"%char]).
Proof.
  intros H rest d cur acc.
  change (("'"%char :: s ++ ["'"%char]) ++ rest) with ("'"%char :: (s ++ ["'"%char]) ++ rest).
  rewrite <- app_assoc. change (["'"%char] ++ rest) with ("'"%char :: rest).
  transitivity (split_top (s ++ "'"%char :: rest) d (Some "'"%char) ("'"%char :: cur) acc); [reflexivity|].
  rewrite (scan_quoted s H). cbn [rev]. rewrite rev_app_distr. cbn [rev app]. rewrite <- !app_assoc. reflexivity.
Qed.

(* a bracketed text whose inside is closed below a bracket *)
Lemma closed_bracket (o c : ascii) inner :
  (o = "["%char /\ c = "]"%char) \/ (o = "("%char /\ c = ")"%char) ->
  closed_in inner -> closed (o :: inner ++ [c]).
Proof.
  intros Hoc Hin rest d cur acc.
  change ((o :: inner ++ [c]) ++ rest) with (o :: (inner ++ [c]) ++ rest).
  rewrite <- app_assoc. change ([c] ++ rest) with (c :: rest).
  transitivity (split_top (inner ++ c :: rest) (S d) None (o :: cur) acc);
    [destruct Hoc as [[-> _]|[-> _]]; reflexivity|].
  rewrite Hin.
  transitivity (split_top rest d None (c :: rev inner ++ o :: cur) acc);
    [destruct Hoc as [[_ ->]|[_ ->]]; reflexivity|].
  cbn [rev]. rewrite rev_app_distr. cbn [rev app]. rewrite <- !app_assoc. reflexivity.
Qed.

Lemma closed_in_joinl es : Forall closed es -> closed_in (joinl es).
Proof.
  induction es as [|e r IH]; intros H.
  - apply closed_closed_in, closed_nil.
  - inversion H as [|? ? He Hr]; subst. destruct r as [|e2 r'].
    + simpl. apply closed_closed_in, He.
    + change (joinl (e :: e2 :: r')) with (e ++ [","%char; " "%char] ++ joinl (e2 :: r')).
      apply closed_in_app; [apply closed_closed_in, He|]. apply closed_in_app; [apply closed_in_sep|]. apply IH, Hr.
Qed.

(* ------------------------------------------------------------------------------------ the texts are closed *)

Lemma digit_plain c : is_digit c = true -> plain_char c = true.
Proof. destruct c as [[] [] [] [] [] [] [] []]; vm_compute; congruence. Qed.

Lemma alpha_plain c : is_alpha c = true -> plain_char c = true.
Proof. destruct c as [[] [] [] [] [] [] [] []]; vm_compute; congruence. Qed.

Lemma digits_plain l : all_digits l = true -> forallb plain_char l = true.
Proof.
  induction l as [|c r IH]; simpl; auto. intros H. apply andb_true_iff in H. destruct H as [Hc Hr].
  rewrite (digit_plain c Hc). simpl. auto.
Qed.

Lemma zchars_plain z : forallb plain_char (zchars z) = true.
Proof.
  destruct (mchars_ok z) as (Ha & _). pose proof (digits_plain _ Ha) as H.
  unfold zchars. destruct z; simpl; auto.
Qed.

Lemma scalar_plain x :
  (match x with LWord _ => false | _ => true end) = true ->
  forallb plain_char (list_ascii_of_string (render_lit x)) = true.
Proof.
  destruct x as [z|m e|b| |s]; simpl; try discriminate; intros _.
  - rewrite render_int_chars. apply zchars_plain.
  - rewrite list_ascii_app. cbn [list_ascii_of_string]. rewrite !render_int_chars, forallb_app.
    cbn [forallb]. rewrite !zchars_plain. reflexivity.
  - destruct b; reflexivity.
  - reflexivity.
Qed.

Lemma wf_quoted s : qtext_ok s = true -> no_char ("'"%char) s = true.
Proof. unfold qtext_ok. intros H. apply andb_true_iff in H. destruct H as [H _]. apply andb_true_iff in H. tauto. Qed.

Lemma closed_rl : forall v, lval_wf true v = true -> closed (rl v).
Proof.
  induction v as [x|s|l IH|l IH] using lval_rect'; simpl; intros Hw.
  - apply closed_plain, scalar_plain. destruct x; simpl in *; auto.
  - apply closed_quoted, wf_quoted, Hw.
  - apply (closed_bracket ("["%char) ("]"%char)); [left; auto|]. apply closed_in_joinl.
    rewrite forallb_forall in Hw. rewrite Forall_forall in *. intros e He.
    apply in_map_iff in He. destruct He as (x & <- & Hx). apply IH; auto.
  - assert (Hj : closed_in (joinl (map rl l))).
    { apply closed_in_joinl. rewrite forallb_forall in Hw. rewrite Forall_forall in *. intros e He.
      apply in_map_iff in He. destruct He as (x & <- & Hx). apply IH; auto. }
    rewrite app_assoc. apply (closed_bracket ("("%char) (")"%char)); [right; auto|].
    apply closed_in_app; [exact Hj|]. destruct l as [|a [|b r]]; try (apply closed_closed_in, closed_nil).
    apply closed_in_comma.
Qed.

(* ------------------------------------------------------------------------------------ splitting at top level *)

Fixpoint parts (pre : lstr) (es : list lstr) : list lstr :=
  match es with
  | [] => [pre]
  | [e] => [pre ++ e]
  | e :: r => (pre ++ e) :: parts [" "%char] r
  end.

Lemma split_join : forall es, es <> [] -> Forall closed es ->
  forall cur acc, split_top (joinl es) 0 None cur acc = Some (rev acc ++ parts (rev cur) es).
Proof.
  induction es as [|e r IH]; [congruence|]. intros _ H cur acc.
  inversion H as [|? ? He Hr]; subst. destruct r as [|e2 r'].
  - simpl joinl. rewrite <- (app_nil_r e) at 1. rewrite He. cbn [split_top parts].
    rewrite rev_app_distr, rev_involutive. reflexivity.
  - change (joinl (e :: e2 :: r')) with (e ++ ","%char :: " "%char :: joinl (e2 :: r')).
    rewrite He.
    change (split_top (","%char :: " "%char :: joinl (e2 :: r')) 0 None (rev e ++ cur) acc)
      with (split_top (joinl (e2 :: r')) 0 None [" "%char] (rev (rev e ++ cur) :: acc)).
    rewrite IH by (congruence || assumption).
    cbn [parts rev]. rewrite rev_app_distr, rev_involutive. rewrite <- app_assoc. reflexivity.
Qed.

(* ------------------------------------------------------------------------------------ trimming *)

Definition ends_ok (e : lstr) : Prop :=
  e <> [] /\ is_space (hd (" "%char) e) = false /\ is_space (hd (" "%char) (rev e)) = false.

Lemma ltrim_head e : e <> [] -> is_space (hd (" "%char) e) = false -> ltrim e = e.
Proof. destruct e as [|c r]; [congruence|]. simpl. intros _ ->. reflexivity. Qed.

Lemma trim_ends e : ends_ok e -> trim e = e.
Proof.
  intros (Hn & Hh & Hl). unfold trim, rtrim. rewrite (ltrim_head e Hn Hh).
  rewrite ltrim_head; [apply rev_involutive| |exact Hl].
  intros E. apply Hn. rewrite <- (rev_involutive e), E. reflexivity.
Qed.

Lemma trim_blank_ends e : ends_ok e -> trim (" "%char :: e) = e.
Proof.
  intros H. pose proof H as (Hn & Hh & Hl). unfold trim, rtrim.
  change (ltrim (" "%char :: e)) with (ltrim e). rewrite (ltrim_head e Hn Hh).
  rewrite ltrim_head; [apply rev_involutive| |exact Hl].
  intros E. apply Hn. rewrite <- (rev_involutive e), E. reflexivity.
Qed.

Lemma nonspace_ends e : e <> [] -> nonspace e = true -> ends_ok e.
Proof.
  intros Hn Hs. unfold nonspace in Hs. rewrite forallb_forall in Hs. repeat split; auto.
  - destruct e as [|c r]; [congruence|]. simpl. apply negb_true_iff, Hs. left. reflexivity.
  - destruct (rev e) as [|c r] eqn:E.
    + exfalso. apply Hn. rewrite <- (rev_involutive e), E. reflexivity.
    + simpl. apply negb_true_iff, Hs. apply in_rev. rewrite E. left. reflexivity.
Qed.

Lemma ends_wrap (o c : ascii) inner : is_space o = false -> is_space c = false -> ends_ok (o :: inner ++ [c]).
Proof.
  intros Ho Hc. repeat split; [discriminate|exact Ho|].
  simpl. rewrite rev_app_distr. simpl. exact Hc.
Qed.

Lemma scalar_nonspace x : lit_wf x = true -> nonspace (list_ascii_of_string (render_lit x)) = true.
Proof.
  destruct x as [z|m e|b| |s]; simpl; intros Hw.
  - rewrite render_int_chars. apply zchars_nonspace.
  - rewrite list_ascii_app. cbn [list_ascii_of_string]. rewrite !render_int_chars.
    apply nonspace_app; [apply zchars_nonspace|].
    change ("e"%char :: zchars e) with (["e"%char] ++ zchars e). apply nonspace_app; [reflexivity|apply zchars_nonspace].
  - destruct b; reflexivity.
  - reflexivity.
  - unfold bare_word in Hw. repeat (apply andb_true_iff in Hw; destruct Hw as [Hw ?]).
    apply all_alpha_nonspace. destruct (list_ascii_of_string s); [discriminate|assumption].
Qed.

Lemma scalar_nonempty x : lit_wf x = true -> list_ascii_of_string (render_lit x) <> [].
Proof.
  destruct x as [z|m e|b| |s]; simpl; intros Hw.
  - rewrite render_int_chars. destruct (zchars_shape z) as (c & r & -> & _). discriminate.
  - rewrite list_ascii_app, render_int_chars. destruct (zchars_shape m) as (c & r & -> & _). discriminate.
  - destruct b; discriminate.
  - discriminate.
  - unfold bare_word in Hw. repeat (apply andb_true_iff in Hw; destruct Hw as [Hw ?]).
    destruct (list_ascii_of_string s); [discriminate|discriminate].
Qed.

Lemma wf_inside_lit x : lval_wf true (LS x) = true -> lit_wf x = true.
Proof. destruct x; simpl; auto. discriminate. Qed.

Lemma ends_rl v : lval_wf true v = true -> ends_ok (rl v).
Proof.
  destruct v as [x|s|l|l]; intros Hw.
  - pose proof (wf_inside_lit x Hw) as Hx. apply nonspace_ends; [apply scalar_nonempty|apply scalar_nonspace]; assumption.
  - apply ends_wrap; reflexivity.
  - apply ends_wrap; reflexivity.
  - simpl rl. rewrite app_assoc. apply ends_wrap; reflexivity.
Qed.

(* ------------------------------------------------------------------------------------ parsing sequences *)

Fixpoint depth (v : lval) : nat :=
  match v with
  | LS _ | LQ _ => 1
  | LL l | LT l => S (fold_right (fun x m => Nat.max (depth x) m) 0 l)
  end.

Lemma depth_in x l : In x l -> depth x <= fold_right (fun x m => Nat.max (depth x) m) 0 l.
Proof.
  induction l as [|a r IH]; simpl; [tauto|]. intros [->|H]; [lia|]. specialize (IH H). lia.
Qed.

(* a scalar element *)
Lemma parse_scalar f x :
  lit_wf x = true -> (match x with LWord _ => false | _ => true end) = true ->
  parse_lit (S f) (list_ascii_of_string (render_lit x)) = Some (lit_val x).
Proof.
  destruct x as [z|m e|b| |s]; simpl; intros _ Hx; try discriminate.
  - apply parse_lit_int.
  - apply parse_lit_dec.
  - destruct b; reflexivity.
  - reflexivity.
Qed.

Lemma parse_quoted_text f s :
  qtext_ok s = true -> parse_lit (S f) ("'"%char :: s ++ ["'"%char]) = Some (VStr (string_of_list_ascii s)).
Proof.
  intros Hq. cbn [parse_lit]. rewrite (trim_ends _ (ends_wrap ("'"%char) ("'"%char) s eq_refl eq_refl)).
  cbn [aeq ch Ascii.eqb Bool.eqb andb]. cbv iota.
  unfold parse_atom, word_is.
  cbn [string_of_list_ascii String.eqb Ascii.eqb Bool.eqb andb]. cbv iota.
  unfold parse_quoted. cbn [aeq ch Ascii.eqb Bool.eqb andb orb]. cbv iota.
  rewrite rev_app_distr. cbn [rev app]. rewrite rev_involutive.
  unfold qtext_ok in Hq. cbn [aeq ch Ascii.eqb Bool.eqb andb] in *. rewrite Hq. reflexivity.
Qed.

Lemma all_some_map {A B} (f : A -> option B) (g : A -> B) l :
  (forall a, In a l -> f a = Some (g a)) -> all_some (map f l) = Some (map g l).
Proof.
  induction l as [|a r IH]; simpl; [reflexivity|]. intros H.
  rewrite (H a (or_introl eq_refl)), IH by (intros; apply H; right; assumption). reflexivity.
Qed.

(* the parts of a joined sequence are its elements, the later ones after a blank *)
Lemma parts_parse f pre (l : list lval) :
  (pre = [] \/ pre = [" "%char]) ->
  (forall x, In x l -> lval_wf true x = true /\ parse_lit f (rl x) = Some (lval_val x) /\ f <> O) ->
  l <> [] ->
  all_some (map (parse_lit f) (parts pre (map rl l))) = Some (map lval_val l).
Proof.
  revert pre. induction l as [|x r IH]; [congruence|]. intros pre Hpre H _.
  destruct (H x (or_introl eq_refl)) as (Hw & Hp & Hf).
  assert (Hx : parse_lit f (pre ++ rl x) = Some (lval_val x)).
  { destruct f as [|f']; [congruence|]. destruct Hpre as [-> | ->]; [exact Hp|].
    cbn [parse_lit] in *. simpl app. rewrite (trim_blank_ends _ (ends_rl x Hw)).
    rewrite (trim_ends _ (ends_rl x Hw)) in Hp. exact Hp. }
  destruct r as [|y r'].
  - simpl. rewrite Hx. reflexivity.
  - change (parts pre (map rl (x :: y :: r'))) with ((pre ++ rl x) :: parts [" "%char] (map rl (y :: r'))).
    rewrite (map_cons (parse_lit f)). cbn [all_some]. rewrite Hx.
    rewrite (IH [" "%char]); [reflexivity|right; reflexivity| |discriminate].
    intros z Hz. apply H. right. exact Hz.
Qed.

Lemma is_blank_ends e pre : ends_ok e -> (pre = [] \/ pre = [" "%char]) -> is_blank (pre ++ e) = false.
Proof.
  intros (Hn & Hh & _) Hp. unfold is_blank.
  assert (E : ltrim (pre ++ e) = e) by (destruct Hp as [-> | ->]; simpl; apply ltrim_head; assumption).
  rewrite E. destruct e; [congruence|reflexivity].
Qed.

Lemma last_parts pre es d : es <> [] -> exists pre' e, last (parts pre es) d = pre' ++ e /\ In e es /\ (pre' = pre \/ pre' = [" "%char]).
Proof.
  revert pre. induction es as [|e r IH]; [congruence|]. intros pre _. destruct r as [|e2 r'].
  - exists pre, e. simpl. auto.
  - change (parts pre (e :: e2 :: r')) with ((pre ++ e) :: parts [" "%char] (e2 :: r')).
    destruct (IH [" "%char]) as (p' & e' & Hl & Hi & Hp); [discriminate|].
    exists p', e'. split; [|split; [right; exact Hi|destruct Hp; auto]].
    destruct (parts [" "%char] (e2 :: r')) eqn:E; [destruct r'; discriminate|]. exact Hl.
Qed.

Lemma joinl_ends (l : list lval) :
  l <> [] -> (forall x, In x l -> lval_wf true x = true) -> is_blank (joinl (map rl l)) = false.
Proof.
  destruct l as [|x r]; [congruence|]. intros _ H.
  pose proof (ends_rl x (H x (or_introl eq_refl))) as E.
  destruct r as [|y r'].
  - simpl. apply (is_blank_ends _ []); auto.
  - change (joinl (map rl (x :: y :: r'))) with (rl x ++ ","%char :: " "%char :: joinl (map rl (y :: r'))).
    destruct E as (Hn & Hh & _). unfold is_blank.
    destruct (rl x) as [|c t]; [congruence|]. simpl in *. rewrite Hh. reflexivity.
Qed.

Lemma head_rev_blank (l : list lstr) :
  is_blank (last l []) = false -> match rev l with p :: _ => is_blank p | [] => false end = false.
Proof.
  destruct l as [|a r] using rev_ind; [reflexivity|].
  rewrite last_last, rev_app_distr. simpl. auto.
Qed.

Theorem parse_lval : forall v, lval_wf true v = true -> forall f, depth v <= f -> parse_lit f (rl v) = Some (lval_val v).
Proof.
  induction v as [x|s|l IH|l IH] using lval_rect'; intros Hw f Hf.
  - destruct f as [|f]; [simpl in Hf; lia|]. simpl rl. simpl lval_val.
    apply parse_scalar; [apply wf_inside_lit; exact Hw|]. destruct x; simpl in *; auto.
  - destruct f as [|f]; [simpl in Hf; lia|]. apply parse_quoted_text. exact Hw.
  - (* list *)
    destruct f as [|f]; [simpl in Hf; lia|]. simpl in Hf. apply le_S_n in Hf.
    simpl in Hw. rewrite forallb_forall in Hw. rewrite Forall_forall in IH.
    simpl rl. cbn [parse_lit]. rewrite (trim_ends _ (ends_wrap ("["%char) ("]"%char) _ eq_refl eq_refl)).
    cbn [aeq ch Ascii.eqb Bool.eqb andb]. cbv iota.
    rewrite rev_app_distr. cbn [rev app]. cbn [aeq ch Ascii.eqb Bool.eqb andb]. cbv iota. rewrite rev_involutive.
    destruct l as [|x r] eqn:El.
    + reflexivity.
    + rewrite <- El in *.
      assert (Hne : l <> []) by (rewrite El; discriminate).
      rewrite (joinl_ends l Hne) by (intros; apply Hw; assumption).
      assert (Hc : Forall closed (map rl l)).
      { rewrite Forall_forall. intros e He. apply in_map_iff in He. destruct He as (y & <- & Hy).
        apply closed_rl, Hw, Hy. }
      rewrite split_join; [|rewrite El; discriminate|exact Hc]. cbn [rev app].
      assert (Hlast : is_blank (last (parts [] (map rl l)) []) = false).
      { destruct (last_parts [] (map rl l) []) as (p' & e & -> & Hi & Hp); [rewrite El; discriminate|].
        apply in_map_iff in Hi. destruct Hi as (y & <- & Hy).
        apply is_blank_ends; [apply ends_rl, Hw, Hy|tauto]. }
      assert (Hrev : match rev (parts [] (map rl l)) with p :: _ => is_blank p | [] => false end = false).
      { apply head_rev_blank, Hlast. }
      rewrite Hrev.
      rewrite (parts_parse f [] l); [reflexivity|left; reflexivity| |exact Hne].
      intros y Hy. split; [apply Hw, Hy|]. split.
      * apply IH; [exact Hy|apply Hw, Hy|]. pose proof (depth_in y l Hy). lia.
      * pose proof (depth_in y l Hy). destruct y; simpl in *; lia.
  - (* tuple *)
    destruct f as [|f]; [simpl in Hf; lia|]. simpl in Hf. apply le_S_n in Hf.
    simpl in Hw. rewrite forallb_forall in Hw. rewrite Forall_forall in IH.
    simpl rl. rewrite app_assoc. cbn [parse_lit].
    rewrite (trim_ends _ (ends_wrap ("("%char) (")"%char) _ eq_refl eq_refl)).
    cbn [aeq ch Ascii.eqb Bool.eqb andb]. cbv iota.
    rewrite rev_app_distr. cbn [rev app]. cbn [aeq ch Ascii.eqb Bool.eqb andb]. cbv iota. rewrite rev_involutive.
    destruct l as [|x r] eqn:El.
    + reflexivity.
    + rewrite <- El in *.
      assert (Hne : l <> []) by (rewrite El; discriminate).
      assert (Hc : Forall closed (map rl l)).
      { rewrite Forall_forall. intros e He. apply in_map_iff in He. destruct He as (y & <- & Hy).
        apply closed_rl, Hw, Hy. }
      assert (Hel : forall y, In y l -> lval_wf true y = true /\ parse_lit f (rl y) = Some (lval_val y) /\ f <> 0%nat).
      { intros y Hy. split; [apply Hw, Hy|]. split.
        - apply IH; [exact Hy|apply Hw, Hy|]. pose proof (depth_in y l Hy). lia.
        - pose proof (depth_in y l Hy). destruct y; simpl in *; lia. }
      destruct r as [|x2 r'].
      * (* one element: (x,) *)
        rewrite El. cbn [map joinl].
        assert (Hx : In x l) by (rewrite El; left; reflexivity).
        assert (Hb : is_blank (rl x ++ [","%char]) = false).
        { destruct (ends_rl x (Hw x Hx)) as (Hn & Hh & _). unfold is_blank.
          destruct (rl x) as [|c t]; [congruence|]. simpl in *. rewrite Hh. reflexivity. }
        rewrite Hb.
        pose proof (closed_rl x (Hw x Hx)) as Cx. rewrite Cx.
        cbn [split_top aeq ch Ascii.eqb Bool.eqb andb orb Nat.eqb]. cbv iota.
        cbn [rev app]. rewrite app_nil_r, rev_involutive.
        cbn [is_blank ltrim removelast map all_some].
        destruct (Hel x Hx) as (_ & Hp & _). rewrite Hp. reflexivity.
      * rewrite app_nil_r.
        rewrite (joinl_ends l Hne) by (intros; apply Hw; assumption).
        rewrite split_join; [|rewrite El; discriminate|exact Hc]. cbn [rev app].
        assert (Hlast : is_blank (last (parts [] (map rl l)) []) = false).
        { destruct (last_parts [] (map rl l) []) as (p' & e & -> & Hi & Hp); [rewrite El; discriminate|].
          apply in_map_iff in Hi. destruct Hi as (y & <- & Hy).
          apply is_blank_ends; [apply ends_rl, Hw, Hy|tauto]. }
        assert (Hrev : match rev (parts [] (map rl l)) with p :: _ => is_blank p | [] => false end = false).
        { apply head_rev_blank, Hlast. }
        rewrite Hrev.
        rewrite (parts_parse f [] l); [|left; reflexivity|exact Hel|exact Hne].
        rewrite El. reflexivity.
Qed.

Lemma maxdepth_le_join (l : list lval) :
  (forall x, In x l -> depth x <= List.length (rl x)) ->
  fold_right (fun x m => Nat.max (depth x) m) 0 l <= List.length (joinl (map rl l)).
Proof.
  induction l as [|x r IHl]; intros H; [simpl; lia|].
  assert (Hx : depth x <= List.length (rl x)) by (apply H; left; reflexivity).
  assert (Hr : fold_right (fun x m => Nat.max (depth x) m) 0 r <= List.length (joinl (map rl r)))
    by (apply IHl; intros; apply H; right; assumption).
  destruct r as [|y r'].
  - simpl. lia.
  - change (joinl (map rl (x :: y :: r'))) with (rl x ++ ","%char :: " "%char :: joinl (map rl (y :: r'))).
    remember (joinl (map rl (y :: r'))) as J. remember (y :: r') as R.
    rewrite app_length. cbn [List.length fold_right]. lia.
Qed.

Lemma depth_le_length v : lval_wf true v = true -> depth v <= List.length (rl v).
Proof.
  induction v as [x|s|l IH|l IH] using lval_rect'; intros Hw.
  - pose proof (scalar_nonempty x (wf_inside_lit x Hw)) as H. cbn [depth rl].
    destruct (list_ascii_of_string (render_lit x)); [congruence|simpl; lia].
  - cbn [depth rl List.length]. lia.
  - simpl in Hw. rewrite forallb_forall in Hw. rewrite Forall_forall in IH.
    pose proof (maxdepth_le_join l (fun x Hx => IH x Hx (Hw x Hx))) as H.
    cbn [depth rl List.length]. rewrite app_length. lia.
  - simpl in Hw. rewrite forallb_forall in Hw. rewrite Forall_forall in IH.
    pose proof (maxdepth_le_join l (fun x Hx => IH x Hx (Hw x Hx))) as H.
    cbn [depth rl List.length]. rewrite app_length. lia.
Qed.

(* ------------------------------------------------------------------------------------ the round trip *)

Theorem literal_roundtrip_seq : forall v, lval_wf false v = true -> eval_entry (render_lval v) = Ok (lval_val v).
Proof.
  intros v Hw.
  destruct v as [x|s|l|l].
  - (* a scalar at top level: the scalar theorem (bare words included) *)
    unfold render_lval. simpl rl. rewrite string_of_list_ascii_of_string. simpl lval_val.
    apply literal_roundtrip. destruct x; simpl in *; auto.
  - apply eval_of_parse. unfold render_lval. rewrite list_ascii_of_string_of_list_ascii.
    apply (parse_lval (LQ s)); [exact Hw|]. simpl. lia.
  - apply eval_of_parse. unfold render_lval. rewrite list_ascii_of_string_of_list_ascii.
    assert (Hw' : lval_wf true (LL l) = true) by exact Hw.
    apply parse_lval; [exact Hw'|]. pose proof (depth_le_length (LL l) Hw'). lia.
  - apply eval_of_parse. unfold render_lval. rewrite list_ascii_of_string_of_list_ascii.
    assert (Hw' : lval_wf true (LT l) = true) by exact Hw.
    apply parse_lval; [exact Hw'|]. pose proof (depth_le_length (LT l) Hw'). lia.
Qed.
