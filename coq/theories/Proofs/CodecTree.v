(* C18 — proofs about Model/CodecTree.v: flattening a DataTree into {path: Dataset}, escaping the paths, unescaping
   and rebuilding the tree gives the tree back - for ALL trees (any depth, any number of groups, groups with or
   without content) whose sibling names are distinct and whose names are non-empty and free of '/' and of the
   escape character.  Hence the flattening (+ escaping) is injective. *)
From Coq Require Import ZArith List Bool String Ascii Lia.
From PyxelV Require Import Model.Codec Model.CodecTree Proofs.Codec.
Import ListNotations.
Open Scope string_scope.

(* ---------------------------------------------------------------- induction over nested trees *)
Section dtree_induction.
  Variable P : dtree -> Prop.
  Hypothesis step : forall ds ch, Forall (fun nc => P (snd nc)) ch -> P (DNode ds ch).
  Fixpoint dtree_ind' (t : dtree) : P t :=
    match t with
    | DNode ds ch =>
        step ds ch ((fix go (l : list (string * dtree)) : Forall (fun nc => P (snd nc)) l :=
                       match l with
                       | [] => Forall_nil _
                       | (n, c) :: r => Forall_cons (n, c) (dtree_ind' c) (go r)
                       end) ch)
    end.
End dtree_induction.

(* ---------------------------------------------------------------- the anonymous inner loops, named *)
Definition ins (t : dtree) (e : list string * items) : dtree := insert (fst e) (snd e) t.

Fixpoint ins_child (s : string) (r : list string) (ds : items) (ch : list (string * dtree)) : list (string * dtree) :=
  match ch with
  | [] => [(s, insert r ds empty_tree)]
  | (n, c) :: rest => if String.eqb n s then (n, insert r ds c) :: rest else (n, c) :: ins_child s r ds rest
  end.

Lemma flat_node ds ch :
  flat (DNode ds ch) = ([], ds) :: flat_map (fun nc => map (cons_path (fst nc)) (flat (snd nc))) ch.
Proof.
  simpl. f_equal. induction ch as [|[n c] r IH]; [reflexivity|]. cbn [flat_map fst snd]. rewrite <- IH. reflexivity.
Qed.

Lemma insert_nil ds t : insert [] ds t = DNode ds (node_children t).
Proof. reflexivity. Qed.

Lemma insert_cons s r ds t : insert (s :: r) ds t = DNode (node_items t) (ins_child s r ds (node_children t)).
Proof.
  simpl. f_equal. induction (node_children t) as [|[n c] rest IH]; [reflexivity|].
  simpl. destruct (String.eqb n s); [reflexivity|]. rewrite IH. reflexivity.
Qed.

Definition has_name (s : string) (ch : list (string * dtree)) : bool := existsb (fun nc => String.eqb (fst nc) s) ch.

Lemma ins_child_absent s r ds acc :
  has_name s acc = false -> ins_child s r ds acc = (acc ++ [(s, insert r ds empty_tree)])%list.
Proof.
  induction acc as [|[n c] rest IH]; simpl; intros H; [reflexivity|].
  apply orb_false_iff in H. destruct H as [H1 H2]. rewrite H1, (IH H2). reflexivity.
Qed.

Lemma ins_child_last s r ds acc c :
  has_name s acc = false -> ins_child s r ds (acc ++ [(s, c)])%list = (acc ++ [(s, insert r ds c)])%list.
Proof.
  induction acc as [|[n c'] rest IH]; simpl; intros H.
  - rewrite String.eqb_refl. reflexivity.
  - apply orb_false_iff in H. destruct H as [H1 H2]. rewrite H1, (IH H2). reflexivity.
Qed.

Lemma ins_step d ch n x : ins (DNode d ch) (cons_path n x) = DNode d (ins_child n (fst x) (snd x) ch).
Proof. unfold ins, cons_path. cbn [fst snd]. rewrite insert_cons. reflexivity. Qed.

(* every entry below child n only touches child n *)
Lemma fold_under_present n L : forall d acc c,
  has_name n acc = false ->
  fold_left ins (map (cons_path n) L) (DNode d (acc ++ [(n, c)])%list) =
  DNode d (acc ++ [(n, fold_left ins L c)])%list.
Proof.
  induction L as [|x L' IH]; intros d acc c H; [reflexivity|].
  cbn [map fold_left]. rewrite ins_step.
  rewrite (ins_child_last n (fst x) (snd x) acc c H).
  rewrite (IH d acc (insert (fst x) (snd x) c) H). reflexivity.
Qed.

Lemma fold_under_absent n x L d acc :
  has_name n acc = false ->
  fold_left ins (map (cons_path n) (x :: L)) (DNode d acc) =
  DNode d (acc ++ [(n, fold_left ins (x :: L) empty_tree)])%list.
Proof.
  intros H. cbn [map fold_left]. rewrite ins_step.
  rewrite (ins_child_absent n (fst x) (snd x) acc H).
  rewrite (fold_under_present n L d acc _ H). reflexivity.
Qed.

(* ---------------------------------------------------------------- distinct sibling names *)
Lemma nodupb_app_mid (l1 : list string) x l2 :
  nodupb (l1 ++ x :: l2)%list = true -> existsb (fun y => String.eqb y x) l1 = false.
Proof.
  induction l1 as [|y r IH]; simpl; intros H; [reflexivity|].
  apply andb_true_iff in H. destruct H as [H1 H2]. rewrite (IH H2), orb_false_r.
  apply negb_true_iff in H1. rewrite existsb_app in H1. apply orb_false_iff in H1. destruct H1 as [_ H1].
  simpl in H1. apply orb_false_iff in H1. exact (proj1 H1).
Qed.

Lemma has_name_map s (acc : list (string * dtree)) :
  has_name s acc = existsb (fun y => String.eqb y s) (map fst acc).
Proof. unfold has_name. induction acc as [|x r IH]; simpl; [reflexivity|]. rewrite IH. reflexivity. Qed.

Lemma wf_tree_node ds ch :
  wf_tree (DNode ds ch) = true ->
  nodupb (map fst ch) = true /\ Forall (fun nc => wf_tree (snd nc) = true) ch.
Proof.
  simpl. intros H. apply andb_true_iff in H. destruct H as [H1 H2]. split; [exact H1|]. clear H1.
  induction ch as [|[n c] r IH]; [constructor|].
  apply andb_true_iff in H2. destruct H2 as [Hc Hr]. constructor; [exact Hc | apply IH; exact Hr].
Qed.

(* ---------------------------------------------------------------- layer 1: unflat (flat t) = t *)
Lemma flat_nonempty t : exists x L, flat t = x :: L.
Proof. destruct t as [ds ch]. rewrite flat_node. eauto. Qed.

Lemma unflat_children : forall ch acc d,
  Forall (fun nc => unflat (flat (snd nc)) = snd nc) ch ->
  nodupb (map fst (acc ++ ch)%list) = true ->
  fold_left ins (flat_map (fun nc => map (cons_path (fst nc)) (flat (snd nc))) ch) (DNode d acc) =
  DNode d (acc ++ ch)%list.
Proof.
  induction ch as [|[n c] r IH]; intros acc d HF Hnd.
  - simpl. rewrite app_nil_r. reflexivity.
  - cbn [flat_map fst snd]. rewrite fold_left_app.
    assert (Hn : has_name n acc = false).
    { rewrite has_name_map. rewrite map_app in Hnd. cbn [map fst] in Hnd. eapply nodupb_app_mid; eauto. }
    destruct (flat_nonempty c) as [x [L E]]. rewrite E.
    rewrite (fold_under_absent n x L d acc Hn). rewrite <- E.
    inversion HF as [|? ? Hc Hr]; subst. cbn [snd] in Hc. unfold unflat in Hc. fold ins in Hc. rewrite Hc.
    rewrite (IH (acc ++ [(n, c)])%list d Hr).
    + rewrite <- app_assoc. reflexivity.
    + rewrite <- app_assoc. exact Hnd.
Qed.

Theorem unflat_flat : forall t, wf_tree t = true -> unflat (flat t) = t.
Proof.
  apply (dtree_ind' (fun t => wf_tree t = true -> unflat (flat t) = t)).
  intros ds ch IH Hwf. destruct (wf_tree_node ds ch Hwf) as [Hnd Hch].
  rewrite flat_node. unfold unflat. cbn [fold_left fst snd]. rewrite insert_nil. cbn [node_children empty_tree].
  fold ins. rewrite (unflat_children ch [] ds).
  - reflexivity.
  - clear Hnd Hwf. induction ch as [|nc r IHr]; [constructor|].
    inversion IH; subst. inversion Hch; subst. constructor; auto.
  - exact Hnd.
Qed.

(* ---------------------------------------------------------------- layer 2: parse (render segs) = segs *)
Definition name_ok (x : ascii) (n : string) : bool := nonempty n && negb (has_char x n).

Lemma append_nil_r s : s ++ "" = s.
Proof. induction s as [|c r IH]; simpl; [reflexivity|]. rewrite IH. reflexivity. Qed.

Lemma split_noslash n : has_char slash n = false -> split_slash n = [n].
Proof.
  induction n as [|c r IH]; simpl; intros H; [reflexivity|].
  apply orb_false_iff in H. destruct H as [H1 H2]. unfold slash in H1. rewrite H1. rewrite (IH H2). reflexivity.
Qed.

Lemma split_app n rest h t :
  has_char slash n = false -> split_slash rest = h :: t -> split_slash (n ++ rest) = (n ++ h) :: t.
Proof.
  induction n as [|c r IH]; simpl; intros H E; [exact E|].
  apply orb_false_iff in H. destruct H as [H1 H2]. unfold slash in H1. rewrite H1. rewrite (IH H2 E). reflexivity.
Qed.

Lemma split_render' segs :
  segs <> [] -> forallb (name_ok slash) segs = true -> split_slash (render' segs) = "" :: segs.
Proof.
  induction segs as [|a r IH]; intros Hne Hok; [contradiction|].
  cbn [forallb] in Hok. apply andb_true_iff in Hok. destruct Hok as [Ha Hr].
  unfold name_ok in Ha. apply andb_true_iff in Ha. destruct Ha as [_ Ha]. apply negb_true_iff in Ha.
  cbn [render']. change ("/" ++ a ++ render' r) with (String "/"%char (a ++ render' r)).
  cbn [split_slash]. change (Ascii.eqb "/"%char "/"%char) with true. cbv iota. f_equal.
  destruct r as [|b r'].
  - cbn [render']. rewrite append_nil_r. apply split_noslash. exact Ha.
  - rewrite (split_app a (render' (b :: r')) "" (b :: r') Ha).
    + rewrite append_nil_r. reflexivity.
    + apply IH; [discriminate | exact Hr].
Qed.

Lemma filter_nonempty_ok x segs : forallb (name_ok x) segs = true -> filter nonempty segs = segs.
Proof.
  induction segs as [|a r IH]; simpl; intros H; [reflexivity|].
  apply andb_true_iff in H. destruct H as [Ha Hr]. unfold name_ok in Ha. apply andb_true_iff in Ha.
  destruct Ha as [Ha _]. rewrite Ha, (IH Hr). reflexivity.
Qed.

Theorem parse_render segs : forallb (name_ok slash) segs = true -> parse (render segs) = segs.
Proof.
  intros Hok. destruct segs as [|a r]; [reflexivity|].
  unfold parse, render. rewrite split_render' by (discriminate || exact Hok).
  change (filter nonempty ("" :: a :: r)) with (filter nonempty (a :: r)).
  apply (filter_nonempty_ok slash). exact Hok.
Qed.

(* the names on every path of a tree whose names are fine, are fine *)
Lemma names_free_node x ds ch :
  names_free_of x (DNode ds ch) = true ->
  Forall (fun nc => name_ok x (fst nc) = true /\ names_free_of x (snd nc) = true) ch.
Proof.
  simpl. induction ch as [|[n c] r IH]; intros H; [constructor|].
  apply andb_true_iff in H. destruct H as [H Hr]. apply andb_true_iff in H. destruct H as [H Hc].
  constructor; [split; [exact H | exact Hc] | apply IH; exact Hr].
Qed.

Lemma flat_paths_ok x : forall t, names_free_of x t = true ->
  Forall (fun e => forallb (name_ok x) (fst e) = true) (flat t).
Proof.
  apply (dtree_ind' (fun t => names_free_of x t = true -> Forall (fun e => forallb (name_ok x) (fst e) = true) (flat t))).
  intros ds ch IH H. rewrite flat_node. constructor; [reflexivity|].
  pose proof (names_free_node x ds ch H) as Hch. clear H.
  induction ch as [|[n c] r IHr]; [constructor|].
  inversion IH as [|? ? Pc Pr]; subst. inversion Hch as [|? ? [Hn Hc] Hr]; subst.
  cbn [flat_map fst snd]. apply Forall_app. split.
  - cbn [snd] in Pc. specialize (Pc Hc). apply Forall_forall. intros e Hin.
    apply in_map_iff in Hin. destruct Hin as [e0 [E Hin]]. subst e. unfold cons_path. cbn [fst forallb].
    cbn [fst] in Hn. rewrite Hn. rewrite Forall_forall in Pc. apply Pc. exact Hin.
  - apply IHr; assumption.
Qed.

Theorem unflatten_flatten t :
  wf_tree t = true -> names_free_of slash t = true -> unflatten_keys (flatten_keys t) = t.
Proof.
  intros Hwf Hn. unfold unflatten_keys, flatten_keys. rewrite map_map. cbn [fst snd].
  rewrite <- (unflat_flat t Hwf) at 2. f_equal.
  rewrite <- (map_id (flat t)) at 2. apply map_ext_in. intros [p ds] Hin. cbn [fst snd].
  pose proof (flat_paths_ok slash t Hn) as HF. rewrite Forall_forall in HF. specialize (HF _ Hin). cbn [fst] in HF.
  rewrite (parse_render p HF). reflexivity.
Qed.

(* ---------------------------------------------------------------- layer 3: the escaping of the paths *)
Lemma has_char_app x s1 s2 : has_char x (s1 ++ s2) = has_char x s1 || has_char x s2.
Proof. induction s1 as [|c r IH]; simpl; [reflexivity|]. rewrite IH, orb_assoc. reflexivity. Qed.

Lemma render'_free x segs :
  Ascii.eqb slash x = false -> forallb (name_ok x) segs = true -> has_char x (render' segs) = false.
Proof.
  intros Hx. induction segs as [|a r IH]; intros H; [reflexivity|].
  cbn [forallb] in H. apply andb_true_iff in H. destruct H as [Ha Hr]. unfold name_ok in Ha. apply andb_true_iff in Ha.
  destruct Ha as [_ Ha]. apply negb_true_iff in Ha.
  cbn [render']. change ("/" ++ a ++ render' r) with (String slash (a ++ render' r)). cbn [has_char].
  rewrite Hx. rewrite has_char_app, Ha, (IH Hr). reflexivity.
Qed.

Lemma render_free x segs :
  Ascii.eqb slash x = false -> forallb (name_ok x) segs = true -> has_char x (render segs) = false.
Proof.
  intros Hx H. destruct segs as [|a r].
  - change (render []) with (String slash EmptyString). cbn [has_char]. rewrite Hx. reflexivity.
  - apply (render'_free x (a :: r) Hx H).
Qed.

Theorem tree_roundtrip b t :
  Ascii.eqb slash b = false ->
  wf_tree t = true -> names_free_of slash t = true -> names_free_of b t = true ->
  tree_from_dict slash b (tree_to_dict slash b t) = t.
Proof.
  intros Hb Hwf Hs Hn. unfold tree_from_dict, tree_to_dict.
  rewrite (map_keys_inv_gen slash b (flatten_keys t)).
  - apply unflatten_flatten; assumption.
  - unfold flatten_keys. rewrite forallb_forall. intros [k v] Hin.
    apply in_map_iff in Hin. destruct Hin as [[p ds] [E Hin]]. cbn [fst snd] in E. inversion E; subst k v; clear E.
    cbn [fst]. apply negb_true_iff. apply render_free; [exact Hb|].
    pose proof (flat_paths_ok b t Hn) as HF. rewrite Forall_forall in HF. exact (HF _ Hin).
Qed.

(* two trees with the same dictionary are the same tree *)
Theorem tree_to_dict_injective b t1 t2 :
  Ascii.eqb slash b = false ->
  wf_tree t1 = true -> names_free_of slash t1 = true -> names_free_of b t1 = true ->
  wf_tree t2 = true -> names_free_of slash t2 = true -> names_free_of b t2 = true ->
  tree_to_dict slash b t1 = tree_to_dict slash b t2 -> t1 = t2.
Proof.
  intros Hb W1 S1 N1 W2 S2 N2 E.
  rewrite <- (tree_roundtrip b t1 Hb W1 S1 N1), <- (tree_roundtrip b t2 Hb W2 S2 N2), E. reflexivity.
Qed.

(* a group without any data variable is a key of the dictionary like every other group *)
Theorem every_group_is_a_key t p ds : In (p, ds) (flat t) -> In (render p, ds) (flatten_keys t).
Proof. intros H. unfold flatten_keys. apply in_map_iff. exists (p, ds). split; [reflexivity | exact H]. Qed.

Theorem every_group_is_an_escaped_key a b t p ds :
  In (p, ds) (flat t) -> In (replace_char a b (render p), ds) (tree_to_dict a b t).
Proof.
  intros H. unfold tree_to_dict, map_keys. apply in_map_iff.
  exists (render p, ds). split; [reflexivity | apply every_group_is_a_key; exact H].
Qed.
