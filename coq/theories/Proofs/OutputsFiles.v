(* C19, part 2: injective file names, writers' exists-behaviour, never-clobber, attribution,
   completeness of the save flows.  Everything is parametrised over the regenerated tables. *)
From Coq Require Import List Bool Arith ZArith Lia String Ascii DecimalString DecimalNat.
From PyxelV Require Import Model.Outputs Proofs.OutputsDir.
Import ListNotations.
Open Scope string_scope.

(* ------------------------------------------------------------------ decimal strings *)

Definition is_digit (c : ascii) : bool :=
  (Nat.leb 48 (nat_of_ascii c) && Nat.leb (nat_of_ascii c) 57)%bool.

Fixpoint all_digits (s : string) : bool :=
  match s with
  | EmptyString => true
  | String c r => is_digit c && all_digits r
  end.

Lemma uint_digits : forall u, all_digits (NilEmpty.string_of_uint u) = true.
Proof. induction u; simpl; auto. Qed.

Lemma dec_digits : forall n, all_digits (dec n) = true.
Proof. intro n. apply uint_digits. Qed.

Lemma digits_dot_split : forall d d' r r',
  all_digits d = true -> all_digits d' = true ->
  d ++ String "." r = d' ++ String "." r' -> d = d' /\ r = r'.
Proof.
  induction d as [|a d IH]; intros [|a' d'] r r' D D' H; simpl in *.
  - injection H as H. auto.
  - injection H as Ha _. subst a'. apply andb_true_iff in D'. destruct D' as [X _]. discriminate X.
  - injection H as Ha _. subst a. apply andb_true_iff in D. destruct D as [X _]. discriminate X.
  - injection H as Ha H. subst a'.
    apply andb_true_iff in D. apply andb_true_iff in D'.
    destruct (IH d' r r') as [E1 E2]; try tauto. subst. auto.
Qed.

(* ------------------------------------------------------------------ names *)

Lemma bname_inj : forall b b' x x', bname b ++ x = bname b' ++ x' -> b = b' /\ x = x'.
Proof.
  intros b b' x x' H.
  destruct b, b'; simpl in H; try discriminate H; injection H as H; auto.
Qed.

Lemma fname_inj : forall f f', fname f = fname f' -> f = f'.
Proof. intros f f' H. destruct f, f'; simpl in H; try discriminate H; reflexivity. Qed.

Theorem render_new_inj : forall b s f b' s' f',
  render_new b s f = render_new b' s' f' -> b = b' /\ s = s' /\ f = f'.
Proof.
  intros b s f b' s' f' H. unfold render_new in H.
  apply append_inj_l in H. apply bname_inj in H. destruct H as [-> H].
  split; [reflexivity|].
  destruct s as [n|], s' as [n'|]; unfold suffix_str in H.
  - change (String "_" (dec n ++ String "." (fname f)) = String "_" (dec n' ++ String "." (fname f'))) in H.
    injection H as H. apply digits_dot_split in H; try apply dec_digits.
    destruct H as [Hn Hf]. apply dec_inj in Hn. apply fname_inj in Hf. subst. auto.
  - change (String "_" (dec n ++ String "." (fname f)) = String "." (fname f')) in H. discriminate H.
  - change (String "." (fname f) = String "_" (dec n' ++ String "." (fname f'))) in H. discriminate H.
  - change (String "." (fname f) = String "." (fname f')) in H.
    injection H as H. apply fname_inj in H. subst. auto.
Qed.

Theorem render_old_inj : forall b r e b' r' e',
  render_old b r e = render_old b' r' e' -> b = b' /\ r = r' /\ e = e'.
Proof.
  intros b r e b' r' e' H. unfold render_old in H.
  apply append_inj_l in H. apply bname_inj in H. destruct H as [-> H].
  apply append_inj_l in H.
  change (dec (S r) ++ String "." e = dec (S r') ++ String "." e') in H.
  apply digits_dot_split in H; try apply dec_digits.
  destruct H as [Hn He]. apply dec_inj in Hn. injection Hn as Hn. subst. auto.
Qed.

(* ------------------------------------------------------------------ files *)

Lemma lookup_set_same : forall n c fs, lookup n (set_file n c fs) = Some c.
Proof.
  intros n c fs. induction fs as [|[m d] rest IH]; simpl.
  - now rewrite String.eqb_refl.
  - destruct (String.eqb n m) eqn:E; simpl; rewrite E; auto.
Qed.

Lemma lookup_set_other : forall n m c fs, n <> m -> lookup m (set_file n c fs) = lookup m fs.
Proof.
  intros n m c fs Hne. induction fs as [|[k d] rest IH]; simpl.
  - destruct (String.eqb m n) eqn:E; [apply String.eqb_eq in E; congruence | reflexivity].
  - destruct (String.eqb n k) eqn:E; simpl.
    + apply String.eqb_eq in E. subst k.
      destruct (String.eqb m n) eqn:E2; [apply String.eqb_eq in E2; congruence | reflexivity].
    + destruct (String.eqb m k); auto.
Qed.

(* a writer that raises or skips never changes an existing file *)
Lemma write_file_preserves : forall b fs n c fs' o f x,
  b <> Overwrite -> write_file b fs n c = (fs', o) -> lookup f fs = Some x -> lookup f fs' = Some x.
Proof.
  intros b fs n c fs' o f x Hb H L. unfold write_file in H.
  destruct (lookup n fs) eqn:E.
  - destruct b; try congruence; injection H as <- <-; exact L.
  - injection H as <- <-. rewrite lookup_set_other; [exact L|]. intro; subst; congruence.
Qed.

(* an overwriting writer does: the full statement is false for it *)
Lemma overwrite_clobbers :
  lookup "f" (fst (write_file Overwrite [("f", 1%Z)] "f" 2%Z)) <> lookup "f" [("f", 1%Z)].
Proof. vm_compute. discriminate. Qed.

(* the full statement for ONE behaviour *)
Definition never_clobbers (b : on_exists) : Prop :=
  forall fs n c f x, lookup f fs = Some x -> lookup f (fst (write_file b fs n c)) = Some x.

Lemma never_clobbers_iff : forall b, never_clobbers b <-> b <> Overwrite.
Proof.
  intro b. split.
  - intros H ->. specialize (H [("f", 1%Z)] "f" 2%Z "f" 1%Z eq_refl). vm_compute in H. discriminate.
  - intros Hb fs n c f x L. destruct (write_file b fs n c) as [fs' o] eqn:E. simpl.
    eapply write_file_preserves; eauto.
Qed.

Definition all_safe (ws : list (string * on_exists)) : bool :=
  forallb (fun p => negb (on_exists_eqb (snd p) Overwrite)) ws.

Lemma all_safe_sound : forall ws, all_safe ws = true ->
  forall w b, In (w, b) ws -> never_clobbers b.
Proof.
  intros ws H w b Hin. apply never_clobbers_iff.
  unfold all_safe in H. rewrite forallb_forall in H. specialize (H _ Hin). simpl in H.
  intros ->. discriminate H.
Qed.

Lemma not_all_safe_refutes : forall (ws : list (string * on_exists)) (w : string),
  In (w, Overwrite) ws -> ~ (forall (w' : string) (b : on_exists), In (w', b) ws -> never_clobbers b).
Proof. intros ws w Hin H. apply (never_clobbers_iff Overwrite); eauto. Qed.

(* ------------------------------------------------------------------ the new-API flow *)

Definition safe_new (T : tables) : bool :=
  forallb (fun p => match snd p with
                    | None => true
                    | Some w => negb (on_exists_eqb (beh T w) Overwrite)
                    end) (t_new T).

Lemma assoc_f_In : forall A k (l : list (fmt * A)) a, assoc_f k l = Some a -> exists k', In (k', a) l.
Proof.
  intros A k l a. induction l as [|[m x] rest IH]; simpl; [discriminate|].
  destruct (fmt_eqb k m).
  - intro H. injection H as ->. eauto.
  - intro H. destruct (IH H) as [k' Hk]. eauto.
Qed.

Lemma safe_new_beh : forall T f w, safe_new T = true -> assoc_f f (t_new T) = Some (Some w) ->
  beh T w <> Overwrite.
Proof.
  intros T f w S H. apply assoc_f_In in H. destruct H as [k' Hin].
  unfold safe_new in S. rewrite forallb_forall in S. specialize (S _ Hin). simpl in S.
  intro E. rewrite E in S. discriminate S.
Qed.

Lemma save_new_preserves : forall T, safe_new T = true ->
  forall ep its s run fs rep fs' rep' e,
  save_new T ep its s run fs rep = (fs', rep', e) ->
  forall f x, lookup f fs = Some x -> lookup f fs' = Some x.
Proof.
  intros T S ep. induction its as [|[b f0] rest IH]; intros s run fs rep fs' rep' e H f x L; simpl in H.
  - now injection H as <- _ _.
  - destruct (assoc_f f0 (t_new T)) as [[w|]|] eqn:A; try (now injection H as <- _ _).
    destruct (write_file (beh T w) fs (render_new b s f0) (content ep run b f0)) as [fs1 o] eqn:W.
    pose proof (write_file_preserves _ _ _ _ _ _ f x (safe_new_beh T f0 w S A) W L) as L1.
    destruct o.
    + eapply IH; eauto.
    + eapply IH; eauto.
    + now injection H as <- _ _.
Qed.

Lemma flow_dask_from_preserves : forall T, safe_new T = true ->
  forall ep req n run fs rep fs' rep' e,
  flow_dask_from T ep req n run fs rep = (fs', rep', e) ->
  forall f x, lookup f fs = Some x -> lookup f fs' = Some x.
Proof.
  intros T S ep req. induction n as [|n IH]; intros run fs rep fs' rep' e H f x L; simpl in H.
  - now injection H as <- _ _.
  - destruct (save_new T ep (items req) (Some run) run fs rep) as [[fs1 rep1] [e1|]] eqn:E.
    + injection H as <- _ _. eapply save_new_preserves; eauto.
    + eapply IH; [exact H|]. eapply save_new_preserves; eauto.
Qed.

(* --- completeness --- *)
Local Open Scope list_scope.

Definition new_entries (its : list (bucket * fmt)) (s : option nat) (run : nat) : list entry :=
  map (fun bf => (run, fst bf, snd bf, render_new (fst bf) s (snd bf))) its.

Lemma save_new_complete : forall T ep its s run fs rep fs' rep',
  save_new T ep its s run fs rep = (fs', rep', None) -> rep' = rep ++ new_entries its s run.
Proof.
  intros T ep. induction its as [|[b f0] rest IH]; intros s run fs rep fs' rep' H; simpl in H.
  - injection H as _ <-. simpl. now rewrite app_nil_r.
  - destruct (assoc_f f0 (t_new T)) as [[w|]|] eqn:A; try discriminate H.
    destruct (write_file (beh T w) fs (render_new b s f0) (content ep run b f0)) as [fs1 o] eqn:W.
    destruct o; try discriminate H; apply IH in H; rewrite H, <- app_assoc; reflexivity.
Qed.

Lemma flow_dask_from_complete : forall T ep req n run fs rep fs' rep',
  flow_dask_from T ep req n run fs rep = (fs', rep', None) ->
  rep' = rep ++ flat_map (fun r => new_entries (items req) (Some r) r) (seq run n).
Proof.
  intros T ep req. induction n as [|n IH]; intros run fs rep fs' rep' H; simpl in H.
  - injection H as _ <-. simpl. now rewrite app_nil_r.
  - destruct (save_new T ep (items req) (Some run) run fs rep) as [[fs1 rep1] [e1|]] eqn:E; [discriminate H|].
    apply save_new_complete in E. apply IH in H. subst. simpl. now rewrite <- app_assoc.
Qed.

Lemma in_new_entries : forall its s run r b f n,
  In (r, b, f, n) (new_entries its s run) <-> r = run /\ In (b, f) its /\ n = render_new b s f.
Proof.
  intros its s run r b f n. unfold new_entries. rewrite in_map_iff. split.
  - intros [[b0 f0] [E Hin]]. simpl in E. injection E as <- <- <- <-. auto.
  - intros (-> & Hin & ->). exists (b, f). auto.
Qed.

(* --- attribution --- *)

(* no file with a name the flows could render exists yet (e.g. the freshly created directory) *)
Definition fresh (fs : files) : Prop := forall b s f, lookup (render_new b s f) fs = None.

Section Attribution.
Variable ep : nat.

Definition run_of (s : option nat) : nat := match s with None => 0 | Some r => r end.

(* every file that carries a new-API name holds the content that name stands for *)
Definition good (fs : files) : Prop :=
  forall b s f c, lookup (render_new b s f) fs = Some c -> c = content ep (run_of s) b f.

Definition attributed (rep : list entry) (fs : files) : Prop :=
  forall r b f n, In (r, b, f, n) rep -> lookup n fs = Some (content ep r b f).

Lemma fresh_good : forall fs, fresh fs -> good fs.
Proof. intros fs F b s f c H. rewrite F in H. discriminate. Qed.

Lemma set_good : forall fs b s f,
  good fs -> good (set_file (render_new b s f) (content ep (run_of s) b f) fs).
Proof.
  intros fs b s f G b' s' f' c H.
  destruct (string_dec (render_new b s f) (render_new b' s' f')) as [E|N].
  - rewrite <- E, lookup_set_same in H. injection H as <-.
    apply render_new_inj in E. destruct E as (-> & -> & ->). reflexivity.
  - rewrite lookup_set_other in H by exact N. eauto.
Qed.

Lemma set_attributed : forall fs rep b s f,
  good fs -> attributed rep fs ->
  attributed rep (set_file (render_new b s f) (content ep (run_of s) b f) fs).
Proof.
  intros fs rep b s f G A r b' f' n Hin.
  destruct (string_dec (render_new b s f) n) as [E|N].
  - subst n. rewrite lookup_set_same. pose proof (A _ _ _ _ Hin) as L.
    apply G in L. now rewrite L.
  - rewrite lookup_set_other by exact N. eauto.
Qed.

Lemma save_new_attributed : forall T its s fs rep fs' rep' e,
  good fs -> attributed rep fs ->
  save_new T ep its s (run_of s) fs rep = (fs', rep', e) ->
  good fs' /\ attributed rep' fs'.
Proof.
  intros T. induction its as [|[b f0] rest IH]; intros s fs rep fs' rep' e G A H; simpl in H.
  - injection H as <- <- _. auto.
  - destruct (assoc_f f0 (t_new T)) as [[w|]|] eqn:Af; try (injection H as <- <- _; auto).
    unfold write_file in H.
    set (n := render_new b s f0) in *. set (c := content ep (run_of s) b f0) in *.
    assert (Gset : good (set_file n c fs)) by (apply set_good; exact G).
    assert (Aset : attributed (rep ++ [(run_of s, b, f0, n)]) (set_file n c fs)).
    { intros r b' f' m Hin. apply in_app_or in Hin. destruct Hin as [Hin|[Hin|[]]].
      - eapply set_attributed; eauto.
      - injection Hin as <- <- <- <-. apply lookup_set_same. }
    destruct (lookup n fs) as [x|] eqn:L.
    + destruct (beh T w).
      * injection H as <- <- _. auto.
      * eapply IH; [exact G| |exact H].
        intros r b' f' m Hin. apply in_app_or in Hin. destruct Hin as [Hin|[Hin|[]]]; [eauto|].
        injection Hin as <- <- <- <-. fold n. rewrite L. f_equal. eapply G. exact L.
      * eapply IH; [exact Gset|exact Aset|exact H].
    + eapply IH; [exact Gset|exact Aset|exact H].
Qed.

Lemma flow_dask_from_attributed : forall T req n run fs rep fs' rep' e,
  good fs -> attributed rep fs ->
  flow_dask_from T ep req n run fs rep = (fs', rep', e) ->
  good fs' /\ attributed rep' fs'.
Proof.
  intros T req. induction n as [|n IH]; intros run fs rep fs' rep' e G A H; simpl in H.
  - injection H as <- <- _. auto.
  - destruct (save_new T ep (items req) (Some run) run fs rep) as [[fs1 rep1] [e1|]] eqn:E.
    + injection H as <- <- _. eapply (save_new_attributed T _ (Some run)); eauto.
    + destruct (save_new_attributed T _ (Some run) _ _ _ _ _ G A E) as [G1 A1].
      eapply IH; eauto.
Qed.

End Attribution.

(* the dask flow = the metadata run in a temporary directory, then the runs *)
Lemma flow_dask_cases : forall T ep req n fs fs' rep e,
  flow_dask T ep req n fs = (fs', rep, e) ->
  (fs' = fs /\ rep = [] /\ e <> None) \/ flow_dask_from T ep req n 0 fs [] = (fs', rep, e).
Proof.
  intros T ep req n fs fs' rep e H. unfold flow_dask in H.
  destruct (dask_meta_err T ep req) as [e0|].
  - left. injection H as <- <- <-. repeat split; congruence.
  - right. exact H.
Qed.

(* ------------------------------------------------------------------ the flows as wholes (any tables) *)

Lemma flow_exposure_complete : forall T ep req fs fs' rep,
  flow_exposure T ep req fs = (fs', rep, None) ->
  forall r b f n, In (r, b, f, n) rep <-> r = 0 /\ In (b, f) (items req) /\ n = render_new b None f.
Proof.
  intros T ep req fs fs' rep H r b f n. apply save_new_complete in H. subst rep. simpl.
  apply in_new_entries.
Qed.

Lemma flow_dask_complete : forall T ep req nruns fs fs' rep,
  flow_dask T ep req nruns fs = (fs', rep, None) ->
  forall r b f n, In (r, b, f, n) rep <->
    r < nruns /\ In (b, f) (items req) /\ n = render_new b (Some r) f.
Proof.
  intros T ep req nruns fs fs' rep H r b f n. apply flow_dask_cases in H.
  destruct H as [(_ & _ & X)|H]; [congruence|].
  apply flow_dask_from_complete in H. subst rep. simpl.
  rewrite in_flat_map. split.
  - intros [x [Hx Hin]]. apply in_seq in Hx. apply in_new_entries in Hin.
    destruct Hin as (-> & Hin & ->). repeat split; auto; lia.
  - intros (Hr & Hin & ->). exists r. split; [apply in_seq; lia | now apply in_new_entries].
Qed.

Lemma flow_exposure_preserves : forall T, safe_new T = true ->
  forall ep req fs fs' rep e, flow_exposure T ep req fs = (fs', rep, e) ->
  forall f x, lookup f fs = Some x -> lookup f fs' = Some x.
Proof. intros T S ep req fs fs' rep e H. exact (save_new_preserves _ S _ _ _ _ _ _ _ _ _ H). Qed.

Lemma flow_dask_preserves : forall T, safe_new T = true ->
  forall ep req n fs fs' rep e, flow_dask T ep req n fs = (fs', rep, e) ->
  forall f x, lookup f fs = Some x -> lookup f fs' = Some x.
Proof.
  intros T S ep req n fs fs' rep e H. apply flow_dask_cases in H. destruct H as [(-> & _ & _)|H]; [auto|].
  exact (flow_dask_from_preserves _ S _ _ _ _ _ _ _ _ _ H).
Qed.

Lemma flow_exposure_attributed : forall T ep req fs fs' rep e,
  fresh fs -> flow_exposure T ep req fs = (fs', rep, e) -> attributed ep rep fs'.
Proof.
  intros T ep req fs fs' rep e F H.
  apply (save_new_attributed ep T (items req) None fs [] fs' rep e); auto.
  - now apply fresh_good.
  - intros r b f n [].
Qed.

Lemma flow_dask_attributed : forall T ep req n fs fs' rep e,
  fresh fs -> flow_dask T ep req n fs = (fs', rep, e) -> attributed ep rep fs'.
Proof.
  intros T ep req n fs fs' rep e F H. apply flow_dask_cases in H.
  destruct H as [(_ & -> & _)|H]; [intros r b f m []|].
  apply (flow_dask_from_attributed ep T req n 0 fs [] fs' rep e); auto.
  - now apply fresh_good.
  - intros r b f m [].
Qed.
