(* C05 -- labels and the merge: selecting the entry labelled with a run's labels after xr.merge gives
   that run's data (lookup after assemble), the merge fails exactly on two equal labels with different
   data, and the labels of the three modes identify the run's values. *)
From Coq Require Import ZArith List Bool Arith String Lia.
From PyxelV Require Import Model.ParamSpace Proofs.ParamSpace.
Import ListNotations.
Local Notation length := List.length (only parsing).
Local Open Scope string_scope.

(* ------------------------------------------------------------------------------------ decidable equalities *)

Lemma listZ_eqb_eq : forall a b, listZ_eqb a b = true <-> a = b.
Proof.
  induction a as [|x a IH]; destruct b as [|y b]; simpl; split; intros H; try discriminate; auto.
  - apply andb_true_iff in H. destruct H as [H1 H2]. apply Z.eqb_eq in H1. apply IH in H2. congruence.
  - inversion H; subst. rewrite Z.eqb_refl. apply IH. reflexivity.
Qed.

Lemma pval_eqb_eq : forall a b, pval_eqb a b = true <-> a = b.
Proof.
  destruct a, b; simpl; split; intros H; try discriminate; auto.
  - apply Z.eqb_eq in H. congruence.
  - inversion H. apply Z.eqb_refl.
  - apply listZ_eqb_eq in H. congruence.
  - inversion H. apply listZ_eqb_eq. reflexivity.
Qed.

Lemma lab_eqb_eq : forall a b, lab_eqb a b = true <-> a = b.
Proof.
  destruct a, b; simpl; split; intros H; try discriminate.
  - apply pval_eqb_eq in H. congruence.
  - inversion H. apply pval_eqb_eq. reflexivity.
  - apply Nat.eqb_eq in H. congruence.
  - inversion H. apply Nat.eqb_refl.
Qed.

Lemma item_eqb_eq : forall a b, item_eqb a b = true <-> a = b.
Proof.
  intros [n1 l1] [n2 l2]. unfold item_eqb. simpl. rewrite andb_true_iff, String.eqb_eq, lab_eqb_eq.
  split; [intros [-> ->]; reflexivity | intros H; inversion H; auto].
Qed.

Lemma subset_incl : forall a b : label, subset item_eqb a b = true <-> incl a b.
Proof.
  intros a b. unfold subset. rewrite forallb_forall. split.
  - intros H x Hx. apply H in Hx. apply existsb_exists in Hx. destruct Hx as (y & Hy & E).
    apply item_eqb_eq in E. subst. exact Hy.
  - intros H x Hx. apply existsb_exists. exists x. split; [apply H; exact Hx | apply item_eqb_eq; reflexivity].
Qed.

(* two labels are equal when they carry the same coordinates (as sets) *)
Lemma label_eqb_incl : forall a b, label_eqb a b = true <-> (incl a b /\ incl b a).
Proof. intros. unfold label_eqb, set_eqb. rewrite andb_true_iff, !subset_incl. tauto. Qed.

Lemma label_eqb_refl : forall a, label_eqb a a = true.
Proof. intros. apply label_eqb_incl. split; apply incl_refl. Qed.

Lemma label_eqb_sym : forall a b, label_eqb a b = label_eqb b a.
Proof.
  intros. destruct (label_eqb a b) eqn:E1, (label_eqb b a) eqn:E2; auto.
  - apply label_eqb_incl in E1. assert (label_eqb b a = true) by (apply label_eqb_incl; tauto). congruence.
  - apply label_eqb_incl in E2. assert (label_eqb a b = true) by (apply label_eqb_incl; tauto). congruence.
Qed.

Lemma label_eqb_trans : forall a b c, label_eqb a b = true -> label_eqb b c = true -> label_eqb a c = true.
Proof.
  intros a b c H1 H2. apply label_eqb_incl in H1. apply label_eqb_incl in H2. apply label_eqb_incl.
  destruct H1, H2. split; eapply incl_tran; eauto.
Qed.

Lemma label_eqb_congr : forall a b c, label_eqb a b = true -> label_eqb a c = label_eqb b c.
Proof.
  intros a b c H. destruct (label_eqb a c) eqn:E1, (label_eqb b c) eqn:E2; auto.
  - rewrite label_eqb_sym in H. rewrite (label_eqb_trans _ _ _ H E1) in E2. discriminate.
  - rewrite (label_eqb_trans _ _ _ H E2) in E1. discriminate.
Qed.

(* ------------------------------------------------------------------------------------ lookup *)

Lemma lookup_congr : forall l l' es, label_eqb l l' = true -> lookup l es = lookup l' es.
Proof.
  intros l l' es H. induction es as [|[l0 d0] t IH]; simpl; auto.
  rewrite (label_eqb_congr _ _ _ H). destruct (label_eqb l' l0); auto.
Qed.

Lemma lookup_some_in : forall l es d,
  lookup l es = Some d -> exists l', In (l', d) es /\ label_eqb l l' = true.
Proof.
  induction es as [|[l0 d0] t IH]; simpl; intros d H; try discriminate.
  destruct (label_eqb l l0) eqn:E.
  - inversion H; subst. exists l0. auto.
  - destruct (IH _ H) as (l' & Hin & He). exists l'. auto.
Qed.

Lemma lookup_none_iff : forall l es,
  lookup l es = None <-> (forall l' d, In (l', d) es -> label_eqb l l' = false).
Proof.
  induction es as [|[l0 d0] t IH]; simpl.
  - split; auto. intros _ ? ? [].
  - destruct (label_eqb l l0) eqn:E.
    + split; [discriminate|]. intros H. rewrite (H l0 d0) in E; auto. discriminate.
    + rewrite IH. split.
      * intros H l' d [Heq|Hin]; [inversion Heq; subst; exact E | eapply H; eauto].
      * intros H l' d Hin. eapply H; eauto.
Qed.

(* ------------------------------------------------------------------------------------ the merge *)

(* what a successful merge guarantees *)
Theorem assemble_sound : forall es r,
  assemble es = Some r ->
  (forall l d, In (l, d) es -> lookup l r = Some d) /\        (* every run is found under its labels *)
  (forall l d, In (l, d) r -> In (l, d) es) /\                 (* nothing else is stored *)
  labels_nodup (map fst r) = true.                             (* no label twice *)
Proof.
  induction es as [|[l d] t IH]; intros r H; simpl in H.
  - inversion H; subst. repeat split; simpl; auto; intros ? ? [].
  - destruct (assemble t) as [r'|] eqn:A; try discriminate.
    destruct (IH _ eq_refl) as (F & S & N).
    destruct (lookup l r') as [d'|] eqn:L.
    + destruct (Z.eqb d d') eqn:E; try discriminate. inversion H; subst r. apply Z.eqb_eq in E. subst d'.
      repeat split; auto.
      * intros l1 d1 [Heq|Hin]; [inversion Heq; subst; exact L | apply F; exact Hin].
      * intros l1 d1 Hin. right. apply S. exact Hin.
    + inversion H; subst r. repeat split.
      * intros l1 d1 [Heq|Hin]; simpl.
        -- inversion Heq; subst. rewrite label_eqb_refl. reflexivity.
        -- destruct (label_eqb l1 l) eqn:E.
           ++ exfalso. rewrite <- (lookup_congr _ _ _ E) in L. rewrite (F _ _ Hin) in L. discriminate.
           ++ apply F. exact Hin.
      * intros l1 d1 [Heq|Hin]; [left; exact Heq | right; apply S; exact Hin].
      * simpl. rewrite N, andb_true_r. apply negb_true_iff.
        destruct (existsb (label_eqb l) (map fst r')) eqn:X; auto.
        apply existsb_exists in X. destruct X as (l1 & Hin & E).
        apply in_map_iff in Hin. destruct Hin as ([l2 d2] & Heq & Hin). simpl in Heq. subst l2.
        rewrite lookup_none_iff in L. rewrite (L _ _ Hin) in E. discriminate.
Qed.

(* ... and the merge fails exactly when two runs carry equal labels and different data *)
Theorem assemble_none_iff : forall es,
  assemble es = None <->
  exists l d l' d', In (l, d) es /\ In (l', d') es /\ label_eqb l l' = true /\ d <> d'.
Proof.
  intros es. split.
  - induction es as [|[l d] t IH]; simpl; try discriminate.
    destruct (assemble t) as [r'|] eqn:A.
    + destruct (lookup l r') as [d'|] eqn:L; try discriminate.
      destruct (Z.eqb d d') eqn:E; try discriminate. intros _.
      destruct (assemble_sound _ _ A) as (_ & S & _).
      destruct (lookup_some_in _ _ _ L) as (l' & Hin & He).
      exists l, d, l', d'. repeat split; auto. intros ->. rewrite Z.eqb_refl in E. discriminate.
    + intros _. destruct (IH eq_refl) as (l1 & d1 & l2 & d2 & H1 & H2 & He & Hd).
      exists l1, d1, l2, d2. repeat split; auto.
  - intros (l & d & l' & d' & H1 & H2 & He & Hd).
    destruct (assemble es) as [r|] eqn:A; auto. exfalso.
    destruct (assemble_sound _ _ A) as (F & _ & _).
    pose proof (F _ _ H1) as L1. pose proof (F _ _ H2) as L2.
    rewrite (lookup_congr _ _ _ He) in L1. congruence.
Qed.

Corollary assemble_defined : forall es,
  (forall l d l' d', In (l, d) es -> In (l', d') es -> label_eqb l l' = true -> d = d') ->
  exists r, assemble es = Some r.
Proof.
  intros es H. destruct (assemble es) as [r|] eqn:A; eauto. exfalso.
  apply assemble_none_iff in A. destruct A as (l & d & l' & d' & H1 & H2 & He & Hd).
  apply Hd. eapply H; eauto.
Qed.

(* ------------------------------------------------------------------------------------ labels identify runs *)

(* sequential / custom mode: the id coordinate alone tells two runs apart, whatever the names are *)
Lemma id_label_inj : forall names i j p q,
  label_eqb (custom_label names i p) (custom_label names j q) = true -> i = j.
Proof.
  intros names i j p q H. apply label_eqb_incl in H. destruct H as [H _].
  assert (Hin : In ("id", LI i) (custom_label names j q)) by (apply H; left; reflexivity).
  destruct Hin as [Heq|Hin]; [inversion Heq; reflexivity|].
  apply in_map_iff in Hin. destruct Hin as (x & Heq & _). inversion Heq.
Qed.

Lemma dask_id_label_inj : forall names i j p q,
  label_eqb (dask_id_label names i p) (dask_id_label names j q) = true -> i = j.
Proof.
  intros names i j p q H. apply label_eqb_incl in H. destruct H as [H _].
  assert (Hin : In ("id", LI i) (dask_id_label names j q)) by (apply H; left; reflexivity).
  destruct Hin as [Heq|Hin]; [inversion Heq; reflexivity|].
  apply in_map_iff in Hin. destruct Hin as (x & Heq & _). inversion Heq.
Qed.

(* product mode: under distinct dimension names, the value coordinates tell the values apart *)
Lemma product_label_values : forall names types ix params k v,
  length ix = length params ->
  In (k, v) params -> In (name_of names k, LV v) (product_label names types ix params).
Proof.
  intros names types ix params. revert ix.
  induction params as [|[k0 v0] rest IH]; intros ix k v Hl Hin; [destruct Hin|].
  destruct ix as [|i ix]; [discriminate|]. simpl in Hl. simpl.
  destruct Hin as [Heq|Hin].
  - inversion Heq; subst. destruct (type_of types k); simpl; auto.
  - assert (In (name_of names k, LV v) (product_label names types ix rest)) by (apply IH; auto; lia).
    destruct (type_of types k0); simpl; auto.
Qed.

Lemma product_label_LV : forall names types ix params n v,
  In (n, LV v) (product_label names types ix params) ->
  exists k, In (k, v) params /\ n = name_of names k.
Proof.
  intros names types ix params. revert ix.
  induction params as [|[k0 v0] rest IH]; intros ix n v Hin.
  - destruct ix; destruct Hin.
  - destruct ix as [|i ix]; [destruct Hin|]. simpl in Hin.
    destruct (type_of types k0); simpl in Hin.
    + destruct Hin as [Heq|Hin]; [inversion Heq; subst; exists k0; simpl; auto|].
      destruct (IH _ _ _ Hin) as (k & Hk & Hn). exists k. simpl; auto.
    + destruct Hin as [Heq|[Heq|Hin]]; [inversion Heq | inversion Heq; subst; exists k0; simpl; auto |].
      destruct (IH _ _ _ Hin) as (k & Hk & Hn). exists k. simpl; auto.
Qed.

Lemma in_combine_nodup_fun : forall (ks : list string) (v1 v2 : list pval) k a b,
  NoDup ks -> In (k, a) (combine ks v1) -> In (k, b) (combine ks v2) ->
  length v1 = length ks -> length v2 = length ks ->
  exists j, nth_error ks j = Some k /\ nth_error v1 j = Some a /\ nth_error v2 j = Some b.
Proof.
  induction ks as [|k0 ks IH]; intros v1 v2 k a b N H1 H2 L1 L2; [destruct H1|].
  destruct v1 as [|x1 v1]; [discriminate|]. destruct v2 as [|x2 v2]; [discriminate|].
  simpl in *. inversion N; subst.
  destruct H1 as [E1|H1], H2 as [E2|H2].
  - inversion E1; inversion E2; subst. exists 0. auto.
  - inversion E1; subst. exfalso. apply in_combine_l in H2. contradiction.
  - inversion E2; subst. exfalso. apply in_combine_l in H1. contradiction.
  - destruct (IH v1 v2 k a b) as (j & A & B & C); auto. exists (S j). auto.
Qed.

Lemma nth_error_ext' : forall {A} (a b : list A), (forall j, nth_error a j = nth_error b j) -> a = b.
Proof.
  induction a as [|x a IH]; destruct b as [|y b]; intros H; auto.
  - specialize (H 0). discriminate.
  - specialize (H 0). discriminate.
  - pose proof (H 0) as H0. simpl in H0. inversion H0; subst. f_equal. apply IH. intros j. apply (H (S j)).
Qed.

(* Equal product labels carry equal values: with pairwise distinct dimension names the value
   coordinates of a product run determine all its parameter values (hence its data). *)
Theorem product_label_inj : forall names types keys ix1 ix2 v1 v2,
  NoDup (map (name_of names) keys) ->
  length v1 = length keys -> length v2 = length keys ->
  length ix1 = length keys -> length ix2 = length keys ->
  label_eqb (product_label names types ix1 (combine keys v1))
            (product_label names types ix2 (combine keys v2)) = true ->
  v1 = v2.
Proof.
  intros names types keys ix1 ix2 v1 v2 N L1 L2 Li1 Li2 H.
  assert (Nk : NoDup keys) by (eapply NoDup_map_inv; eauto).
  apply label_eqb_incl in H. destruct H as [H _].
  apply nth_error_ext'. intros j.
  destruct (nth_error v1 j) as [a|] eqn:Ea.
  - assert (Hj : j < length keys) by (rewrite <- L1; apply nth_error_Some; congruence).
    destruct (nth_error keys j) as [k|] eqn:Ek; [|apply nth_error_None in Ek; lia].
    assert (In (k, a) (combine keys v1)).
    { clear - Ea Ek. revert keys v1 Ea Ek. induction j; intros [|k0 keys] [|x v1] Ea Ek; simpl in *; try discriminate.
      - inversion Ea; inversion Ek; auto.
      - right. eapply IHj; eauto. }
    assert (Hin : In (name_of names k, LV a) (product_label names types ix2 (combine keys v2))).
    { apply H. apply product_label_values; auto. rewrite combine_length. lia. }
    destruct (product_label_LV _ _ _ _ _ _ Hin) as (k' & Hk' & Hn).
    assert (k' = k).
    { pose proof (in_combine_l _ _ _ _ Hk') as I'.
      apply In_nth_error in I'. destruct I' as [j' Ej'].
      assert (nth_error (map (name_of names) keys) j = Some (name_of names k)) by (rewrite nth_error_map, Ek; auto).
      assert (nth_error (map (name_of names) keys) j' = Some (name_of names k)) by (rewrite nth_error_map, Ej', Hn; auto).
      assert (j = j').
      { eapply (proj1 (NoDup_nth_error _) N); [rewrite map_length; exact Hj | congruence]. }
      subst j'. congruence. }
    subst k'.
    destruct (in_combine_nodup_fun keys v1 v2 k a a) as (j2 & A & B & C); auto.
    assert (j2 = j).
    { eapply (proj1 (NoDup_nth_error _) Nk); [apply nth_error_Some; congruence | congruence]. }
    subst j2. congruence.
  - apply nth_error_None in Ea. symmetry. apply nth_error_None. lia.
Qed.
