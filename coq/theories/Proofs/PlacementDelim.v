(* Proofs about Model/Delim.v (C20): a rectangular numeric table written with any separator of the
   list is read back unchanged by the first-success detection, whatever the order in which the
   separators are tried (an earlier separator never "succeeds wrongly"). *)
From Coq Require Import ZArith List Bool Lia.
From PyxelV Require Import Model.Delim.
Import ListNotations.
Open Scope Z_scope.

Lemma delim_eqb_refl d : delim_eqb d d = true.
Proof. destruct d; reflexivity. Qed.

Lemma delim_eqb_eq a b : delim_eqb a b = true -> a = b.
Proof. destruct a, b; simpl; intros; try discriminate; reflexivity. Qed.

Lemma render_row_cons2 d x y r : render_row d (x :: y :: r) = Num x :: Sep d :: render_row d (y :: r).
Proof. reflexivity. Qed.

(* ---- reading with the separator it was written with *)

Lemma split_render_same d r : forall x,
  split d (render_row d (x :: r)) = map (fun z => [Num z]) (x :: r).
Proof.
  induction r as [|y r IH]; intros x; [reflexivity|].
  rewrite render_row_cons2.
  change (split d (Num x :: Sep d :: render_row d (y :: r)))
    with (match (if delim_eqb d d then [] :: split d (render_row d (y :: r))
                 else match split d (render_row d (y :: r)) with
                      | f :: r0 => (Sep d :: f) :: r0 | [] => [[Sep d]] end) with
          | f :: r0 => (Num x :: f) :: r0 | [] => [[Num x]] end).
  rewrite delim_eqb_refl, IH. reflexivity.
Qed.

Lemma all_some_fields l : all_some (map parse_field (map (fun z => [Num z]) l)) = Some l.
Proof. induction l as [|z l IH]; [reflexivity|]. simpl map. cbn [all_some]. 
  change (parse_field [Num z]) with (Some z). cbv iota beta. rewrite IH. reflexivity. Qed.

Lemma parse_line_same d x r : parse_line d (render_row d (x :: r)) = Some (x :: r).
Proof. unfold parse_line. rewrite split_render_same. apply all_some_fields. Qed.

(* ---- reading with another separator *)

Definition cuts (d : delim) (tk : tok) : bool :=
  match tk with Sep d' => delim_eqb d d' | Num _ => false end.

Lemma split_nocut d l : forallb (fun tk => negb (cuts d tk)) l = true -> split d l = [l].
Proof.
  induction l as [|tk l IH]; [reflexivity|]. cbn [forallb]. intros H. apply andb_prop in H.
  destruct H as [H1 H2]. cbn [split]. fold (cuts d tk). apply negb_true_iff in H1. rewrite H1.
  rewrite (IH H2). reflexivity.
Qed.

Lemma render_row_nocut d d' row : delim_eqb d' d = false ->
  forallb (fun tk => negb (cuts d' tk)) (render_row d row) = true.
Proof.
  intros E. destruct row as [|x r]; [reflexivity|]. revert x. induction r as [|y r IH]; intros x; [reflexivity|].
  rewrite render_row_cons2. cbn [forallb cuts]. rewrite E. simpl negb. rewrite (IH y). reflexivity.
Qed.

Fixpoint count_num (l : line) : nat :=
  match l with [] => 0 | Num _ :: t => S (count_num t) | Sep _ :: t => count_num t end.

Lemma blank_count tk t : is_blank tk = true -> count_num (tk :: t) = count_num t.
Proof. destruct tk as [z|d]; [discriminate|]. reflexivity. Qed.

Lemma drop_front_count l : count_num (drop_front l) = count_num l.
Proof.
  induction l as [|tk l IH]; [reflexivity|]. cbn [drop_front].
  destruct (is_blank tk) eqn:E; [|reflexivity]. rewrite IH. symmetry. apply blank_count. exact E.
Qed.

Lemma drop_back_count l : count_num (drop_back l) = count_num l.
Proof.
  induction l as [|tk l IH]; [reflexivity|]. cbn [drop_back].
  destruct (drop_back l) as [|a b] eqn:E.
  - simpl in IH. destruct (is_blank tk) eqn:B.
    + rewrite blank_count by exact B. exact IH.
    + destruct tk; simpl; rewrite <- IH; reflexivity.
  - destruct tk; simpl; simpl in IH; rewrite IH; reflexivity.
Qed.

Lemma parse_field_count f z : parse_field f = Some z -> count_num f = 1%nat.
Proof.
  unfold parse_field. intros H. rewrite <- drop_back_count, <- drop_front_count.
  destruct (drop_front (drop_back f)) as [|[z'|d'] [|b c]]; try discriminate. reflexivity.
Qed.

Lemma render_row_count d x r : count_num (render_row d (x :: r)) = S (length r).
Proof.
  revert x; induction r as [|y r IH]; intros x; [reflexivity|].
  rewrite render_row_cons2. cbn [count_num]. rewrite IH. reflexivity.
Qed.

Lemma parse_line_other d d' x r row' :
  delim_eqb d' d = false -> parse_line d' (render_row d (x :: r)) = Some row' -> row' = x :: r.
Proof.
  intros E. unfold parse_line. rewrite split_nocut by (apply render_row_nocut; exact E).
  cbn [map all_some]. destruct (parse_field (render_row d (x :: r))) as [z|] eqn:P; [|discriminate].
  pose proof (parse_field_count _ _ P) as C. rewrite render_row_count in C. destruct r; [|discriminate].
  change (parse_field (render_row d [x])) with (Some x) in P. injection P as <-.
  intros [= <-]. reflexivity.
Qed.

(* ---- whole tables *)

Lemma keep_row d x r : negb (blank_line (render_row d (x :: r))) = true.
Proof. reflexivity. Qed.

Lemma rows_same d t : Forall (fun r => r <> []) t ->
  all_some (map (parse_line d) (filter (fun l => negb (blank_line l)) (render d t))) = Some t.
Proof.
  induction 1 as [|row t Hr Ht IH]; [reflexivity|]. destruct row as [|x r]; [congruence|].
  unfold render in *. cbn [map filter]. rewrite keep_row. cbn [map all_some].
  rewrite parse_line_same, IH. reflexivity.
Qed.

Lemma rows_other d d' t : delim_eqb d' d = false -> Forall (fun r => r <> []) t -> forall t',
  all_some (map (parse_line d') (filter (fun l => negb (blank_line l)) (render d t))) = Some t' -> t' = t.
Proof.
  intros E. induction 1 as [|row t Hr Ht IH]; intros t'.
  - intros [= <-]. reflexivity.
  - destruct row as [|x r]; [congruence|]. unfold render in *. cbn [map filter]. rewrite keep_row.
    cbn [map all_some]. destruct (parse_line d' (render_row d (x :: r))) as [row'|] eqn:P; [|discriminate].
    apply (parse_line_other d d' x r row' E) in P. subst row'.
    destruct (all_some (map (parse_line d') (filter (fun l => negb (blank_line l)) (map (render_row d) t))))
      as [t0|] eqn:Q; [|discriminate].
    intros [= <-]. f_equal. apply IH. reflexivity.
Qed.

Lemma rectangular_rows t : rectangular t = true -> Forall (fun r => r <> []) t /\ same_lengths t = true.
Proof.
  destruct t as [|r rest]; [discriminate|]. cbn [rectangular same_lengths]. intros H.
  apply andb_prop in H. destruct H as [H1 H2]. split; [|exact H2].
  assert (N : length r <> 0%nat) by (destruct (length r); [discriminate|lia]).
  constructor; [destruct r; [contradiction|discriminate]|].
  rewrite forallb_forall in H2. apply Forall_forall. intros r' Hin. specialize (H2 r' Hin).
  apply Nat.eqb_eq in H2. destruct r'; [simpl in H2; lia|discriminate].
Qed.

Theorem detect_render order d t :
  In d order -> rectangular t = true -> detect order (render d t) = Some t.
Proof.
  intros Hin R. destruct (rectangular_rows t R) as [NE SL].
  induction order as [|d0 rest IH]; [contradiction|]. cbn [detect].
  destruct (delim_eqb d0 d) eqn:E.
  - apply delim_eqb_eq in E. subst d0. unfold try_parse. rewrite rows_same by exact NE. rewrite SL. reflexivity.
  - unfold try_parse.
    destruct (all_some (map (parse_line d0) (filter (fun l => negb (blank_line l)) (render d t)))) as [t'|] eqn:Q.
    + apply (rows_other d d0 t E NE) in Q. subst t'. rewrite SL. reflexivity.
    + apply IH. destruct Hin as [->|H]; [|exact H]. rewrite delim_eqb_refl in E. discriminate.
Qed.
