(* Proofs about Model/Delim.v (C20): a rectangular numeric table written with any separator of the
   list is read back unchanged by the first-success detection, whatever the order in which the
   separators are tried (an earlier separator never "succeeds wrongly"). *)
From Coq Require Import ZArith List Bool Lia.
From PyxelV Require Import Model.Delim.
Import ListNotations.
Open Scope Z_scope.

Lemma delim_eqb_refl d : delim_eqb d d = true.
Proof. destruct d; reflexivity. Qed.

Lemma delim_eqb_eq a b : delim_eqb a b = true -> a = b.
Proof. destruct a, b; simpl; intros; try discriminate; reflexivity. Qed.

Lemma render_row_cons2 d x y r : render_row d (x :: y :: r) = Num x :: Sep d :: render_row d (y :: r).
Proof. reflexivity. Qed.

(* ---- reading with the separator it was written with *)

Lemma split_render_same d r : forall x,
  split d (render_row d (x :: r)) = map (fun z => [Num z]) (x :: r).
Proof.
  induction r as [|y r IH]; intros x; [reflexivity|].
  rewrite render_row_cons2.
  change (split d (Num x :: Sep d :: render_row d (y :: r)))
    with (match (if delim_eqb d d then [] :: split d (render_row d (y :: r))
                 else match split d (render_row d (y :: r)) with
                      | f :: r0 => (Sep d :: f) :: r0 | [] => [[Sep d]] end) with
          | f :: r0 => (Num x :: f) :: r0 | [] => [[Num x]] end).
  rewrite delim_eqb_refl, IH. reflexivity.
Qed.

Lemma all_some_fields l : all_some (map parse_field (map (fun z => [Num z]) l)) = Some l.
Proof. induction l as [|z l IH]; [reflexivity|]. simpl map. cbn [all_some]. 
  change (parse_field [Num z]) with (Some z). cbv iota beta. rewrite IH. reflexivity. Qed.

Lemma parse_line_same d x r : parse_line d (render_row d (x :: r)) = Some (x :: r).
Proof. unfold parse_line. rewrite split_render_same. apply all_some_fields. Qed.

(* ---- reading with another separator *)

Definition cuts (d : delim) (tk : tok) : bool :=
  match tk with Sep d' => delim_eqb d d' | Num _ => false end.

Lemma split_nocut d l : forallb (fun tk => negb (cuts d tk)) l = true -> split d l = [l].
Proof.
  induction l as [|tk l IH]; [reflexivity|]. cbn [forallb]. intros H. apply andb_prop in H.
  destruct H as [H1 H2]. cbn [split]. fold (cuts d tk). apply negb_true_iff in H1. rewrite H1.
  rewrite (IH H2). reflexivity.
Qed.

Lemma render_row_nocut d d' row : delim_eqb d' d = false ->
  forallb (fun tk => negb (cuts d' tk)) (render_row d row) = true.
Proof.
  intros E. destruct row as [|x r]; [reflexivity|]. revert x. induction r as [|y r IH]; intros x; [reflexivity|].
  rewrite render_row_cons2. cbn [forallb cuts]. rewrite E. simpl negb. rewrite (IH y). reflexivity.
Qed.

Fixpoint count_num (l : line) : nat :=
  match l with [] => 0 | Num _ :: t => S (count_num t) | Sep _ :: t => count_num t end.

Lemma blank_count tk t : is_blank tk = true -> count_num (tk :: t) = count_num t.
Proof. destruct tk as [z|d]; [discriminate|]. reflexivity. Qed.

Lemma drop_front_count l : count_num (drop_front l) = count_num l.
Proof.
  induction l as [|tk l IH]; [reflexivity|]. cbn [drop_front].
  destruct (is_blank tk) eqn:E; [|reflexivity]. rewrite IH. symmetry. apply blank_count. exact E.
Qed.

Lemma drop_back_count l : count_num (drop_back l) = count_num l.
Proof.
  induction l as [|tk l IH]; [reflexivity|]. cbn [drop_back].
  destruct (drop_back l) as [|a b] eqn:E.
  - simpl in IH. destruct (is_blank tk) eqn:B.
    + rewrite blank_count by exact B. exact IH.
    + destruct tk; simpl; rewrite <- IH; reflexivity.
  - destruct tk; simpl; simpl in IH; rewrite IH; reflexivity.
Qed.

Lemma parse_field_count f z : parse_field f = Some z -> count_num f = 1%nat.
Proof.
  unfold parse_field. intros H. rewrite <- drop_back_count, <- drop_front_count.
  destruct (drop_front (drop_back f)) as [|[z'|d'] [|b c]]; try discriminate. reflexivity.
Qed.

Lemma render_row_count d x r : count_num (render_row d (x :: r)) = S (length r).
Proof.
  revert x; induction r as [|y r IH]; intros x; [reflexivity|].
  rewrite render_row_cons2. cbn [count_num]. rewrite IH. reflexivity.
Qed.

Lemma parse_line_other d d' x r row' :
  delim_eqb d' d = false -> parse_line d' (render_row d (x :: r)) = Some row' -> row' = x :: r.
Proof.
  intros E. unfold parse_line. rewrite split_nocut by (apply render_row_nocut; exact E).
  cbn [map all_some]. destruct (parse_field (render_row d (x :: r))) as [z|] eqn:P; [|discriminate].
  pose proof (parse_field_count _ _ P) as C. rewrite render_row_count in C. destruct r; [|discriminate].
  change (parse_field (render_row d [x])) with (Some x) in P. injection P as <-.
  intros [= <-]. reflexivity.
Qed.

(* ---- whole tables *)

Lemma keep_row d x r : negb (blank_line (render_row d (x :: r))) = true.
Proof. reflexivity. Qed.

Lemma rows_same d t : Forall (fun r => r <> []) t ->
  all_some (map (parse_line d) (filter (fun l => negb (blank_line l)) (render d t))) = Some t.
Proof.
  induction 1 as [|row t Hr Ht IH]; [reflexivity|]. destruct row as [|x r]; [congruence|].
  unfold render in *. cbn [map filter]. rewrite keep_row. cbn [map all_some].
  rewrite parse_line_same, IH. reflexivity.
Qed.

Lemma rows_other d d' t : delim_eqb d' d = false -> Forall (fun r => r <> []) t -> forall t',
  all_some (map (parse_line d') (filter (fun l => negb (blank_line l)) (render d t))) = Some t' -> t' = t.
Proof.
  intros E. induction 1 as [|row t Hr Ht IH]; intros t'.
  - intros [= <-]. reflexivity.
  - destruct row as [|x r]; [congruence|]. unfold render in *. cbn [map filter]. rewrite keep_row.
    cbn [map all_some]. destruct (parse_line d' (render_row d (x :: r))) as [row'|] eqn:P; [|discriminate].
    apply (parse_line_other d d' x r row' E) in P. subst row'.
    destruct (all_some (map (parse_line d') (filter (fun l => negb (blank_line l)) (map (render_row d) t))))
      as [t0|] eqn:Q; [|discriminate].
    intros [= <-]. f_equal. apply IH. reflexivity.
Qed.

Lemma rectangular_rows t : rectangular t = true -> Forall (fun r => r <> []) t /\ same_lengths t = true.
Proof.
  destruct t as [|r rest]; [discriminate|]. cbn [rectangular same_lengths]. intros H.
  apply andb_prop in H. destruct H as [H1 H2]. split; [|exact H2].
  assert (N : length r <> 0%nat) by (destruct (length r); [discriminate|lia]).
  constructor; [destruct r; [contradiction|discriminate]|].
  rewrite forallb_forall in H2. apply Forall_forall. intros r' Hin. specialize (H2 r' Hin).
  apply Nat.eqb_eq in H2. destruct r'; [simpl in H2; lia|discriminate].
Qed.

Theorem detect_render order d t :
  In d order -> rectangular t = true -> detect order (render d t) = Some t.
Proof.
  intros Hin R. destruct (rectangular_rows t R) as [NE SL].
  induction order as [|d0 rest IH]; [contradiction|]. cbn [detect].
  destruct (delim_eqb d0 d) eqn:E.
  - apply delim_eqb_eq in E. subst d0. unfold try_parse. rewrite rows_same by exact NE. rewrite SL. reflexivity.
  - unfold try_parse.
    destruct (all_some (map (parse_line d0) (filter (fun l => negb (blank_line l)) (render d t)))) as [t'|] eqn:Q.
    + apply (rows_other d d0 t E NE) in Q. subst t'. rewrite SL. reflexivity.
    + apply IH. destruct Hin as [->|H]; [|exact H]. rewrite delim_eqb_refl in E. discriminate.
Qed.

(* ================================================================== the decision never changes WHAT is read *)

Lemma blank_is_sep tk t : is_blank tk = true -> nums_of (tk :: t) = nums_of t.
Proof. destruct tk as [z|d]; [discriminate|]. reflexivity. Qed.

Lemma drop_front_nums l : nums_of (drop_front l) = nums_of l.
Proof.
  induction l as [|tk l IH]; [reflexivity|]. cbn [drop_front].
  destruct (is_blank tk) eqn:E; [|reflexivity]. rewrite IH. symmetry. apply blank_is_sep. exact E.
Qed.

Lemma drop_back_nums l : nums_of (drop_back l) = nums_of l.
Proof.
  induction l as [|tk l IH]; [reflexivity|]. cbn [drop_back].
  destruct (drop_back l) as [|a b] eqn:E.
  - simpl in IH. destruct (is_blank tk) eqn:B.
    + rewrite blank_is_sep by exact B. exact IH.
    + destruct tk; simpl; rewrite <- IH; reflexivity.
  - destruct tk; simpl; simpl in IH; rewrite IH; reflexivity.
Qed.

Lemma parse_field_nums f z : parse_field f = Some z -> nums_of f = [z].
Proof.
  unfold parse_field. intros H. rewrite <- drop_back_nums, <- drop_front_nums.
  destruct (drop_front (drop_back f)) as [|[z'|d'] [|b c]]; try discriminate.
  injection H as <-. reflexivity.
Qed.

Lemma split_nonempty d l : split d l <> [].
Proof.
  induction l as [|tk l IH]; [discriminate|]. cbn [split].
  destruct (match tk with Sep d' => delim_eqb d d' | Num _ => false end); [discriminate|].
  destruct (split d l); [contradiction|discriminate].
Qed.

Lemma split_nums d l : concat (map nums_of (split d l)) = nums_of l.
Proof.
  induction l as [|tk l IH]; [reflexivity|]. cbn [split].
  destruct tk as [z|d'].
  - destruct (split d l) as [|f r] eqn:E; [exfalso; eapply split_nonempty; exact E|].
    cbn [map concat nums_of] in *. rewrite <- IH. reflexivity.
  - destruct (delim_eqb d d').
    + cbn [map concat nums_of app]. exact IH.
    + destruct (split d l) as [|f r] eqn:E; [exfalso; eapply split_nonempty; exact E|].
      cbn [map concat nums_of] in *. exact IH.
Qed.

Lemma all_some_fields_nums fs : forall row,
  all_some (map parse_field fs) = Some row -> row = concat (map nums_of fs).
Proof.
  induction fs as [|f fs IH]; intros row; cbn [map all_some concat].
  - intros [= <-]. reflexivity.
  - destruct (parse_field f) as [z|] eqn:P; [|discriminate].
    destruct (all_some (map parse_field fs)) as [r|] eqn:A; [|discriminate].
    intros [= <-]. rewrite (parse_field_nums _ _ P), (IH r eq_refl). reflexivity.
Qed.

(* a line that parses under ANY separator parses to its numbers *)
Theorem parse_line_nums d l row : parse_line d l = Some row -> row = nums_of l.
Proof. unfold parse_line. intros H. rewrite (all_some_fields_nums _ _ H). apply split_nums. Qed.

Lemma all_some_lines_nums d ls : forall t,
  all_some (map (parse_line d) ls) = Some t -> t = map nums_of ls.
Proof.
  induction ls as [|l ls IH]; intros t; cbn [map all_some].
  - intros [= <-]. reflexivity.
  - destruct (parse_line d l) as [row|] eqn:P; [|discriminate].
    destruct (all_some (map (parse_line d) ls)) as [r|] eqn:A; [|discriminate].
    intros [= <-]. rewrite (parse_line_nums _ _ _ P), (IH r eq_refl). reflexivity.
Qed.

Theorem try_parse_numbers d ls t : try_parse d ls = Some t -> t = numbers_of ls.
Proof.
  unfold try_parse, numbers_of.
  destruct (all_some (map (parse_line d) (filter (fun l => negb (blank_line l)) ls))) as [t'|] eqn:A; [|discriminate].
  destruct (same_lengths t'); [|discriminate]. intros [= <-]. eapply all_some_lines_nums. exact A.
Qed.

Theorem detect_numbers order ls t : detect order ls = Some t -> t = numbers_of ls.
Proof.
  induction order as [|d rest IH]; cbn [detect]; [discriminate|].
  destruct (try_parse d ls) as [t'|] eqn:T.
  - intros [= <-]. eapply try_parse_numbers. exact T.
  - exact IH.
Qed.

(* priority: the first separator of the list under which the text parses decides *)
Theorem detect_winner order ls :
  detect order ls = match winner order ls with Some d => try_parse d ls | None => None end.
Proof.
  unfold winner. induction order as [|d rest IH]; cbn [detect find]; [reflexivity|].
  unfold accepted at 1. destruct (try_parse d ls) as [t|] eqn:T; [rewrite T; reflexivity|]. exact IH.
Qed.

Lemma detect_none_iff order ls : detect order ls = None <-> forall d, In d order -> try_parse d ls = None.
Proof.
  induction order as [|d rest IH]; cbn [detect].
  - split; [intros _ d []|reflexivity].
  - destruct (try_parse d ls) as [t|] eqn:T.
    + split; [discriminate|]. intros H. specialize (H d (or_introl eq_refl)). congruence.
    + rewrite IH. split.
      * intros H d' [<-|Hin]; [exact T|apply H; exact Hin].
      * intros H d' Hin. apply H. right. exact Hin.
Qed.

(* the result depends on the SET of separators tried only: the order in which they are tried is irrelevant *)
Theorem detect_order_irrelevant o1 o2 ls :
  (forall d, In d o1 <-> In d o2) -> detect o1 ls = detect o2 ls.
Proof.
  intros S. destruct (detect o1 ls) as [t1|] eqn:D1; destruct (detect o2 ls) as [t2|] eqn:D2.
  - rewrite (detect_numbers _ _ _ D1), (detect_numbers _ _ _ D2). reflexivity.
  - exfalso. rewrite detect_none_iff in D2.
    assert (N1 : detect o1 ls = None) by (apply detect_none_iff; intros d H; apply D2, S, H). congruence.
  - exfalso. rewrite detect_none_iff in D1.
    assert (N2 : detect o2 ls = None) by (apply detect_none_iff; intros d H; apply D1, S, H). congruence.
  - reflexivity.
Qed.

(* ================================================================== which lines a separator accepts *)

Definition tok_ok (tk : tok) : bool := match tk with Num _ => true | Sep _ => is_blank tk end.

Lemma drop_front_ok l : forallb tok_ok (drop_front l) = true -> forallb tok_ok l = true.
Proof.
  induction l as [|tk l IH]; [reflexivity|]. cbn [drop_front].
  destruct (is_blank tk) eqn:B; [|tauto]. intros H. cbn [forallb]. rewrite (IH H).
  destruct tk; [reflexivity|]. simpl. simpl in B. rewrite B. reflexivity.
Qed.

Lemma drop_back_ok l : forallb tok_ok (drop_back l) = true -> forallb tok_ok l = true.
Proof.
  induction l as [|tk l IH]; [reflexivity|]. cbn [drop_back].
  destruct (drop_back l) as [|a b] eqn:E.
  - intros H. cbn [forallb]. rewrite (IH eq_refl). destruct (is_blank tk) eqn:B.
    + destruct tk; [reflexivity|]. simpl. simpl in B. rewrite B. reflexivity.
    + cbn [forallb] in H. exact H.
  - cbn [forallb]. intros H. apply andb_prop in H. destruct H as [H1 H2]. rewrite H1. apply IH. exact H2.
Qed.

Lemma parse_field_ok f z : parse_field f = Some z -> forallb tok_ok f = true.
Proof.
  unfold parse_field. intros H. apply drop_back_ok, drop_front_ok.
  destruct (drop_front (drop_back f)) as [|[z'|d'] [|b c]]; try discriminate. reflexivity.
Qed.

Lemma split_length d l : length (split d l) = S (count_sep d l).
Proof.
  induction l as [|tk l IH]; [reflexivity|]. cbn [split count_sep]. destruct tk as [z|d'].
  - destruct (split d l) as [|f r] eqn:E; [exfalso; eapply split_nonempty; exact E|]. exact IH.
  - destruct (delim_eqb d d').
    + cbn [length]. rewrite IH. reflexivity.
    + destruct (split d l) as [|f r] eqn:E; [exfalso; eapply split_nonempty; exact E|]. exact IH.
Qed.

Lemma all_some_length {A} (l : list (option A)) r : all_some l = Some r -> length r = length l.
Proof.
  revert r. induction l as [|[x|] l IH]; intros r; cbn [all_some]; try discriminate.
  - intros [= <-]. reflexivity.
  - destruct (all_some l) as [r'|]; [|discriminate]. intros [= <-]. cbn [length]. rewrite (IH r' eq_refl). reflexivity.
Qed.

Lemma all_some_fields_ok fs row :
  all_some (map parse_field fs) = Some row -> forallb (forallb tok_ok) fs = true.
Proof.
  revert row. induction fs as [|f fs IH]; intros row; cbn [map all_some forallb]; [reflexivity|].
  destruct (parse_field f) as [z|] eqn:P; [|discriminate].
  destruct (all_some (map parse_field fs)) as [r|] eqn:A; [|discriminate]. intros _.
  rewrite (parse_field_ok _ _ P), (IH r eq_refl). reflexivity.
Qed.

Lemma split_fields_ok d l : forallb (forallb tok_ok) (split d l) = true -> others_blank d l = true.
Proof.
  unfold others_blank. induction l as [|tk l IH]; [reflexivity|]. cbn [split]. destruct tk as [z|d'].
  - destruct (split d l) as [|f r] eqn:E; [exfalso; eapply split_nonempty; exact E|].
    intros H. cbn [forallb] in H. apply andb_prop in H. destruct H as [H1 H2].
    cbn [tok_ok andb] in H1. cbn [forallb andb]. apply IH. cbn [forallb]. rewrite H1, H2. reflexivity.
  - destruct (delim_eqb d d') eqn:C.
    + intros H. cbn [forallb] in H. cbn [forallb]. rewrite C. cbn [orb andb]. apply IH. exact H.
    + destruct (split d l) as [|f r] eqn:E; [exfalso; eapply split_nonempty; exact E|].
      intros H. cbn [forallb] in H. apply andb_prop in H. destruct H as [H1 H2].
      apply andb_prop in H1. destruct H1 as [H0 H1]. cbn [tok_ok] in H0.
      cbn [forallb]. rewrite C, H0. cbn [orb andb]. apply IH. cbn [forallb]. rewrite H1, H2. reflexivity.
Qed.

(* NECESSARY for a separator d to accept a line: d occurs exactly (columns - 1) times and every other separator
   character of the line is a blank *)
Theorem parse_line_needs d l row :
  parse_line d l = Some row -> S (count_sep d l) = length row /\ others_blank d l = true.
Proof.
  unfold parse_line. intros H. split.
  - rewrite (all_some_length _ _ H), map_length, split_length. reflexivity.
  - apply split_fields_ok. eapply all_some_fields_ok. exact H.
Qed.

(* ---- SUFFICIENT for regular lines: the same gap between every two neighbours *)

Lemma split_app_nocut d p l :
  forallb (fun tk => negb (cuts d tk)) p = true ->
  split d (p ++ l) = match split d l with f :: r => (p ++ f) :: r | [] => [p] end.
Proof.
  induction p as [|tk p IH]; intros H.
  - simpl. destruct (split d l) eqn:E; [exfalso; eapply split_nonempty; exact E|reflexivity].
  - cbn [forallb] in H. apply andb_prop in H. destruct H as [H1 H2]. apply negb_true_iff in H1.
    cbn [app split]. fold (cuts d tk). rewrite H1, (IH H2).
    destruct (split d l) eqn:E; [exfalso; eapply split_nonempty; exact E|reflexivity].
Qed.

Lemma split_cut d l : split d (Sep d :: l) = [] :: split d l.
Proof. cbn [split]. rewrite delim_eqb_refl. reflexivity. Qed.

Lemma drop_back_app_num p z q : forallb is_blank q = true -> drop_back (p ++ Num z :: q) = p ++ [Num z].
Proof.
  intros Q. assert (B : drop_back q = []).
  { induction q as [|tk q IH]; [reflexivity|]. cbn [forallb] in Q. apply andb_prop in Q. destruct Q as [Q1 Q2].
    cbn [drop_back]. rewrite (IH Q2), Q1. reflexivity. }
  induction p as [|tk p IH].
  - cbn [app drop_back]. rewrite B. reflexivity.
  - cbn [app drop_back]. rewrite IH. destruct (p ++ [Num z]) eqn:E; [destruct p; discriminate|reflexivity].
Qed.

Lemma drop_front_app_num p z : forallb is_blank p = true -> drop_front (p ++ [Num z]) = [Num z].
Proof.
  induction p as [|tk p IH]; intros P; [reflexivity|]. cbn [forallb] in P. apply andb_prop in P.
  destruct P as [P1 P2]. cbn [app drop_front]. rewrite P1. apply IH. exact P2.
Qed.

Lemma parse_field_padded p z q :
  forallb is_blank p = true -> forallb is_blank q = true -> parse_field (p ++ Num z :: q) = Some z.
Proof. intros P Q. unfold parse_field. rewrite (drop_back_app_num p z q Q), (drop_front_app_num p z P). reflexivity. Qed.

(* a gap that d reads: blanks, d once, blanks (none of the blanks being d itself) *)
Definition gap_split (d : delim) (g b1 b2 : list tok) : Prop :=
  g = b1 ++ Sep d :: b2 /\ forallb is_blank b1 = true /\ forallb is_blank b2 = true /\
  forallb (fun tk => negb (cuts d tk)) b1 = true /\ forallb (fun tk => negb (cuts d tk)) b2 = true.

Lemma count0_blank d g :
  count_sep d (map Sep g) = 0%nat -> others_blank d (map Sep g) = true -> forallb is_blank (map Sep g) = true.
Proof.
  unfold others_blank. induction g as [|a g IH]; [reflexivity|]. cbn [map count_sep forallb].
  destruct (delim_eqb d a) eqn:E; [discriminate|]. cbn [orb plus]. intros Z0 O.
  apply andb_prop in O. destruct O as [A B]. rewrite A. apply IH; assumption.
Qed.

Lemma count0_nocut d g :
  count_sep d (map Sep g) = 0%nat -> forallb (fun tk => negb (cuts d tk)) (map Sep g) = true.
Proof.
  induction g as [|a g IH]; [reflexivity|]. cbn [map count_sep forallb cuts].
  destruct (delim_eqb d a) eqn:E; [discriminate|]. cbn [negb andb plus]. exact IH.
Qed.

Lemma gap_ok_split d g : gap_ok d g = true -> exists b1 b2, gap_split d (map Sep g) b1 b2.
Proof.
  unfold gap_ok, gap_split. intros H. apply andb_prop in H. destruct H as [C O]. apply Nat.eqb_eq in C.
  induction g as [|d' g IH]; [discriminate|].
  unfold others_blank in O. cbn [map count_sep forallb] in C, O.
  apply andb_prop in O. destruct O as [O1 O2]. destruct (delim_eqb d d') eqn:E.
  - apply delim_eqb_eq in E. subst d'. exists [], (map Sep g).
    assert (Z0 : count_sep d (map Sep g) = 0%nat) by lia.
    repeat split; try reflexivity.
    + apply (count0_blank d g Z0 O2).
    + apply (count0_nocut d g Z0).
  - cbn [orb] in O1. cbn [plus] in C. destruct (IH C O2) as [b1 [b2 [G [B1 [B2 [N1 N2]]]]]].
    exists (Sep d' :: b1), b2. repeat split.
    + cbn [map]. rewrite G. reflexivity.
    + cbn [forallb]. rewrite O1. exact B1.
    + exact B2.
    + cbn [forallb cuts]. rewrite E. exact N1.
    + exact N2.
Qed.

Lemma parse_gap_row d g b1 b2 : gap_split d g b1 b2 -> forall r y p,
  forallb is_blank p = true -> forallb (fun tk => negb (cuts d tk)) p = true ->
  all_some (map parse_field (split d (p ++ Num y :: flat_map (fun z => g ++ [Num z]) r))) = Some (y :: r).
Proof.
  intros [G [B1 [B2 [N1 N2]]]]. induction r as [|z r IH]; intros y p P NP.
  - cbn [flat_map]. rewrite split_nocut.
    + cbn [map all_some]. rewrite (parse_field_padded p y [] P eq_refl). reflexivity.
    + rewrite forallb_app. rewrite NP. reflexivity.
  - cbn [flat_map]. rewrite G.
    replace (p ++ Num y :: ((b1 ++ Sep d :: b2) ++ [Num z]) ++ flat_map (fun z0 => (b1 ++ Sep d :: b2) ++ [Num z0]) r)
      with ((p ++ Num y :: b1) ++ Sep d :: (b2 ++ Num z :: flat_map (fun z0 => (b1 ++ Sep d :: b2) ++ [Num z0]) r)).
    2:{ rewrite <- ?app_assoc. cbn [app]. rewrite <- ?app_assoc. reflexivity. }
    rewrite split_app_nocut.
    2:{ rewrite forallb_app. rewrite NP. cbn [forallb cuts negb andb]. exact N1. }
    rewrite split_cut. cbn [app map all_some].
    rewrite app_nil_r, (parse_field_padded p y b1 P B1).
    rewrite <- G. rewrite (IH z b2 B2 N2). reflexivity.
Qed.

Lemma nums_gap_row g row : nums_of (render_gap_row g row) = row.
Proof.
  destruct row as [|x r]; [reflexivity|]. cbn [render_gap_row nums_of]. f_equal.
  induction r as [|y r IH]; [reflexivity|]. cbn [flat_map].
  assert (S0 : forall l t, nums_of (map Sep l ++ t) = nums_of t) by (induction l; intros; simpl; auto).
  rewrite <- app_assoc, S0. cbn [app nums_of]. rewrite IH. reflexivity.
Qed.

Theorem parse_gap_line d g x r :
  gap_ok d g = true -> parse_line d (render_gap_row g (x :: r)) = Some (x :: r).
Proof.
  intros H. destruct (gap_ok_split d g H) as [b1 [b2 GS]]. unfold parse_line. cbn [render_gap_row].
  exact (parse_gap_row d (map Sep g) b1 b2 GS r x [] eq_refl eq_refl).
Qed.

Lemma others_blank_gap d g x y r :
  others_blank d (render_gap_row g (x :: y :: r)) = true -> others_blank d (map Sep g) = true.
Proof.
  unfold others_blank. cbn [render_gap_row forallb flat_map]. cbn [andb].
  rewrite !forallb_app. intros O. apply andb_prop in O. destruct O as [O _].
  apply andb_prop in O. destruct O as [O _]. exact O.
Qed.

Lemma count_sep_app d l1 l2 : count_sep d (l1 ++ l2) = (count_sep d l1 + count_sep d l2)%nat.
Proof. induction l1 as [|[?|?] l1 IHl]; cbn [app count_sep]; rewrite ?IHl; lia. Qed.

Lemma count_sep_gap_row d g x t :
  count_sep d (render_gap_row g (x :: t)) = (length t * count_sep d (map Sep g))%nat.
Proof.
  cbn [render_gap_row count_sep]. induction t as [|z t IH]; [reflexivity|]. cbn [flat_map length].
  rewrite !count_sep_app, IH. cbn [count_sep]. lia.
Qed.

(* with two or more columns, ONLY a separator that reads the gap accepts the line *)
Theorem parse_gap_line_only d g x y r row :
  parse_line d (render_gap_row g (x :: y :: r)) = Some row -> gap_ok d g = true.
Proof.
  intros H. destruct (parse_line_needs _ _ _ H) as [C O]. pose proof (parse_line_nums _ _ _ H) as N.
  rewrite nums_gap_row in N. subst row. unfold gap_ok.
  rewrite count_sep_gap_row in C. cbn [length] in C.
  assert (C1 : count_sep d (map Sep g) = 1%nat) by nia.
  rewrite C1. cbn [Nat.eqb andb]. eapply others_blank_gap. exact O.
Qed.

Lemma rows_gap d g t : gap_ok d g = true -> Forall (fun r => r <> []) t ->
  all_some (map (parse_line d) (filter (fun l => negb (blank_line l)) (render_gap g t))) = Some t.
Proof.
  intros G. induction 1 as [|row t Hr Ht IH]; [reflexivity|]. destruct row as [|x r]; [congruence|].
  unfold render_gap in *. cbn [map filter].
  assert (K : negb (blank_line (render_gap_row g (x :: r))) = true) by reflexivity.
  rewrite K. cbn [map all_some]. rewrite (parse_gap_line d g x r G), IH. reflexivity.
Qed.

(* the decision for regular texts: a rectangular table written with a gap is read back unchanged as soon as some
   separator of the list reads the gap — whatever the order, whatever else is tried before *)
Theorem detect_gap order g t d :
  In d order -> gap_ok d g = true -> rectangular t = true -> detect order (render_gap g t) = Some t.
Proof.
  intros Hin G R. destruct (rectangular_rows t R) as [NE SL].
  assert (T : try_parse d (render_gap g t) = Some t).
  { unfold try_parse. rewrite (rows_gap d g t G NE), SL. reflexivity. }
  destruct (detect order (render_gap g t)) as [t'|] eqn:D.
  - rewrite (detect_numbers _ _ _ D). symmetry. f_equal. eapply try_parse_numbers. exact T.
  - rewrite detect_none_iff in D. rewrite (D d Hin) in T. discriminate.
Qed.

(* ... and with two or more columns it is refused when no separator of the list reads the gap *)
Theorem detect_gap_refused order g x y r t :
  (forall d, In d order -> gap_ok d g = false) -> detect order (render_gap g ((x :: y :: r) :: t)) = None.
Proof.
  intros H. apply detect_none_iff. intros d Hin. unfold try_parse, render_gap. cbn [map filter].
  assert (K : negb (blank_line (render_gap_row g (x :: y :: r))) = true) by reflexivity.
  rewrite K. cbn [map all_some].
  destruct (parse_line d (render_gap_row g (x :: y :: r))) as [row|] eqn:P; [|reflexivity].
  apply parse_gap_line_only in P. rewrite (H d Hin) in P. discriminate.
Qed.
